(* The judge's read-mask whole-collection cases (KCollM): Collection.Pull WithReadPaths(top-level fields),
   optional WithInclude / WithUpdatesOnly, under an equivalence.  Inclusion is decided on the STORED value,
   the equivalence sees and the subscriber holds FILTERED values.  When the filtered values are guarded and
   in scope, the delivered (id, new value) stream is C16Judge.ideal_coll_m computed straight from the
   operations.  Same structure as CollJudgeProofs.v (whose association-list lemmas are used), with the
   filter carried through include / cc_filter / seeds / the held map. *)
From Coq Require Import QArith.
From SC Require Import Base.Prelude Cmp.Cmp Cmp.Logic Cmp.Tolerance Cmp.FloatB64 Cmp.GoTime Cmp.Spec Cmp.CmpProofs
  Cmp.CollEquiv Cmp.CollEquivProofs Cmp.C16Judge Cmp.TreeProofs Cmp.JudgeProofs Cmp.CollJudgeProofs Cmp.MaskJudgeProofs Resource.Impl Resource.Pull.
Open Scope Z_scope.

Definition mask_ro (paths : list string) (uo : bool) (thr : option Q) : ropts cval (list string) :=
  mkR (Some paths) uo (option_map include_of thr).

Lemma is_some_map {A B} (g : A -> B) (o : option A) : is_some (option_map g o) = is_some o.
Proof. destruct o; reflexivity. Qed.

Lemma alookup_map_snd (g : cval -> cval) (l : list (string * cval)) id :
  alookup id (map (fun p : string * cval => (fst p, g (snd p))) l) = option_map g (alookup id l).
Proof.
  induction l as [|[k v] r IH]; [reflexivity|]. cbn [map fst snd alookup].
  destruct (String.eqb k id); [reflexivity|exact IH].
Qed.

Lemma offered_cons_m (ro : ropts cval (list string)) x l :
  offered path_filter ro (x :: l) = offered path_filter ro [x] ++ offered path_filter ro l.
Proof. unfold offered. cbn [flat_map]. rewrite app_nil_r. reflexivity. Qed.

Section MaskOffer.
  Variable paths : list string.
  Variable uo : bool.
  Variable thr : option Q.
  Notation ro := (mask_ro paths uo thr).
  Notation f := (path_filter paths).

  Lemma seen_is_seen_val_m cur id :
    seen path_filter ro (curv cur) id = option_map f (seen_val thr id (alookup id cur)).
  Proof.
    unfold seen, seen_val, curv, mask_ro, filt. cbn [ro_include ro_mask].
    destruct (alookup id cur) as [m|]; [|reflexivity].
    destruct thr as [t|]; cbn [option_map]; [destruct (include_of t id (Some m))|]; reflexivity.
  Qed.

  Lemma offered_one_m (e : cevent cval) :
    offered path_filter ro [e] =
    match seen_val thr (ce_id e) (ce_old e), seen_val thr (ce_id e) (ce_new e) with
    | None, None => match thr with
                    | Some _ => []
                    | None => [mkCC (ce_id e) (ce_time e) (ce_kind e) None None false false]
                    end
    | so, sn =>
        [mkCC (ce_id e) (ce_time e)
              (match thr, so, sn with
               | Some _, None, Some _ => KAdd
               | Some _, Some _, None => KRemove
               | _, _, _ => ce_kind e
               end) (option_map f so) (option_map f sn) false false]
    end.
  Proof.
    unfold offered. cbn [flat_map]. rewrite app_nil_r.
    unfold include_gen, of_event, mask_ro, seen_val, cc_filter, filt.
    cbn [ro_include ro_mask option_map cc_id cc_old cc_new cc_time cc_kind cc_seed cc_last_seed orb].
    destruct thr as [t|]; cbn [option_map].
    - destruct (ce_old e) as [vo|], (ce_new e) as [vn|]; cbn [andb];
        try destruct (include_of t (ce_id e) (Some vo)); try destruct (include_of t (ce_id e) (Some vn));
        cbn [Bool.eqb option_map cc_id cc_old cc_new cc_time cc_kind cc_seed cc_last_seed]; reflexivity.
    - destruct (ce_old e) as [vo|], (ce_new e) as [vn|]; reflexivity.
  Qed.
End MaskOffer.

Section MaskMain.
  Variable e : ecfg.
  Variable paths : list string.
  Variable uo : bool.
  Variable thr : option Q.
  Hypothesis Ge : ecfg_guard e = true.
  Hypothesis Nd : has_durp e = false.
  Notation ro := (mask_ro paths uo thr).
  Notation f := (path_filter paths).

  Lemma seen_val_ok_m id nv : tree_ok e (option_map f nv) = true -> tree_ok e (option_map f (seen_val thr id nv)) = true.
  Proof.
    intros T. unfold seen_val. destruct nv as [m|]; [|apply tree_ok_none].
    destruct (match thr with Some t => include_of t id (Some m) | None => true end); [exact T|apply tree_ok_none].
  Qed.

  Lemma ops_against_ideal_m : forall ops cur (w : view cval) view,
    (forall id, w id = alookup id view) ->
    (forall id, is_some (alookup id view) = is_some (seen_val thr id (alookup id cur))) ->
    all_ok e view -> forallb (fun o : collop => tree_ok e (option_map f (snd o))) ops = true ->
    map proj (ideal_filter (model_e e) w (offered path_filter ro (events_of cur ops))) = ideal_coll_m f e thr view ops.
  Proof.
    induction ops as [|[id nv] r IH]; intros cur w view Hw Hp Av To; [reflexivity|].
    cbn [forallb snd] in To. apply andb_true_iff in To. destruct To as [Tn Tr].
    assert (Ev : events_of cur (@cons collop (id, nv) r) =
                 mkCE id 0 (match nv with Some _ => match alookup id cur with Some _ => KUpdate | None => KAdd end | None => KRemove end)
                      (alookup id cur) nv :: events_of (upd_list id nv cur) r)
      by (destruct nv; reflexivity).
    rewrite Ev. clear Ev.
    rewrite offered_cons_m.
    rewrite offered_one_m. cbn [ce_id ce_old ce_new ce_time ce_kind]. cbn [ideal_coll_m].
    set (so := seen_val thr id (alookup id cur)). set (sv := seen_val thr id nv).
    assert (Tsn : tree_ok e (option_map f sv) = true) by (apply seen_val_ok_m; exact Tn).
    assert (Tv : tree_ok e (alookup id view) = true).
    { destruct (alookup id view) as [v|] eqn:L; [apply (Av id v L)|apply tree_ok_none]. }
    assert (MI : model_e e (w id) (option_map f sv) = ideal_e e (alookup id view) (option_map f sv)).
    { rewrite Hw. apply model_is_ideal; assumption. }
    assert (Keep : forall view', (forall k, String.eqb k id = false -> alookup k view' = alookup k view) ->
                   is_some (alookup id view') = is_some sv ->
                   forall k, is_some (alookup k view') = is_some (seen_val thr k (alookup k (upd_list id nv cur)))).
    { intros view' Ho Hi k. destruct (String.eqb k id) eqn:E.
      - apply String.eqb_eq in E. subst k. rewrite Hi. unfold sv.
        pose proof (curv_upd id nv cur id) as X. unfold curv, vupd in X. rewrite String.eqb_refl in X. rewrite X. reflexivity.
      - rewrite (Ho k E), Hp.
        pose proof (curv_upd id nv cur k) as X. unfold curv, vupd in X. rewrite E in X. rewrite X. reflexivity. }
    assert (Skip : ideal_e e (alookup id view) (option_map f sv) = true ->
                   map proj (ideal_filter (model_e e) w (offered path_filter ro (events_of (upd_list id nv cur) r)))
                   = ideal_coll_m f e thr view r).
    { intros Eq. apply IH; try assumption. apply (Keep view); [reflexivity|].
      rewrite <- (is_some_map f sv). apply ideal_presence with (e := e). exact Eq. }
    assert (Deliver : ideal_e e (alookup id view) (option_map f sv) = false ->
                      map proj (ideal_filter (model_e e) (vupd id (option_map f sv) w)
                                             (offered path_filter ro (events_of (upd_list id nv cur) r)))
                      = ideal_coll_m f e thr (upd_list id (option_map f sv) view) r).
    { intros Eq. apply IH; try assumption.
      - intros k. pose proof (curv_upd id (option_map f sv) view k) as X. unfold curv in X. rewrite X. unfold vupd.
        destruct (String.eqb k id); [reflexivity|apply Hw].
      - apply Keep.
        + intros k E. pose proof (curv_upd id (option_map f sv) view k) as X. unfold curv, vupd in X. rewrite E in X. exact X.
        + pose proof (curv_upd id (option_map f sv) view id) as X. unfold curv, vupd in X. rewrite String.eqb_refl in X.
          rewrite X. apply is_some_map.
      - apply all_ok_upd; assumption. }
    assert (Pso : is_some (alookup id view) = is_some so) by apply Hp.
    change (match option_map f sv with Some v => aset id v view | None => adel id view end)
      with (upd_list id (option_map f sv) view).
    destruct so as [vo|] eqn:Eso, sv as [vn|] eqn:Esn; cbn [option_map app ideal_filter cc_id cc_new map proj] in *.
    - rewrite MI. destruct (ideal_e e (alookup id view) (Some (f vn))) eqn:Eq; [apply Skip; reflexivity|].
      cbn [map proj cc_id cc_new]. f_equal. apply Deliver. reflexivity.
    - rewrite MI. destruct (ideal_e e (alookup id view) None) eqn:Eq; [apply Skip; reflexivity|].
      cbn [map proj cc_id cc_new]. f_equal. apply Deliver. reflexivity.
    - rewrite MI. destruct (ideal_e e (alookup id view) (Some (f vn))) eqn:Eq; [apply Skip; reflexivity|].
      cbn [map proj cc_id cc_new]. f_equal. apply Deliver. reflexivity.
    - assert (Vn : alookup id view = None) by (destruct (alookup id view); [discriminate Pso|reflexivity]).
      assert (Eq : ideal_e e (alookup id view) None = true) by (rewrite Vn; apply ideal_none_none).
      destruct thr as [t|]; cbn [app ideal_filter cc_id cc_new map proj].
      + rewrite Eq. apply Skip. exact Eq.
      + rewrite MI, Eq. apply Skip. exact Eq.
  Qed.
End MaskMain.

Section MaskSeeds.
  Variable paths : list string.
  Variable uo : bool.
  Variable thr : option Q.
  Notation ro := (mask_ro paths uo thr).
  Notation f := (path_filter paths).

  Lemma included_is_seen_init_m init :
    included ro (c_items (coll_state init)) =
    map (fun p : string * cval => (fst p, mkItem (snd p) 0)) (seen_init thr init).
  Proof.
    unfold included, coll_state, seen_init, mask_ro. cbn [c_items ro_include].
    destruct thr as [t|]; cbn [option_map]; induction init as [|[k v] r IH]; try reflexivity;
      cbn [map filter fst snd it_body seen_val].
    - destruct (include_of t k (Some v)); cbn [map fst snd]; rewrite IH; reflexivity.
    - rewrite IH. reflexivity.
  Qed.

  Lemma seeds_proj_m (l : list (string * cval)) :
    map proj (seeds path_filter ro (map (fun p : string * cval => (fst p, mkItem (snd p) 0)) l)) =
    map (fun p : string * cval => (fst p, Some (f (snd p)))) l.
  Proof.
    induction l as [|[k v] r IH]; [reflexivity|]. cbn [map seeds fst snd proj cc_id cc_new it_body]. f_equal. exact IH.
  Qed.

  Lemma holds_after_seeds_m (l : list (string * cval)) : forall (w : view cval) k,
    str_nodupb (map fst l) = true ->
    holds_after w (seeds path_filter ro (map (fun p : string * cval => (fst p, mkItem (snd p) 0)) l)) k =
    match alookup k l with Some v => Some (f v) | None => w k end.
  Proof.
    induction l as [|[id v] r IH]; intros w k N; [reflexivity|].
    cbn [map fst str_nodupb] in N. apply andb_true_iff in N. destruct N as [N1 N2]. apply negb_true_iff in N1.
    cbn [map seeds fst snd it_body]. rewrite holds_after_cons. cbn [cc_id cc_new]. rewrite (IH _ k N2).
    cbn [alookup]. unfold vupd, filt, mask_ro. cbn [ro_mask].
    destruct (String.eqb id k) eqn:E.
    - apply String.eqb_eq in E. subst k. rewrite (alookup_none_notin id r N1), String.eqb_refl. reflexivity.
    - rewrite String.eqb_sym, E. reflexivity.
  Qed.
End MaskSeeds.

(* the hypotheses, on the FILTERED values: the judge's guard and the scope (no DurationValueWithinP; int32
   nanos under DurationValueWithin) -- [tree_ok] is both; distinct ids *)
Definition mask_coll_scope (c : c16case) : bool :=
  match c with
  | KCollM paths e _ thr init ops _ =>
      let f := path_filter paths in
      negb (has_durp e) && ecfg_guard e
      && forallb (fun p : string * cval => tree_ok e (Some (f (snd p)))) init
      && forallb (fun o : collop => tree_ok e (option_map f (snd o))) ops
      && str_nodupb (map fst init)
  | _ => false
  end.

Lemma alookup_in (l : list (string * cval)) id m : alookup id l = Some m -> In (id, m) l.
Proof.
  induction l as [|[k x] r IH]; [discriminate|]. cbn [alookup]. intros H.
  destruct (String.eqb k id) eqn:E; [apply String.eqb_eq in E; inversion H; subst; left; reflexivity|right; apply IH; exact H].
Qed.

Theorem mask_coll_judge_sound : forall paths e uo thr init ops emitted,
  let c := KCollM paths e uo thr init ops emitted in
  agrees_core c = true -> mask_coll_scope c = true -> ok_core c = true.
Proof.
  intros paths e uo thr init ops emitted c A S. subst c. cbn [agrees_core mask_coll_scope ok_core] in *. cbv zeta in *.
  apply andb_true_iff in S. destruct S as [S Nid]. apply andb_true_iff in S. destruct S as [S To].
  apply andb_true_iff in S. destruct S as [S Ti]. apply andb_true_iff in S. destruct S as [Nd Ge].
  apply negb_true_iff in Nd.
  set (f := path_filter paths) in *.
  set (view := map (fun p : string * cval => (fst p, f (snd p))) (seen_init thr init)).
  assert (Lv : forall id, alookup id view = option_map f (seen_val thr id (alookup id init))).
  { intros id. unfold view. rewrite alookup_map_snd. rewrite (alookup_seen_init thr init id Nid). reflexivity. }
  assert (Av : all_ok e view).
  { intros id v L. rewrite Lv in L.
    destruct (alookup id init) as [m|] eqn:Li; [|discriminate L].
    pose proof (alookup_in _ _ _ Li) as Hin.
    unfold seen_val in L. destruct (match thr with Some t => include_of t id (Some m) | None => true end); [|discriminate L].
    cbn [option_map] in L. inversion L. subst v. rewrite forallb_forall in Ti. apply (Ti _ Hin). }
  assert (Hp : forall id, is_some (alookup id view) = is_some (seen_val thr id (alookup id init)))
    by (intros id; rewrite Lv; apply is_some_map).
  assert (E : map (fun t : string * option cval * option cval => (fst (fst t), snd t)) (coll_full_model_m paths e uo thr init ops) =
              (if uo then [] else map (fun p : string * cval => (fst p, Some (snd p))) view) ++ ideal_coll_m f e thr view ops).
  { unfold coll_full_model_m, pull_collection_held. rewrite map_map.
    change (fun x : cchange cval => (fst (fst (triple_of x)), snd (triple_of x))) with proj.
    change (mkR (Some paths) uo (option_map include_of thr)) with (mask_ro paths uo thr).
    rewrite map_app. pose proof (events_chained ops init) as Ch.
    assert (Uo : ro_updates_only (mask_ro paths uo thr) = uo) by reflexivity. rewrite Uo. unfold mcmp.
    destruct uo.
    - cbn [map app held_of_seeds fold_left].
      rewrite (@coll_pull_held_updates_only cval (list string) path_filter (model_e e) (mask_ro paths true thr) (events_of init ops) (curv init) Ch).
      apply (ops_against_ideal_m e paths true thr Ge Nd); try assumption.
      intros id. rewrite seen_is_seen_val_m. rewrite Lv. reflexivity.
    - rewrite included_is_seen_init_m. rewrite seeds_proj_m. f_equal.
      + unfold view. rewrite map_map. reflexivity.
      + assert (Nv : str_nodupb (map fst (seen_init thr init)) = true) by (apply str_nodupb_filter; exact Nid).
        rewrite (@coll_pull_held_seeded cval (list string) path_filter (model_e e) (mask_ro paths false thr) _ (events_of init ops) (curv init)); [| |exact Ch].
        * apply (ops_against_ideal_m e paths false thr Ge Nd); try assumption.
          intros id. rewrite (holds_after_seeds_m paths false thr (seen_init thr init) _ id Nv).
          unfold view. rewrite alookup_map_snd. destruct (alookup id (seen_init thr init)); reflexivity.
        * intros k H. rewrite (holds_after_seeds_m paths false thr (seen_init thr init) _ k Nv) in H.
          rewrite seen_is_seen_val_m. rewrite <- (alookup_seen_init thr init k Nid).
          destruct (alookup k (seen_init thr init)); [discriminate H|reflexivity]. }
  rewrite <- E. apply list_triple_proj. exact A.
Qed.

Print Assumptions mask_coll_judge_sound.

(* ---------- the read-mask filter keeps a value guarded and in scope ---------- *)
(* so the hypotheses of the two read-mask theorems follow from the judge's guard and scope on the values as
   WRITTEN, and C16_judge_sound covers the read-mask cases with the same kind of scope as the others *)
Section FilterKeeps.
  Variable paths : list string.
  Notation keep := (fun kv : string * cval => existsb (String.eqb (fst kv)) paths).

  Lemma existsb_filter_keys k (fs : list (string * cval)) :
    existsb (String.eqb k) (map fst fs) = false -> existsb (String.eqb k) (map fst (filter keep fs)) = false.
  Proof.
    induction fs as [|[k' v] r IH]; [reflexivity|]. cbn [map fst existsb filter]. intros H.
    apply orb_false_iff in H. destruct H as [H1 H2]. destruct (existsb (String.eqb k') paths); cbn [map fst existsb]; rewrite ?H1; auto.
  Qed.
  Lemma nodup_str_filter (fs : list (string * cval)) :
    nodup_str (map fst fs) = true -> nodup_str (map fst (filter keep fs)) = true.
  Proof.
    induction fs as [|[k v] r IH]; [reflexivity|]. cbn [map fst nodup_str filter]. intros N.
    apply andb_true_iff in N. destruct N as [N1 N2]. apply negb_true_iff in N1.
    destruct (existsb (String.eqb k) paths); [|apply IH; exact N2]. cbn [map fst nodup_str].
    rewrite (existsb_filter_keys k r N1), (IH N2). reflexivity.
  Qed.
  Lemma forallb_filter_keep {A} (P p : A -> bool) l : forallb P l = true -> forallb P (filter p l) = true.
  Proof.
    induction l as [|a r IH]; [reflexivity|]. cbn [forallb filter]. intros H. apply andb_true_iff in H. destruct H as [H1 H2].
    destruct (p a); [cbn [forallb]; rewrite H1|]; apply IH; exact H2.
  Qed.
  Lemma existsb_filter_keep {A} (P p : A -> bool) l : existsb P l = false -> existsb P (filter p l) = false.
  Proof.
    induction l as [|a r IH]; [reflexivity|]. cbn [existsb filter]. intros H. apply orb_false_iff in H. destruct H as [H1 H2].
    destruct (p a); [cbn [existsb]; rewrite H1|]; apply IH; exact H2.
  Qed.
  (* a field of the filtered message is the field of the message, or absent *)
  Lemma get_int_filter k (fs : list (string * cval)) :
    get_int k (filter keep fs) = get_int k fs \/ get_int k (filter keep fs) = 0.
  Proof.
    unfold get_int. induction fs as [|[k' v] r IH]; [left; reflexivity|]. cbn [filter fst].
    destruct (existsb (String.eqb k') paths) eqn:P; cbn [flookup].
    - destruct (String.eqb k k'); [left; reflexivity|exact IH].
    - destruct (String.eqb k k') eqn:E; [|exact IH].
      apply String.eqb_eq in E. subst k'.
      (* k is not kept: it is absent from the filtered list *)
      right. clear IH. induction r as [|[k2 v2] r2 IH2]; [reflexivity|]. cbn [filter fst].
      destruct (existsb (String.eqb k2) paths) eqn:P2; [|exact IH2]. cbn [flookup].
      destruct (String.eqb k k2) eqn:E2; [apply String.eqb_eq in E2; subst k2; congruence|exact IH2].
  Qed.

  Lemma path_filter_wf m : wf m = true -> wf (path_filter paths m) = true.
  Proof.
    destruct m as [s|ty v fs u|l|mm]; try (intros H; exact H). cbn [path_filter].
    destruct paths as [|p ps] eqn:Ep; [reflexivity|]. rewrite <- Ep. cbn [wf]. intros H.
    apply andb_true_iff in H. destruct H as [H1 H2]. apply andb_true_iff. split.
    - apply nodup_str_filter. exact H1.
    - apply forallb_filter_keep. exact H2.
  Qed.
  Lemma path_filter_val_guard top m : val_guard top m = true -> val_guard top (path_filter paths m) = true.
  Proof.
    destruct m as [s|ty v fs u|l|mm]; try (intros H; exact H). cbn [path_filter].
    destruct paths as [|p ps] eqn:Ep.
    - cbn [val_guard forallb]. intros H. apply andb_true_iff in H. destruct H as [H _]. apply andb_true_iff in H. destruct H as [H _].
      rewrite H. destruct (String.eqb ty ts_full); reflexivity.
    - rewrite <- Ep. cbn [val_guard]. intros H.
      apply andb_true_iff in H. destruct H as [H H3]. apply andb_true_iff in H. destruct H as [H1 H2].
      rewrite H1. cbn [andb]. apply andb_true_iff. split; [|apply forallb_filter_keep; exact H3].
      destruct (String.eqb ty ts_full); [|reflexivity].
      apply andb_true_iff in H2. destruct H2 as [S N].
      destruct (get_int_filter "seconds" fs) as [E|E], (get_int_filter "nanos" fs) as [F|F]; rewrite E, F, ?S, ?N; reflexivity.
  Qed.
  Lemma path_filter_wide m : has_wide_nanos m = false -> has_wide_nanos (path_filter paths m) = false.
  Proof.
    destruct m as [s|ty v fs u|l|mm]; try (intros H; exact H). cbn [path_filter].
    destruct paths as [|p ps] eqn:Ep.
    - intros _. cbn [has_wide_nanos existsb get_int flookup]. destruct (String.eqb ty dur_full); reflexivity.
    - rewrite <- Ep. cbn [has_wide_nanos]. intros H. apply orb_false_iff in H. destruct H as [H1 H2].
      apply orb_false_iff. split; [|apply existsb_filter_keep; exact H2].
      destruct (String.eqb ty dur_full); [|reflexivity]. cbn [andb] in *.
      destruct (get_int_filter "nanos" fs) as [F|F]; rewrite F; [exact H1|reflexivity].
  Qed.

  Lemma path_filter_tree_ok e m : tree_ok e (Some m) = true -> tree_ok e (Some (path_filter paths m)) = true.
  Proof.
    unfold tree_ok. cbn [opt_guard opt_wide]. intros H. apply andb_true_iff in H. destruct H as [G S].
    apply andb_true_iff in G. destruct G as [W V].
    rewrite (path_filter_wf m W), (path_filter_val_guard true m V). cbn [andb].
    destruct (cfg_nd (cfg_vs e)); [reflexivity|]. cbn [orb] in *.
    apply negb_true_iff in S. apply negb_true_iff. apply path_filter_wide. exact S.
  Qed.
End FilterKeeps.

(* ---------- every kind of case but the lossy one ---------- *)
Definition mask_scope (c : c16case) : bool :=
  match c with
  | KStreamM _ e seed writes _ => stream_scope e seed writes
  | KCollM _ e _ thr init ops _ =>
      negb (has_durp e)
      && (cfg_nd (cfg_vs e)
          || (forallb (fun p : string * cval => negb (has_wide_nanos (snd p))) init
              && forallb (fun o : collop => negb (opt_wide (snd o))) ops))
      && str_nodupb (map fst init)
  | _ => false
  end.
Definition in_scope_every (c : c16case) : bool := in_scope_all c || mask_scope (unwrap c).

Lemma guard_scope_tree_ok e m :
  opt_guard (Some m) = true -> (cfg_nd (cfg_vs e) || negb (has_wide_nanos m)) = true -> tree_ok e (Some m) = true.
Proof. intros G S. unfold tree_ok. rewrite G. cbn [andb opt_wide]. exact S. Qed.

Theorem judge_sound_every : forall c,
  agrees c = true -> C16_guard c = true -> in_scope_every c = true -> C16_ok c = true.
Proof.
  intros c A G S. unfold in_scope_every in S. apply orb_true_iff in S. destruct S as [S|S].
  - apply judge_sound_all; assumption.
  - unfold agrees in A. apply andb_true_iff in A. destruct A as [_ A]. unfold C16_guard in G. unfold C16_ok.
    destruct (unwrap c) as [| | | |paths e seed writes emitted|paths e uo thr init ops emitted| |]; try discriminate S.
    + (* KStreamM *)
      apply (mask_stream_sound paths e seed writes emitted A).
      cbn [guard_core mask_scope] in G, S.
      apply andb_true_iff in G. destruct G as [G Ge]. apply andb_true_iff in G. destruct G as [Gs Gw].
      destruct (stream_scope_tree_ok e seed writes Gs Gw S) as (Nd & Ts & Tw).
      unfold mask_stream_scope. cbv zeta. rewrite Ge. cbn [andb].
      assert (Ts' : tree_ok e (option_map (path_filter paths) seed) = true)
        by (destruct seed as [s|]; [apply path_filter_tree_ok; exact Ts|apply tree_ok_none]).
      assert (Tw' : forall w, In w writes -> tree_ok e (Some (path_filter paths w)) = true)
        by (intros w Hw; rewrite forallb_forall in Tw; apply path_filter_tree_ok; apply (Tw _ Hw)).
      assert (Gs' : opt_guard (option_map (path_filter paths) seed) = true)
        by (unfold tree_ok in Ts'; apply andb_true_iff in Ts'; tauto).
      rewrite Gs'. cbn [andb].
      assert (Gw' : forallb (fun w => opt_guard (Some (path_filter paths w))) writes = true).
      { apply forallb_forall. intros w Hw. specialize (Tw' w Hw). unfold tree_ok in Tw'. apply andb_true_iff in Tw'. tauto. }
      rewrite Gw'. cbn [andb].
      unfold stream_scope. rewrite Nd. cbn [negb andb].
      destruct (cfg_nd (cfg_vs e)) eqn:N; [reflexivity|]. cbn [orb].
      apply andb_true_iff. split.
      * unfold tree_ok in Ts'. rewrite N in Ts'. cbn [orb] in Ts'. apply andb_true_iff in Ts'. tauto.
      * rewrite forallb_map. apply forallb_forall. intros w Hw. specialize (Tw' w Hw). unfold tree_ok in Tw'. rewrite N in Tw'.
        cbn [orb opt_wide] in Tw'. apply andb_true_iff in Tw'. tauto.
    + (* KCollM *)
      apply (mask_coll_judge_sound paths e uo thr init ops emitted A).
      cbn [guard_core mask_scope mask_coll_scope] in *. cbv zeta.
      apply andb_true_iff in S. destruct S as [S Nid]. apply andb_true_iff in S. destruct S as [Nd Sat].
      apply andb_true_iff in G. destruct G as [G _]. apply andb_true_iff in G. destruct G as [G Ge].
      apply andb_true_iff in G. destruct G as [Gi Go].
      rewrite Nd, Ge, Nid. cbn [andb]. rewrite andb_true_r. apply andb_true_iff. split.
      * apply forallb_forall. intros p Hp. apply path_filter_tree_ok. apply guard_scope_tree_ok.
        -- rewrite forallb_forall in Gi. apply (Gi _ Hp).
        -- destruct (cfg_nd (cfg_vs e)); [reflexivity|]. cbn [orb] in *. apply andb_true_iff in Sat. destruct Sat as [Sa _].
           rewrite forallb_forall in Sa. apply (Sa _ Hp).
      * apply forallb_forall. intros o Ho. destruct o as [id [v|]]; cbn [snd option_map]; [|apply tree_ok_none].
        apply path_filter_tree_ok. apply guard_scope_tree_ok.
        -- rewrite forallb_forall in Go. apply (Go _ Ho).
        -- destruct (cfg_nd (cfg_vs e)); [reflexivity|]. cbn [orb] in *. apply andb_true_iff in Sat. destruct Sat as [_ Sb].
           rewrite forallb_forall in Sb. apply (Sb _ Ho).
Qed.

Print Assumptions judge_sound_every.
