(* Model of the equivalence step of Collection.Pull (/repo/pkg/resource/collection.go) as repaired:
   with an equivalence configured the goroutine keeps [held], a Go map from id to the value the
   subscriber holds for it (the new value of the last change SENT for the id, initially the seed as
   sent), and compares every change with held[id] -- falling back to the change's own old value when
   nothing was sent for the id yet -- instead of comparing the change's old and new value
   (Resource/Pull.v [c_forward_gen], the code before the repair, kept as the _v0).

     base, sent := held[change.Id]
     if !sent { base = change.OldValue }
     if c.equivalence.Compare(base, change.NewValue) { held[change.Id] = base; continue }
     if change.NewValue == nil { delete(held, change.Id) } else { held[change.Id] = change.NewValue }

   The Go map is an association list id -> possibly-nil message ([Some None] = present with a nil
   value).  No proofs here. *)
From SC Require Import Base.Prelude Resource.Impl Resource.Pull.

Set Implicit Arguments.

Section CollEquiv.
  Variable M : Type.
  Variable rmask : Type.
  Variable r_filter : rmask -> M -> M.
  Variable equiv : option (option M -> option M -> bool).

  Definition heldmap := list (string * option M).

  Fixpoint hget (id : string) (h : heldmap) : option (option M) :=
    match h with
    | [] => None
    | (k, v) :: r => if String.eqb k id then Some v else hget id r
    end.
  Fixpoint hset (id : string) (v : option M) (h : heldmap) : heldmap :=
    match h with
    | [] => [(id, v)]
    | (k, x) :: r => if String.eqb k id then (id, v) :: r else (k, x) :: hset id v r
    end.
  Fixpoint hdel (id : string) (h : heldmap) : heldmap :=
    match h with
    | [] => []
    | (k, x) :: r => if String.eqb k id then hdel id r else (k, x) :: hdel id r
    end.

  (* the equivalence step on one change that passed include and filter: (deliver?, held afterwards) *)
  Definition held_step (cmp : option M -> option M -> bool) (h : heldmap) (c : cchange M) : bool * heldmap :=
    let base := match hget (cc_id c) h with Some b => b | None => cc_old c end in
    if cmp base (cc_new c) then (false, hset (cc_id c) base h)
    else (true, match cc_new c with
                | None => hdel (cc_id c) h
                | Some v => hset (cc_id c) (Some v) h
                end).

  (* the event loop of Collection.Pull: include, filter, equivalence against held, send *)
  Fixpoint c_forward_held (ro : ropts M rmask) (h : heldmap) (evs : list (cevent M)) : list (cchange M) :=
    match evs with
    | [] => []
    | e :: r =>
        match include_gen false false (ro_include ro) (of_event e) with
        | None => c_forward_held ro h r
        | Some c =>
            let c' := cc_filter r_filter ro c in
            match equiv with
            | None => c' :: c_forward_held ro h r
            | Some cmp =>
                let '(send, h') := held_step cmp h c' in
                if send then c' :: c_forward_held ro h' r else c_forward_held ro h' r
            end
        end
    end.

  (* held after the seed loop: every seed change sent, by id *)
  Definition held_of_seeds (sd : list (cchange M)) : heldmap :=
    fold_left (fun h c => hset (cc_id c) (cc_new c) h) sd [].

  Definition pull_collection_held (s : cstate M) (ro : ropts M rmask) (evs : list (cevent M)) : list (cchange M) :=
    let sd := if ro_updates_only ro then [] else seeds r_filter ro (included ro (c_items s)) in
    sd ++ c_forward_held ro (held_of_seeds sd) evs.

  (* ---- the two halves of the loop as list transformers (used by the proofs) ---- *)
  (* what include and filter offer to the equivalence step *)
  Definition offered (ro : ropts M rmask) (evs : list (cevent M)) : list (cchange M) :=
    flat_map (fun e => match include_gen false false (ro_include ro) (of_event e) with
                       | None => []
                       | Some c => [cc_filter r_filter ro c]
                       end) evs.
  Fixpoint held_filter (cmp : option M -> option M -> bool) (h : heldmap) (cs : list (cchange M)) : list (cchange M) :=
    match cs with
    | [] => []
    | c :: r =>
        let '(send, h') := held_step cmp h c in
        if send then c :: held_filter cmp h' r else held_filter cmp h' r
    end.

  (* ---- specification side ---- *)
  (* a view: id -> the value held for it (None = nothing) *)
  Definition view := string -> option M.
  Definition vupd (id : string) (v : option M) (w : view) : view :=
    fun k => if String.eqb k id then v else w k.
  (* the value a subscriber that received [cs] holds for [id]: the new value of the last change for it *)
  Definition holds_after (w : view) (cs : list (cchange M)) : view :=
    fold_left (fun w c => vupd (cc_id c) (cc_new c) w) cs w.

  (* deliver a change iff its new value is NOT equivalent to what the subscriber holds for its id *)
  Fixpoint ideal_filter (cmp : option M -> option M -> bool) (w : view) (cs : list (cchange M)) : list (cchange M) :=
    match cs with
    | [] => []
    | c :: r =>
        if cmp (w (cc_id c)) (cc_new c) then ideal_filter cmp w r
        else c :: ideal_filter cmp (vupd (cc_id c) (cc_new c) w) r
    end.

  (* the code before the repair on offered changes: old against new of each change *)
  Fixpoint v0_filter (cmp : option M -> option M -> bool) (cs : list (cchange M)) : list (cchange M) :=
    match cs with
    | [] => []
    | c :: r => if cmp (cc_old c) (cc_new c) then v0_filter cmp r else c :: v0_filter cmp r
    end.

  (* the offered changes describe one evolving collection [cur]: every change's old value is the
     current value of its id *)
  Fixpoint chained_from (cur : view) (cs : list (cchange M)) : Prop :=
    match cs with
    | [] => True
    | c :: r => cc_old c = cur (cc_id c) /\ chained_from (vupd (cc_id c) (cc_new c) cur) r
    end.

  (* raw events describe one evolving collection *)
  Fixpoint ev_chained_from (cur : view) (evs : list (cevent M)) : Prop :=
    match evs with
    | [] => True
    | e :: r => ce_old e = cur (ce_id e) /\ ev_chained_from (vupd (ce_id e) (ce_new e) cur) r
    end.
  (* what a reader with options [ro] sees of a collection [cur] *)
  Definition seen (ro : ropts M rmask) (cur : view) : view :=
    fun id => match cur id with
              | None => None
              | Some v =>
                  if match ro_include ro with Some f => f id (Some v) | None => true end
                  then Some (filt r_filter ro v) else None
              end.
End CollEquiv.
