(* Model of the equivalence step of Collection.Pull (/repo/pkg/resource/collection.go) as repaired in
   /repo 3a50d70: the held map.  The definitions ([heldmap], [hget]/[hset]/[hdel], [held_step],
   [c_forward_held], [held_of_seeds], [pull_collection_held], [offered], [held_filter], [view], [vupd],
   [holds_after], [ideal_filter], [v0_filter], [chained_from], [ev_chained_from], [seen]) now live in
   Resource/Pull.v, where they are the model of record of C04 and C08 as well (Resource may not import
   Cmp); this file re-exports them under the same names and argument orders.  No proofs here. *)
From SC Require Export Base.Prelude Resource.Impl Resource.Pull.
