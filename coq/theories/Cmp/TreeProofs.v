(* The whole-message acceptance clause as ONE theorem over message trees: for every pair of
   well-formed guarded trees (nested messages, lists, maps, unknown fields, nil / typed nil at the
   top) and every guarded configuration of tolerance comparers, the model of cmp.Equal(...) is the
   reference equality of Spec.v whose leaves are the IDEAL tolerances (exact arithmetic, no wrap, no
   saturation).  Two steps: (1) the reference equality only depends on the leaves through the pairs
   of values it meets, and a leaf that says "different" on two messages of different types may as
   well not answer (induction over the tree); (2) on guarded values every comparer of pkg/cmp is its
   ideal leaf (the per-comparer theorems), and ValueAnd / ValueOr combine them as leaf_and / leaf_or. *)
From Coq Require Import QArith.
From SC Require Import Base.Prelude Cmp.Cmp Cmp.Logic Cmp.Tolerance Cmp.FloatB64 Cmp.GoTime Cmp.Spec Cmp.LogicProofs
  Cmp.ToleranceProofs Cmp.FloatB64Proofs Cmp.GoTimeProofs Cmp.CmpProofs Cmp.C16Judge.
Open Scope Z_scope.

Definition ty_differs (a b : cval) : bool :=
  match a, b with CM tx _ _ _, CM ty _ _ _ => negb (String.eqb tx ty) | _, _ => false end.

Lemma ty_differs_spec ign L a b : ty_differs a b = true -> spec_equal ign L a b = false.
Proof.
  destruct a as [|tx vx fx ux| |], b as [|ty vy fy uy| |]; try discriminate.
  cbn [ty_differs]. intros H. rewrite spec_equal_CM. destruct (String.eqb tx ty); [discriminate|reflexivity].
Qed.

(* ---------- (1) congruence of the reference equality in its leaves ---------- *)
Section Congr.
  Variable ign : string -> string -> bool.
  Variables L1 L2 : cval -> cval -> option bool.
  Variable g : cval -> bool.                       (* a hereditary guard on the values below the top *)
  Hypothesis g_CM : forall ty v fs u kv, g (CM ty v fs u) = true -> In kv fs -> g (snd kv) = true.
  Hypothesis g_CL : forall l a, g (CL l) = true -> In a l -> g a = true.
  Hypothesis g_CMap : forall m e, g (CMap m) = true -> In e m -> g (snd e) = true.

  (* the leaves agree, or the first says "different" where the second does not answer and the two
     values are messages of different types (which the reference equality tells apart anyway) *)
  Definition leaf_sim (a b : cval) : Prop :=
    L1 a b = L2 a b \/ (L1 a b = Some false /\ L2 a b = None /\ ty_differs a b = true).
  Hypothesis sim : forall a b, g a = true -> g b = true -> leaf_sim a b.

  Notation sp1 := (spec_equal ign L1).
  Notation sp2 := (spec_equal ign L2).
  Notation spv1 := (spec_value ign L1).
  Notation spv2 := (spec_value ign L2).
  Notation spf1 := (spec_field ign L1).
  Notation spf2 := (spec_field ign L2).

  (* the immediate components of a value are guarded *)
  Definition parts_ok (v : cval) : Prop :=
    match v with
    | CS _ => True
    | CM _ _ fs _ => forall kv, In kv fs -> g (snd kv) = true
    | CL l => forall a, In a l -> g a = true
    | CMap m => forall e, In e m -> g (snd e) = true
    end.
  Lemma g_parts v : g v = true -> parts_ok v.
  Proof.
    destruct v as [s|ty b fs u|l|m]; cbn [parts_ok]; intros G; [exact I| | |].
    - intros kv. apply (g_CM _ _ _ _ _ G).
    - intros a. apply (g_CL _ _ G).
    - intros e. apply (g_CMap _ _ G).
  Qed.

  Lemma value_congr a b : g a = true -> g b = true -> sp1 a b = sp2 a b -> spv1 a b = spv2 a b.
  Proof.
    intros Ga Gb H. unfold spec_value. destruct (sim a b Ga Gb) as [E|(E1 & E2 & D)].
    - rewrite E. destruct (L2 a b); [reflexivity|exact H].
    - rewrite E1, E2. symmetry. apply ty_differs_spec. exact D.
  Qed.

  Definition P_congr (a : cval) : Prop :=
    (forall y, parts_ok a -> parts_ok y -> sp1 a y = sp2 a y) /\
    (forall b, g a = true -> g b = true -> spf1 a b = spf2 a b).

  Lemma all2_congr (l : list cval) :
    Forall P_congr l -> forall ly, (forall a, In a l -> g a = true) -> (forall b, In b ly -> g b = true) ->
    all2 spv1 l ly = all2 spv2 l ly.
  Proof.
    induction 1 as [|a r [Pa _] _ IH]; intros [|b rb] G1 G2; try reflexivity.
    cbn [all2].
    assert (Ga : g a = true) by (apply G1; left; reflexivity).
    assert (Gb : g b = true) by (apply G2; left; reflexivity).
    rewrite (value_congr a b Ga Gb) by (apply Pa; apply g_parts; assumption).
    rewrite IH; [reflexivity| |]; intros z Hz; [apply G1|apply G2]; right; exact Hz.
  Qed.

  Lemma P_congr_all : forall a, P_congr a.
  Proof.
    induction a as [s|tx vx fx ux IH|l IH|mx IH] using cval_ind'.
    - assert (D : forall y, sp1 (CS s) y = sp2 (CS s) y) by (intros [s'| | |]; reflexivity).
      split; [intros; apply D|].
      intros b Ga Gb. destruct b; cbn [spec_field]; apply value_congr; auto.
    - assert (D : forall y, parts_ok (CM tx vx fx ux) -> parts_ok y -> sp1 (CM tx vx fx ux) y = sp2 (CM tx vx fx ux) y).
      { intros [s'|ty vy fy uy|ly|my] Px Py; try reflexivity.
        rewrite !spec_equal_CM. do 3 f_equal.
        apply forallb_ext_in. intros [k a] Hi. destruct (ign tx k); [reflexivity|]. cbn [orb].
        destruct (flookup k fy) as [b|] eqn:Lk; [|reflexivity].
        rewrite flookup_g in Lk. apply (glookup_in _ String.eqb str_eqb_eq) in Lk.
        rewrite Forall_forall in IH. destruct (IH _ Hi) as [_ Pf]. cbn [snd] in Pf. apply Pf.
        - apply (Px _ Hi).
        - apply (Py _ Lk). }
      split; [exact D|].
      intros b Ga Gb. destruct b as [s'|ty vy fy uy|ly|my]; cbn [spec_field]; apply value_congr; auto;
        try reflexivity. apply D; apply g_parts; assumption.
    - split; [intros y _ _; reflexivity|].
      intros b Ga Gb. destruct b as [s'|ty vy fy uy|ly|my]; try reflexivity.
      cbn [spec_field]. apply all2_congr; [exact IH|exact (g_parts _ Ga)|exact (g_parts _ Gb)].
    - split; [intros y _ _; reflexivity|].
      intros b Ga Gb. destruct b as [s'|ty vy fy uy|ly|my]; try reflexivity.
      cbn [spec_field]. f_equal.
      apply forallb_ext_in. intros [key a] Hi.
      destruct (klookup key my) as [b|] eqn:Lk; [|reflexivity].
      rewrite klookup_g in Lk. apply (glookup_in _ key_eqb key_eqb_eq) in Lk.
      rewrite Forall_forall in IH. destruct (IH _ Hi) as [Pv _]. cbn [snd] in Pv.
      pose proof (g_parts _ Ga _ Hi) as Ga'. pose proof (g_parts _ Gb _ Lk) as Gb'. cbn [snd] in Ga', Gb'.
      apply value_congr; auto. apply Pv; apply g_parts; assumption.
  Qed.

  Theorem spec_congr : forall x y, parts_ok x -> parts_ok y -> sp1 x y = sp2 x y.
  Proof. intros x y. apply (proj1 (P_congr_all x)). Qed.
End Congr.

(* ---------- (2) the comparers of pkg/cmp on guarded values are their ideal leaves ---------- *)
(* [nd]: no DurationValueWithin in the configuration (else no saturating Duration in the value) *)
Definition lguard (nd : bool) (a : cval) : bool := val_guard false a && (nd || negb (has_wide_nanos a)).

Lemma val_guard_CM top ty v fs u kv :
  val_guard top (CM ty v fs u) = true -> In kv fs -> val_guard false (snd kv) = true.
Proof.
  cbn [val_guard]. intros H Hi. apply andb_true_iff in H. destruct H as [_ H].
  rewrite forallb_forall in H. specialize (H _ Hi). destruct kv. exact H.
Qed.
Lemma has_sat_CM ty v fs u kv : has_wide_nanos (CM ty v fs u) = false -> In kv fs -> has_wide_nanos (snd kv) = false.
Proof.
  cbn [has_wide_nanos]. intros H Hi. apply orb_false_iff in H. destruct H as [_ H].
  destruct (has_wide_nanos (snd kv)) eqn:E; [|reflexivity].
  exfalso. apply Bool.not_true_iff_false in H. apply H.
  apply existsb_exists. exists kv. split; [exact Hi|]. destruct kv. exact E.
Qed.

Lemma lguard_CM nd ty v fs u kv : lguard nd (CM ty v fs u) = true -> In kv fs -> lguard nd (snd kv) = true.
Proof.
  unfold lguard. intros H Hi. apply andb_true_iff in H. destruct H as [V S].
  rewrite (val_guard_CM _ _ _ _ _ _ V Hi). cbn [andb].
  destruct nd; [reflexivity|]. cbn [orb] in *. apply negb_true_iff in S. rewrite (has_sat_CM _ _ _ _ _ S Hi). reflexivity.
Qed.
Lemma lguard_CL nd l a : lguard nd (CL l) = true -> In a l -> lguard nd a = true.
Proof.
  unfold lguard. cbn [val_guard has_wide_nanos]. intros H Hi. apply andb_true_iff in H. destruct H as [V S].
  rewrite forallb_forall in V. rewrite (V _ Hi). cbn [andb].
  destruct nd; [reflexivity|]. cbn [orb] in *. apply negb_true_iff in S.
  destruct (has_wide_nanos a) eqn:E; [|reflexivity].
  exfalso. apply Bool.not_true_iff_false in S. apply S. apply existsb_exists. exists a. auto.
Qed.
Lemma lguard_CMap nd m e : lguard nd (CMap m) = true -> In e m -> lguard nd (snd e) = true.
Proof.
  unfold lguard. cbn [val_guard has_wide_nanos]. intros H Hi. apply andb_true_iff in H. destruct H as [V S].
  rewrite forallb_forall in V. pose proof (V _ Hi) as Ve. destruct e as [k a]. cbn [snd]. rewrite Ve. cbn [andb].
  destruct nd; [reflexivity|]. cbn [orb] in *. apply negb_true_iff in S.
  destruct (has_wide_nanos a) eqn:E; [|reflexivity].
  exfalso. apply Bool.not_true_iff_false in S. apply S. apply existsb_exists. exists (k, a). auto.
Qed.

(* one comparer against its ideal leaf *)
Definition comp_ok (v : vcfg) (a b : cval) : Prop :=
  if ty_differs a b
  then ideal_v v a b = None /\ (answers (model_v v) a b = true -> says (model_v v) a b = false)
  else leaf_of (model_v v) a b = ideal_v v a b.

Lemma leaf_of_unfold h a b : leaf_of h a b = if answers h a b then Some (says h a b) else None.
Proof. reflexivity. Qed.

Lemma wkt_comp_ok full (k : list (string * cval) -> list (string * cval) -> bool) d a b :
  (forall vx fx ux vy fy uy, val_guard false (CM full vx fx ux) = true -> val_guard false (CM full vy fy uy) = true ->
     k fx fy = (Z.abs (total_nanos fx - total_nanos fy) <=? d)) ->
  val_guard false a = true -> val_guard false b = true ->
  if ty_differs a b
  then leaf_wkt full d a b = None /\ (snd (wkt_cases full a b k) = true -> fst (wkt_cases full a b k) = false)
  else (if snd (wkt_cases full a b k) then Some (fst (wkt_cases full a b k)) else None) = leaf_wkt full d a b.
Proof.
  intros K Ga Gb.
  destruct a as [|tx vx fx ux| |], b as [|ty vy fy uy| |]; try reflexivity.
  cbn [ty_differs wkt_cases leaf_wkt].
  destruct (String.eqb_spec tx full) as [-> | Nx], (String.eqb_spec ty full) as [-> | Ny]; cbn [negb andb xorb].
  - rewrite String.eqb_refl. cbn [negb].
    assert (Vx : vx = true) by (cbn [val_guard] in Ga; destruct vx; [reflexivity|discriminate Ga]).
    assert (Vy : vy = true) by (cbn [val_guard] in Gb; destruct vy; [reflexivity|discriminate Gb]).
    subst vx vy. cbn [negb orb fst snd]. rewrite (K _ _ _ _ _ _ Ga Gb). reflexivity.
  - destruct (String.eqb_spec full ty) as [E|_]; [congruence|]. cbn [negb fst snd]. auto.
  - destruct (String.eqb_spec tx full) as [E|_]; [congruence|]. cbn [negb fst snd]. auto.
  - cbn [fst snd]. destruct (negb (String.eqb tx ty)); [split; [reflexivity|discriminate]|reflexivity].
Qed.

Lemma val_guard_ts vx fx ux :
  val_guard false (CM ts_full vx fx ux) = true ->
  Z.abs (get_int "seconds" fx) <= 1152921504606846976 /\ -2147483648 <= get_int "nanos" fx <= 2147483647.
Proof.
  cbn [val_guard]. rewrite String.eqb_refl. intros H.
  apply andb_true_iff in H. destruct H as [H _]. apply andb_true_iff in H. destruct H as [_ H].
  apply andb_true_iff in H. destruct H as [S N]. unfold sec_bound in S. apply Z.leb_le in S.
  unfold in32 in N. apply andb_true_iff in N. destruct N as [N1 N2]. apply Z.leb_le in N1. apply Z.leb_le in N2.
  auto.
Qed.

Lemma no_sat_dur vx fx ux :
  has_wide_nanos (CM dur_full vx fx ux) = false -> in32 (get_int "nanos" fx) = true.
Proof.
  cbn [has_wide_nanos]. rewrite String.eqb_refl. cbn [andb]. intros H. apply orb_false_iff in H. destruct H as [H _].
  apply negb_false_iff in H. exact H.
Qed.

Theorem comp_is_ideal : forall v a b,
  vcfg_guard v = true -> is_durp v = false ->
  lguard (negb (is_dur v)) a = true -> lguard (negb (is_dur v)) b = true ->
  comp_ok v a b.
Proof.
  intros v a b Gv Nd Ga Gb. unfold lguard in Ga, Gb.
  apply andb_true_iff in Ga. destruct Ga as [Va Sa]. apply andb_true_iff in Gb. destruct Gb as [Vb Sb].
  unfold comp_ok. destruct v as [fr mg|d|d|p]; [| | |discriminate Nd]; cbn [model_v ideal_v is_dur negb orb] in *.
  - (* FloatValueApprox *)
    cbn [vcfg_guard] in Gv. apply andb_true_iff in Gv. destruct Gv as [Gv Hm].
    apply andb_true_iff in Gv. destruct Gv as [Gv _]. apply andb_true_iff in Gv. destruct Gv as [Sf Sm].
    destruct (ty_differs a b) eqn:D.
    + destruct a as [|tx vx fx ux| |], b as [|ty vy fy uy| |]; try discriminate D.
      split; [reflexivity|]. intros H. discriminate H.
    + assert (Xa : val_small a = true) by (destruct a as [[]| | |]; try reflexivity; exact Va).
      assert (Xb : val_small b = true) by (destruct b as [[]| | |]; try reflexivity; exact Vb).
      unfold leaf_of. rewrite (float_approx_b64_exact fr mg a b Sf Sm Xa Xb).
      symmetry. apply float_leaf. exact Hm.
  - (* TimeValueWithin *)
    cbn [vcfg_guard] in Gv. apply andb_true_iff in Gv. destruct Gv as [D0 D1].
    apply Z.leb_le in D0. apply Z.leb_le in D1.
    pose proof (wkt_comp_ok ts_full (fun fx fy => time_close_fixed d (as_time fx) (as_time fy)) d a b) as W.
    unfold leaf_time, answers, says, leaf_of. rewrite time_within_fixed_unfold. apply W; [|exact Va|exact Vb].
    intros vx fx ux vy fy uy Gx Gy.
    destruct (val_guard_ts _ _ _ Gx) as [Xs Xn]. destruct (val_guard_ts _ _ _ Gy) as [Ys Yn].
    pose proof (time_fixed_accepts_iff_within d ts_full ux fx ts_full uy fy (conj D0 D1) eq_refl eq_refl Xs Xn Ys Yn) as T.
    rewrite time_within_fixed_unfold in T. unfold wkt_cases in T. rewrite String.eqb_refl in T.
    cbn [negb andb orb xorb] in T. inversion T as [T1]. reflexivity.
  - (* DurationValueWithin *)
    cbn [vcfg_guard] in Gv. apply andb_true_iff in Gv. destruct Gv as [D0 D1]. apply Z.leb_le in D0. apply Z.leb_le in D1.
    apply negb_true_iff in Sa. apply negb_true_iff in Sb.
    assert (W : forall a b, val_guard false a = true -> val_guard false b = true ->
                has_wide_nanos a = false -> has_wide_nanos b = false ->
                if ty_differs a b
                then leaf_wkt dur_full d a b = None /\
                     (snd (duration_within d a b) = true -> fst (duration_within d a b) = false)
                else (if snd (duration_within d a b) then Some (fst (duration_within d a b)) else None) = leaf_wkt dur_full d a b).
    { clear a b Va Vb Sa Sb. intros a b Va Vb Sa Sb. rewrite duration_within_unfold.
      destruct a as [|tx vx fx ux| |], b as [|ty vy fy uy| |]; try reflexivity.
      cbn [ty_differs wkt_cases leaf_wkt].
      destruct (String.eqb_spec tx dur_full) as [-> | Nx], (String.eqb_spec ty dur_full) as [-> | Ny]; cbn [negb andb xorb].
      - rewrite String.eqb_refl. cbn [negb].
        assert (Vx : vx = true) by (cbn [val_guard] in Va; destruct vx; [reflexivity|discriminate Va]).
        assert (Vy : vy = true) by (cbn [val_guard] in Vb; destruct vy; [reflexivity|discriminate Vb]).
        subst vx vy. cbn [negb orb fst snd].
        pose proof (no_sat_dur _ _ _ Sa) as A1. pose proof (no_sat_dur _ _ _ Sb) as B1.
        pose proof (duration_accepts_iff_within d dur_full ux fx dur_full uy fy) as T.
        rewrite duration_within_unfold in T. unfold wkt_cases in T. rewrite String.eqb_refl in T.
        cbn [negb andb orb xorb] in T.
        assert (T' := T (conj D0 D1) eq_refl eq_refl A1 B1). clear T.
        inversion T' as [T1]. reflexivity.
      - destruct (String.eqb_spec dur_full ty) as [E|_]; [congruence|]. cbn [negb fst snd]. auto.
      - destruct (String.eqb_spec tx dur_full) as [E|_]; [congruence|]. cbn [negb fst snd]. auto.
      - cbn [fst snd]. destruct (negb (String.eqb tx ty)); [split; [reflexivity|discriminate]|reflexivity]. }
    unfold leaf_dur, answers, says, leaf_of. apply W; assumption.
Qed.

(* ---------- ValueAnd / ValueOr of comparers against leaf_and / leaf_or of their ideals ---------- *)
Lemma none_answers_forallb (ms : list vcmp) a b :
  existsb (fun e => answers e a b) ms = false -> forallb (fun e => negb (answers e a b) || says e a b) ms = true.
Proof.
  induction ms as [|m r IH]; [reflexivity|]. cbn [existsb forallb]. intros H.
  apply orb_false_iff in H. destruct H as [H1 H2]. rewrite H1, (IH H2). reflexivity.
Qed.
Lemma none_answers_existsb (ms : list vcmp) a b :
  existsb (fun e => answers e a b) ms = false -> existsb (fun e => answers e a b && says e a b) ms = false.
Proof.
  induction ms as [|m r IH]; [reflexivity|]. cbn [existsb]. intros H.
  apply orb_false_iff in H. destruct H as [H1 H2]. rewrite H1, (IH H2). reflexivity.
Qed.

Lemma leaf_of_value_and ms a b :
  leaf_of (value_and ms) a b =
  if existsb (fun e => answers e a b) ms then Some (forallb (fun e => negb (answers e a b) || says e a b) ms) else None.
Proof. unfold leaf_of. rewrite value_and_is_conj. reflexivity. Qed.
Lemma leaf_of_value_or ms a b :
  leaf_of (value_or ms) a b =
  if existsb (fun e => answers e a b) ms then Some (existsb (fun e => answers e a b && says e a b) ms) else None.
Proof. unfold leaf_of. rewrite value_or_is_disj. reflexivity. Qed.

Lemma leaf_of_value_and_single h a b : leaf_of (value_and [h]) a b = leaf_of h a b.
Proof.
  unfold leaf_of, value_and. cbn [value_and_go]. destruct (h a b) as [e [|]]; [destruct e|]; reflexivity.
Qed.

Lemma and_leaf (vs : list vcfg) a b :
  (forall v, In v vs -> leaf_of (model_v v) a b = ideal_v v a b) ->
  leaf_of (value_and (map model_v vs)) a b = leaf_and (map ideal_v vs) a b.
Proof.
  rewrite leaf_of_value_and. induction vs as [|v r IH]; intros H; [reflexivity|].
  cbn [map existsb forallb leaf_and].
  rewrite <- (H v (or_introl eq_refl)), <- IH by (intros w Hw; apply H; right; exact Hw).
  rewrite leaf_of_unfold. destruct (answers (model_v v) a b); cbn [orb negb andb].
  - destruct (existsb (fun e => answers e a b) (map model_v r)) eqn:E; [reflexivity|].
    rewrite (none_answers_forallb _ _ _ E), andb_true_r. reflexivity.
  - reflexivity.
Qed.

Lemma or_leaf (vs : list vcfg) a b :
  (forall v, In v vs -> leaf_of (model_v v) a b = ideal_v v a b) ->
  leaf_of (value_or (map model_v vs)) a b = leaf_or (map ideal_v vs) a b.
Proof.
  rewrite leaf_of_value_or. induction vs as [|v r IH]; intros H; [reflexivity|].
  cbn [map existsb leaf_or].
  rewrite <- (H v (or_introl eq_refl)), <- IH by (intros w Hw; apply H; right; exact Hw).
  rewrite leaf_of_unfold. destruct (answers (model_v v) a b); cbn [orb andb].
  - destruct (existsb (fun e => answers e a b) (map model_v r)) eqn:E; [reflexivity|].
    rewrite (none_answers_existsb _ _ _ E), orb_false_r. reflexivity.
  - reflexivity.
Qed.

Lemma all_none_and (vs : list vcfg) a b :
  (forall v, In v vs -> ideal_v v a b = None) -> leaf_and (map ideal_v vs) a b = None.
Proof.
  induction vs as [|v r IH]; intros H; [reflexivity|]. cbn [map leaf_and].
  rewrite (H v (or_introl eq_refl)). apply IH. intros w Hw. apply H. right. exact Hw.
Qed.
Lemma all_none_or (vs : list vcfg) a b :
  (forall v, In v vs -> ideal_v v a b = None) -> leaf_or (map ideal_v vs) a b = None.
Proof.
  induction vs as [|v r IH]; intros H; [reflexivity|]. cbn [map leaf_or].
  rewrite (H v (or_introl eq_refl)). apply IH. intros w Hw. apply H. right. exact Hw.
Qed.

Lemma answering_say_false_and (ms : list vcmp) a b :
  (forall m, In m ms -> answers m a b = true -> says m a b = false) ->
  existsb (fun e => answers e a b) ms = true ->
  forallb (fun e => negb (answers e a b) || says e a b) ms = false.
Proof.
  induction ms as [|m r IH]; intros H E; [discriminate E|]. cbn [existsb forallb] in *.
  destruct (answers m a b) eqn:A; cbn [negb orb] in *.
  - rewrite (H m (or_introl eq_refl) A). reflexivity.
  - rewrite IH; [apply andb_false_r| |exact E]. intros w Hw. apply H. right. exact Hw.
Qed.
Lemma answering_say_false_or (ms : list vcmp) a b :
  (forall m, In m ms -> answers m a b = true -> says m a b = false) ->
  existsb (fun e => answers e a b && says e a b) ms = false.
Proof.
  induction ms as [|m r IH]; intros H; [reflexivity|]. cbn [existsb].
  rewrite IH by (intros w Hw; apply H; right; exact Hw). rewrite orb_false_r.
  destruct (answers m a b) eqn:A; [|reflexivity]. rewrite (H m (or_introl eq_refl) A). reflexivity.
Qed.

(* the hereditary guard of a configuration: no DurationValueWithinP; no saturating Duration where
   a DurationValueWithin is configured *)
Definition cfg_nd (vs : list vcfg) : bool := negb (existsb is_dur vs).

Lemma lguard_weaken vs v a : In v vs -> lguard (cfg_nd vs) a = true -> lguard (negb (is_dur v)) a = true.
Proof.
  unfold lguard, cfg_nd. intros Hi H. apply andb_true_iff in H. destruct H as [V S]. rewrite V. cbn [andb].
  destruct (is_dur v) eqn:D; [|reflexivity]. cbn [negb orb].
  assert (E : existsb is_dur vs = true) by (apply existsb_exists; exists v; auto).
  rewrite E in S. exact S.
Qed.

Section Leaves.
  Variable vs : list vcfg.
  Hypothesis Gvs : forallb vcfg_guard vs = true.
  Hypothesis Ndp : existsb is_durp vs = false.

  Lemma comp_ok_in v a b : In v vs -> lguard (cfg_nd vs) a = true -> lguard (cfg_nd vs) b = true -> comp_ok v a b.
  Proof.
    intros Hi Ga Gb. apply comp_is_ideal.
    - rewrite forallb_forall in Gvs. apply Gvs. exact Hi.
    - destruct (is_durp v) eqn:E; [|reflexivity].
      assert (X : existsb is_durp vs = true) by (apply existsb_exists; exists v; auto). congruence.
    - apply (lguard_weaken vs); assumption.
    - apply (lguard_weaken vs); assumption.
  Qed.

  Lemma and_sim a b : lguard (cfg_nd vs) a = true -> lguard (cfg_nd vs) b = true ->
    leaf_sim (leaf_of (value_and (map model_v vs))) (leaf_and (map ideal_v vs)) a b.
  Proof.
    intros Ga Gb. unfold leaf_sim.
    assert (C : forall v, In v vs -> comp_ok v a b) by (intros v Hi; apply comp_ok_in; assumption).
    unfold comp_ok in C. destruct (ty_differs a b) eqn:D.
    - rewrite (all_none_and vs a b) by (intros v Hi; apply (C v Hi)).
      rewrite leaf_of_value_and.
      destruct (existsb (fun e => answers e a b) (map model_v vs)) eqn:E; [|left; reflexivity].
      right. split; [|split; reflexivity]. f_equal. apply answering_say_false_and; [|exact E].
      intros m Hm. apply in_map_iff in Hm. destruct Hm as (v & <- & Hi). apply (C v Hi).
    - left. apply and_leaf. exact C.
  Qed.

  Lemma or_sim a b : lguard (cfg_nd vs) a = true -> lguard (cfg_nd vs) b = true ->
    leaf_sim (leaf_of (value_and [value_or (map model_v vs)])) (leaf_or (map ideal_v vs)) a b.
  Proof.
    intros Ga Gb. unfold leaf_sim. rewrite leaf_of_value_and_single.
    assert (C : forall v, In v vs -> comp_ok v a b) by (intros v Hi; apply comp_ok_in; assumption).
    unfold comp_ok in C. destruct (ty_differs a b) eqn:D.
    - rewrite (all_none_or vs a b) by (intros v Hi; apply (C v Hi)).
      rewrite leaf_of_value_or.
      destruct (existsb (fun e => answers e a b) (map model_v vs)) eqn:E; [|left; reflexivity].
      right. split; [|split; reflexivity]. f_equal. apply answering_say_false_or.
      intros m Hm. apply in_map_iff in Hm. destruct Hm as (v & <- & Hi). apply (C v Hi).
    - left. apply or_leaf. exact C.
  Qed.
End Leaves.

(* ---------- combinator TREES (ValueAnd / ValueOr nested to any depth) against their ideal ---------- *)
Definition comp_ok_t (t : ctree vcfg) (a b : cval) : Prop :=
  if ty_differs a b
  then ideal_t t a b = None /\ (answers (model_t t) a b = true -> says (model_t t) a b = false)
  else leaf_of (model_t t) a b = ideal_t t a b.

Section GenLeaves.
  Variable A : Type.
  Variable mf : A -> vcmp.
  Variable idf : A -> cval -> cval -> option bool.

  Lemma and_leaf_gen (ts : list A) a b :
    (forall t, In t ts -> leaf_of (mf t) a b = idf t a b) ->
    leaf_of (value_and (map mf ts)) a b = leaf_and (map idf ts) a b.
  Proof.
    rewrite leaf_of_value_and. induction ts as [|v r IH]; intros H; [reflexivity|].
    cbn [map existsb forallb leaf_and].
    rewrite <- (H v (or_introl eq_refl)), <- IH by (intros w Hw; apply H; right; exact Hw).
    rewrite leaf_of_unfold. destruct (answers (mf v) a b); cbn [orb negb andb].
    - destruct (existsb (fun e => answers e a b) (map mf r)) eqn:E; [reflexivity|].
      rewrite (none_answers_forallb _ _ _ E), andb_true_r. reflexivity.
    - reflexivity.
  Qed.

  Lemma or_leaf_gen (ts : list A) a b :
    (forall t, In t ts -> leaf_of (mf t) a b = idf t a b) ->
    leaf_of (value_or (map mf ts)) a b = leaf_or (map idf ts) a b.
  Proof.
    rewrite leaf_of_value_or. induction ts as [|v r IH]; intros H; [reflexivity|].
    cbn [map existsb leaf_or].
    rewrite <- (H v (or_introl eq_refl)), <- IH by (intros w Hw; apply H; right; exact Hw).
    rewrite leaf_of_unfold. destruct (answers (mf v) a b); cbn [orb andb].
    - destruct (existsb (fun e => answers e a b) (map mf r)) eqn:E; [reflexivity|].
      rewrite (none_answers_existsb _ _ _ E), orb_false_r. reflexivity.
    - reflexivity.
  Qed.

  Lemma all_none_and_gen (ts : list A) a b :
    (forall t, In t ts -> idf t a b = None) -> leaf_and (map idf ts) a b = None.
  Proof.
    induction ts as [|v r IH]; intros H; [reflexivity|]. cbn [map leaf_and].
    rewrite (H v (or_introl eq_refl)). apply IH. intros w Hw. apply H. right. exact Hw.
  Qed.
  Lemma all_none_or_gen (ts : list A) a b :
    (forall t, In t ts -> idf t a b = None) -> leaf_or (map idf ts) a b = None.
  Proof.
    induction ts as [|v r IH]; intros H; [reflexivity|]. cbn [map leaf_or].
    rewrite (H v (or_introl eq_refl)). apply IH. intros w Hw. apply H. right. exact Hw.
  Qed.
End GenLeaves.

Lemma leaves_of_child (c : ctree vcfg) ts v : In c ts -> In v (tree_leaves c) -> In v (flat_map tree_leaves ts).
Proof. intros Hc Hv. apply in_flat_map. exists c. auto. Qed.

(* every leaf is its ideal on (a, b) => the whole tree is its ideal on (a, b) *)
Theorem tree_comp_ok : forall t a b, (forall v, In v (tree_leaves t) -> comp_ok v a b) -> comp_ok_t t a b.
Proof.
  intros t a b. induction t as [l|ts IH|ts IH] using ctree_ind'; intros H.
  - exact (H l (or_introl eq_refl)).
  - assert (C : forall c, In c ts -> comp_ok_t c a b).
    { intros c Hc. rewrite Forall_forall in IH. apply (IH c Hc). intros v Hv. apply H. cbn [tree_leaves].
      apply (leaves_of_child c); assumption. }
    clear IH H. unfold comp_ok_t in *. revert C. destruct (ty_differs a b); intros C.
    + split.
      * cbn [ideal_t]. apply all_none_and_gen. intros c Hc. apply (C c Hc).
      * intros Ans. unfold model_t in *. cbn [tree_cmp] in *. unfold says. unfold answers in Ans.
        rewrite value_and_is_conj in *. cbn [fst snd] in *.
        apply answering_say_false_and; [|exact Ans].
        intros m Hm. apply in_map_iff in Hm. destruct Hm as (c & <- & Hc). apply (C c Hc).
    + unfold model_t. cbn [tree_cmp ideal_t]. apply (and_leaf_gen _ (tree_cmp model_v) ideal_t). exact C.
  - assert (C : forall c, In c ts -> comp_ok_t c a b).
    { intros c Hc. rewrite Forall_forall in IH. apply (IH c Hc). intros v Hv. apply H. cbn [tree_leaves].
      apply (leaves_of_child c); assumption. }
    clear IH H. unfold comp_ok_t in *. revert C. destruct (ty_differs a b); intros C.
    + split.
      * cbn [ideal_t]. apply all_none_or_gen. intros c Hc. apply (C c Hc).
      * intros _. unfold model_t in *. cbn [tree_cmp] in *. unfold says.
        rewrite value_or_is_disj. cbn [fst].
        apply answering_say_false_or.
        intros m Hm. apply in_map_iff in Hm. destruct Hm as (c & <- & Hc). apply (C c Hc).
    + unfold model_t. cbn [tree_cmp ideal_t]. apply (or_leaf_gen _ (tree_cmp model_v) ideal_t). exact C.
Qed.

Lemma tree_sim t a b :
  forallb vcfg_guard (tree_leaves t) = true -> existsb is_durp (tree_leaves t) = false ->
  lguard (cfg_nd (tree_leaves t)) a = true -> lguard (cfg_nd (tree_leaves t)) b = true ->
  leaf_sim (leaf_of (value_and [model_t t])) (ideal_t t) a b.
Proof.
  intros G N Ga Gb. unfold leaf_sim. rewrite leaf_of_value_and_single.
  pose proof (tree_comp_ok t a b (fun v Hi => comp_ok_in (tree_leaves t) G N v a b Hi Ga Gb)) as C.
  unfold comp_ok_t in C. revert C. destruct (ty_differs a b); intros C.
  - destruct C as [C1 C2]. rewrite C1, leaf_of_unfold.
    destruct (answers (model_t t) a b) eqn:E; [|left; reflexivity].
    right. rewrite (C2 eq_refl). auto.
  - left. exact C.
Qed.

(* ---------- the theorem over message trees ---------- *)
(* the hypotheses on a top-level message: what the judge's guard says, and no saturating Duration
   where a DurationValueWithin is configured *)
Definition tree_ok (e : ecfg) (x : option cval) : bool :=
  opt_guard x && (cfg_nd (cfg_vs e) || negb (opt_wide x)).

Lemma top_parts nd a : wf a = true -> val_guard true a = true -> (nd || negb (has_wide_nanos a)) = true ->
  parts_ok (lguard nd) a.
Proof.
  intros W V S. destruct a as [s|ty v fs u|l|m]; try discriminate W; [exact I|]. cbn [parts_ok]. intros kv Hi.
  unfold lguard. rewrite (val_guard_CM _ _ _ _ _ _ V Hi). cbn [andb].
  destruct nd; [reflexivity|]. cbn [orb] in *. apply negb_true_iff in S. rewrite (has_sat_CM _ _ _ _ _ S Hi). reflexivity.
Qed.

Theorem model_is_ideal : forall e x y,
  ecfg_guard e = true -> has_durp e = false -> tree_ok e x = true -> tree_ok e y = true ->
  model_e e x y = ideal_e e x y.
Proof.
  intros e x y Ge Nd Tx Ty. unfold tree_ok in Tx, Ty.
  apply andb_true_iff in Tx. destruct Tx as [Gx Sx]. apply andb_true_iff in Ty. destruct Ty as [Gy Sy].
  assert (Wx : opt_wf x = true) by (destruct x as [a|]; [|reflexivity]; cbn in Gx |- *; apply andb_true_iff in Gx; tauto).
  assert (Wy : opt_wf y = true) by (destruct y as [a|]; [|reflexivity]; cbn in Gy |- *; apply andb_true_iff in Gy; tauto).
  unfold ecfg_guard, has_durp in Ge, Nd.
  destruct e as [vs|vs]; cbn [model_e ideal_e cfg_vs] in *; rewrite cmp_equal_is_spec by assumption;
    destruct x as [a|], y as [b|]; try reflexivity; cbn [spec_top]; f_equal;
    cbn [opt_guard opt_wide] in Gx, Gy, Sx, Sy;
    apply andb_true_iff in Gx; destruct Gx as [Wa Va]; apply andb_true_iff in Gy; destruct Gy as [Wb Vb].
  - apply (spec_congr ignored _ _ (lguard (cfg_nd vs)) (lguard_CM _) (lguard_CL _) (lguard_CMap _)).
    + intros p q Gp Gq. apply and_sim; assumption.
    + apply top_parts; assumption.
    + apply top_parts; assumption.
  - apply (spec_congr ignored _ _ (lguard (cfg_nd vs)) (lguard_CM _) (lguard_CL _) (lguard_CMap _)).
    + intros p q Gp Gq. apply or_sim; assumption.
    + apply top_parts; assumption.
    + apply top_parts; assumption.
Qed.

(* the same for cmp.Equal(t), t any combinator tree: the verdict on whole messages is the reference
   equality whose leaf is the tree's ideal (the ideal tolerances combined over the applicable members) *)
Theorem tree_model_is_ideal : forall t x y,
  ecfg_guard (EAnd (tree_leaves t)) = true -> has_durp (EAnd (tree_leaves t)) = false ->
  tree_ok (EAnd (tree_leaves t)) x = true -> tree_ok (EAnd (tree_leaves t)) y = true ->
  model_tree t x y = ideal_tree t x y.
Proof.
  intros t x y Ge Nd Tx Ty. unfold tree_ok in Tx, Ty.
  apply andb_true_iff in Tx. destruct Tx as [Gx Sx]. apply andb_true_iff in Ty. destruct Ty as [Gy Sy].
  assert (Wx : opt_wf x = true) by (destruct x as [a|]; [|reflexivity]; cbn in Gx |- *; apply andb_true_iff in Gx; tauto).
  assert (Wy : opt_wf y = true) by (destruct y as [a|]; [|reflexivity]; cbn in Gy |- *; apply andb_true_iff in Gy; tauto).
  unfold ecfg_guard, has_durp in Ge, Nd. cbn [cfg_vs] in *.
  unfold model_tree, ideal_tree. rewrite cmp_equal_is_spec by assumption.
  destruct x as [a|], y as [b|]; try reflexivity; cbn [spec_top]; f_equal;
    cbn [opt_guard opt_wide] in Gx, Gy, Sx, Sy;
    apply andb_true_iff in Gx; destruct Gx as [Wa Va]; apply andb_true_iff in Gy; destruct Gy as [Wb Vb].
  apply (spec_congr ignored _ _ (lguard (cfg_nd (tree_leaves t))) (lguard_CM _) (lguard_CL _) (lguard_CMap _)).
  - intros p q Gp Gq. apply tree_sim; assumption.
  - apply top_parts; assumption.
  - apply top_parts; assumption.
Qed.

Print Assumptions model_is_ideal.
Print Assumptions tree_model_is_ideal.
