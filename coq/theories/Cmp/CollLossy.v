(* Collection.Pull WITHOUT backpressure, under an equivalence: the events a subscription's loop is
   handed are not the writes but what mergeCollectionExcess makes of them while the reader is behind
   (REMOVE + ADD of one id folded into a REPLACE that keeps the FIRST old value, UPDATE runs folded,
   ADD + REMOVE dropped).  This file composes the model of that stage -- Excess/MergeExcess.v m_run,
   C09's model of record, on changes whose ids and values are tokens -- with the held-map loop of
   Resource/Pull.v: the writes of a history become token changes, the merge stage runs on them under
   the schedule the harness forces (below), its output is decoded back to events on message trees
   and fed to pull_collection_held.  Model only, no proofs.

   Schedule of one PHASE (harness/c16/lossy.go): a first write (the "plug", an id of its own whose
   change no equivalence suppresses) is taken by the subscription's loop, which parks on its send
   because the reader does not receive; the remaining writes of the phase pile up in the merge
   stage; the reader then drains everything.  As actions of the merge stage:
       Send plug; Recv; Send w1; ...; Send wn; Recv x n
   (if the loop takes the plug only after w1.. have arrived the result is the same: the plug has an
   id of its own and is at the head of the queue).

   REPLACE has no counterpart in Resource/Impl.v's [kind] (shared with C03/C04/C08); the loop of
   Collection.Pull never looks at the kind of a change, so for the held-map model of record a REPLACE is
   carried as KUpdate (old and new value present).  The ChangeType the subscriber is SENT is modelled on
   top of that, in this file: [c_forward_held_k] is the same loop on events that carry the merge stage's
   kind (ADD / UPDATE / REMOVE / REPLACE as numbered by types.ChangeType), hands on that kind unless
   include rewrote the change into an ADD or a REMOVE, and erases to the model of record
   (CollLossyProofs.c_forward_held_k_erase). *)
From SC Require Import Base.Prelude Cmp.Cmp Resource.Impl Resource.Pull.
From SC Require Excess.Change Excess.MergeExcess.

Definition lop : Type := string * option cval.

Section Assoc.
  Variable V : Type.
  Fixpoint as_get (id : string) (l : list (string * V)) : option V :=
    match l with [] => None | (k, v) :: r => if String.eqb k id then Some v else as_get id r end.
  Fixpoint as_set (id : string) (v : V) (l : list (string * V)) : list (string * V) :=
    match l with
    | [] => [(id, v)]
    | (k, x) :: r => if String.eqb k id then (id, v) :: r else (k, x) :: as_set id v r
    end.
  Fixpoint as_del (id : string) (l : list (string * V)) : list (string * V) :=
    match l with [] => [] | (k, x) :: r => if String.eqb k id then as_del id r else (k, x) :: as_del id r end.
End Assoc.
Arguments as_get {V} id l.
Arguments as_set {V} id v l.
Arguments as_del {V} id l.

(* ids as numbers: the position of the first occurrence in [ids] *)
Fixpoint id_code (id : string) (ids : list string) : Z :=
  match ids with [] => 0 | k :: r => if String.eqb k id then 0 else 1 + id_code id r end.

(* values as tokens: the initial values are 0 .. n-1, the k-th stored value after that is n+k *)
Fixpoint init_tokens (init : list (string * cval)) (k : Z) : list (string * Z) :=
  match init with [] => [] | (id, _) :: r => (id, k) :: init_tokens r (k + 1) end.
Definition stored_values (ops : list lop) : list cval :=
  flat_map (fun o : lop => match snd o with Some v => [v] | None => [] end) ops.

(* the CollectionChange each successful write publishes ([cur]: id -> token of the stored value) *)
Fixpoint changes_of (ids : list string) (cur : list (string * Z)) (next : Z) (ops : list lop) : list Change.change :=
  match ops with
  | [] => []
  | (id, Some _) :: r =>
      let old := as_get id cur in
      Change.mkChange (id_code id ids) (match old with Some _ => Change.K_UPDATE | None => Change.K_ADD end)
                      old (Some next) 0 false false
      :: changes_of ids (as_set id next cur) (next + 1) r
  | (id, None) :: r =>
      Change.mkChange (id_code id ids) Change.K_REMOVE (as_get id cur) None 0 false false
      :: changes_of ids (as_del id cur) next r
  end.

Definition phase_actions (cs : list Change.change) : list MergeExcess.action :=
  match cs with
  | [] => []
  | p :: rest =>
      MergeExcess.Send p :: MergeExcess.Recv :: map MergeExcess.Send rest ++ repeat MergeExcess.Recv (List.length rest)
  end.

Fixpoint split_phases (lens : list nat) (cs : list Change.change) : list (list Change.change) :=
  match lens with [] => [] | n :: r => firstn n cs :: split_phases r (skipn n cs) end.

Definition tok_val (tbl : list cval) (t : Z) : cval := nth (Z.to_nat t) tbl (CL []).

Definition decode (ids : list string) (tbl : list cval) (c : Change.change) : cevent cval :=
  mkCE (nth (Z.to_nat (Change.cid c)) ids ""%string) (Change.ctime c)
       (if Change.ckind c =? Change.K_ADD then KAdd else if Change.ckind c =? Change.K_REMOVE then KRemove else KUpdate)
       (option_map (tok_val tbl) (Change.cold c)) (option_map (tok_val tbl) (Change.cnew c)).

(* what the merge stage hands to the subscription's loop over the whole history *)
Definition merged_changes (init : list (string * cval)) (phases : list (list lop)) : list Change.change :=
  let ops := List.concat phases in
  let ids := map fst init ++ map fst ops in
  let cs := changes_of ids (init_tokens init 0) (Z.of_nat (List.length init)) ops in
  let acts := flat_map phase_actions (split_phases (map (@List.length lop) phases) cs) in
  MergeExcess.got_of (snd (MergeExcess.m_run MergeExcess.m_init acts)).

Definition merged_events (init : list (string * cval)) (phases : list (list lop)) : list (cevent cval) :=
  let ops := List.concat phases in
  map (decode (map fst init ++ map fst ops) (map snd init ++ stored_values ops)) (merged_changes init phases).

(* ---------- the ChangeType of what is delivered: REPLACE as a kind of its own ---------- *)
Definition kind_code (k : kind) : Z :=
  match k with KAdd => Change.K_ADD | KUpdate => Change.K_UPDATE | KRemove => Change.K_REMOVE end.
Definition kind_eqb (a b : kind) : bool :=
  match a, b with KAdd, KAdd | KUpdate, KUpdate | KRemove, KRemove => true | _, _ => false end.
(* change.go include rewrites the type only when the inclusion of the item changed (ADD: it came into the
   included set, REMOVE: it left it); otherwise the change goes out with the type it came with *)
Definition wire_kind (src : Z) (e : cevent cval) (c : cchange cval) : Z :=
  if kind_eqb (cc_kind c) (ce_kind e) then src else kind_code (cc_kind c).

Section KindLoop.
  Variable rmask : Type.
  Variable r_filter : rmask -> cval -> cval.
  Variable cmp : option cval -> option cval -> bool.
  Fixpoint c_forward_held_k (ro : ropts cval rmask) (h : heldmap cval) (evs : list (cevent cval * Z))
    : list (cchange cval * Z) :=
    match evs with
    | [] => []
    | (e, src) :: r =>
        match include_gen false false (ro_include ro) (of_event e) with
        | None => c_forward_held_k ro h r
        | Some c =>
            let c' := cc_filter r_filter ro c in
            let '(send, h') := held_step cmp h c' in
            if send then (c', wire_kind src e c') :: c_forward_held_k ro h' r else c_forward_held_k ro h' r
        end
    end.
  (* seeds go out as ADD *)
  Definition pull_collection_held_k (s : cstate cval) (ro : ropts cval rmask) (evs : list (cevent cval * Z))
    : list (cchange cval * Z) :=
    let sd := if ro_updates_only ro then [] else seeds r_filter ro (included ro (c_items s)) in
    map (fun c => (c, Change.K_ADD)) sd ++ c_forward_held_k ro (held_of_seeds sd) evs.
End KindLoop.

Definition merged_events_k (init : list (string * cval)) (phases : list (list lop)) : list (cevent cval * Z) :=
  let ops := List.concat phases in
  map (fun c => (decode (map fst init ++ map fst ops) (map snd init ++ stored_values ops) c, Change.ckind c))
      (merged_changes init phases).
