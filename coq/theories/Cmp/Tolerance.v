(* Model of /repo/pkg/cmp/number.go and time.go: the tolerance comparers, with Go's arithmetic
   made explicit.

   Floats: finite values are exact rationals; the operations the comparer uses (x-y, Abs, Min, Max,
   fraction*m, <=) are modelled exactly on them and by IEEE rules on NaN / +-Inf.  This is the
   float64 result whenever no operation rounds or overflows, which the correspondence guard
   ensures by restricting values, fraction and margin to small dyadic rationals.
   Timestamps: AsTime = time.Unix(seconds, nanos) with its normalisation of nanos and the int64
   offset to the internal epoch; Before; Sub with its saturation.  Durations: DurationValueWithin on the (seconds, nanos)
   fields (durationsWithin); AsDuration with its saturation for DurationValueWithinP and for the two earlier kernels.  DurationValueWithinP: float32(xd)/float32(yd) with both roundings (to nearest even at 24 bits)
   computed in integers.  No proofs here. *)
From Coq Require Import QArith Qabs Qminmax.
From SC Require Import Base.Prelude Cmp.Cmp.
Open Scope Z_scope.

(* ---------- float operations of math and of the Go language on [fl] ---------- *)
Definition fl_sub (a b : fl) : fl :=
  match a, b with
  | FNaN, _ | _, FNaN => FNaN
  | FFin p, FFin q => FFin (p - q)
  | FInf n, FInf m => if Bool.eqb n m then FNaN else FInf n
  | FInf n, FFin _ => FInf n
  | FFin _, FInf m => FInf (negb m)
  end.
Definition fl_abs (a : fl) : fl :=
  match a with FNaN => FNaN | FInf _ => FInf false | FFin p => FFin (Qabs p) end.
Definition fl_lt (a b : fl) : bool :=               (* a < b *)
  match a, b with
  | FNaN, _ | _, FNaN => false
  | FFin p, FFin q => negb (Qle_bool q p)
  | FInf n, FInf m => n && negb m
  | FInf n, FFin _ => n
  | FFin _, FInf m => negb m
  end.
Definition fl_le (a b : fl) : bool :=               (* a <= b *)
  match a, b with
  | FNaN, _ | _, FNaN => false
  | FFin p, FFin q => Qle_bool p q
  | FInf n, FInf m => n || negb m
  | FInf n, FFin _ => n
  | FFin _, FInf m => negb m
  end.
(* math.Min: -Inf if either is -Inf, NaN if either is NaN, else the smaller *)
Definition fl_min (a b : fl) : fl :=
  match a, b with
  | FInf true, _ | _, FInf true => FInf true
  | FNaN, _ | _, FNaN => FNaN
  | _, _ => if fl_lt a b then a else b
  end.
(* math.Max: +Inf if either is +Inf (even against NaN), NaN if either is NaN, else the larger *)
Definition fl_max (a b : fl) : fl :=
  match a, b with
  | FInf false, _ | _, FInf false => FInf false
  | FNaN, _ | _, FNaN => FNaN
  | _, _ => if fl_lt b a then a else b
  end.
(* q * a for a finite factor q *)
Definition fl_scale (q : Q) (a : fl) : fl :=
  match a with
  | FNaN => FNaN
  | FFin p => FFin (q * p)
  | FInf n => if Qeq_bool q 0 then FNaN else FInf (xorb n (negb (Qle_bool 0 q)))
  end.

(* the arithmetic of FloatValueApprox *)
Definition approx_arith (fraction margin : Q) (a b : fl) : bool :=
  let rel := fl_scale fraction (fl_min (fl_abs a) (fl_abs b)) in
  fl_le (fl_abs (fl_sub a b)) (fl_max (FFin margin) rel).

Definition fl_is_inf (a : fl) : bool := match a with FInf _ => true | _ => false end.

(* [special_v0]: the pinned commit went straight to the arithmetic, which says false for NaN
   against NaN and for an infinity against itself, and true for +Inf against -Inf when
   fraction > 0 *)
Definition fl_approx_gen (special_v0 : bool) (fraction margin : Q) (a b : fl) : bool :=
  if special_v0 then approx_arith fraction margin a b
  else if fl_go_eq a b || (fl_is_nan a && fl_is_nan b) then true
  else if fl_is_inf a || fl_is_inf b then false
  else approx_arith fraction margin a b.

Definition float_approx_gen (special_v0 : bool) (fraction margin : Q) : vcmp := fun x y =>
  match x, y with
  | CS (CF32 a), CS (CF32 b) | CS (CF64 a), CS (CF64 b) => (fl_approx_gen special_v0 fraction margin a b, true)
  | _, _ => (false, false)           (* fd.Kind() is neither FloatKind nor DoubleKind *)
  end.
Definition float_approx := float_approx_gen false.
Definition float_approx_v0 := float_approx_gen true.

(* ---------- well-known types ---------- *)
Definition ts_full : string := "google.protobuf.Timestamp".
Definition dur_full : string := "google.protobuf.Duration".
Definition get_int (k : string) (fs : list (string * cval)) : Z :=
  match flookup k fs with Some (CS (CInt z)) => z | _ => 0 end.

Definition min_dur : Z := -9223372036854775808.
Definition max_dur : Z := 9223372036854775807.
Definition giga : Z := 1000000000.

(* time.Unix(sec, nsec): internal (seconds since year 1, nanoseconds in [0, 1e9)) *)
Definition as_time (fs : list (string * cval)) : Z * Z :=
  let s := get_int "seconds" fs in
  let n := get_int "nanos" fs in
  let '(s1, n1) :=
    if (n <? 0) || (giga <=? n) then
      let q := Z.quot n giga in
      let s' := wrap64 (s + q) in
      let n' := n - q * giga in
      if n' <? 0 then (wrap64 (s' - 1), n' + giga) else (s', n')
    else (s, n) in
  (wrap64 (s1 + 62135596800), n1).
Definition time_before (t u : Z * Z) : bool :=
  (fst t <? fst u) || ((fst t =? fst u) && (snd t <? snd u)).
(* Time.Sub: the exact difference if it fits a Duration, else saturated *)
Definition time_sub (t u : Z * Z) : Z :=
  let d := (fst t - fst u) * giga + (snd t - snd u) in
  if in64 d then d else if time_before t u then min_dur else max_dur.

(* the common prologue of the three well-known-type comparers (time.go): which pairs they own *)
Definition wkt_cases (full : string) (x y : cval)
           (k : list (string * cval) -> list (string * cval) -> bool) : bool * bool :=
  match x, y with
  | CM tx vx fx _, CM ty vy fy _ =>
      let xi := String.eqb tx full in
      let yi := String.eqb ty full in
      if negb xi && negb yi then (false, false)
      else if xorb xi yi then (false, true)
      else if negb vx || negb vy then (Bool.eqb vx vy, true)
      else (k fx fy, true)
  | _, _ => (false, false)          (* fd.Kind() != MessageKind *)
  end.

Definition time_within (d : Z) : vcmp := fun x y =>
  wkt_cases ts_full x y (fun fx fy =>
    let xt := as_time fx in
    let yt := as_time fy in
    if time_before xt yt then time_sub yt xt <=? d else time_sub xt yt <=? d).

(* durationpb.AsDuration *)
Definition as_duration (fs : list (string * cval)) : Z :=
  let secs := get_int "seconds" fs in
  let nanos := get_int "nanos" fs in
  let d := wrap64 (secs * giga) in
  let o1 := negb (Z.quot d giga =? secs) in
  let d' := wrap64 (d + nanos) in
  let o2 := (secs <? 0) && (nanos <? 0) && (0 <? d') in
  let o3 := (0 <? secs) && (0 <? nanos) && (d' <? 0) in
  if o1 || o2 || o3 then
    if secs <? 0 then min_dur else if 0 <? secs then max_dur else d'
  else d'.

(* the kernels of DurationValueWithin before /repo's (seconds, nanos) repair: both went through AsDuration.
   [wrap_v0]: the pinned commit subtracted in int64; otherwise absDiff (exact on the two SATURATED values) *)
Definition dur_close_gen (wrap_v0 : bool) (d xd yd : Z) : bool :=
  if wrap_v0 then
    if xd <? yd then wrap64 (yd - xd) <=? d else wrap64 (xd - yd) <=? d
  else (0 <=? d) && (Z.abs (xd - yd) <=? d).

Definition duration_within_gen (wrap_v0 : bool) (d : Z) : vcmp := fun x y =>
  wkt_cases dur_full x y (fun fx fy => dur_close_gen wrap_v0 d (as_duration fx) (as_duration fy)).
Definition duration_within_v1 := duration_within_gen false.   (* AsDuration, saturating beyond +-292 years *)
Definition duration_within_v0 := duration_within_gen true.    (* AsDuration and a wrapping difference *)

(* durationsWithin (time.go), the current kernel: |x - y| <= d computed on the seconds and nanos fields.
   [dur_sn_ordered]: after the swap (xs >= ys).  Every operation is written on Z; [dur_sn_ordered_go] is the
   same function with each Go operation reduced as Go reduces it (uint64 conversions and arithmetic mod
   2^64, the int64 subtraction of the nanos wrapped): ToleranceProofs.dur_sn_no_wrap proves them equal for
   int64 seconds, int32 nanos and 0 <= d <= MaxInt64, i.e. no operation of the code wraps. *)
Definition max_dur_seconds : Z := 9223372041.          (* math.MaxInt64/uint64(time.Second) + 5 *)
Definition dur_sn_ordered (d xs xn ys yn : Z) : bool :=
  let ds := xs - ys in
  if max_dur_seconds <? ds then false
  else
    let ns := ds * giga in
    let dn := xn - yn in
    if 0 <=? dn then ns + dn <=? d
    else if - dn <=? ns then ns - - dn <=? d
    else - dn - ns <=? d.
Definition dur_sn_close (d xs xn ys yn : Z) : bool :=
  if xs <? ys then dur_sn_ordered d ys yn xs xn else dur_sn_ordered d xs xn ys yn.

Definition wrapu64 (z : Z) : Z := z mod 18446744073709551616.
Definition dur_sn_ordered_go (d xs xn ys yn : Z) : bool :=
  let ds := wrapu64 (wrapu64 xs - wrapu64 ys) in
  if max_dur_seconds <? ds then false
  else
    let ns := wrapu64 (ds * giga) in
    let dn := wrap64 (xn - yn) in
    if 0 <=? dn then wrapu64 (ns + wrapu64 dn) <=? wrapu64 d
    else if wrapu64 (wrap64 (- dn)) <=? ns then wrapu64 (ns - wrapu64 (wrap64 (- dn))) <=? wrapu64 d
    else wrapu64 (wrapu64 (wrap64 (- dn)) - ns) <=? wrapu64 d.
Definition dur_sn_close_go (d xs xn ys yn : Z) : bool :=
  if xs <? ys then dur_sn_ordered_go d ys yn xs xn else dur_sn_ordered_go d xs xn ys yn.

Definition dur_sn_kernel (d : Z) (fx fy : list (string * cval)) : bool :=
  (0 <=? d) && dur_sn_close d (get_int "seconds" fx) (get_int "nanos" fx) (get_int "seconds" fy) (get_int "nanos" fy).
Definition duration_within (d : Z) : vcmp := fun x y => wkt_cases dur_full x y (dur_sn_kernel d).

(* ---------- float32 arithmetic of DurationValueWithinP, in integers ---------- *)
(* float32(z) for an int64 z: round to nearest even at 24 significant bits (never overflows, never
   subnormal): the value as an integer *)
Definition f32_of_Z (z : Z) : Z :=
  let a := Z.abs z in
  if a <? 16777216 then z
  else
    let e := Z.log2 a - 23 in
    let q := Z.shiftr a e in
    let r := a - Z.shiftl q e in
    let half := Z.shiftl 1 (e - 1) in
    let q' := if (half <? r) || ((r =? half) && Z.odd q) then q + 1 else q in
    Z.sgn z * Z.shiftl q' e.
(* the float32 quotient n / d of two positive integers (both float32 values; the quotient lies
   between 1e-20 and 1e19, so it is a normal float32): (m, e) with value m * 2^e, m < 2^24 rounded to
   nearest even *)
Definition f32_quot (n d : Z) : Z * Z :=
  let e0 := Z.log2 n - Z.log2 d - 24 in
  let scaled (e : Z) := if 0 <=? e then (n, Z.shiftl d e) else (Z.shiftl n (- e), d) in
  let e := if 16777216 <=? fst (scaled e0) / snd (scaled e0) then e0 + 1 else e0 in
  let '(num, den) := scaled e in
  let m := num / den in
  let r := num - m * den in
  let m' := if (den <? 2 * r) || ((2 * r =? den) && Z.odd m) then m + 1 else m in
  (m', e).
(* m * 2^e < p *)
Definition scaled_lt (me : Z * Z) (p : Q) : bool :=
  let '(m, e) := me in
  let v := if 0 <=? e then inject_Z (Z.shiftl m e) else Qmake m (Z.to_pos (Z.shiftl 1 (- e))) in
  negb (Qle_bool p v).

(* DurationValueWithinP: pd := float32(xd) / float32(yd); if pd < 0 { pd = -pd }; pd < p.  A zero
   divisor gives +-Inf or NaN, never below p; p is a float32 (the guard: exactly representable). *)
Definition dur_ratio_lt (p : Q) (xd yd : Z) : bool :=
  let x := Z.abs (f32_of_Z xd) in
  let y := Z.abs (f32_of_Z yd) in
  if y =? 0 then false
  else if x =? 0 then negb (Qle_bool p 0)
  else scaled_lt (f32_quot x y) p.
(* the exact ratio, which the float32 computation approximates *)
Definition dur_ratio_exact_lt (p : Q) (xd yd : Z) : bool :=
  if yd =? 0 then false
  else negb (Qle_bool p (Qabs (inject_Z xd / inject_Z yd))).
Definition duration_within_p (p : Q) : vcmp := fun x y =>
  wkt_cases dur_full x y (fun fx fy => dur_ratio_lt p (as_duration fx) (as_duration fy)).
