(* FloatValueApprox of /repo/pkg/cmp/number.go on ACTUAL binary64 arithmetic (Flocq), next to the
   exact-rational model of Tolerance.v.

   binary64 here is Flocq's [BinarySingleNaN.binary_float 53 1024]: the IEEE-754 double format with
   one NaN (Go code cannot observe NaN payloads through ==, <=, math.IsNaN, math.Min, math.Max,
   math.Abs).  Subtraction and multiplication are the IEEE operations rounded to nearest-even
   ([Bminus]/[Bmult] with [mode_NE]), including signed zeros, subnormals, overflow to infinity,
   Inf-Inf = NaN and 0*Inf = NaN.  [==], [<], [<=] are the IEEE comparisons ([Beqb]/[Bltb]/[Bleb]:
   false on NaN, +0 == -0).

   [b64_of_fl] / [fl_of_b64] connect the [fl] values of Cmp.v (exact rationals, NaN, +-Inf) with
   binary64; FloatB64Proofs.v proves that on small dyadic values the binary64 comparer and the
   rational comparer of Tolerance.v agree ([b64_approx_exact]), and that the binary64 comparer is
   reflexive and symmetric on EVERY binary64 input.
   Definitions only; no proofs here (the two closed proof terms below are [eq_refl]). *)
From Coq Require Import ZArith QArith Qabs Bool.
From Flocq Require Import Core.Core IEEE754.BinarySingleNaN.
From SC Require Import Base.Prelude Cmp.Cmp Cmp.Tolerance.
Open Scope Z_scope.

(* ---------- the format ---------- *)
Definition b64_prec : Z := 53.
Definition b64_emax : Z := 1024.
Definition b64_prec_gt_0 : Prec_gt_0 53 := eq_refl.
Definition b64_prec_lt_emax : Prec_lt_emax 53 1024 := eq_refl.

Definition binary64 : Type := binary_float 53 1024.

Definition b64_nan : binary64 := B754_nan.
Definition b64_inf (neg : bool) : binary64 := B754_infinity neg.
Definition b64_zero (neg : bool) : binary64 := B754_zero neg.

(* Go's float64 [-] and [*]: IEEE, round to nearest even *)
Definition b64_minus : binary64 -> binary64 -> binary64 :=
  @Bminus 53 1024 b64_prec_gt_0 b64_prec_lt_emax mode_NE.
Definition b64_mult : binary64 -> binary64 -> binary64 :=
  @Bmult 53 1024 b64_prec_gt_0 b64_prec_lt_emax mode_NE.
Definition b64_div : binary64 -> binary64 -> binary64 :=
  @Bdiv 53 1024 b64_prec_gt_0 b64_prec_lt_emax mode_NE.
(* the binary64 nearest (ties to even) to m * 2^e; +0 for m = 0; +-Inf on overflow *)
Definition b64_normalize (m e : Z) : binary64 :=
  binary_normalize 53 1024 b64_prec_gt_0 b64_prec_lt_emax mode_NE m e false.

(* Go's [==], [<], [<=] on float64 *)
Definition b64_eq (x y : binary64) : bool := Beqb x y.
Definition b64_lt (x y : binary64) : bool := Bltb x y.
Definition b64_le (x y : binary64) : bool := Bleb x y.

(* math.IsNaN(x); math.IsInf(x, 0); math.IsInf(x, -1) / math.IsInf(x, 1); math.Signbit; math.Abs *)
Definition b64_is_nan (x : binary64) : bool := is_nan x.
Definition b64_is_inf (x : binary64) : bool :=
  match x with B754_infinity _ => true | _ => false end.
Definition b64_is_inf_sign (neg : bool) (x : binary64) : bool :=
  match x with B754_infinity s => Bool.eqb s neg | _ => false end.
Definition b64_signbit (x : binary64) : bool := Bsign x.
Definition b64_abs (x : binary64) : binary64 := Babs x.

(* math.Min (src/math/dim.go):
     case IsInf(x, -1) || IsInf(y, -1): return Inf(-1)
     case IsNaN(x) || IsNaN(y):         return NaN()
     case x == 0 && x == y:             if Signbit(x) { return x }; return y
     if x < y { return x }; return y *)
Definition go_min (x y : binary64) : binary64 :=
  if b64_is_inf_sign true x || b64_is_inf_sign true y then b64_inf true
  else if b64_is_nan x || b64_is_nan y then b64_nan
  else if b64_eq x (b64_zero false) && b64_eq x y then (if b64_signbit x then x else y)
  else if b64_lt x y then x else y.

(* math.Max:
     case IsInf(x, 1) || IsInf(y, 1): return Inf(1)
     case IsNaN(x) || IsNaN(y):       return NaN()
     case x == 0 && x == y:           if Signbit(x) { return y }; return x
     if x > y { return x }; return y *)
Definition go_max (x y : binary64) : binary64 :=
  if b64_is_inf_sign false x || b64_is_inf_sign false y then b64_inf false
  else if b64_is_nan x || b64_is_nan y then b64_nan
  else if b64_eq x (b64_zero false) && b64_eq x y then (if b64_signbit x then y else x)
  else if b64_lt y x then x else y.

(* ---------- FloatValueApprox(fraction, margin) on two float64 values ----------
     if fx == fy || (math.IsNaN(fx) && math.IsNaN(fy)) { return true, true }
     if math.IsInf(fx, 0) || math.IsInf(fy, 0) { return false, true }
     relMarg := fraction * math.Min(math.Abs(fx), math.Abs(fy))
     return math.Abs(fx-fy) <= math.Max(margin, relMarg), true *)
Definition b64_approx (fraction margin x y : binary64) : bool :=
  if b64_eq x y || (b64_is_nan x && b64_is_nan y) then true
  else if b64_is_inf x || b64_is_inf y then false
  else
    let relMarg := b64_mult fraction (go_min (b64_abs x) (b64_abs y)) in
    b64_le (b64_abs (b64_minus x y)) (go_max margin relMarg).

(* ---------- between [fl] and binary64 ---------- *)
Definition pow2 (p : positive) : bool := (Z.pos p =? 2 ^ Z.log2 (Z.pos p)).

(* The binary64 of a rational n/d.
   d = 2^k: the binary64 nearest (ties to even) to n * 2^-k, one correctly rounded step; this is
   EXACT whenever n/d is a binary64 value, and every float64 is of this form.
   d not a power of two (never produced from a float64; kept so that the function is total): n and d
   are each rounded to binary64 and divided in binary64: up to three roundings, so not always the
   nearest binary64 to n/d.  Nothing is proved about this branch. *)
Definition b64_of_Q (q : Q) : binary64 :=
  let n := Qnum q in
  let d := Qden q in
  if pow2 d then b64_normalize n (- Z.log2 (Z.pos d))
  else b64_div (b64_normalize n 0) (b64_normalize (Z.pos d) 0).

Definition b64_of_fl (a : fl) : binary64 :=
  match a with
  | FNaN => b64_nan
  | FInf neg => b64_inf neg
  | FFin q => b64_of_Q q
  end.

(* exact: the rational value of a finite binary64 (both zeros give 0) *)
Definition Q_of_finite (s : bool) (m : positive) (e : Z) : Q :=
  let n := if s then Z.neg m else Z.pos m in
  match e with
  | Z0 => Qmake n 1
  | Zpos k => Qmake (n * 2 ^ Z.pos k) 1
  | Zneg k => Qmake n (2 ^ k)%positive
  end.
Definition fl_of_b64 (x : binary64) : fl :=
  match x with
  | B754_nan => FNaN
  | B754_infinity s => FInf s
  | B754_zero _ => FFin 0
  | B754_finite s m e _ => FFin (Q_of_finite s m e)
  end.

(* FloatValueApprox with fraction and margin given as rationals and the operands as [fl]: all four
   converted to binary64, then the binary64 code *)
Definition fl_approx_b64 (fraction margin : Q) (a b : fl) : bool :=
  b64_approx (b64_of_fl (FFin fraction)) (b64_of_fl (FFin margin)) (b64_of_fl a) (b64_of_fl b).

(* the value comparer, as [float_approx_gen] of Tolerance.v *)
Definition float_approx_b64 (fraction margin : Q) : vcmp := fun x y =>
  match x, y with
  | CS (CF32 a), CS (CF32 b) | CS (CF64 a), CS (CF64 b) => (fl_approx_b64 fraction margin a b, true)
  | _, _ => (false, false)           (* fd.Kind() is neither FloatKind nor DoubleKind *)
  end.

(* ---------- the guard of the exact-arithmetic modelling (as in C16Judge.v) ---------- *)
(* a small dyadic rational: every operation of FloatValueApprox on such values is exact in float64
   (and the values are exact in float32) *)
Definition small_dyadic (q : Q) : bool :=
  pow2 (Qden q) && (Z.pos (Qden q) <=? 1024) && (Z.abs (Qnum q) <=? 1048576).
Definition fl_small (a : fl) : bool := match a with FFin q => small_dyadic q | _ => true end.
Definition val_small (x : cval) : bool :=
  match x with CS (CF32 a) | CS (CF64 a) => fl_small a | _ => true end.
