(* The theorems about Collection.Pull's held map (held_is_ideal, coll_pull_held_exact / _seeded /
   _updates_only, ideal_last_delivered, offered_chained, v0_is_ideal_for_equivalence_relations,
   c_forward_gen_is_held_for_equivalence_relations, ...) now live in Resource/HeldProofs.v together
   with the model (Resource/Pull.v); re-exported here under the same names. *)
From SC Require Export Resource.HeldProofs.
