(* The judge's whole-collection cases (KColl): when the observation is the model's (pull_collection_held
   on the events derived from the operations) and the guard holds, the delivered (id, new value) stream is
   "delivered iff not ideally equivalent to what the subscriber holds for that id", computed straight from
   the operations (C16Judge.ideal_coll: no include / filter / held map).  Built on the general theorems of
   CollEquivProofs.v and on model_is_ideal. *)
From Coq Require Import QArith.
From SC Require Import Base.Prelude Cmp.Cmp Cmp.Logic Cmp.Tolerance Cmp.FloatB64 Cmp.GoTime Cmp.Spec Cmp.CmpProofs
  Cmp.CollEquiv Cmp.CollEquivProofs Cmp.C16Judge Cmp.TreeProofs Cmp.JudgeProofs Resource.Impl Resource.Pull.
Open Scope Z_scope.

(* ---------- association lists ---------- *)
Lemma alookup_aset_same id v l : alookup id (aset id v l) = Some v.
Proof.
  induction l as [|[k x] r IH]; cbn [aset alookup]; [rewrite String.eqb_refl; reflexivity|].
  destruct (String.eqb k id) eqn:E; cbn [alookup]; rewrite ?String.eqb_refl, ?E; auto.
Qed.
Lemma alookup_aset_other q id v l : String.eqb q id = false -> alookup q (aset id v l) = alookup q l.
Proof.
  intros N. induction l as [|[k x] r IH]; cbn [aset alookup].
  - rewrite String.eqb_sym, N. reflexivity.
  - destruct (String.eqb k id) eqn:E; cbn [alookup].
    + apply String.eqb_eq in E. subst k. rewrite (String.eqb_sym id q), N. reflexivity.
    + destruct (String.eqb k q); auto.
Qed.
Lemma alookup_adel_same id l : alookup id (adel id l) = None.
Proof.
  induction l as [|[k x] r IH]; cbn [adel alookup]; [reflexivity|].
  destruct (String.eqb k id) eqn:E; cbn [alookup]; rewrite ?E; auto.
Qed.
Lemma alookup_adel_other q id l : String.eqb q id = false -> alookup q (adel id l) = alookup q l.
Proof.
  intros N. induction l as [|[k x] r IH]; cbn [adel alookup]; [reflexivity|].
  destruct (String.eqb k id) eqn:E; cbn [alookup].
  - apply String.eqb_eq in E. subst k. rewrite (String.eqb_sym id q), N. exact IH.
  - destruct (String.eqb k q); auto.
Qed.

Definition curv (cur : list (string * cval)) : view cval := fun id => alookup id cur.
Definition upd_list (id : string) (nv : option cval) (l : list (string * cval)) : list (string * cval) :=
  match nv with Some v => aset id v l | None => adel id l end.
Lemma curv_upd id nv l k : curv (upd_list id nv l) k = vupd id nv (curv l) k.
Proof.
  unfold curv, vupd. destruct (String.eqb k id) eqn:E.
  - apply String.eqb_eq in E. subst k. destruct nv; cbn [upd_list]; [apply alookup_aset_same|apply alookup_adel_same].
  - destruct nv; cbn [upd_list]; [apply alookup_aset_other|apply alookup_adel_other]; exact E.
Qed.

(* ---------- pointwise-equal views ---------- *)
Lemma ev_chained_from_ext : forall (evs : list (cevent cval)) (cur cur' : view cval),
  (forall k, cur k = cur' k) -> ev_chained_from cur evs -> ev_chained_from cur' evs.
Proof.
  induction evs as [|e r IH]; intros cur cur' X C; [exact I|].
  destruct C as [Hold C]. split; [rewrite <- X; exact Hold|].
  apply (IH (vupd (ce_id e) (ce_new e) cur)); [|exact C].
  intros k. unfold vupd. destruct (String.eqb k (ce_id e)); auto.
Qed.
Lemma ideal_filter_ext : forall cmp (cs : list (cchange cval)) (w w' : view cval),
  (forall k, w k = w' k) -> ideal_filter cmp w cs = ideal_filter cmp w' cs.
Proof.
  intros cmp cs. induction cs as [|c r IH]; intros w w' X; [reflexivity|]. cbn [ideal_filter].
  rewrite (X (cc_id c)). destruct (cmp (w' (cc_id c)) (cc_new c)); [apply IH; exact X|].
  f_equal. apply IH. intros k. unfold vupd. destruct (String.eqb k (cc_id c)); auto.
Qed.

(* the events derived from the operations describe the collection [cur] *)
Lemma events_chained : forall ops cur, ev_chained_from (curv cur) (events_of cur ops).
Proof.
  induction ops as [|[id [v|]] r IH]; intros cur; [exact I| |]; cbn [events_of ev_chained_from ce_old ce_id ce_new];
    (split; [reflexivity|]).
  - apply (ev_chained_from_ext _ (curv (aset id v cur))); [|apply IH].
    intros k. apply (curv_upd id (Some v)).
  - apply (ev_chained_from_ext _ (curv (adel id cur))); [|apply IH].
    intros k. apply (curv_upd id None).
Qed.

Lemma offered_cons (ro : ropts cval unit) x l :
  offered id_filter ro (x :: l) = offered id_filter ro [x] ++ offered id_filter ro l.
Proof. unfold offered. cbn [flat_map]. rewrite app_nil_r. reflexivity. Qed.

(* ---------- what include and filter offer for one event ---------- *)
Section Offer.
  Variable uo : bool.
  Variable thr : option Q.
  Notation ro := (coll_ro uo thr).

  Lemma seen_is_seen_val cur id : seen id_filter ro (curv cur) id = seen_val thr id (alookup id cur).
  Proof.
    unfold seen, seen_val, curv, coll_ro, filt, id_filter. cbn [ro_include ro_mask].
    destruct (alookup id cur) as [m|]; [|reflexivity]. destruct thr; reflexivity.
  Qed.

  Lemma offered_one (e : cevent cval) :
    offered id_filter ro [e] =
    match seen_val thr (ce_id e) (ce_old e), seen_val thr (ce_id e) (ce_new e) with
    | None, None => match thr with
                    | Some _ => []
                    | None => [mkCC (ce_id e) (ce_time e) (ce_kind e) None None false false]
                    end
    | so, sn =>
        [mkCC (ce_id e) (ce_time e)
              (match thr, so, sn with
               | Some _, None, Some _ => KAdd
               | Some _, Some _, None => KRemove
               | _, _, _ => ce_kind e
               end) so sn false false]
    end.
  Proof.
    unfold offered. cbn [flat_map]. rewrite app_nil_r.
    unfold include_gen, of_event, coll_ro, seen_val, cc_filter, filt, id_filter.
    cbn [ro_include ro_mask option_map cc_id cc_old cc_new cc_time cc_kind cc_seed cc_last_seed orb].
    destruct thr as [t|]; cbn [option_map].
    - destruct (ce_old e) as [vo|], (ce_new e) as [vn|]; cbn [andb];
        try destruct (include_of t (ce_id e) (Some vo)); try destruct (include_of t (ce_id e) (Some vn));
        cbn [Bool.eqb option_map cc_id cc_old cc_new cc_time cc_kind cc_seed cc_last_seed]; reflexivity.
    - destruct (ce_old e) as [vo|], (ce_new e) as [vn|]; reflexivity.
  Qed.
End Offer.

(* ---------- the comparer never relates a value with "absent" ---------- *)
Definition is_some {A} (o : option A) : bool := match o with Some _ => true | None => false end.
Lemma ideal_presence e a b : ideal_e e a b = true -> is_some a = is_some b.
Proof. destruct e, a, b; cbn; intros H; try reflexivity; discriminate H. Qed.
Lemma ideal_none_none e : ideal_e e None None = true.
Proof. destruct e; reflexivity. Qed.

Lemma tree_ok_none e : tree_ok e None = true.
Proof. unfold tree_ok. cbn [opt_guard opt_wide negb andb]. apply orb_true_r. Qed.

(* ---------- operations against the ideal stream ---------- *)
Definition proj (c : cchange cval) : string * option cval := (cc_id c, cc_new c).

Section Main.
  Variable e : ecfg.
  Variable uo : bool.
  Variable thr : option Q.
  Hypothesis Ge : ecfg_guard e = true.
  Hypothesis Nd : has_durp e = false.
  Notation ro := (coll_ro uo thr).

  Definition all_ok (l : list (string * cval)) : Prop := forall id v, alookup id l = Some v -> tree_ok e (Some v) = true.

  Lemma all_ok_upd id nv l : all_ok l -> tree_ok e nv = true -> all_ok (upd_list id nv l).
  Proof.
    intros A T k v H. destruct (String.eqb k id) eqn:E.
    - apply String.eqb_eq in E. subst k. destruct nv as [x|]; cbn [upd_list] in H.
      + rewrite alookup_aset_same in H. inversion H. subst. exact T.
      + rewrite alookup_adel_same in H. discriminate H.
    - destruct nv as [x|]; cbn [upd_list] in H;
        [rewrite alookup_aset_other in H by exact E|rewrite alookup_adel_other in H by exact E]; apply (A k v H).
  Qed.

  Lemma seen_val_ok id nv : tree_ok e nv = true -> tree_ok e (seen_val thr id nv) = true.
  Proof.
    intros T. unfold seen_val. destruct nv as [m|]; [|apply tree_ok_none].
    destruct (match thr with Some t => include_of t id (Some m) | None => true end); [exact T|apply tree_ok_none].
  Qed.

  Lemma ops_against_ideal : forall ops cur (w : view cval) view,
    (forall id, w id = alookup id view) ->
    (forall id, is_some (alookup id view) = is_some (seen_val thr id (alookup id cur))) ->
    all_ok view -> forallb (fun o : collop => tree_ok e (snd o)) ops = true ->
    map proj (ideal_filter (model_e e) w (offered id_filter ro (events_of cur ops))) = ideal_coll e thr view ops.
  Proof.
    induction ops as [|[id nv] r IH]; intros cur w view Hw Hp Av To; [reflexivity|].
    cbn [forallb snd] in To. apply andb_true_iff in To. destruct To as [Tn Tr].
    assert (Ev : events_of cur (@cons collop (id, nv) r) =
                 mkCE id 0 (match nv with Some _ => match alookup id cur with Some _ => KUpdate | None => KAdd end | None => KRemove end)
                      (alookup id cur) nv :: events_of (upd_list id nv cur) r)
      by (destruct nv; reflexivity).
    rewrite Ev. clear Ev.
    rewrite offered_cons.
    rewrite offered_one. cbn [ce_id ce_old ce_new ce_time ce_kind]. cbn [ideal_coll].
    set (so := seen_val thr id (alookup id cur)). set (sn := seen_val thr id nv).
    assert (Tsn : tree_ok e sn = true) by (apply seen_val_ok; exact Tn).
    assert (Tv : tree_ok e (alookup id view) = true).
    { destruct (alookup id view) as [v|] eqn:L; [apply (Av id v L)|apply tree_ok_none]. }
    assert (MI : model_e e (w id) sn = ideal_e e (alookup id view) sn).
    { rewrite Hw. apply model_is_ideal; assumption. }
    (* what happens to the presence invariant and the views after this operation *)
    assert (Keep : forall view', (forall k, String.eqb k id = false -> alookup k view' = alookup k view) ->
                   is_some (alookup id view') = is_some sn ->
                   forall k, is_some (alookup k view') = is_some (seen_val thr k (alookup k (upd_list id nv cur)))).
    { intros view' Ho Hi k. destruct (String.eqb k id) eqn:E.
      - apply String.eqb_eq in E. subst k. rewrite Hi. unfold sn.
        pose proof (curv_upd id nv cur id) as X. unfold curv, vupd in X. rewrite String.eqb_refl in X. rewrite X. reflexivity.
      - rewrite (Ho k E), Hp.
        pose proof (curv_upd id nv cur k) as X. unfold curv, vupd in X. rewrite E in X. rewrite X. reflexivity. }
    assert (Skip : ideal_e e (alookup id view) sn = true ->
                   map proj (ideal_filter (model_e e) w (offered id_filter ro (events_of (upd_list id nv cur) r)))
                   = ideal_coll e thr view r).
    { intros Eq. apply IH; try assumption. apply (Keep view); [reflexivity|]. apply ideal_presence with (e := e). exact Eq. }
    assert (Deliver : ideal_e e (alookup id view) sn = false ->
                      map proj (ideal_filter (model_e e) (vupd id sn w) (offered id_filter ro (events_of (upd_list id nv cur) r)))
                      = ideal_coll e thr (match sn with Some v => aset id v view | None => adel id view end) r).
    { intros Eq. change (match sn with Some v => aset id v view | None => adel id view end) with (upd_list id sn view).
      apply IH; try assumption.
      - intros k. pose proof (curv_upd id sn view k) as X. unfold curv in X. rewrite X. unfold vupd.
        destruct (String.eqb k id); [reflexivity|apply Hw].
      - apply Keep.
        + intros k E. pose proof (curv_upd id sn view k) as X. unfold curv, vupd in X. rewrite E in X. exact X.
        + pose proof (curv_upd id sn view id) as X. unfold curv, vupd in X. rewrite String.eqb_refl in X. rewrite X. reflexivity.
      - apply all_ok_upd; assumption. }
    (* the cases of what is offered *)
    assert (Pso : is_some (alookup id view) = is_some so) by apply Hp.
    destruct so as [vo|] eqn:Eso, sn as [vn|] eqn:Esn; cbn [app ideal_filter cc_id cc_new map proj].
    - rewrite MI. destruct (ideal_e e (alookup id view) (Some vn)) eqn:Eq; [apply Skip; reflexivity|].
      cbn [map proj cc_id cc_new]. f_equal. apply Deliver. reflexivity.
    - rewrite MI. destruct (ideal_e e (alookup id view) None) eqn:Eq; [apply Skip; reflexivity|].
      cbn [map proj cc_id cc_new]. f_equal. apply Deliver. reflexivity.
    - rewrite MI. destruct (ideal_e e (alookup id view) (Some vn)) eqn:Eq; [apply Skip; reflexivity|].
      cbn [map proj cc_id cc_new]. f_equal. apply Deliver. reflexivity.
    - (* neither the old nor the new value is seen *)
      assert (Vn : alookup id view = None) by (destruct (alookup id view); [discriminate Pso|reflexivity]).
      assert (Eq : ideal_e e (alookup id view) None = true) by (rewrite Vn; apply ideal_none_none).
      destruct thr as [t|]; cbn [app ideal_filter cc_id cc_new map proj].
      + rewrite Eq. apply Skip. exact Eq.
      + rewrite MI, Eq. apply Skip. exact Eq.
  Qed.
End Main.

(* ---------- the seed ---------- *)
Fixpoint str_nodupb (l : list string) : bool :=
  match l with [] => true | k :: r => negb (existsb (String.eqb k) r) && str_nodupb r end.

Lemma alookup_none_notin id (l : list (string * cval)) :
  existsb (String.eqb id) (map fst l) = false -> alookup id l = None.
Proof.
  induction l as [|[k v] r IH]; [reflexivity|]. cbn [map fst existsb alookup]. intros H.
  apply orb_false_iff in H. destruct H as [H1 H2]. rewrite String.eqb_sym, H1. apply IH. exact H2.
Qed.

Lemma existsb_filter_false id p (l : list (string * cval)) :
  existsb (String.eqb id) (map fst l) = false -> existsb (String.eqb id) (map fst (filter p l)) = false.
Proof.
  induction l as [|[k v] r IH]; [reflexivity|]. cbn [map fst existsb filter]. intros H.
  apply orb_false_iff in H. destruct H as [H1 H2]. destruct (p (k, v)); cbn [map fst existsb]; rewrite ?H1; auto.
Qed.

(* with distinct ids, looking up in the filtered list = filtering the looked-up value *)
Lemma alookup_seen_init thr init id :
  str_nodupb (map fst init) = true -> alookup id (seen_init thr init) = seen_val thr id (alookup id init).
Proof.
  unfold seen_init. induction init as [|[k v] r IH]; [reflexivity|]. cbn [map fst snd str_nodupb filter alookup seen_val].
  intros N. apply andb_true_iff in N. destruct N as [N1 N2]. apply negb_true_iff in N1.
  destruct (String.eqb k id) eqn:E.
  - apply String.eqb_eq in E. subst k.
    destruct (match thr with Some t => include_of t id (Some v) | None => true end) eqn:P.
    + cbn [alookup seen_val]. rewrite String.eqb_refl, P. reflexivity.
    + cbn [seen_val]. rewrite P. apply alookup_none_notin. apply existsb_filter_false. exact N1.
  - destruct (match thr with Some t => include_of t k (Some v) | None => true end); cbn [alookup]; rewrite ?E; apply IH; exact N2.
Qed.

Section Seeds.
  Variable uo : bool.
  Variable thr : option Q.
  Notation ro := (coll_ro uo thr).

  Lemma included_is_seen_init init :
    included ro (c_items (coll_state init)) =
    map (fun p : string * cval => (fst p, mkItem (snd p) 0)) (seen_init thr init).
  Proof.
    unfold included, coll_state, seen_init, coll_ro. cbn [c_items ro_include].
    destruct thr as [t|]; cbn [option_map]; induction init as [|[k v] r IH]; try reflexivity;
      cbn [map filter fst snd it_body seen_val].
    - destruct (include_of t k (Some v)); cbn [map fst snd]; rewrite IH; reflexivity.
    - rewrite IH. reflexivity.
  Qed.

  Lemma seeds_proj (l : list (string * cval)) :
    map proj (seeds id_filter ro (map (fun p : string * cval => (fst p, mkItem (snd p) 0)) l)) =
    map (fun p : string * cval => (fst p, Some (snd p))) l.
  Proof.
    induction l as [|[k v] r IH]; [reflexivity|]. cbn [map seeds fst snd proj cc_id cc_new it_body]. f_equal. exact IH.
  Qed.

  Lemma holds_after_seeds (l : list (string * cval)) : forall (w : view cval) k,
    str_nodupb (map fst l) = true ->
    holds_after w (seeds id_filter ro (map (fun p : string * cval => (fst p, mkItem (snd p) 0)) l)) k =
    match alookup k l with Some v => Some v | None => w k end.
  Proof.
    induction l as [|[id v] r IH]; intros w k N; [reflexivity|].
    cbn [map fst str_nodupb] in N. apply andb_true_iff in N. destruct N as [N1 N2]. apply negb_true_iff in N1.
    cbn [map seeds fst snd it_body]. rewrite holds_after_cons. cbn [cc_id cc_new]. rewrite (IH _ k N2).
    cbn [alookup]. unfold vupd, filt, id_filter, coll_ro. cbn [ro_mask].
    destruct (String.eqb id k) eqn:E.
    - apply String.eqb_eq in E. subst k. rewrite (alookup_none_notin id r N1), String.eqb_refl. reflexivity.
    - rewrite String.eqb_sym, E. reflexivity.
  Qed.

  Lemma str_nodupb_filter p (l : list (string * cval)) :
    str_nodupb (map fst l) = true -> str_nodupb (map fst (filter p l)) = true.
  Proof.
    induction l as [|[k v] r IH]; [reflexivity|]. cbn [map fst str_nodupb filter]. intros N.
    apply andb_true_iff in N. destruct N as [N1 N2]. apply negb_true_iff in N1.
    destruct (p (k, v)); [|apply IH; exact N2]. cbn [map fst str_nodupb].
    rewrite (existsb_filter_false k p r N1), (IH N2). reflexivity.
  Qed.
End Seeds.

(* ---------- the judged collection case ---------- *)
Definition coll_scope (c : c16case) : bool :=
  match c with
  | KColl e _ thr init ops _ =>
      negb (has_durp e)
      && (cfg_nd (cfg_vs e)
          || (forallb (fun p : string * cval => negb (has_wide_nanos (snd p))) init
              && forallb (fun o : collop => negb (opt_wide (snd o))) ops))
      && str_nodupb (map fst init)
  | _ => false
  end.

Lemma list_triple_proj a b :
  list_eqb triple_eqb a b = true ->
  list_eqb pair_eqb (map (fun t : string * option cval * option cval => (fst (fst t), snd t)) a)
                    (map (fun t : string * option cval * option cval => (fst (fst t), snd t)) b) = true.
Proof.
  revert b. induction a as [|[[ia oa] na] r IH]; intros [|[[ib ob] nb] s] H; try discriminate H; [reflexivity|].
  cbn [list_eqb triple_eqb] in H. apply andb_true_iff in H. destruct H as [H1 H2].
  apply andb_true_iff in H1. destruct H1 as [H1 H3]. apply andb_true_iff in H1. destruct H1 as [H1 _].
  cbn [map list_eqb]. unfold pair_eqb at 1. cbn [fst snd]. rewrite H1, H3, (IH _ H2). reflexivity.
Qed.

Theorem coll_judge_sound : forall e uo thr init ops emitted,
  let c := KColl e uo thr init ops emitted in
  agrees_core c = true -> guard_core c = true -> coll_scope c = true -> ok_core c = true.
Proof.
  intros e uo thr init ops emitted c A G S. subst c. cbn [agrees_core guard_core coll_scope ok_core] in *.
  apply andb_true_iff in S. destruct S as [S Nid]. apply andb_true_iff in S. destruct S as [Nd Sat].
  apply negb_true_iff in Nd.
  apply andb_true_iff in G. destruct G as [G _]. apply andb_true_iff in G. destruct G as [G Ge].
  apply andb_true_iff in G. destruct G as [Gi Go].
  (* every value is tree_ok *)
  assert (Ti : forall p, In p init -> tree_ok e (Some (snd p)) = true).
  { intros p Hp. unfold tree_ok. rewrite forallb_forall in Gi. rewrite (Gi _ Hp). cbn [andb opt_wide].
    destruct (cfg_nd (cfg_vs e)); [reflexivity|]. cbn [orb] in *. apply andb_true_iff in Sat. destruct Sat as [Sa _].
    rewrite forallb_forall in Sa. apply (Sa _ Hp). }
  assert (To : forallb (fun o : collop => tree_ok e (snd o)) ops = true).
  { apply forallb_forall. intros o Ho. unfold tree_ok. rewrite forallb_forall in Go. rewrite (Go _ Ho). cbn [andb].
    destruct (cfg_nd (cfg_vs e)); [reflexivity|]. cbn [orb] in *. apply andb_true_iff in Sat. destruct Sat as [_ Sb].
    rewrite forallb_forall in Sb. apply (Sb _ Ho). }
  set (view := seen_init thr init).
  assert (Av : all_ok e view).
  { intros id v L. unfold view in L. rewrite (alookup_seen_init thr init id Nid) in L.
    destruct (alookup id init) as [m|] eqn:Li; [|discriminate L].
    assert (Hin : In (id, m) init).
    { clear - Li. induction init as [|[k x] r IH]; [discriminate Li|]. cbn [alookup] in Li.
      destruct (String.eqb k id) eqn:E; [apply String.eqb_eq in E; inversion Li; subst; left; reflexivity|right; apply IH; exact Li]. }
    unfold seen_val in L. destruct (match thr with Some t => include_of t id (Some m) | None => true end); [|discriminate L].
    inversion L. subst. apply (Ti _ Hin). }
  assert (Hp : forall id, is_some (alookup id view) = is_some (seen_val thr id (alookup id init)))
    by (intros id; unfold view; rewrite (alookup_seen_init thr init id Nid); reflexivity).
  (* the model's (id, new) stream is the ideal one *)
  assert (E : map (fun t : string * option cval * option cval => (fst (fst t), snd t)) (coll_full_model e uo thr init ops) =
              (if uo then [] else map (fun p : string * cval => (fst p, Some (snd p))) view) ++ ideal_coll e thr view ops).
  { unfold coll_full_model, pull_collection_held. rewrite map_map.
    change (fun x : cchange cval => (fst (fst (triple_of x)), snd (triple_of x))) with proj.
    rewrite map_app. pose proof (events_chained ops init) as Ch.
    assert (Uo : ro_updates_only (coll_ro uo thr) = uo) by reflexivity. rewrite Uo. unfold mcmp.
    destruct uo.
    - cbn [map app held_of_seeds fold_left].
      rewrite (@coll_pull_held_updates_only cval unit id_filter (model_e e) (coll_ro true thr) (events_of init ops) (curv init) Ch).
      apply (ops_against_ideal e true thr Ge Nd); try assumption.
      intros id. rewrite seen_is_seen_val. unfold view. symmetry. apply alookup_seen_init. exact Nid.
    - rewrite included_is_seen_init. fold view. rewrite seeds_proj. f_equal.
      assert (Nv : str_nodupb (map fst view) = true) by (apply str_nodupb_filter; exact Nid).
      rewrite (@coll_pull_held_seeded cval unit id_filter (model_e e) (coll_ro false thr) _ (events_of init ops) (curv init)); [| |exact Ch].
      + apply (ops_against_ideal e false thr Ge Nd); try assumption.
        intros id. rewrite (holds_after_seeds false thr view _ id Nv). destruct (alookup id view); reflexivity.
      + intros k H. rewrite (holds_after_seeds false thr view _ k Nv) in H.
        rewrite seen_is_seen_val. rewrite <- (alookup_seen_init thr init k Nid). fold view.
        destruct (alookup k view); [discriminate H|reflexivity]. }
  rewrite <- E. apply list_triple_proj. exact A.
Qed.

(* every kind of case *)
Definition in_scope_all (c : c16case) : bool := in_scope c || coll_scope (unwrap c).

Theorem judge_sound_all : forall c,
  agrees c = true -> C16_guard c = true -> in_scope_all c = true -> C16_ok c = true.
Proof.
  intros c A G S. unfold in_scope_all in S. apply orb_true_iff in S. destruct S as [S|S].
  - apply judge_sound; assumption.
  - unfold agrees in A. apply andb_true_iff in A. destruct A as [_ A]. unfold C16_guard in G. unfold C16_ok.
    destruct (unwrap c) as [| | |e uo thr init ops emitted| | | |]; try discriminate S.
    apply (coll_judge_sound e uo thr init ops emitted); assumption.
Qed.

Print Assumptions judge_sound_all.
