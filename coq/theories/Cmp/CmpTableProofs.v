(* Obligations over Gen/CmpTable.v (read from the source of /repo/pkg/cmp on every run): the decision
   structure of the code is the one the model and the tree conversion assume.  A change of the switch
   in equalValue (a kind moved to another accessor, a kind dropped to the default), of the order of
   the tests in equalField, of the literals of the change_time exception or of the kind / full-name
   tests of the tolerance comparers makes [cmp_table_ok] compute to false and this file fail. *)
From SC Require Import Base.Prelude Cmp.Cmp Cmp.Tolerance Gen.CmpTable.

(* the constants of protoreflect.Kind *)
Definition all_kinds : list string :=
  ["BoolKind"; "EnumKind"; "Int32Kind"; "Sint32Kind"; "Uint32Kind"; "Int64Kind"; "Sint64Kind"; "Uint64Kind";
   "Sfixed32Kind"; "Fixed32Kind"; "FloatKind"; "Sfixed64Kind"; "Fixed64Kind"; "DoubleKind"; "StringKind";
   "BytesKind"; "MessageKind"; "GroupKind"]%string.

(* harness/c16/conv.go (coqScalar / coqSingular): the constructor of the tree for a value of each kind *)
Inductive ctor := KCBool | KCEnum | KCInt | KCUint | KCF32 | KCF64 | KCStr | KCBytes | KCM.
Definition conv_table : list (string * ctor) :=
  [("BoolKind", KCBool); ("EnumKind", KCEnum);
   ("Int32Kind", KCInt); ("Sint32Kind", KCInt); ("Sfixed32Kind", KCInt);
   ("Int64Kind", KCInt); ("Sint64Kind", KCInt); ("Sfixed64Kind", KCInt);
   ("Uint32Kind", KCUint); ("Fixed32Kind", KCUint); ("Uint64Kind", KCUint); ("Fixed64Kind", KCUint);
   ("FloatKind", KCF32); ("DoubleKind", KCF64); ("StringKind", KCStr); ("BytesKind", KCBytes);
   ("MessageKind", KCM); ("GroupKind", KCM)]%string.
Fixpoint slookup {A} (k : string) (l : list (string * A)) : option A :=
  match l with [] => None | (k', x) :: r => if String.eqb k k' then Some x else slookup k r end.

(* what the model compares a pair of that constructor with (Cmp.v scalar_default / eq_default):
   CBool: Bool.eqb = x.Bool() == y.Bool(); CEnum, CInt, CUint: Z.eqb on Enum / Int / Uint;
   CF32, CF64: fl_equal = Float with the NaN rule; CStr: String.eqb; CBytes: String.eqb on the hex =
   bytes.Equal; CM: the recursive case = equalMessage(x.Message(), y.Message()) *)
Definition accessor_of (c : ctor) : string * string :=
  match c with
  | KCBool => ("Bool", "") | KCEnum => ("Enum", "") | KCInt => ("Int", "") | KCUint => ("Uint", "")
  | KCF32 | KCF64 => ("Float", "IsNaN") | KCStr => ("String", "") | KCBytes => ("Bytes", "bytes.Equal")
  | KCM => ("Message", "equalMessage")
  end%string.

Definition switch_row (k : string) : option (string * string) :=
  slookup k (map (fun r : string * string * string => (fst (fst r), (snd (fst r), snd r))) equal_value_switch).
Definition pair_eqb (a b : string * string) : bool := String.eqb (fst a) (fst b) && String.eqb (snd a) (snd b).
Definition triple_eqb (a b : string * string * string) : bool :=
  pair_eqb (fst a) (fst b) && String.eqb (snd a) (snd b).
Fixpoint str_nodup (l : list string) : bool :=
  match l with [] => true | k :: r => negb (existsb (String.eqb k) r) && str_nodup r end.

Definition is_float_ctor (c : ctor) : bool := match c with KCF32 | KCF64 => true | _ => false end.

Definition cmp_table_ok : bool :=
  (* every kind is compared by the accessor the model assumes for its constructor; none falls to the default *)
  forallb (fun k => match switch_row k, slookup k conv_table with
                    | Some a, Some c => pair_eqb a (accessor_of c)
                    | _, _ => false
                    end) all_kinds
  (* the switch lists each kind once and nothing else *)
  && str_nodup (map (fun r : string * string * string => fst (fst r)) equal_value_switch)
  && forallb (fun r : string * string * string => existsb (String.eqb (fst (fst r))) all_kinds) equal_value_switch
  && String.eqb equal_value_default "Interface"
  (* the comparer hook is consulted before the switch *)
  && equal_value_hook_first
  (* equalField: change_time exception, list, map, singular, in this order *)
  && list_eqb String.eqb equal_field_order
       ["eq.ignoreField:"; "fd.IsList:equalList"; "fd.IsMap:equalMap"; "default:equalValue"]%string
  (* the exception: field name and SHORT name of the containing message, the literals of [ignored] *)
  && list_eqb triple_eqb ignore_field_tests
       [("fd.Name", "==", "change_time"); ("fd.ContainingMessage.Name", "==", "Change")]%string
  (* FloatValueApprox declines exactly the kinds that are not converted to CF32 / CF64 *)
  && list_eqb triple_eqb float_approx_tests
       (map (fun k => ("fd.Kind", "!=", k)%string)
            (filter (fun k => match slookup k conv_table with Some c => is_float_ctor c | None => false end) all_kinds))
  (* the well-known-type comparers: message kind, then the full names the model tests *)
  && list_eqb triple_eqb time_within_tests
       [("fd.Kind", "!=", "MessageKind"); ("mx.Descriptor.FullName", "==", ts_full); ("my.Descriptor.FullName", "==", ts_full)]%string
  && list_eqb triple_eqb cmp_duration_tests
       [("fd.Kind", "!=", "MessageKind"); ("mx.Descriptor.FullName", "==", dur_full); ("my.Descriptor.FullName", "==", dur_full)]%string.

Theorem cmp_table_matches_model : cmp_table_ok = true.
Proof. vm_compute. reflexivity. Qed.

(* the literals of the exception are the ones [ignored] tests *)
Theorem ignored_uses_table_literals : forall ty f,
  ignored ty f = String.eqb f "change_time" && String.eqb (short_name ty) "Change".
Proof. reflexivity. Qed.
