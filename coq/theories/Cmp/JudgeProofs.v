(* What the model guarantees about the judged clauses (the model satisfies C16_ok's And/Or clause and
   its proto.Equal clause for every input), and the Collection.Pull drift witness. *)
From Coq Require Import QArith.
From SC Require Import Base.Prelude Cmp.Cmp Cmp.Logic Cmp.Tolerance Cmp.Spec Cmp.LogicProofs Cmp.CmpProofs
  Cmp.C16Judge Resource.Impl Resource.Pull.
Open Scope Z_scope.

(* And / Or of comparers: the four verdicts of the combination are the fold of the components' *)
Theorem comb_model_ok : forall is_or es x y,
  ok_obs x y (false, false)
         (OComb is_or es (map (fun e => four (model_e e) x y) es)
                (four ((if is_or then msg_or else msg_and) (map model_e es)) x y)) = true.
Proof.
  intros is_or es x y. cbn [ok_obs]. rewrite map_length, Nat.eqb_refl. cbn [andb].
  assert (F : forall a b, four ((if is_or then msg_or else msg_and) (map model_e es)) a b = 
              fold4 is_or (map (fun e => four (model_e e) a b) es)).
  { intros a b. unfold four. destruct is_or.
    - rewrite !or_is_disj. induction es as [|e r IH]; [reflexivity|].
      cbn [map existsb fold4 fold_right]. unfold fold4 in IH. rewrite <- IH. reflexivity.
    - rewrite !and_is_conj. induction es as [|e r IH]; [reflexivity|].
      cbn [map forallb fold4 fold_right]. unfold fold4 in IH. rewrite <- IH. reflexivity. }
  rewrite F. unfold b4_eqb. destruct (fold4 is_or _) as [[[a b] c] d].
  rewrite !Bool.eqb_reflx. reflexivity.
Qed.

(* the default comparer against proto.Equal: whenever the recorded proto.Equal verdicts are the
   model's, the model's cmp.Equal() verdicts pass the clause "agrees with proto.Equal modulo
   change_time" *)
Theorem default_model_agrees_with_proto_equal : forall x y,
  opt_wf x = true -> opt_wf y = true ->
  let ps := (proto_equal (strip_opt x) (strip_opt y), proto_equal (strip_opt y) (strip_opt x)) in
  let '(xy, yx, _, _) := four (model_e (EAnd [])) x y in
  Bool.eqb xy (fst ps) && Bool.eqb yx (snd ps) = true.
Proof.
  intros x y Wx Wy. cbn [four model_e map fst snd].
  rewrite (default_is_proto_equal x y Wx Wy), (default_is_proto_equal y x Wy Wx).
  unfold strip_opt. rewrite !Bool.eqb_reflx. reflexivity.
Qed.

(* ---------- Collection.Pull compares old and new of EACH change ---------- *)
(* a history of one item: every event's old value is the previous event's new value *)
Fixpoint chained (held : Z) (evs : list (cevent Z)) : Prop :=
  match evs with
  | [] => True
  | e :: r => ce_old e = Some held /\
              match ce_new e with Some v => chained v r | None => False end
  end.
Fixpoint final (held : Z) (evs : list (cevent Z)) : Z :=
  match evs with
  | [] => held
  | e :: r => match ce_new e with Some v => final v r | None => held end
  end.

Definition within1 (a b : option Z) : bool :=
  match a, b with Some x, Some y => Z.abs (x - y) <=? 1 | None, None => true | _, _ => false end.
Definition drift_events : list (cevent Z) :=
  [mkCE "a" 1 KUpdate (Some 0) (Some 1); mkCE "a" 2 KUpdate (Some 1) (Some 2); mkCE "a" 3 KUpdate (Some 2) (Some 3)].
Definition plain_ropts : ropts Z unit := mkR None false None.

Lemma drift_witness :
  chained 0 drift_events /\
  c_forward_gen (fun (_ : unit) (m : Z) => m) (Some within1) false false plain_ropts drift_events = [] /\
  within1 (Some 0) (Some (final 0 drift_events)) = false.
Proof. repeat split; vm_compute; reflexivity. Qed.
