(* What the model guarantees about the judged clauses (the model satisfies C16_ok's And/Or clause and
   its proto.Equal clause for every input), and the Collection.Pull drift witness. *)
From Coq Require Import QArith.
From SC Require Import Base.Prelude Cmp.Cmp Cmp.Logic Cmp.Tolerance Cmp.FloatB64 Cmp.GoTime Cmp.Spec Cmp.LogicProofs
  Cmp.ToleranceProofs Cmp.FloatB64Proofs Cmp.GoTimeProofs Cmp.CmpProofs Cmp.SpecSymProofs Cmp.CollEquiv Cmp.C16Judge Cmp.TreeProofs
  Resource.Impl Resource.Pull.
Open Scope Z_scope.

(* And / Or of comparers: the four verdicts of the combination are the fold of the components' *)
Theorem comb_model_ok : forall is_or es x y,
  ok_obs x y (false, false)
         (OComb is_or es (map (fun e => four (model_e e) x y) es)
                (four ((if is_or then msg_or else msg_and) (map model_e es)) x y)) = true.
Proof.
  intros is_or es x y. cbn [ok_obs]. rewrite map_length, Nat.eqb_refl. cbn [andb].
  assert (F : forall a b, four ((if is_or then msg_or else msg_and) (map model_e es)) a b = 
              fold4 is_or (map (fun e => four (model_e e) a b) es)).
  { intros a b. unfold four. destruct is_or.
    - rewrite !or_is_disj. induction es as [|e r IH]; [reflexivity|].
      cbn [map existsb fold4 fold_right]. unfold fold4 in IH. rewrite <- IH. reflexivity.
    - rewrite !and_is_conj. induction es as [|e r IH]; [reflexivity|].
      cbn [map forallb fold4 fold_right]. unfold fold4 in IH. rewrite <- IH. reflexivity. }
  rewrite F. unfold b4_eqb. destruct (fold4 is_or _) as [[[a b] c] d].
  rewrite !Bool.eqb_reflx. reflexivity.
Qed.

(* the default comparer against proto.Equal: whenever the recorded proto.Equal verdicts are the
   model's, the model's cmp.Equal() verdicts pass the clause "agrees with proto.Equal modulo
   change_time" *)
Theorem default_model_agrees_with_proto_equal : forall x y,
  opt_wf x = true -> opt_wf y = true ->
  let ps := (proto_equal (strip_opt x) (strip_opt y), proto_equal (strip_opt y) (strip_opt x)) in
  let '(xy, yx, _, _) := four (model_e (EAnd [])) x y in
  Bool.eqb xy (fst ps) && Bool.eqb yx (snd ps) = true.
Proof.
  intros x y Wx Wy. cbn [four model_e map fst snd].
  rewrite (default_is_proto_equal x y Wx Wy), (default_is_proto_equal y x Wy Wx).
  unfold strip_opt. rewrite !Bool.eqb_reflx. reflexivity.
Qed.

(* ---------- Collection.Pull compares old and new of EACH change ---------- *)
(* a history of one item: every event's old value is the previous event's new value *)
Fixpoint chained (held : Z) (evs : list (cevent Z)) : Prop :=
  match evs with
  | [] => True
  | e :: r => ce_old e = Some held /\
              match ce_new e with Some v => chained v r | None => False end
  end.
Fixpoint final (held : Z) (evs : list (cevent Z)) : Z :=
  match evs with
  | [] => held
  | e :: r => match ce_new e with Some v => final v r | None => held end
  end.

Definition within1 (a b : option Z) : bool :=
  match a, b with Some x, Some y => Z.abs (x - y) <=? 1 | None, None => true | _, _ => false end.
Definition drift_events : list (cevent Z) :=
  [mkCE "a" 1 KUpdate (Some 0) (Some 1); mkCE "a" 2 KUpdate (Some 1) (Some 2); mkCE "a" 3 KUpdate (Some 2) (Some 3)].
Definition plain_ropts : ropts Z unit := mkR None false None.

Lemma drift_witness :
  chained 0 drift_events /\
  c_forward_gen (fun (_ : unit) (m : Z) => m) (Some within1) false false plain_ropts drift_events = [] /\
  within1 (Some 0) (Some (final 0 drift_events)) = false.
Proof. repeat split; vm_compute; reflexivity. Qed.


(* ================= symmetry and reflexivity of cmp.Equal(tolerances...) on WHOLE messages ================= *)
Definition vsym (m : vcmp) : Prop := forall a b, m a b = m b a.
Definition vrefl (m : vcmp) : Prop := forall a, says m a a = true \/ answers m a a = false.
Definition vsing (m : vcmp) : Prop := forall a b, is_singular a && is_singular b = false -> answers m a b = false.

Lemma model_v_sym v : is_durp v = false -> vsym (model_v v).
Proof.
  destruct v as [fr mg|d|d|p]; intros H; try discriminate H; intros a b; cbn [model_v].
  - apply float_b64_symmetric.
  - apply time_fixed_symmetric.
  - apply duration_symmetric.
Qed.

Lemma model_v_refl v : vcfg_guard v = true -> is_durp v = false -> vrefl (model_v v).
Proof.
  destruct v as [fr mg|d|d|p]; intros G H; try discriminate H; intros a; cbn [model_v]; cbn [vcfg_guard] in G.
  - apply float_b64_reflexive.
  - apply andb_true_iff in G. destruct G as [G1 G2]. apply Z.leb_le in G1. apply Z.leb_le in G2.
    apply time_fixed_reflexive. lia.
  - apply andb_true_iff in G. destruct G as [G1 _]. apply Z.leb_le in G1. apply duration_reflexive. exact G1.
Qed.

Lemma model_v_sing v : vsing (model_v v).
Proof.
  intros a b H. destruct (answers (model_v v) a b) eqn:A; [|reflexivity]. exfalso.
  assert (S : is_singular a = true /\ is_singular b = true).
  { destruct v as [fr mg|d|d|p]; cbn [model_v] in A.
    - destruct (float_b64_only_own_kind _ _ _ _ A) as [(x & y & -> & ->)|(x & y & -> & ->)]; split; reflexivity.
    - destruct (time_fixed_only_own_kind _ _ _ A) as (tx & vx & fx & ux & ty & vy & fy & uy & -> & -> & _). split; reflexivity.
    - destruct (duration_only_own_kind _ _ _ A) as (tx & vx & fx & ux & ty & vy & fy & uy & -> & -> & _). split; reflexivity.
    - destruct (durp_only_own_kind _ _ _ A) as (tx & vx & fx & ux & ty & vy & fy & uy & -> & -> & _). split; reflexivity. }
  destruct S as [S1 S2]. rewrite S1, S2 in H. discriminate H.
Qed.

Section Combined.
  Variable ms : list vcmp.

  Lemma forallb_pointwise {A} (f g : A -> bool) (l : list A) :
    (forall x, In x l -> f x = g x) -> forallb f l = forallb g l.
  Proof. apply forallb_ext_in. Qed.
  Lemma existsb_pointwise {A} (f g : A -> bool) (l : list A) :
    (forall x, In x l -> f x = g x) -> existsb f l = existsb g l.
  Proof.
    induction l as [|a r IH]; intros H; [reflexivity|]. cbn [existsb].
    rewrite (H a (or_introl eq_refl)), IH; [reflexivity|]. intros x Hx. apply H. right. exact Hx.
  Qed.

  Lemma and_leaf_sym : (forall m, In m ms -> vsym m) -> forall a b, leaf_of (value_and ms) a b = leaf_of (value_and ms) b a.
  Proof.
    intros H a b. rewrite !leaf_of_value_and.
    rewrite (existsb_pointwise (fun e => answers e a b) (fun e => answers e b a))
      by (intros m Hm; unfold answers; rewrite (H m Hm); reflexivity).
    rewrite (forallb_pointwise (fun e => negb (answers e a b) || says e a b) (fun e => negb (answers e b a) || says e b a))
      by (intros m Hm; unfold answers, says; rewrite (H m Hm); reflexivity).
    reflexivity.
  Qed.
  Lemma or_leaf_sym : (forall m, In m ms -> vsym m) -> forall a b, leaf_of (value_or ms) a b = leaf_of (value_or ms) b a.
  Proof.
    intros H a b. rewrite !leaf_of_value_or.
    rewrite (existsb_pointwise (fun e => answers e a b) (fun e => answers e b a))
      by (intros m Hm; unfold answers; rewrite (H m Hm); reflexivity).
    rewrite (existsb_pointwise (fun e => answers e a b && says e a b) (fun e => answers e b a && says e b a))
      by (intros m Hm; unfold answers, says; rewrite (H m Hm); reflexivity).
    reflexivity.
  Qed.

  Lemma none_answer_sing : (forall m, In m ms -> vsing m) -> forall a b,
    is_singular a && is_singular b = false -> existsb (fun e => answers e a b) ms = false.
  Proof.
    intros H a b S. destruct (existsb (fun e => answers e a b) ms) eqn:E; [|reflexivity].
    apply existsb_exists in E. destruct E as (m & Hm & A). rewrite (H m Hm a b S) in A. discriminate A.
  Qed.
  Lemma and_leaf_sing : (forall m, In m ms -> vsing m) -> forall a b,
    is_singular a && is_singular b = false -> leaf_of (value_and ms) a b = None.
  Proof. intros H a b S. rewrite leaf_of_value_and, (none_answer_sing H a b S). reflexivity. Qed.
  Lemma or_leaf_sing : (forall m, In m ms -> vsing m) -> forall a b,
    is_singular a && is_singular b = false -> leaf_of (value_or ms) a b = None.
  Proof. intros H a b S. rewrite leaf_of_value_or, (none_answer_sing H a b S). reflexivity. Qed.

  Lemma and_leaf_refl : (forall m, In m ms -> vrefl m) -> forall a,
    leaf_of (value_and ms) a a = Some true \/ leaf_of (value_and ms) a a = None.
  Proof.
    intros H a. rewrite leaf_of_value_and.
    destruct (existsb (fun e => answers e a a) ms); [left|right; reflexivity]. f_equal.
    apply forallb_forall. intros m Hm. destruct (H m Hm a) as [S|A]; [rewrite S; apply orb_true_r|rewrite A; reflexivity].
  Qed.
  Lemma or_leaf_refl : (forall m, In m ms -> vrefl m) -> forall a,
    leaf_of (value_or ms) a a = Some true \/ leaf_of (value_or ms) a a = None.
  Proof.
    intros H a. rewrite leaf_of_value_or.
    destruct (existsb (fun e => answers e a a) ms) eqn:E; [left|right; reflexivity]. f_equal.
    apply existsb_exists in E. destruct E as (m & Hm & A). apply existsb_exists. exists m. split; [exact Hm|].
    rewrite A. destruct (H m Hm a) as [S|A']; [exact S|congruence].
  Qed.
End Combined.

Lemma in_model_vs vs m (P : vcmp -> Prop) :
  (forall v, In v vs -> P (model_v v)) -> In m (map model_v vs) -> P m.
Proof. intros H Hm. apply in_map_iff in Hm. destruct Hm as (v & <- & Hv). apply H. exact Hv. Qed.

Lemma not_durp_in vs v : existsb is_durp vs = false -> In v vs -> is_durp v = false.
Proof.
  intros H Hi. destruct (is_durp v) eqn:E; [|reflexivity].
  assert (X : existsb is_durp vs = true) by (apply existsb_exists; exists v; auto). congruence.
Qed.

(* cmp.Equal(FloatValueApprox.., TimeValueWithin.., DurationValueWithin..) and Equal(ValueOr(...)) are
   symmetric on ALL pairs of (possibly nil) messages: no guard on the values, NaN, infinities,
   saturating Durations, typed nil and different types included *)
Theorem model_symmetric : forall e x y, has_durp e = false -> opt_wf x = true -> opt_wf y = true ->
  model_e e x y = model_e e y x.
Proof.
  intros e x y Nd Wx Wy. unfold has_durp in Nd.
  destruct e as [vs|vs]; cbn [model_e cfg_vs] in *; rewrite !cmp_equal_is_spec by assumption; apply spec_top_sym; try assumption.
  - apply and_leaf_sym. intros m Hm. apply (in_model_vs vs m vsym); [|exact Hm].
    intros v Hv. apply model_v_sym. apply (not_durp_in vs); assumption.
  - apply and_leaf_sing. intros m Hm. apply (in_model_vs vs m vsing); [|exact Hm]. intros v _. apply model_v_sing.
  - intros a b. rewrite !leaf_of_value_and_single. apply or_leaf_sym.
    intros m Hm. apply (in_model_vs vs m vsym); [|exact Hm].
    intros v Hv. apply model_v_sym. apply (not_durp_in vs); assumption.
  - intros a b S. rewrite leaf_of_value_and_single. apply or_leaf_sing; [|exact S].
    intros m Hm. apply (in_model_vs vs m vsing); [|exact Hm]. intros v _. apply model_v_sing.
Qed.

(* ... and reflexive on every message, for non-negative tolerances *)
Theorem model_reflexive : forall e x, ecfg_guard e = true -> has_durp e = false -> opt_wf x = true ->
  model_e e x x = true.
Proof.
  intros e x Ge Nd Wx. unfold has_durp, ecfg_guard in *.
  assert (R : forall vs, forallb vcfg_guard vs = true -> existsb is_durp vs = false ->
              forall m, In m (map model_v vs) -> vrefl m).
  { intros vs G N m Hm. apply (in_model_vs vs m vrefl); [|exact Hm]. intros v Hv. apply model_v_refl.
    - rewrite forallb_forall in G. apply (G _ Hv).
    - apply (not_durp_in vs); assumption. }
  destruct e as [vs|vs]; cbn [model_e cfg_vs] in *; rewrite cmp_equal_is_spec by assumption; apply spec_top_refl; try assumption.
  - apply and_leaf_refl. apply R; assumption.
  - intros a. rewrite leaf_of_value_and_single. apply or_leaf_refl. apply R; assumption.
Qed.

(* ---- the same for combinator trees ---- *)
Lemma value_and_vsym ms : (forall m, In m ms -> vsym m) -> vsym (value_and ms).
Proof.
  intros H a b. rewrite !value_and_is_conj. f_equal.
  - apply forallb_pointwise. intros m Hm. unfold answers, says. rewrite (H m Hm a b). reflexivity.
  - apply existsb_pointwise. intros m Hm. unfold answers. rewrite (H m Hm a b). reflexivity.
Qed.
Lemma value_or_vsym ms : (forall m, In m ms -> vsym m) -> vsym (value_or ms).
Proof.
  intros H a b. rewrite !value_or_is_disj. f_equal.
  - apply existsb_pointwise. intros m Hm. unfold answers, says. rewrite (H m Hm a b). reflexivity.
  - apply existsb_pointwise. intros m Hm. unfold answers. rewrite (H m Hm a b). reflexivity.
Qed.
Lemma value_and_vrefl ms : (forall m, In m ms -> vrefl m) -> vrefl (value_and ms).
Proof.
  intros H a. left. unfold says. rewrite value_and_is_conj. cbn [fst].
  apply forallb_forall. intros m Hm. destruct (H m Hm a) as [S|A]; [rewrite S; apply orb_true_r|rewrite A; reflexivity].
Qed.
Lemma value_or_vrefl ms : (forall m, In m ms -> vrefl m) -> vrefl (value_or ms).
Proof.
  intros H a. unfold says, answers. rewrite value_or_is_disj. cbn [fst snd].
  destruct (existsb (fun e => answers e a a) ms) eqn:E; [left|right; reflexivity].
  apply existsb_exists in E. destruct E as (m & Hm & A). apply existsb_exists. exists m. split; [exact Hm|].
  rewrite A. destruct (H m Hm a) as [S|A']; [exact S|congruence].
Qed.
Lemma value_and_vsing ms : (forall m, In m ms -> vsing m) -> vsing (value_and ms).
Proof. intros H a b S. unfold answers. rewrite value_and_is_conj. cbn [snd]. apply none_answer_sing; assumption. Qed.
Lemma value_or_vsing ms : (forall m, In m ms -> vsing m) -> vsing (value_or ms).
Proof. intros H a b S. unfold answers. rewrite value_or_is_disj. cbn [snd]. apply none_answer_sing; assumption. Qed.

Lemma tree_lift (P : vcmp -> Prop) :
  (forall ms, (forall m, In m ms -> P m) -> P (value_and ms)) ->
  (forall ms, (forall m, In m ms -> P m) -> P (value_or ms)) ->
  forall t, (forall v, In v (tree_leaves t) -> P (model_v v)) -> P (model_t t).
Proof.
  intros Ha Ho t. induction t as [l|ts IH|ts IH] using ctree_ind'; intros H.
  - exact (H l (or_introl eq_refl)).
  - unfold model_t. cbn [tree_cmp]. apply Ha. intros m Hm. apply in_map_iff in Hm. destruct Hm as (c & <- & Hc).
    rewrite Forall_forall in IH. apply (IH c Hc). intros v Hv. apply H. cbn [tree_leaves]. apply (leaves_of_child c); assumption.
  - unfold model_t. cbn [tree_cmp]. apply Ho. intros m Hm. apply in_map_iff in Hm. destruct Hm as (c & <- & Hc).
    rewrite Forall_forall in IH. apply (IH c Hc). intros v Hv. apply H. cbn [tree_leaves]. apply (leaves_of_child c); assumption.
Qed.

Lemma single_in {A} (P : A -> Prop) (x : A) : P x -> forall m, In m [x] -> P m.
Proof. intros H m [<-|[]]. exact H. Qed.

(* cmp.Equal(t) for ANY tree of ValueAnd / ValueOr over the tolerance comparers is symmetric on all
   pairs of possibly-nil wf messages ... *)
Theorem model_tree_symmetric : forall t x y, existsb is_durp (tree_leaves t) = false -> opt_wf x = true -> opt_wf y = true ->
  model_tree t x y = model_tree t y x.
Proof.
  intros t x y Nd Wx Wy. unfold model_tree. rewrite !cmp_equal_is_spec by assumption. apply spec_top_sym; try assumption.
  - apply and_leaf_sym. apply single_in. apply (tree_lift vsym value_and_vsym value_or_vsym).
    intros v Hv. apply model_v_sym. apply (not_durp_in (tree_leaves t)); assumption.
  - apply and_leaf_sing. apply single_in. apply (tree_lift vsing value_and_vsing value_or_vsing).
    intros v _. apply model_v_sing.
Qed.

(* ... and reflexive for non-negative tolerances *)
Theorem model_tree_reflexive : forall t x, forallb vcfg_guard (tree_leaves t) = true -> existsb is_durp (tree_leaves t) = false ->
  opt_wf x = true -> model_tree t x x = true.
Proof.
  intros t x G Nd Wx. unfold model_tree. rewrite cmp_equal_is_spec by assumption. apply spec_top_refl; try assumption.
  apply and_leaf_refl. apply single_in. apply (tree_lift vrefl value_and_vrefl value_or_vrefl).
  intros v Hv. apply model_v_refl.
  - rewrite forallb_forall in G. apply (G _ Hv).
  - apply (not_durp_in (tree_leaves t)); assumption.
Qed.

(* ================= the judge is sound with respect to the model ================= *)
Lemma b4_eqb_eq a b : b4_eqb a b = true -> a = b.
Proof.
  destruct a as [[[a1 a2] a3] a4], b as [[[b1 b2] b3] b4]. cbn [b4_eqb]. intros H.
  repeat (apply andb_true_iff in H; destruct H as [H ?]).
  repeat match goal with X : Bool.eqb _ _ = true |- _ => apply Bool.eqb_prop in X end. congruence.
Qed.
Lemma list_b4_eq a b : list_eqb b4_eqb a b = true -> a = b.
Proof.
  revert b. induction a as [|x r IH]; intros [|y s] H; try discriminate H; [reflexivity|].
  cbn [list_eqb] in H. apply andb_true_iff in H. destruct H as [H1 H2].
  rewrite (b4_eqb_eq _ _ H1), (IH _ H2). reflexivity.
Qed.

Lemma opt_guard_wf x : opt_guard x = true -> opt_wf x = true.
Proof. destruct x as [a|]; [|reflexivity]. cbn. intros H. apply andb_true_iff in H. tauto. Qed.

Lemma class_none_tree_ok e x y :
  opt_guard x = true -> opt_guard y = true -> obs_scope x y (OEq e (true, true, true, true)) = None ->
  has_durp e = false /\ tree_ok e x = true /\ tree_ok e y = true.
Proof.
  intros Gx Gy. cbn [obs_scope]. destruct (has_durp e); [discriminate|]. intros H. split; [reflexivity|].
  unfold tree_ok, cfg_nd. rewrite Gx, Gy. cbn [andb].
  destruct (existsb is_dur (cfg_vs e)); [|split; reflexivity]. cbn [andb negb orb] in *.
  destruct (opt_wide x), (opt_wide y); try discriminate H. split; reflexivity.
Qed.

Lemma default_ideal_is_proto x y : opt_wf x = true -> opt_wf y = true ->
  spec_top ignored no_leaf x y = proto_equal (strip_opt x) (strip_opt y).
Proof.
  intros Wx Wy. rewrite <- (default_is_spec x y Wx Wy). apply default_is_proto_equal; assumption.
Qed.

(* one observation of a pair *)
Theorem obs_sound : forall x y ps o,
  opt_guard x = true -> opt_guard y = true -> obs_guard o = true ->
  ps = (proto_equal (strip_opt x) (strip_opt y), proto_equal (strip_opt y) (strip_opt x)) ->
  agrees_obs x y o = true ->
  match o with
  | OEq e _ => obs_scope x y (OEq e (true, true, true, true)) = None
  | OComb _ _ _ _ => True
  | OTree t _ => obs_scope x y (OTree t (true, true, true, true)) = None
  end ->
  ok_obs x y ps o = true.
Proof.
  intros x y ps o Gx Gy Go Hps A C.
  pose proof (opt_guard_wf _ Gx) as Wx. pose proof (opt_guard_wf _ Gy) as Wy.
  destruct o as [e v|is_or es comps v|t v].
  - cbn [agrees_obs] in A. apply b4_eqb_eq in A. subst v. cbn [obs_guard] in Go.
    destruct (class_none_tree_ok e x y Gx Gy C) as (Nd & Tx & Ty).
    cbn [ok_obs]. unfold ok_eq, four. rewrite Nd.
    rewrite (model_reflexive e x Go Nd Wx), (model_reflexive e y Go Nd Wy).
    pose proof (model_symmetric e y x Nd Wy Wx) as Sy.
    rewrite (model_is_ideal e y x Go Nd Ty Tx) in Sy |- *. rewrite (model_is_ideal e x y Go Nd Tx Ty) in Sy |- *.
    rewrite Sy, !Bool.eqb_reflx. cbn [andb].
    destruct (cfg_vs e) as [|v0 r] eqn:V; [|reflexivity].
    subst ps. cbn [fst snd].
    assert (I : forall a b, opt_wf a = true -> opt_wf b = true -> ideal_e e a b = proto_equal (strip_opt a) (strip_opt b)).
    { intros a b Wa Wb. destruct e as [vs|vs]; cbn [cfg_vs] in V; subst vs; cbn [ideal_e map];
        apply default_ideal_is_proto; assumption. }
    rewrite (I y x Wy Wx), (I x y Wx Wy) in Sy. rewrite (I x y Wx Wy), Sy, !Bool.eqb_reflx. reflexivity.
  - cbn [agrees_obs] in A. apply andb_true_iff in A. destruct A as [A1 A2].
    apply list_b4_eq in A1. apply b4_eqb_eq in A2. subst comps v.
    pose proof (comb_model_ok is_or es x y) as K. cbn [ok_obs] in K |- *. exact K.
  - cbn [agrees_obs] in A. apply b4_eqb_eq in A. subst v. cbn [obs_guard] in Go.
    assert (C' : obs_scope x y (OEq (EAnd (tree_leaves t)) (true, true, true, true)) = None) by exact C.
    destruct (class_none_tree_ok (EAnd (tree_leaves t)) x y Gx Gy C') as (Nd & Tx & Ty).
    pose proof Nd as Nd'. unfold has_durp in Nd'. cbn [cfg_vs] in Nd'.
    pose proof Go as Go'. unfold ecfg_guard in Go'. cbn [cfg_vs] in Go'.
    cbn [ok_obs]. unfold four.
    rewrite (model_tree_reflexive t x Go' Nd' Wx), (model_tree_reflexive t y Go' Nd' Wy).
    pose proof (model_tree_symmetric t y x Nd' Wy Wx) as Sy.
    rewrite (tree_model_is_ideal t y x Go Nd Ty Tx) in Sy |- *. rewrite (tree_model_is_ideal t x y Go Nd Tx Ty) in Sy |- *.
    rewrite Sy, !Bool.eqb_reflx. reflexivity.
Qed.

(* ---- streams of a Value ---- *)
Lemma stream_model_is_ideal : forall e ws last,
  ecfg_guard e = true -> has_durp e = false -> tree_ok e last = true ->
  forallb (fun w => tree_ok e (Some w)) ws = true ->
  map (@vc_value cval)
      (v_forward (fun (_ : unit) (m : cval) => m) (Some (model_e e)) (mkR (rmask := unit) None false None) last
                 (map (fun w => mkVE w 0) ws)) = ideal_stream e last ws.
Proof.
  intros e ws. induction ws as [|w r IH]; intros last Ge Nd Tl Tw; [reflexivity|].
  cbn [forallb] in Tw. apply andb_true_iff in Tw. destruct Tw as [T1 T2].
  cbn [map v_forward ideal_stream ve_value ve_time]. unfold filt. cbn [ro_mask].
  rewrite (model_is_ideal e last (Some w) Ge Nd Tl T1).
  destruct (ideal_e e last (Some w)).
  - apply IH; assumption.
  - cbn [map vc_value]. f_equal. apply IH; assumption.
Qed.

(* ---- the one-item Collection: the repaired loop ---- *)
Lemma coll_stream_model_is_ideal : forall e ws prev held,
  ecfg_guard e = true -> has_durp e = false -> tree_ok e (Some held) = true ->
  forallb (fun w => tree_ok e (Some w)) ws = true ->
  flat_map (fun c : cchange cval => match cc_new c with Some v => [v] | None => [] end)
           (c_forward_held id_filter (Some (model_e e)) plain_ro [("a"%string, Some held)] (chain_events prev ws))
  = ideal_stream e (Some held) ws.
Proof.
  intros e ws. induction ws as [|w r IH]; intros prev held Ge Nd Tl Tw; [reflexivity|].
  cbn [forallb] in Tw. apply andb_true_iff in Tw. destruct Tw as [T1 T2].
  cbn [chain_events c_forward_held]. unfold plain_ro at 1. cbn [ro_include include_gen].
  unfold held_step, cc_filter, of_event, filt. cbn [cc_id cc_old cc_new cc_time cc_kind cc_seed cc_last_seed
    ce_id ce_old ce_new ce_time ce_kind ro_mask plain_ro option_map hget].
  rewrite String.eqb_refl.
  rewrite (model_is_ideal e (Some held) (Some w) Ge Nd Tl T1). cbn [ideal_stream].
  destruct (ideal_e e (Some held) (Some w)).
  - cbn [hset]. rewrite String.eqb_refl. apply IH; assumption.
  - cbn [hset flat_map cc_new app]. rewrite String.eqb_refl. f_equal. apply IH; assumption.
Qed.

(* what must hold beyond the guard: no known-finding class applies, and the case is of a kind whose
   judgement is proved (KColl is judged by the same predicate but its soundness is not proved here;
   the theorems behind it are those of Cmp/CollEquivProofs.v) *)
Definition stream_scope (e : ecfg) (seed : option cval) (writes : list cval) : bool :=
  negb (has_durp e) && (cfg_nd (cfg_vs e) || (negb (opt_wide seed) && forallb (fun w => negb (has_wide_nanos w)) writes)).
Definition in_scope (c : c16case) : bool :=
  match unwrap c with
  | KPair x y _ _ os =>
      forallb (fun o => match o with
                        | OEq e _ => match obs_scope x y (OEq e (true, true, true, true)) with None => true | Some _ => false end
                        | OComb _ _ _ _ => true
                        | OTree t _ => match obs_scope x y (OTree t (true, true, true, true)) with None => true | Some _ => false end
                        end) os
  | KStream e seed writes _ => stream_scope e seed writes
  | KCollStream e seed writes _ => stream_scope e (Some seed) writes
  | _ => false
  end.

Lemma stream_scope_tree_ok e seed writes :
  opt_guard seed = true -> forallb (fun w => opt_guard (Some w)) writes = true -> stream_scope e seed writes = true ->
  has_durp e = false /\ tree_ok e seed = true /\ forallb (fun w => tree_ok e (Some w)) writes = true.
Proof.
  intros Gs Gw S. unfold stream_scope in S. apply andb_true_iff in S. destruct S as [S1 S2].
  apply negb_true_iff in S1. split; [exact S1|]. unfold tree_ok. rewrite Gs. cbn [andb].
  destruct (cfg_nd (cfg_vs e)) eqn:N; cbn [orb] in *.
  - split; [reflexivity|]. apply forallb_forall. intros w Hw. rewrite forallb_forall in Gw. rewrite (Gw _ Hw). reflexivity.
  - apply andb_true_iff in S2. destruct S2 as [S2 S3]. split; [exact S2|].
    apply forallb_forall. intros w Hw. rewrite forallb_forall in Gw, S3. cbn [opt_wide]. rewrite (Gw _ Hw), (S3 _ Hw). reflexivity.
Qed.

Theorem judge_sound : forall c,
  agrees c = true -> C16_guard c = true -> in_scope c = true -> C16_ok c = true.
Proof.
  intros c A G S. unfold agrees in A. apply andb_true_iff in A. destruct A as [_ A].
  unfold C16_guard in G. unfold C16_ok. unfold in_scope in S.
  destruct (unwrap c) as [x y pr ps os|e seed writes emitted|e seed writes emitted| | | | |]; try discriminate S.
  - cbn [agrees_core guard_core ok_core] in *.
    apply andb_true_iff in A. destruct A as [A A3]. apply andb_true_iff in A. destruct A as [_ A2].
    apply andb_true_iff in G. destruct G as [G G3]. apply andb_true_iff in G. destruct G as [Gx Gy].
    assert (Hps : ps = (proto_equal (strip_opt x) (strip_opt y), proto_equal (strip_opt y) (strip_opt x))).
    { unfold bb_eqb in A2. apply andb_true_iff in A2. destruct A2 as [P1 P2].
      apply Bool.eqb_prop in P1. apply Bool.eqb_prop in P2. destruct ps as [p1 p2]. cbn [fst snd] in *. congruence. }
    apply forallb_forall. intros o Ho. rewrite forallb_forall in A3, G3, S.
    apply (obs_sound x y ps o Gx Gy (G3 _ Ho) Hps (A3 _ Ho)).
    specialize (S _ Ho). destruct o as [e v| |t v]; [|exact I|].
    + destruct (obs_scope x y (OEq e (true, true, true, true))); [discriminate S|reflexivity].
    + destruct (obs_scope x y (OTree t (true, true, true, true))); [discriminate S|reflexivity].
  - cbn [agrees_core guard_core ok_core] in *.
    apply andb_true_iff in G. destruct G as [G Ge]. apply andb_true_iff in G. destruct G as [Gs Gw].
    destruct (stream_scope_tree_ok e seed writes Gs Gw S) as (Nd & Ts & Tw).
    assert (E : pull_model e seed writes =
                match seed with Some s => [s] | None => [] end ++ ideal_stream e seed writes).
    { unfold pull_model, pull_value, pull_value_gen. cbn [ro_updates_only v_val]. rewrite map_app. f_equal.
      - destruct seed; reflexivity.
      - assert (L : option_map (filt (fun (_ : unit) (m : cval) => m) (mkR (rmask := unit) None false None)) seed = seed)
          by (destruct seed; reflexivity).
        rewrite L. apply stream_model_is_ideal; assumption. }
    rewrite <- E. exact A.
  - cbn [agrees_core guard_core ok_core] in *.
    apply andb_true_iff in G. destruct G as [G Ge]. apply andb_true_iff in G. destruct G as [Gs Gw].
    destruct (stream_scope_tree_ok e (Some seed) writes Gs Gw S) as (Nd & Ts & Tw).
    assert (E : coll_model e seed writes = seed :: ideal_stream e (Some seed) writes).
    { unfold coll_model. f_equal. apply coll_stream_model_is_ideal; assumption. }
    rewrite <- E. exact A.
Qed.

Print Assumptions model_symmetric.
Print Assumptions model_reflexive.
Print Assumptions model_tree_symmetric.
Print Assumptions model_tree_reflexive.
Print Assumptions judge_sound.
