(* Model of /repo/pkg/cmp/cmp.go: the equator behind cmp.Equal(...), field by field.

   Messages are self-describing canonical trees: exactly what protoreflect shows.  A message is
   [CM ty valid fields unknown]: its descriptor's full name, IsValid() (false for a typed nil
   pointer, whose Range is empty), one entry per POPULATED field keyed by field name (Range + Has),
   and the unknown fields as a sequence of (field number, raw bytes of that one field in hex).  A
   repeated field is [CL], a map field [CMap].  Floats are exact rationals or NaN / +-Inf (a
   negative zero is [FFin 0]: Go's == does not tell it from +0; whether it makes an implicit-presence
   field populated is already part of the tree).  fd.Kind() is read off the constructor of the
   value: in a message that conforms to its descriptor both values of one field carry the constructor
   of the field's kind.  Descriptor identity is identity of full names (one registry).
   No proofs here. *)
From Coq Require Import QArith Ascii.
From SC Require Import Base.Prelude.
Open Scope Z_scope.

Inductive fl := FNaN | FInf (neg : bool) | FFin (q : Q).

Inductive cscalar :=
| CInt (z : Z) | CUint (z : Z) | CBool (b : bool) | CStr (s : string) | CBytes (hex : string)
| CEnum (z : Z) | CF32 (f : fl) | CF64 (f : fl).

Inductive cval :=
| CS (s : cscalar)
| CM (ty : string) (valid : bool) (fields : list (string * cval)) (unknown : list (Z * string))
| CL (l : list cval)
| CMap (kv : list (cscalar * cval)).

(* ---- Go's float64 == with proto's NaN rule (cmp.go equalValue, Float/Double case) ---- *)
Definition fl_go_eq (a b : fl) : bool :=            (* fx == fy *)
  match a, b with
  | FFin p, FFin q => Qeq_bool p q
  | FInf n, FInf m => Bool.eqb n m
  | _, _ => false
  end.
Definition fl_is_nan (a : fl) : bool := match a with FNaN => true | _ => false end.
Definition fl_equal (a b : fl) : bool :=
  if fl_is_nan a || fl_is_nan b then fl_is_nan a && fl_is_nan b else fl_go_eq a b.

(* the switch on fd.Kind() of equalValue for scalars *)
Definition scalar_default (a b : cscalar) : bool :=
  match a, b with
  | CBool x, CBool y => Bool.eqb x y
  | CEnum x, CEnum y | CInt x, CInt y | CUint x, CUint y => x =? y
  | CF32 x, CF32 y | CF64 x, CF64 y => fl_equal x y
  | CStr x, CStr y | CBytes x, CBytes y => String.eqb x y
  | _, _ => false
  end.

(* map keys: Map.Has / Map.Get (keys are bool, integers or strings) *)
Definition key_eqb (a b : cscalar) : bool :=
  match a, b with
  | CBool x, CBool y => Bool.eqb x y
  | CInt x, CInt y | CUint x, CUint y => x =? y
  | CStr x, CStr y => String.eqb x y
  | _, _ => false
  end.
Definition is_key (a : cscalar) : bool :=
  match a with CBool _ | CInt _ | CUint _ | CStr _ => true | _ => false end.

Fixpoint flookup {A} (k : string) (l : list (string * A)) : option A :=
  match l with
  | [] => None
  | (k', x) :: r => if String.eqb k k' then Some x else flookup k r
  end.
Fixpoint klookup {A} (k : cscalar) (l : list (cscalar * A)) : option A :=
  match l with
  | [] => None
  | (k', x) :: r => if key_eqb k k' then Some x else klookup k r
  end.

(* ---- unknown fields (equalUnknown): total length, whole-buffer shortcut, then per field number
   the concatenation of its raw fields, compared as maps (reflect.DeepEqual) ---- *)
Definition raw_concat (u : list (Z * string)) : string := String.concat "" (map snd u).
Definition raw_len (u : list (Z * string)) : Z := Z.of_nat (String.length (raw_concat u)).
Definition raw_group (n : Z) (u : list (Z * string)) : string :=
  raw_concat (filter (fun e => fst e =? n) u).
Fixpoint znodup (l : list Z) : list Z :=
  match l with
  | [] => []
  | x :: r => if existsb (Z.eqb x) r then znodup r else x :: znodup r
  end.
Definition raw_nums (u : list (Z * string)) : list Z := znodup (map fst u).
Definition equal_unknown (x y : list (Z * string)) : bool :=
  if negb (raw_len x =? raw_len y) then false
  else if String.eqb (raw_concat x) (raw_concat y) then true
  else (zlen (raw_nums x) =? zlen (raw_nums y))
       && forallb (fun n => existsb (Z.eqb n) (raw_nums y) && String.eqb (raw_group n x) (raw_group n y))
                  (raw_nums x).

(* ---- the change_time exception: fd.Name() == "change_time" &&
   fd.ContainingMessage().Name() == "Change" (the SHORT name of the containing message) ---- *)
Fixpoint short_name_go (acc : string) (s : string) : string :=
  match s with
  | EmptyString => acc
  | String c r => if Ascii.eqb c "."%char then short_name_go r r else short_name_go acc r
  end.
Definition short_name (full : string) : string := short_name_go full full.
Definition ignored (ty field : string) : bool :=
  String.eqb field "change_time" && String.eqb (short_name ty) "Change".

Definition valid_of (v : cval) : bool := match v with CM _ b _ _ => b | _ => true end.

(* a value comparer (cmp.Value): (equal, ok) *)
Definition vcmp := cval -> cval -> bool * bool.

Section Equator.
  (* eq.cmpValue: never nil, Equal() stores ValueAnd(cmpValue...) *)
  Variable hook : vcmp.
  (* [presence_v0]: the pinned commit reached the change_time test only after my.Has(fd) and
     counted the field in nx / ny, so a Change with a change_time differed from one without *)
  Variable presence_v0 : bool.

  Definition counted (ty : string) (fs : list (string * cval)) : list (string * cval) :=
    if presence_v0 then fs else filter (fun kv => negb (ignored ty (fst kv))) fs.

  (* [eq_default x y]: equalValue after the comparer hook declined; for messages: equalMessage *)
  Fixpoint eq_default (x y : cval) {struct x} : bool :=
    match x, y with
    | CS a, CS b => scalar_default a b
    | CM tx _ fx ux, CM ty _ fy uy =>
        String.eqb tx ty                                             (* Descriptor() identity *)
        && forallb (fun kv : string * cval =>                        (* mx.Range *)
             let (k, vx) := kv in
             if negb presence_v0 && ignored tx k then true else
             match flookup k fy with
             | None => false                                         (* my.Has(fd) *)
             | Some vy =>
                 if ignored tx k then true else                      (* equalField *)
                 match vx, vy with
                 | CL lx, CL ly =>                                   (* equalList *)
                     (fix go (lx ly : list cval) {struct lx} : bool :=
                        match lx, ly with
                        | [], [] => true
                        | a :: ra, b :: rb =>
                            (match hook a b with (e, true) => e | (_, false) => eq_default a b end) && go ra rb
                        | _, _ => false
                        end) lx ly
                 | CMap mx, CMap my =>                               (* equalMap *)
                     (List.length mx =? List.length my)%nat
                     && forallb (fun e : cscalar * cval =>
                          let (key, a) := e in
                          match klookup key my with
                          | None => false
                          | Some b => match hook a b with (e, true) => e | (_, false) => eq_default a b end
                          end) mx
                 | CL _, _ | CMap _, _ => false
                 | a, b => match hook a b with (e, true) => e | (_, false) => eq_default a b end
                 end
             end) fx
        && (List.length (counted tx fx) =? List.length (counted ty fy))%nat   (* nx == ny *)
        && equal_unknown ux uy
    | _, _ => false
    end.

  (* equalValue *)
  Definition equal_value (x y : cval) : bool :=
    match hook x y with (e, true) => e | (_, false) => eq_default x y end.

  (* equator.compare on possibly-nil interface values; calls equalMessage directly *)
  Definition compare (x y : option cval) : bool :=
    match x, y with
    | None, None => true
    | None, _ | _, None => false
    | Some a, Some b => if xorb (valid_of a) (valid_of b) then false else eq_default a b
    end.
End Equator.
