(* Model of /repo/pkg/cmp/logic.go: And / Or on message comparers, ValueAnd / ValueOr on value
   comparers with the (equal, ok) flags exactly as the loops compute them.  No proofs here. *)
From SC Require Import Base.Prelude Cmp.Cmp.

(* a message comparer (cmp.Message) on possibly-nil messages *)
Definition mcmp := option cval -> option cval -> bool.

Fixpoint msg_and (eqs : list mcmp) (x y : option cval) : bool :=
  match eqs with
  | [] => true
  | e :: r => if negb (e x y) then false else msg_and r x y
  end.

Fixpoint msg_or (eqs : list mcmp) (x y : option cval) : bool :=
  match eqs with
  | [] => false
  | e :: r => if e x y then true else msg_or r x y
  end.

(* ValueAnd: [ok] is the flag accumulated so far *)
Fixpoint value_and_go (eqs : list vcmp) (ok : bool) (x y : cval) : bool * bool :=
  match eqs with
  | [] => (true, ok)
  | e :: r =>
      match e x y with
      | (equal, true) => if negb equal then (false, true) else value_and_go r true x y
      | (_, false) => value_and_go r ok x y
      end
  end.
Definition value_and (eqs : list vcmp) : vcmp := value_and_go eqs false.

Fixpoint value_or_go (eqs : list vcmp) (ok : bool) (x y : cval) : bool * bool :=
  match eqs with
  | [] => (false, ok)
  | e :: r =>
      match e x y with
      | (equal, true) => if equal then (true, true) else value_or_go r true x y
      | (_, false) => value_or_go r ok x y
      end
  end.
Definition value_or (eqs : list vcmp) : vcmp := value_or_go eqs false.

(* cmp.Equal(cmpValue...) = equator{ValueAnd(cmpValue...)}.compare *)
Definition cmp_equal_gen (presence_v0 : bool) (cs : list vcmp) : mcmp := compare (value_and cs) presence_v0.
Definition cmp_equal := cmp_equal_gen false.
Definition cmp_equal_v0 := cmp_equal_gen true.

(* ---- combinator TREES: ValueAnd / ValueOr nested to any depth over leaf comparers ----
   cmp.ValueOr(cmp.TimeValueWithin(d), cmp.ValueAnd(cmp.FloatValueApprox(..), ...)) etc.: a member of a
   combination may itself be a combination, whose (equal, ok) pair is consumed by the enclosing loop
   exactly like a leaf's -- in particular ValueAnd answers (true, false) when none of its members
   applies, and the enclosing loop must look at ok before it looks at equal. *)
Inductive ctree (L : Type) :=
| TLeaf (l : L)
| TAnd (ts : list (ctree L))
| TOr (ts : list (ctree L)).
Arguments TLeaf {L} l.
Arguments TAnd {L} ts.
Arguments TOr {L} ts.

Fixpoint tree_cmp {L : Type} (f : L -> vcmp) (t : ctree L) : vcmp :=
  match t with
  | TLeaf l => f l
  | TAnd ts => value_and (map (tree_cmp f) ts)
  | TOr ts => value_or (map (tree_cmp f) ts)
  end.

Fixpoint tree_leaves {L : Type} (t : ctree L) : list L :=
  match t with
  | TLeaf l => [l]
  | TAnd ts | TOr ts => flat_map tree_leaves ts
  end.
