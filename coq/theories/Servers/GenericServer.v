(* Generic model of a trait server that exposes ONE resource through Get<R> / Update<R> / Pull<R>
   (pkg/trait/*/model_server.go, memory.go), seen by a client through the full stack
   WrapApi(router(WrapApi(server))) with the server registered under the names [devs].

   The server is a register (pkg/resource.Value, model Resource/Impl.v + Spec.v + Pull.v) whose
   write is decided by an ARBITRARY business rule

       rule : option M -> request -> M + Z

   "what the handler, the model's interceptors / derive functions, the update mask and the
   writable-fields check make of this Update request when the stored value is [base]": the new
   stored value, or a gRPC status code.  Nothing is assumed of [rule].  It is plugged into the Value
   model as the expected-check (rejections) and the after-interceptor (the new value) of
   [spec_v_set], so the write path is literally the resource model's.

     Get<R>(name, read_mask)              = Value.Get(WithReadMask), filter [get_filter]
     Update<R>(name, ...)                 = Value.Set(...) decided by [rule]; the handler epilogue
                                            either checks err before asserting the result type
                                            ([checked] = true) or asserts first (the v0 of four
                                            handlers: a nil result panics)
     Pull<R>(name, read_mask, updates_only) = Value.Pull(WithReadMask, WithUpdatesOnly), filter [r_filter];
                                            every change is wrapped with the REQUEST's name
     router: a name outside [devs] is NotFound (5) and reaches nothing.

   Two parameters exist for the one server that is not a plain register (openclosepb, see
   Servers/C14Judge.v): [get_filter] may differ from [r_filter], and [live] says whether a Pull
   opened on a given register value is served at all.  Everywhere else get_filter = r_filter and
   live = (fun _ => true).

   Streams: the reader keeps receiving (the unbuffered hand-offs of the stack never hold a writer
   back), so a stream is described by the register state at subscription and the events published
   since; what the client has received is [pull_value] of those, through Stack.v.  No proofs here. *)
From SC Require Import Base.Prelude Resource.Impl Resource.Spec Resource.Pull.

Set Implicit Arguments.

Section GenericServer.
  Variable M : Type.
  Variable m_eqb : M -> M -> bool.
  Variable m_empty : M.
  Variable rmask : Type.
  Variable r_filter : rmask -> M -> M.       (* the read filter of Pull<R> *)
  Variable get_filter : rmask -> M -> M.     (* the read filter of Get<R>: the same function in every server but one *)
  Variable live : option M -> bool.          (* a Pull opened on this register value is served at all (always, but for one server) *)
  Variable equiv : option (option M -> option M -> bool).   (* resource.WithEquivalence of the model *)
  Variable clock_at : Z -> Z.
  Variable request : Type.
  Variable rule : option M -> request -> M + Z.
  Variable checked : bool.            (* handler checks err before the type assertion *)
  Variable devs : list string.        (* the names the server is registered under in the router *)

  Notation vstate := (vstate M).
  Notation vevent := (vevent M).
  Notation ropts := (ropts M rmask).

  Definition code_not_found : Z := 5.
  Definition code_cancelled : Z := 1.
  Definition code_panic : Z := -1.    (* not a status: the handler panicked (recovered by the harness shim) *)

  (* ---- the write, on the resource model ---- *)
  Definition rule_opts (q : request) : wopts M unit :=
    mkW None tt None false
        (Some (fun base => match rule base q with inr c => Some c | inl _ => None end))
        false None
        (Some (fun base _ => match rule base q with inl v => v | inr _ => m_empty end))
        false false false false.

  Definition srv_set (s : vstate) (q : request) : vstate * (M + Z) * list vevent :=
    spec_v_set m_eqb m_empty (fun _ : unit => None) (fun _ _ m => m) clock_at s m_empty (rule_opts q).

  (* "return res.(T), err" against "if err != nil { return nil, err }; return res.(T), nil" (T a pointer type) *)
  Definition respond (r : M + Z) : M + Z :=
    match r with
    | inl v => inl v
    | inr c => if checked then inr c else inr code_panic
    end.

  (* ---- streams ---- *)
  Record stream := mkSt {
    st_name : string;            (* PullRequest.name *)
    st_ro : ropts;               (* read mask, updates_only *)
    st_routed : bool;            (* the router found the name *)
    st_live : bool;              (* the handler serves the subscription *)
    st_at : vstate;              (* register at subscription *)
    st_evs : list vevent;        (* events published since, oldest first *)
    st_open : bool;              (* not yet cancelled by the client *)
    st_reading : bool            (* the client's reader keeps receiving (false once it has stalled) *)
  }.

  Record sstate := mkSS { ss_v : vstate; ss_streams : list stream }.

  Definition srv_init (initial : option M) : sstate := mkSS (v_init clock_at initial) [].

  Inductive sreq :=
  | QGet (name : string) (mask : option rmask)
  | QUpdate (name : string) (q : request)
  | QPull (name : string) (mask : option rmask) (updates_only : bool)   (* stream number = streams opened before *)
  | QCancel (i : nat)                                                   (* the client cancels stream i *)
  | QStall (i : nat).                                                   (* the reader of stream i stops receiving (the call stays open) *)

  Inductive sresp :=
  | PGet (r : option M + Z)
  | PUpdate (r : M + Z)
  | POpened
  | PCancelled
  | PStalled.

  Definition routed (name : string) : bool := existsb (String.eqb name) devs.

  Definition deliver (evs : list vevent) (st : stream) : stream :=
    if st_open st && st_routed st && st_reading st
    then mkSt (st_name st) (st_ro st) (st_routed st) (st_live st) (st_at st) (st_evs st ++ evs) true true
    else st.

  Definition close (st : stream) : stream :=
    mkSt (st_name st) (st_ro st) (st_routed st) (st_live st) (st_at st) (st_evs st) false (st_reading st).

  (* the reader stops calling Recv: nothing more is observed of the stream.  Value.onUpdate puts
     minibus.DropExcess between the bus and every subscriber that did not ask for back-pressure, so a
     reader that does not keep up never holds a writer (or another subscriber) back: for everything
     else the stream might as well not be there *)
  Definition stall (st : stream) : stream :=
    mkSt (st_name st) (st_ro st) (st_routed st) (st_live st) (st_at st) (st_evs st) (st_open st) false.

  Fixpoint stall_at (i : nat) (l : list stream) : list stream :=
    match l, i with
    | [], _ => []
    | st :: r, O => stall st :: r
    | st :: r, S i' => st :: stall_at i' r
    end.

  Fixpoint cancel_at (i : nat) (l : list stream) : list stream :=
    match l, i with
    | [], _ => []
    | st :: r, O => close st :: r
    | st :: r, S i' => st :: cancel_at i' r
    end.

  Definition step (s : sstate) (q : sreq) : sstate * sresp :=
    match q with
    | QGet name mask =>
        if routed name then (s, PGet (inl (v_get get_filter (ss_v s) mask)))
        else (s, PGet (inr code_not_found))
    | QUpdate name rq =>
        if routed name then
          let '(v', r, evs) := srv_set (ss_v s) rq in
          (mkSS v' (map (deliver evs) (ss_streams s)), PUpdate (respond r))
        else (s, PUpdate (inr code_not_found))
    | QPull name mask uo =>
        (mkSS (ss_v s)
              (ss_streams s ++ [mkSt name (mkR mask uo None) (routed name) (live (v_val (ss_v s))) (ss_v s) [] true true]),
         POpened)
    | QCancel i => (mkSS (ss_v s) (cancel_at i (ss_streams s)), PCancelled)
    | QStall i => (mkSS (ss_v s) (stall_at i (ss_streams s)), PStalled)
    end.

  Fixpoint run (s : sstate) (qs : list sreq) : sstate * list sresp :=
    match qs with
    | [] => (s, [])
    | q :: r =>
        let '(s1, p) := step s q in
        let '(s2, ps) := run s1 r in
        (s2, p :: ps)
    end.

  (* what the handler of a stream has sent so far: each change of the Value stream under the
     request's name *)
  Definition handler_sent (st : stream) : list (string * M) :=
    if st_routed st && st_live st
    then map (fun c => (st_name st, vc_value c)) (pull_value r_filter equiv (st_at st) (st_ro st) (st_evs st))
    else [].

  (* how the stream has ended for the client, if it has: NotFound from the router, or its own cancel *)
  Definition stream_status (st : stream) : option Z :=
    if st_routed st then (if st_open st then None else Some code_cancelled) else Some code_not_found.

  Definition stream_out (st : stream) : list (string * M) * option Z := (handler_sent st, stream_status st).

  Definition outputs (s : sstate) : list (list (string * M) * option Z) := map stream_out (ss_streams s).
End GenericServer.

Arguments QGet {rmask request}.
Arguments QUpdate {rmask request}.
Arguments QPull {rmask request}.
Arguments QCancel {rmask request}.
Arguments QStall {rmask request}.
Arguments PGet {M}.
Arguments PUpdate {M}.
Arguments POpened {M}.
Arguments PCancelled {M}.
Arguments PStalled {M}.
