(* The trace a client observes of a run of the generic server model (plain register: one read filter
   for Get and Pull, every subscription served, handlers that check err): requests with their
   responses, and for every stream what arrives through the stack of what the handler sent.
   No proofs here. *)
From SC Require Import Base.Prelude Resource.Impl Resource.Pull Servers.GenericServer Servers.Trace Servers.Stack.

Set Implicit Arguments.

Section TraceOf.
  Variable M : Type.
  Variable m_eqb : M -> M -> bool.
  Variable m_empty : M.
  Variable rmask : Type.
  Variable f : rmask -> M -> M.
  Variable equiv : option (option M -> option M -> bool).
  Variable clock_at : Z -> Z.
  Variable request : Type.
  Variable rule : option M -> request -> M + Z.
  Variable devs : list string.

  Definition tev_of (q : sreq rmask request) (p : sresp M) : tev M rmask :=
    match q with
    | QGet name k => TGet name k (match p with PGet r => r | _ => inr 2 end)
    | QUpdate name _ => TUpdate name (match p with PUpdate r => r | _ => inr 2 end)
    | QPull name k uo => TOpen name k uo
    | QCancel i => TCancel i
    | QStall i => TStall i
    end.

  Fixpoint tevs_of (qs : list (sreq rmask request)) (ps : list (sresp M)) : list (tev M rmask) :=
    match qs, ps with
    | q :: qs', p :: ps' => tev_of q p :: tevs_of qs' ps'
    | _, _ => []
    end.

  Definition client_stream (st : stream M rmask) : sobs M :=
    (through_stack (handler_sent f equiv st), stream_status st).

  Definition plain_run := run m_eqb m_empty f (fun _ : option M => true) clock_at rule true devs.

  Definition trace_of_run (init : option M) (qs : list (sreq rmask request)) : trace M rmask :=
    let '(s, ps) := plain_run (srv_init rmask clock_at init) qs in
    mkTrace init (tevs_of qs ps) (map client_stream (ss_streams s)).
End TraceOf.
