(* The property predicate [trace_ok] looks at the projection only on the read masks of the trace
   applied to the register values of the trace (initial value, successful Update responses): two
   projections that coincide there give the same verdict. *)
From SC Require Import Base.Prelude Servers.Trace.

Set Implicit Arguments.

Section TraceExt.
  Variable M : Type.
  Variable m_eqb : M -> M -> bool.
  Variable rmask : Type.
  Variable p1 p2 : rmask -> M -> M.
  Variable equiv : option (option M -> option M -> bool).
  Variable devs : list string.
  Variable Pk : rmask -> Prop.
  Variable Pv : M -> Prop.
  Hypothesis Hext : forall k v, Pk k -> Pv v -> p1 k v = p2 k v.

  Definition good_mask (k : option rmask) : Prop := match k with Some m => Pk m | None => True end.
  Definition good_cur (c : option M) : Prop := match c with Some v => Pv v | None => True end.
  Definition good_ev (e : tev M rmask) : Prop :=
    match e with
    | TGet _ k _ => good_mask k
    | TUpdate _ (inl v) => Pv v
    | TOpen _ k _ => good_mask k
    | _ => True
    end.

  Lemma pm_ext k v : good_mask k -> Pv v -> pm p1 k v = pm p2 k v.
  Proof. destruct k; simpl; auto. Qed.

  Lemma cur_ext k c : good_mask k -> good_cur c -> option_map (pm p1 k) c = option_map (pm p2 k) c.
  Proof. destruct c; simpl; intros; [f_equal; apply pm_ext; auto|reflexivity]. Qed.

  Lemma gets_ok_ext evs : forall cur, good_cur cur -> Forall good_ev evs ->
    gets_ok m_eqb p1 devs cur evs = gets_ok m_eqb p2 devs cur evs.
  Proof.
    induction evs as [|e r IH]; intros cur Hc Hf; [reflexivity|].
    inversion Hf as [|? ? He Hr]; subst. destruct e as [name k resp|name [v|c]|name k uo|i|i]; cbn [gets_ok].
    - simpl in He. rewrite (@cur_ext k cur He Hc). rewrite (IH cur Hc Hr). reflexivity.
    - destruct (t_routed devs name); [apply IH; simpl; auto|]. rewrite (IH cur Hc Hr). reflexivity.
    - destruct (t_routed devs name); rewrite (IH cur Hc Hr); reflexivity.
    - apply IH; auto.
    - apply IH; auto.
    - apply IH; auto.
  Qed.

  Lemma since_ext i k evs : good_mask k -> Forall good_ev evs -> since p1 devs i k evs = since p2 devs i k evs.
  Proof.
    intros Hk. induction evs as [|e r IH]; intros Hf; [reflexivity|].
    inversion Hf as [|? ? He Hr]; subst. destruct e as [name k0 resp|name [v|c]|name k0 uo|j|j]; cbn [since]; auto.
    - destruct (t_routed devs name); [|auto]. rewrite (IH Hr). simpl in He. rewrite (@pm_ext k v Hk He). reflexivity.
    - destruct (Nat.eqb j i); auto.
    - destruct (Nat.eqb j i); auto.
  Qed.

  Lemma find_open_good evs : forall i cur name k uo cur' rest,
    good_cur cur -> Forall good_ev evs ->
    find_open devs i cur evs = Some (name, k, uo, cur', rest) ->
    good_mask k /\ good_cur cur' /\ Forall good_ev rest.
  Proof.
    induction evs as [|e r IH]; intros i cur name k uo cur' rest Hc Hf H; [discriminate|].
    inversion Hf as [|? ? He Hr]; subst. destruct e as [n k0 resp|n [v|c]|n k0 uo0|j|j]; cbn [find_open] in H.
    - eapply IH; eauto.
    - eapply IH; [|exact Hr|exact H]. destruct (t_routed devs n); simpl; auto.
    - eapply IH; eauto.
    - destruct i as [|i'].
      + inversion H; subst. simpl in He. auto.
      + eapply IH; eauto.
    - eapply IH; eauto.
    - eapply IH; eauto.
  Qed.

  Lemma stream_ok_ext (t : trace M rmask) i o :
    good_cur (t_init t) -> Forall good_ev (t_evs t) ->
    stream_ok m_eqb p1 equiv devs t i o = stream_ok m_eqb p2 equiv devs t i o.
  Proof.
    intros Hc Hf. unfold stream_ok.
    destruct (find_open devs i (t_init t) (t_evs t)) as [[[[[name k] uo] cur'] rest]|] eqn:E; [|reflexivity].
    destruct (@find_open_good _ _ _ _ _ _ _ _ Hc Hf E) as [Hk [Hc' Hr]].
    rewrite (@since_ext i k rest Hk Hr). rewrite (@cur_ext k cur' Hk Hc'). reflexivity.
  Qed.

  Lemma streams_from_ext (t : trace M rmask) obs : forall i,
    good_cur (t_init t) -> Forall good_ev (t_evs t) ->
    streams_from m_eqb p1 equiv devs t i obs = streams_from m_eqb p2 equiv devs t i obs.
  Proof.
    induction obs as [|o r IH]; intros i Hc Hf; [reflexivity|]. cbn [streams_from].
    rewrite (@stream_ok_ext t i o Hc Hf), (IH (S i) Hc Hf). reflexivity.
  Qed.

  Theorem trace_ok_ext (t : trace M rmask) :
    good_cur (t_init t) -> Forall good_ev (t_evs t) ->
    trace_ok m_eqb p1 equiv devs t = trace_ok m_eqb p2 equiv devs t.
  Proof.
    intros Hc Hf. unfold trace_ok, streams_ok.
    rewrite (@gets_ok_ext (t_evs t) (t_init t) Hc Hf), (@streams_from_ext t (t_streams t) O Hc Hf). reflexivity.
  Qed.
End TraceExt.
