(* For EVERY business rule (answering with values or gRPC statuses) and EVERY request history, the
   trace a client observes of the generic server model through the stack satisfies the property
   predicate [trace_ok] (Servers/Trace.v), which never looks at the model.  Proof: one simulation
   between the model's state (register, streams with their accumulated events) and the trace
   scanners ([gets_ok] left to right, [find_open]/[since] per stream). *)
From SC Require Import Base.Prelude Resource.Impl Resource.Spec Resource.Pull
  Servers.GenericServer Servers.GenericServerProofs Servers.Trace Servers.Stack Servers.StackProofs
  Servers.TraceOf.

Set Implicit Arguments.

Section TraceProofs.
  Variable M : Type.
  Variable m_eqb : M -> M -> bool.
  Variable m_empty : M.
  Variable rmask : Type.
  Variable f : rmask -> M -> M.
  Variable equiv : option (option M -> option M -> bool).
  Variable clock_at : Z -> Z.
  Variable request : Type.
  Variable rule : option M -> request -> M + Z.
  Variable devs : list string.

  Hypothesis m_eqb_refl : forall a, m_eqb a a = true.
  Hypothesis m_eqb_eq : forall a b, m_eqb a b = true -> a = b.
  Hypothesis rule_status : forall b q c, rule b q = inr c -> is_status c = true.

  Notation stream := (stream M rmask).
  Notation sstate := (sstate M rmask).
  Notation sreq := (sreq rmask request).
  Notation step := (step m_eqb m_empty f (fun _ : option M => true) clock_at rule true devs).
  Notation run := (run m_eqb m_empty f (fun _ : option M => true) clock_at rule true devs).
  Notation routed := (routed devs).
  Notation handler_sent := (handler_sent f equiv).
  Notation filt := (filt f).

  Lemma pm_filt (ro : ropts M rmask) v : pm f (ro_mask ro) v = filt ro v.
  Proof. reflexivity. Qed.

  (* ---- one step, spelled out ---- *)
  Lemma step_update (s : sstate) name rq :
    step s (QUpdate name rq) =
    if routed name then
      match rule (v_val (ss_v s)) rq with
      | inl nv => (mkSS (mkV (Some nv) (clock_at (v_reads (ss_v s))) (v_reads (ss_v s) + 1))
                        (map (deliver [mkVE nv (clock_at (v_reads (ss_v s)))]) (ss_streams s)), PUpdate (inl nv))
      | inr c => (s, PUpdate (inr c))
      end
    else (s, PUpdate (inr 5)).
  Proof.
    simpl. destruct (routed name); [|reflexivity]. rewrite srv_set_rule.
    destruct (rule (v_val (ss_v s)) rq) as [nv|c]; simpl; [reflexivity|].
    destruct s as [v l]. simpl. f_equal. f_equal.
    rewrite <- (map_id l) at 2. apply map_ext. intros st. apply deliver_nil.
  Qed.

  (* ---- clauses 1, 2, 5 ---- *)
  Lemma gets_ok_run qs : forall (s s2 : sstate) ps,
    run s qs = (s2, ps) -> gets_ok m_eqb f devs (v_val (ss_v s)) (tevs_of qs ps) = true.
  Proof.
    induction qs as [|q r IH]; intros s s2 ps H.
    - simpl in H. inversion H. reflexivity.
    - cbn [GenericServer.run] in H. destruct (step s q) as [s1 p] eqn:E1. destruct (run s1 r) as [s' ps'] eqn:E2.
      inversion H; subst. cbn [tevs_of]. specialize (IH _ _ _ E2).
      destruct q as [name k|name rq|name k uo|i|i].
      5:{ simpl in E1. inversion E1; subst. exact IH. }
      + simpl in E1. cbn [tev_of Trace.gets_ok]. change (t_routed devs name) with (routed name).
        destruct (routed name); inversion E1; subst; cbn [Trace.get_eqb].
        * rewrite IH, andb_true_r. unfold v_get.
          destruct k as [m|]; destruct (v_val (ss_v s1)); simpl; auto.
        * rewrite IH. reflexivity.
      + rewrite step_update in E1. cbn [tev_of Trace.gets_ok]. change (t_routed devs name) with (routed name).
        destruct (routed name).
        * destruct (rule (v_val (ss_v s)) rq) as [nv|c] eqn:Er; inversion E1; subst.
          -- exact IH.
          -- rewrite (rule_status Er). exact IH.
        * inversion E1; subst. exact IH.
      + simpl in E1. inversion E1; subst. exact IH.
      + simpl in E1. inversion E1; subst. exact IH.
  Qed.

  (* ---- the stream filter as a function of values only ---- *)
  Fixpoint fwd (last : option M) (l : list M) : list M :=
    match l with
    | [] => []
    | v :: r => if suppressed equiv last v then fwd last r else v :: fwd (Some v) r
    end.

  Lemma v_forward_fwd (ro : ropts M rmask) evs : forall last,
    map (@vc_value M) (v_forward f equiv ro last evs) = fwd last (map (fun e => filt ro (ve_value e)) evs).
  Proof.
    induction evs as [|e r IH]; intros last; [reflexivity|]. cbn [v_forward map fwd].
    change (match equiv with Some cmp => cmp last (Some (filt ro (ve_value e))) | None => false end)
      with (suppressed equiv last (filt ro (ve_value e))).
    destruct (suppressed equiv last (filt ro (ve_value e))); [apply IH|]. cbn [map vc_value]. f_equal. apply IH.
  Qed.

  Lemma fwd_head l : forall last o t, fwd last l = o :: t -> suppressed equiv last o = false.
  Proof.
    induction l as [|v r IH]; intros last o t H; [discriminate|]. cbn [fwd] in H.
    destruct (suppressed equiv last v) eqn:E.
    - eapply IH; exact H.
    - inversion H; subst. exact E.
  Qed.

  Lemma suppressed_unchanged base last v : suppressed equiv last v = true -> unchanged m_eqb equiv base last v = true.
  Proof. unfold suppressed, unchanged. destruct equiv; [intros H; rewrite H; reflexivity|discriminate]. Qed.

  (* the model's deliveries are accepted by the property's stream clause *)
  Lemma accepts_fwd ups : forall base last, accepts m_eqb equiv base last ups (fwd last ups) = true.
  Proof.
    induction ups as [|v r IH]; intros base last; [reflexivity|]. cbn [fwd].
    destruct (suppressed equiv last v) eqn:Es.
    - cbn [accepts].
      destruct (fwd last r) as [|o obs'] eqn:Ef.
      + rewrite (suppressed_unchanged base _ _ Es). rewrite <- Ef. apply IH.
      + destruct (m_eqb o v) eqn:Eo.
        * apply m_eqb_eq in Eo. subst o. rewrite (fwd_head _ _ Ef) in Es. discriminate.
        * rewrite (suppressed_unchanged base _ _ Es). rewrite <- Ef. apply IH.
    - cbn [accepts]. rewrite m_eqb_refl. apply IH.
  Qed.

  (* ---- streams: how the events a stream accumulates relate to [since] ---- *)
  Definition vals (ro : ropts M rmask) (evs : list (vevent M)) : list M := map (fun e => filt ro (ve_value e)) evs.

  (* a stream that exists before a run: same request, same subscription point, and the values it has
     accumulated grow by exactly what [since] reads off the trace; it is open afterwards unless
     cancelled in between *)
  Definition is_cancel_of (i : nat) (e : tev M rmask) : bool :=
    match e with TCancel j => Nat.eqb j i | _ => false end.

  Lemma cancelled_later_cons i e r :
    cancelled_later i (e :: r) = is_cancel_of i e || cancelled_later i r.
  Proof. destruct e; reflexivity. Qed.

  Lemma since_cancelled i k evs : snd (since f devs i k evs) = cancelled_later i evs.
  Proof.
    induction evs as [|e r IH]; [reflexivity|].
    destruct e as [n k0 rs|n [v|c]|n k0 uo0|j|j]; cbn [since cancelled_later]; try exact IH.
    - destruct (t_routed devs n); [|exact IH].
      destruct (since f devs i k r) as [l c]. exact IH.
    - destruct (Nat.eqb j i); [reflexivity|exact IH].
    - destruct (Nat.eqb j i); [reflexivity|exact IH].
  Qed.

  Lemma existing_stream qs : forall (s s2 : sstate) ps i st,
    run s qs = (s2, ps) -> nth_error (ss_streams s) i = Some st ->
    exists st2, nth_error (ss_streams s2) i = Some st2 /\
      st_name st2 = st_name st /\ st_ro st2 = st_ro st /\ st_routed st2 = st_routed st /\
      st_live st2 = st_live st /\ st_at st2 = st_at st /\
      (st_open st = false -> st_evs st2 = st_evs st /\ st_open st2 = false) /\
      (st_reading st = false ->
         st_evs st2 = st_evs st /\ st_open st2 = st_open st && negb (cancelled_later i (tevs_of qs ps))) /\
      (st_open st = true -> st_routed st = true -> st_reading st = true ->
         vals (st_ro st) (st_evs st2) =
           vals (st_ro st) (st_evs st) ++ fst (since f devs i (ro_mask (st_ro st)) (tevs_of qs ps)) /\
         st_open st2 = negb (snd (since f devs i (ro_mask (st_ro st)) (tevs_of qs ps)))).
  Proof.
    induction qs as [|q r IH]; intros s s2 ps i st H Hi.
    - simpl in H. inversion H; subst. exists st. split; [exact Hi|].
      split; [reflexivity|]. split; [reflexivity|]. split; [reflexivity|]. split; [reflexivity|].
      split; [reflexivity|]. split; [|split].
      + intros Hc. split; [reflexivity|exact Hc].
      + intros _. simpl. rewrite andb_true_r. split; reflexivity.
      + intros Ho _ _. simpl. rewrite app_nil_r. split; [reflexivity|exact Ho].
    - cbn [GenericServer.run] in H. destruct (step s q) as [s1 p] eqn:E1. destruct (run s1 r) as [s' ps'] eqn:E2.
      inversion H; subst. cbn [tevs_of].
      (* the stream after the first step *)
      assert (Hstep : exists st1, nth_error (ss_streams s1) i = Some st1 /\
                st_name st1 = st_name st /\ st_ro st1 = st_ro st /\ st_routed st1 = st_routed st /\
                st_live st1 = st_live st /\ st_at st1 = st_at st /\
                (st_open st = false -> st_evs st1 = st_evs st /\ st_open st1 = false) /\
                (st_reading st = false -> st_evs st1 = st_evs st /\ st_reading st1 = false /\
                   st_open st1 = st_open st && negb (is_cancel_of i (tev_of q p))) /\
                (st_open st = true -> st_routed st = true -> st_reading st = true ->
                   match tev_of q p with
                   | TUpdate name (inl v) =>
                       if t_routed devs name
                       then st_evs st1 = st_evs st ++ [mkVE v (clock_at (v_reads (ss_v s)))] /\ st_open st1 = true /\ st_reading st1 = true
                       else st_evs st1 = st_evs st /\ st_open st1 = true /\ st_reading st1 = true
                   | TCancel j => st_evs st1 = st_evs st /\ st_open st1 = negb (Nat.eqb j i) /\ st_reading st1 = true
                   | TStall j => st_evs st1 = st_evs st /\ st_open st1 = true /\ st_reading st1 = negb (Nat.eqb j i)
                   | _ => st_evs st1 = st_evs st /\ st_open st1 = true /\ st_reading st1 = true
                   end)).
      { destruct q as [name k|name rq|name k uo|j|j].
        - simpl in E1. destruct (routed name); inversion E1; subst; exists st; cbn [tev_of is_cancel_of];
            rewrite andb_true_r; repeat split; auto.
        - rewrite step_update in E1. cbn [tev_of]. change (t_routed devs name) with (routed name).
          destruct (routed name) eqn:Ern.
          + destruct (rule (v_val (ss_v s)) rq) as [nv|c]; inversion E1; subst.
            * exists (deliver [mkVE nv (clock_at (v_reads (ss_v s)))] st). split.
              { cbn [ss_streams]. rewrite nth_error_map, Hi. reflexivity. }
              cbn [is_cancel_of]. unfold deliver.
              destruct (st_open st) eqn:Eo; destruct (st_routed st) eqn:Er; destruct (st_reading st) eqn:Erd;
                cbn [andb negb st_name st_ro st_routed st_live st_at st_evs st_open st_reading];
                rewrite ?Eo, ?Er, ?Erd; repeat split; auto; try discriminate; try (intros; discriminate).
            * exists st. cbn [is_cancel_of]. rewrite andb_true_r. repeat split; auto.
          + inversion E1; subst. exists st. cbn [is_cancel_of]. rewrite andb_true_r. repeat split; auto.
        - simpl in E1. inversion E1; subst. exists st. split.
          { cbn [ss_streams]. rewrite nth_error_app1; [exact Hi|]. apply nth_error_Some. rewrite Hi. discriminate. }
          cbn [tev_of is_cancel_of]. rewrite andb_true_r. repeat split; auto.
        - simpl in E1. inversion E1; subst. cbn [ss_streams tev_of is_cancel_of].
          rewrite (cancel_at_nth j _ _ Hi). destruct (Nat.eqb j i) eqn:Ej.
          + exists (close st). cbn [negb]. rewrite andb_false_r. repeat split; auto.
          + exists st. cbn [negb]. rewrite andb_true_r. repeat split; auto.
        - simpl in E1. inversion E1; subst. cbn [ss_streams tev_of is_cancel_of].
          rewrite (stall_at_nth j _ _ Hi). destruct (Nat.eqb j i) eqn:Ej.
          + exists (stall st). cbn [negb]. rewrite andb_true_r. repeat split; auto.
          + exists st. cbn [negb]. rewrite andb_true_r. repeat split; auto. }
      destruct Hstep as [st1 [Hi1 [Hn1 [Hro1 [Hr1 [Hl1 [Ha1 [Hc1 [Hd1 Ho1]]]]]]]]].
      destruct (IH _ _ _ _ _ E2 Hi1) as [st2 [Hi2 [Hn2 [Hro2 [Hr2 [Hl2 [Ha2 [Hc2 [Hd2 Ho2]]]]]]]]].
      exists st2. split; [exact Hi2|]. rewrite Hn2, Hro2, Hr2, Hl2, Ha2.
      split; [exact Hn1|]. split; [exact Hro1|]. split; [exact Hr1|]. split; [exact Hl1|]. split; [exact Ha1|].
      split; [|split].
      + intros Hcl. destruct (Hc1 Hcl) as [He1 Hop1]. destruct (Hc2 Hop1) as [He2 Hop2]. rewrite He2, He1. auto.
      + intros Hrd. destruct (Hd1 Hrd) as [He1 [Hrd1 Hop1]]. destruct (Hd2 Hrd1) as [He2 Hop2].
        rewrite He2, He1. split; [reflexivity|]. rewrite Hop2, Hop1, cancelled_later_cons.
        rewrite negb_orb, andb_assoc. reflexivity.
      + intros Hop Hrt Hrd. specialize (Ho1 Hop Hrt Hrd). rewrite Hro1, Hr1 in *.
        destruct (tev_of q p) as [n k0 rs|n [v|c]|n k0 uo0|j|j] eqn:Et; cbn [since].
        * destruct Ho1 as [He1 [Hop1 Hrd1]]. destruct (Ho2 Hop1 Hrt Hrd1) as [A B]. rewrite He1 in A. auto.
        * destruct (t_routed devs n).
          -- destruct Ho1 as [He1 [Hop1 Hrd1]]. destruct (Ho2 Hop1 Hrt Hrd1) as [A B].
             destruct (since f devs i (ro_mask (st_ro st)) (tevs_of r ps')) as [l c] eqn:Es. cbn [fst snd] in *.
             rewrite A, He1. unfold vals. rewrite map_app, <- app_assoc. cbn [map app ve_value]. auto.
          -- destruct Ho1 as [He1 [Hop1 Hrd1]]. destruct (Ho2 Hop1 Hrt Hrd1) as [A B]. rewrite He1 in A. auto.
        * destruct Ho1 as [He1 [Hop1 Hrd1]]. destruct (Ho2 Hop1 Hrt Hrd1) as [A B]. rewrite He1 in A. auto.
        * destruct Ho1 as [He1 [Hop1 Hrd1]]. destruct (Ho2 Hop1 Hrt Hrd1) as [A B]. rewrite He1 in A. auto.
        * destruct Ho1 as [He1 [Hop1 Hrd1]]. destruct (Nat.eqb j i); cbn [negb] in Hop1.
          -- destruct (Hc2 Hop1) as [He2 Hop2]. cbn [fst snd]. rewrite He2, He1, app_nil_r. auto.
          -- destruct (Ho2 Hop1 Hrt Hrd1) as [A B]. rewrite He1 in A. auto.
        * destruct Ho1 as [He1 [Hop1 Hrd1]]. destruct (Nat.eqb j i); cbn [negb] in Hrd1.
          -- destruct (Hd2 Hrd1) as [He2 Hop2]. cbn [fst snd]. rewrite He2, He1, app_nil_r.
             rewrite Hop2, Hop1. auto.
          -- destruct (Ho2 Hop1 Hrt Hrd1) as [A B]. rewrite He1 in A. auto.
  Qed.

  Lemma run_streams_length qs : forall (s s2 : sstate) ps,
    run s qs = (s2, ps) ->
    List.length (ss_streams s2) = (List.length (ss_streams s) + count_opens (tevs_of qs ps))%nat.
  Proof.
    induction qs as [|q r IH]; intros s s2 ps H.
    - simpl in H. inversion H; subst. simpl. lia.
    - cbn [GenericServer.run] in H. destruct (step s q) as [s1 p] eqn:E1. destruct (run s1 r) as [s' ps'] eqn:E2.
      inversion H; subst. cbn [tevs_of]. rewrite (IH _ _ _ E2).
      destruct q as [name k|name rq|name k uo|j|j].
      5:{ simpl in E1. inversion E1; subst. cbn [ss_streams tev_of count_opens]. rewrite stall_at_length. reflexivity. }
      + simpl in E1. destruct (routed name); inversion E1; subst; reflexivity.
      + rewrite step_update in E1. destruct (routed name).
        * destruct (rule (v_val (ss_v s)) rq); inversion E1; subst; cbn [ss_streams tev_of count_opens];
            [rewrite map_length|]; reflexivity.
        * inversion E1; subst. reflexivity.
      + simpl in E1. inversion E1; subst. cbn [ss_streams tev_of count_opens]. rewrite app_length. simpl. lia.
      + simpl in E1. inversion E1; subst. cbn [ss_streams tev_of count_opens]. rewrite cancel_at_length. reflexivity.
  Qed.

  (* a stream of the final state satisfies the stream clause, wherever the history starts *)
  Definition stream_fact (cur : option M) (evs : list (tev M rmask)) (base i : nat) (st2 : stream) : Prop :=
    exists name k uo cur' rest,
      find_open devs (i - base) cur evs = Some (name, k, uo, cur', rest) /\
      st_name st2 = name /\ st_ro st2 = mkR k uo None /\ st_routed st2 = t_routed devs name /\ st_live st2 = true /\
      v_val (st_at st2) = cur' /\
      (t_routed devs name = true ->
        vals (st_ro st2) (st_evs st2) = fst (since f devs i k rest) /\
        st_open st2 = negb (snd (since f devs i k rest))).

  Lemma new_stream qs : forall (s s2 : sstate) ps i st2,
    run s qs = (s2, ps) -> (List.length (ss_streams s) <= i)%nat ->
    nth_error (ss_streams s2) i = Some st2 ->
    stream_fact (v_val (ss_v s)) (tevs_of qs ps) (List.length (ss_streams s)) i st2.
  Proof.
    induction qs as [|q r IH]; intros s s2 ps i st2 H Hle Hi.
    - simpl in H. inversion H; subst. exfalso.
      assert (nth_error (ss_streams s2) i <> None) by (rewrite Hi; discriminate).
      apply nth_error_Some in H0. lia.
    - cbn [GenericServer.run] in H. destruct (step s q) as [s1 p] eqn:E1. destruct (run s1 r) as [s' ps'] eqn:E2.
      inversion H; subst. cbn [tevs_of].
      destruct q as [name k|name rq|name k uo|j|j].
      5:{ simpl in E1. inversion E1; subst. cbn [tev_of]. unfold stream_fact. cbn [find_open].
          pose proof (IH _ _ _ i st2 E2) as IH'. cbn [ss_streams ss_v] in IH'. rewrite stall_at_length in IH'.
          exact (IH' Hle Hi). }
      + simpl in E1. assert (s1 = s) by (destruct (routed name); inversion E1; reflexivity). subst s1.
        cbn [tev_of]. unfold stream_fact. cbn [find_open]. exact (IH _ _ _ _ _ E2 Hle Hi).
      + rewrite step_update in E1. cbn [tev_of]. unfold stream_fact.
        change (t_routed devs name) with (routed name). destruct (routed name) eqn:Ern.
        * destruct (rule (v_val (ss_v s)) rq) as [nv|c]; inversion E1; subst.
          -- cbn [find_open]. change (t_routed devs name) with (routed name). rewrite Ern.
             pose proof (IH _ _ _ i st2 E2) as IH'. cbn [ss_streams ss_v v_val] in IH'. rewrite map_length in IH'.
             exact (IH' Hle Hi).
          -- cbn [find_open]. exact (IH _ _ _ _ _ E2 Hle Hi).
        * inversion E1; subst. cbn [find_open]. exact (IH _ _ _ _ _ E2 Hle Hi).
      + simpl in E1. inversion E1; subst. cbn [tev_of]. unfold stream_fact.
        remember (mkSt name (mkR k uo None) (routed name) true (ss_v s) [] true true) as st0.
        destruct (Nat.eq_dec i (List.length (ss_streams s))) as [Heq|Hne].
        * (* this is the stream being opened *)
          subst i. rewrite Nat.sub_diag. cbn [find_open].
          assert (Hn : nth_error (ss_streams s ++ [st0]) (List.length (ss_streams s)) = Some st0).
          { rewrite nth_error_app2 by lia. rewrite Nat.sub_diag. reflexivity. }
          destruct (@existing_stream r (mkSS (ss_v s) (ss_streams s ++ [st0])) s2 ps' _ st0 E2 Hn)
            as [st2' [Hi2 [Hn2 [Hro2 [Hr2 [Hl2 [Ha2 [Hc2 [Hd2 Ho2]]]]]]]]].
          cbn [ss_streams] in Hi2. rewrite Hi in Hi2. inversion Hi2; subst st2'.
          exists name, k, uo, (v_val (ss_v s)), (tevs_of r ps').
          rewrite Hn2, Hro2, Hr2, Hl2, Ha2. subst st0. cbn [st_name st_ro st_routed st_live st_at].
          split; [reflexivity|]. split; [reflexivity|]. split; [reflexivity|]. split; [reflexivity|].
          split; [reflexivity|]. split; [reflexivity|].
          intros Hrt. change (t_routed devs name) with (routed name) in Hrt.
          destruct (Ho2 eq_refl Hrt eq_refl) as [A B]. split; [|exact B].
          cbn [st_ro ro_mask st_evs vals map app] in A. exact A.
        * (* a later one *)
          assert (Hle' : (List.length (ss_streams (mkSS (ss_v s) (ss_streams s ++ [st0]))) <= i)%nat).
          { cbn [ss_streams]. rewrite app_length. simpl. lia. }
          pose proof (IH _ _ _ i st2 E2 Hle' Hi) as IH'. unfold stream_fact in IH'.
          cbn [ss_streams ss_v] in IH'. rewrite app_length in IH'. cbn [List.length] in IH'.
          destruct (i - List.length (ss_streams s))%nat as [|d] eqn:Ed; [lia|].
          cbn [find_open]. replace (i - (List.length (ss_streams s) + 1))%nat with d in IH' by lia. exact IH'.
      + simpl in E1. inversion E1; subst. cbn [tev_of]. unfold stream_fact. cbn [find_open].
        pose proof (IH _ _ _ i st2 E2) as IH'. cbn [ss_streams ss_v] in IH'. rewrite cancel_at_length in IH'.
        exact (IH' Hle Hi).
  Qed.

  (* ---- a stream with these facts passes [stream_ok] ---- *)
  Lemma forallb_names name (l : list M) : forallb (fun x : string * M => String.eqb (fst x) name) (map (pair name) l) = true.
  Proof. induction l; simpl; [reflexivity|]. rewrite String.eqb_refl. exact IHl. Qed.

  Lemma handler_sent_values (st : stream) :
    served st = true ->
    handler_sent st =
    map (pair (st_name st))
        (match seed_of f st with Some v => [v] | None => [] end ++
         fwd (seed_of f st) (vals (st_ro st) (st_evs st))).
  Proof.
    intros Hs. rewrite (handler_sent_shape f equiv st Hs). rewrite map_app. f_equal.
    - destruct (seed_of f st); reflexivity.
    - unfold vals. rewrite <- v_forward_fwd. rewrite map_map. reflexivity.
  Qed.

  Lemma stream_ok_of_fact (t : trace M rmask) i st2 :
    stream_fact (t_init t) (t_evs t) 0 i st2 ->
    stream_ok m_eqb f equiv devs t i (client_stream f equiv st2) = true.
  Proof.
    intros [name [k [uo [cur' [rest [Hf [Hn [Hro [Hr [Hl [Hat Hs]]]]]]]]]]].
    unfold stream_ok. rewrite Nat.sub_0_r in Hf. rewrite Hf.
    unfold client_stream. rewrite through_stack_id. cbn [fst snd].
    destruct (t_routed devs name) eqn:Ert.
    - destruct (Hs eq_refl) as [Hv Ho].
      destruct (since f devs i k rest) as [ups cancelled] eqn:Esn. cbn [fst snd] in *.
      assert (Hsv : served st2 = true) by (unfold served; rewrite Hr, Hl; reflexivity).
      rewrite (handler_sent_values st2 Hsv). rewrite Hn, Hv.
      assert (Hst : stream_status st2 = if cancelled then Some 1 else None).
      { unfold stream_status. rewrite Hr, Ho. destruct cancelled; reflexivity. }
      rewrite Hst. rewrite forallb_names. rewrite map_map. cbn [snd]. rewrite map_id.
      assert (Hseed : seed_of f st2 = if uo then None else option_map (pm f k) cur').
      { unfold seed_of. rewrite Hro, Hat. cbn [ro_updates_only]. destruct uo; [reflexivity|].
        destruct cur'; reflexivity. }
      rewrite Hseed.
      assert (Hstat : status_eqb (if cancelled then Some 1 else None) (if cancelled then Some 1 else None) = true)
        by (destruct cancelled; reflexivity).
      rewrite Hstat. cbn [andb].
      destruct uo.
      + cbn [app]. apply accepts_fwd.
      + destruct (option_map (pm f k) cur') as [c|]; cbn [app].
        * rewrite m_eqb_refl. cbn [andb]. apply accepts_fwd.
        * apply accepts_fwd.
    - assert (Hh : handler_sent st2 = []) by (unfold GenericServer.handler_sent; rewrite Hr; reflexivity).
      rewrite Hh. unfold stream_status. rewrite Hr. reflexivity.
  Qed.

  Lemma streams_from_ok (t : trace M rmask) (l : list stream) : forall pre,
    (forall i st, nth_error (pre ++ l) i = Some st -> stream_fact (t_init t) (t_evs t) 0 i st) ->
    streams_from m_eqb f equiv devs t (List.length pre) (map (client_stream f equiv) l) = true.
  Proof.
    induction l as [|st r IH]; intros pre H; [reflexivity|]. cbn [map streams_from].
    rewrite stream_ok_of_fact.
    - cbn [andb]. specialize (IH (pre ++ [st])). rewrite app_length in IH. cbn [List.length] in IH.
      rewrite Nat.add_1_r in IH. apply IH. intros i st' Hi. apply H. rewrite <- app_assoc in Hi. exact Hi.
    - apply H. rewrite nth_error_app2 by lia. rewrite Nat.sub_diag. reflexivity.
  Qed.

  Theorem model_satisfies_property_sec init qs :
    trace_ok m_eqb f equiv devs (trace_of_run m_eqb m_empty f equiv clock_at rule devs init qs) = true.
  Proof.
    unfold trace_of_run, plain_run.
    destruct (run (srv_init rmask clock_at init) qs) as [s ps] eqn:E.
    unfold trace_ok. cbn [t_init t_evs t_streams]. apply andb_true_intro. split.
    - exact (gets_ok_run _ _ E).
    - unfold streams_ok. cbn [t_init t_evs t_streams]. apply andb_true_intro. split.
      + rewrite map_length. rewrite (run_streams_length _ _ E). simpl. apply Nat.eqb_refl.
      + apply (streams_from_ok (mkTrace init (tevs_of qs ps) (map (client_stream f equiv) (ss_streams s))) (ss_streams s) []).
        intros i st Hi. cbn [app] in Hi. cbn [t_init t_evs].
        exact (new_stream _ _ E (Nat.le_0_l i) Hi).
  Qed.
End TraceProofs.

Theorem model_satisfies_property :
  forall (M rmask request : Type) (m_eqb : M -> M -> bool) (m_empty : M) (f : rmask -> M -> M)
         (equiv : option (option M -> option M -> bool)) (clock_at : Z -> Z)
         (rule : option M -> request -> M + Z) (devs : list string),
  (forall a, m_eqb a a = true) -> (forall a b, m_eqb a b = true -> a = b) ->
  (forall b q c, rule b q = inr c -> is_status c = true) ->
  forall init qs,
    trace_ok m_eqb f equiv devs
      (trace_of_run m_eqb m_empty f equiv clock_at rule devs init qs) = true.
Proof. intros. apply model_satisfies_property_sec; assumption. Qed.
