(* The correspondence judge is sound for C14: an observation that agrees with the model run (rule
   taken from the observed Update responses) satisfies the property predicate C14_ok, provided the
   observation is well-formed: the register values it shows are messages of the resource type and
   the rejected Updates carry gRPC statuses (a recovered panic, code -1, is exactly what makes
   [agrees] and [C14_ok] differ).  Glue between
     - model_satisfies_property (TraceProofs.v): the model's own trace satisfies trace_ok for the
       model's own read filter,
     - filter_is_projection (Masks/GetProofs.v, C06): that filter is the reference projection on
       conformant messages and masks without empty segments,
     - trace_ok_ext (TraceExt.v): trace_ok only looks at the projection there. *)
From SC Require Import Base.Prelude Msg.Msg Msg.MsgProofs Msg.Schema Msg.Path Msg.FmUtils Masks.Get Masks.GetProofs Masks.Update Traits.FanSpeed
  Resource.Impl Resource.Pull Servers.Kinds Servers.GenericServer Servers.GenericServerProofs
  Servers.Trace Servers.TraceOf Servers.TraceProofs Servers.TraceExt Servers.Stack Servers.StackProofs
  Servers.C14Judge Gen.Servers.

(* ---- boolean equalities are equalities ---- *)
Lemma list_eqb_sound {A} (e : A -> A -> bool) (He : forall x y, e x y = true -> x = y) :
  forall a b, list_eqb e a b = true -> a = b.
Proof.
  induction a as [|x a IH]; intros [|y b] H; simpl in H; try discriminate; [reflexivity|].
  apply andb_prop in H. destruct H as [H1 H2]. f_equal; [apply He; exact H1|apply IH; exact H2].
Qed.

Lemma option_eqb_sound {A} (e : A -> A -> bool) (He : forall x y, e x y = true -> x = y) :
  forall a b, option_eqb e a b = true -> a = b.
Proof. intros [x|] [y|] H; simpl in H; try discriminate; [f_equal; apply He; exact H|reflexivity]. Qed.

Lemma get_eqb_sound a b : get_eqb value_eqb a b = true -> a = b.
Proof.
  destruct a as [x|x], b as [y|y]; simpl; intros H; try discriminate.
  - f_equal. apply (option_eqb_sound value_eqb value_eqb_eq). exact H.
  - f_equal. apply Z.eqb_eq. exact H.
Qed.

Lemma upd_eqb_sound a b : upd_eqb a b = true -> a = b.
Proof.
  destruct a as [x|x], b as [y|y]; simpl; intros H; try discriminate.
  - f_equal. apply value_eqb_eq. exact H.
  - f_equal. apply Z.eqb_eq. exact H.
Qed.

Lemma sobs_eqb_sound (a b : sobs value) : sobs_eqb value_eqb a b = true -> a = b.
Proof.
  destruct a as [la sa], b as [lb sb]. unfold sobs_eqb. simpl. intros H.
  apply andb_prop in H. destruct H as [H1 H2]. f_equal.
  - apply (list_eqb_sound (change_eqb value_eqb)); [|exact H1].
    intros [n x] [m y] Hc. unfold change_eqb in Hc. simpl in Hc. apply andb_prop in Hc. destruct Hc as [Hn Hv].
    apply String.eqb_eq in Hn. apply value_eqb_eq in Hv. subst. reflexivity.
  - apply (option_eqb_sound Z.eqb); [|exact H2]. intros x y Hx. apply Z.eqb_eq. exact Hx.
Qed.

(* ---- the observed events are the model's trace ---- *)
Lemma resps_are_trace evs : forall n (resps : list (sresp value)),
  all2 resp_matches resps evs = true -> tevs_of (reqs_of n evs) resps = evs.
Proof.
  induction evs as [|e r IH]; intros n resps H.
  - destruct resps; [reflexivity|discriminate].
  - destruct resps as [|p ps]; [discriminate|]. cbn [all2] in H. apply andb_prop in H. destruct H as [Hp Hr].
    destruct e as [name k resp|name resp|name k uo|i|i]; cbn [reqs_of tevs_of tev_of].
    + destruct p as [x|x| | |]; simpl in Hp; try discriminate. apply get_eqb_sound in Hp. subst. f_equal. apply IH. exact Hr.
    + destruct p as [x|x| | |]; simpl in Hp; try discriminate. apply upd_eqb_sound in Hp. subst. f_equal. apply IH. exact Hr.
    + f_equal. apply IH. exact Hr.
    + f_equal. apply IH. exact Hr.
    + f_equal. apply IH. exact Hr.
Qed.

(* ---- well-formed observations ---- *)
Definition trace_wf (server : string) (init : value) (evs : list (tev value rmask)) : bool :=
  match info_of server with
  | None => false
  | Some info =>
      conforms servers_schema (sv_type info) init &&
      forallb (fun e => match e with
                        | TUpdate _ (inl v) => conforms servers_schema (sv_type info) v
                        | TUpdate _ (inr c) => is_status c
                        | _ => true
                        end) evs
  end.

Lemma oracle_status evs :
  forallb (fun e : tev value rmask => match e with TUpdate _ (inr c) => is_status c | _ => true end) evs = true ->
  forall (b : option value) (q : nat) c, oracle_rule (update_resps evs) b q = inr c -> is_status c = true.
Proof.
  intros H b q. unfold oracle_rule. clear b. revert q.
  induction evs as [|e r IH]; intros q c Hq.
  - simpl in Hq. destruct q; inversion Hq; reflexivity.
  - simpl in H. apply andb_prop in H. destruct H as [He Hr].
    destruct e as [name k resp|name resp|name k uo|i|i]; simpl in Hq; try (apply (IH Hr q c Hq)).
    destruct q as [|q'].
    + simpl in Hq. subst resp. exact He.
    + apply (IH Hr q' c Hq).
Qed.

(* the model's filter is the reference projection on conformant messages *)
Lemma model_filter_is_ref ty ps v :
  mask_ok (Some ps) = true -> conforms servers_schema ty v = true -> model_filter ty ps v = ref_proj ps v.
Proof.
  intros Hm Hc. unfold model_filter, ref_proj, project_mask. simpl in Hm.
  apply andb_prop in Hm. destruct Hm as [Hs Hn].
  destruct ps as [|p ps']; [reflexivity|].
  assert (Hnn : forall q, In q (p :: ps') -> q <> []).
  { intros q Hq Hnil. rewrite forallb_forall in Hn. specialize (Hn q Hq). subst q. discriminate. }
  assert (Hne : p :: ps' <> []) by discriminate.
  pose proof (filter_is_projection servers_schema ty v (p :: ps') Hc Hs Hnn Hne) as E.
  unfold rmask in *. rewrite E. reflexivity.
Qed.

(* ---- the hand rules answer with values or gRPC statuses (the interface [rule] of GenericServer that
   model_satisfies_property asks for) ---- *)
Lemma validate_update_codes sch ty um wm rm :
  let c := validate_update sch ty um wm rm in c = 0 \/ c = 3 \/ c = 13.
Proof.
  unfold validate_update, code_ok, code_invalid_argument, code_internal.
  destruct um as [ps|].
  - destruct (fm_valid sch ty ps); cbn [negb]; [|auto].
    destruct wm as [ws|].
    + destruct (forallb _ ps); [|auto]. destruct (valid_or sch ty rm); auto.
    + destruct (valid_or sch ty rm); auto.
  - destruct (valid_or sch ty rm); auto.
Qed.

Lemma plain_write_status ty resw um base written c :
  plain_write ty resw um base written = Some (inr c) -> is_status c = true.
Proof.
  unfold plain_write, write. set (wm := effective_writable false resw None).
  set (b := match base with Some b => b | None => VM [] end).
  pose proof (validate_update_codes servers_schema ty um wm None) as Hc. cbv zeta in Hc.
  destruct (negb (validate_update servers_schema ty um wm None =? code_ok)) eqn:En.
  - intros H. inversion H; subst c. destruct Hc as [Hc|[Hc|Hc]]; rewrite Hc in *; try reflexivity.
    discriminate En.
  - destruct (merge servers_schema ty um wm None b written); intros H; discriminate H.
Qed.

Lemma keyed_write_status ty key um b res c :
  keyed_write ty key um b res = Some (inr c) -> is_status c = true.
Proof.
  unfold keyed_write. destruct (plain_write ty None um (Some b) res) as [[v|c']|] eqn:E; [| |discriminate].
  - destruct (String.eqb _ _); intros H; inversion H. reflexivity.
  - intros H. inversion H; subst c'. apply (plain_write_status _ _ _ _ _ _ E).
Qed.

Lemma hand_rule_status ty h base q obs c : hand_rule ty h base q obs = Some (inr c) -> is_status c = true.
Proof.
  unfold hand_rule. destruct (u_res q) as [res|]; [|discriminate].
  destruct (has_negzero res); [discriminate|].
  destruct h as [resw|flag resw| | |key ec| | | |].
  - apply plain_write_status.
  - destruct (populated flag (u_req q)); [discriminate|apply plain_write_status].
  - apply plain_write_status.
  - destruct (populated "relative" (u_req q)); [discriminate|].
    destruct base as [b|]; [|discriminate].
    destruct (fan_of b) as [old|]; [|discriminate]. destruct (fan_of res) as [req|]; [|discriminate].
    destruct (fst (fan_update fan_presets old req false)) as [f|c'|]; try discriminate.
    destruct (c' =? 3)%Z; [|discriminate]. intros H. inversion H. reflexivity.
  - destruct (String.eqb (vstr key res) ""); [intros H; inversion H; destruct ec; reflexivity|].
    destruct base as [b|]; [|discriminate]. apply keyed_write_status.
  - destruct base as [b|]; [|discriminate].
    destruct (plain_write (ty) None (u_um q) (Some b) res) as [[v|c']|] eqn:E; try discriminate.
    intros H. inversion H; subst c'. apply (plain_write_status _ _ _ _ _ _ E).
  - destruct (String.eqb (vstr "id" res) ""); [intros H; inversion H; reflexivity|].
    destruct base as [b|]; [|discriminate].
    destruct (keyed_write ty "id" (u_um q) b res) as [[v|c']|] eqn:E; try discriminate.
    + destruct (_ && _); intros H; inversion H. reflexivity.
    + intros H. inversion H; subst c'. apply (keyed_write_status _ _ _ _ _ _ E).
  - destruct (String.eqb (vstr "id" res) ""); [intros H; inversion H; reflexivity|].
    destruct (alookup (vstr "id" res) electric_modes) as [mode|]; [|intros H; inversion H; reflexivity].
    destruct base as [b|]; [|discriminate].
    destruct (plain_write ty None None (Some b) mode) as [[v|c']|] eqn:E; try discriminate.
    intros H. inversion H; subst c'. apply (plain_write_status _ _ _ _ _ _ E).
  - destruct (vget "@presets" (u_req q)) as [x|]; [|discriminate].
    destruct x as [sc| | |]; try discriminate. destruct sc as [n| | | | | |]; try discriminate.
    destruct (light_prepare (Z.to_nat n) (u_um q) res) as [res1 um1]. apply plain_write_status.
Qed.

Lemma hybrid_status server ty reqs evs :
  forallb (fun e : tev value rmask => match e with TUpdate _ (inr c) => is_status c | _ => true end) evs = true ->
  forall (b : option value) (q : nat) c, hybrid_rule server ty reqs (update_resps evs) b q = inr c -> is_status c = true.
Proof.
  intros H b q c. unfold hybrid_rule.
  destruct (alookup server hand_table) as [h|]; [|apply (oracle_status evs H)].
  destruct (nth_error reqs q) as [rq|]; [|apply (oracle_status evs H)].
  destruct (hand_rule ty h b rq _) as [[v|c']|] eqn:Eh; [discriminate| |apply (oracle_status evs H)].
  intros E. inversion E; subst c'. apply (hand_rule_status _ _ _ _ _ _ Eh).
Qed.

Theorem judge_sound_core : forall server init evs streams eqt reqs,
  guard_core evs = true ->
  trace_wf server init evs = true ->
  agrees_core variant_of server init evs streams eqt reqs = true -> ok_core server init evs streams eqt = true.
Proof.
  intros server init evs streams eqt reqs Hg Hwf Ha.
  unfold agrees_core, ok_core, trace_wf in *. destruct (info_of server) as [info|]; [|discriminate].
  apply andb_prop in Hwf. destruct Hwf as [Hci Hce].
  unfold model_run, variant_of in Ha. cbn [get_filter_of live_of] in Ha.
  set (f := model_filter (sv_type info)) in *.
  set (eqv := equiv_of (sv_eq info) eqt) in *.
  set (rule := hybrid_rule server (sv_type info) reqs (update_resps evs)) in *.
  (* the model's own trace satisfies the predicate, for the model's own filter *)
  assert (Hstat : forall (b : option value) (q : nat) c, rule b q = inr c -> is_status c = true).
  { apply hybrid_status. rewrite forallb_forall in *. intros e He. specialize (Hce e He).
    destruct e as [| n [v|c] | | |]; auto. }
  pose proof (@model_satisfies_property value rmask nat value_eqb (VM []) f eqv clock rule dev_names
                value_eqb_refl value_eqb_eq Hstat (Some init) (reqs_of 0 evs)) as Hm.
  unfold trace_of_run, plain_run in Hm.
  destruct (run value_eqb (VM []) f (fun _ : option value => true) clock rule true dev_names
              (srv_init rmask clock (Some init)) (reqs_of 0 evs)) as [s resps] eqn:Er.
  apply andb_prop in Ha. destruct Ha as [Hr Hs].
  rewrite (resps_are_trace evs 0%nat resps Hr) in Hm.
  assert (Hst : map (client_stream f eqv) (ss_streams s) = streams).
  { apply (list_eqb_sound (sobs_eqb value_eqb) sobs_eqb_sound) in Hs. rewrite <- Hs. unfold outputs.
    apply map_ext. intros st. unfold client_stream, stream_out. rewrite through_stack_id. reflexivity. }
  rewrite Hst in Hm.
  (* ... and the predicate cannot tell the filter from the reference projection on this trace *)
  rewrite <- Hm. symmetry.
  apply (@trace_ok_ext value value_eqb rmask f ref_proj eqv dev_names
           (fun ps => mask_ok (Some ps) = true) (fun v => conforms servers_schema (sv_type info) v = true)).
  - intros k v Hk Hv. apply model_filter_is_ref; assumption.
  - simpl. exact Hci.
  - cbn [t_evs]. apply Forall_forall. intros e He.
    unfold guard_core in Hg. rewrite forallb_forall in Hg, Hce. specialize (Hg e He). specialize (Hce e He).
    destruct e as [n k r|n [v|c]|n k uo|i|i]; simpl; auto.
    + destruct k; [exact Hg|exact I].
    + destruct k; [exact Hg|exact I].
Qed.

(* ---- an observation that agrees with the model run conforms to the hand rules: [C14_rules_ok] reads the
   register off the trace and asks the written-out rule directly; the model run is the simulation ---- *)
Lemma hybrid_is_hand_part server ty reqs rs b n :
  hybrid_rule server ty reqs rs b n =
  match hand_part server ty reqs rs b n with
  | Some (inl v) => inl (snap v (oracle_rule rs b n))
  | Some (inr c) => inr c
  | None => oracle_rule rs b n
  end.
Proof.
  unfold hybrid_rule, hand_part.
  destruct (alookup server hand_table) as [h|]; [|reflexivity].
  destruct (nth_error reqs n) as [q|]; reflexivity.
Qed.

Lemma hybrid_conforms server ty reqs rs b n :
  conforms_to (hand_part server ty reqs rs b n) (hybrid_rule server ty reqs rs b n) = true.
Proof.
  rewrite hybrid_is_hand_part. destruct (hand_part server ty reqs rs b n) as [[v|c]|]; simpl.
  - unfold snap. destruct (oracle_rule rs b n) as [w|c].
    + destruct (value_equiv v w) eqn:E; [rewrite E; reflexivity|]. rewrite value_eqb_refl. apply orb_true_r.
    + rewrite value_eqb_refl. apply orb_true_r.
  - apply Z.eqb_refl.
  - reflexivity.
Qed.

Section RulesWalk.
  Variable f : rmask -> value -> value.
  Variable rule : option value -> nat -> value + Z.
  Variable hp : option value -> nat -> option (value + Z).
  Hypothesis rule_conforms : forall b n, conforms_to (hp b n) (rule b n) = true.

  Lemma rules_walk_run evs : forall n (s s2 : sstate value rmask) resps,
    run value_eqb (VM []) f (fun _ : option value => true) clock rule true dev_names s (reqs_of n evs) = (s2, resps) ->
    all2 resp_matches resps evs = true ->
    rules_walk hp (Impl.v_val (ss_v s)) n evs = true.
  Proof.
    induction evs as [|e r IH]; intros n s s2 resps H Hm; [reflexivity|].
    destruct e as [name k resp|name resp|name k uo|i|i]; cbn [reqs_of GenericServer.run] in H.
    - destruct (step _ _ _ _ _ _ _ _ s (QGet name k)) as [s1 p] eqn:E1.
      destruct (run _ _ _ _ _ _ _ _ s1 (reqs_of n r)) as [s' ps'] eqn:E2. inversion H; subst.
      cbn [all2] in Hm. apply andb_prop in Hm. destruct Hm as [_ Hm]. cbn [rules_walk].
      specialize (IH _ _ _ _ E2 Hm). simpl in E1.
      match type of E1 with (if ?c then _ else _) = _ => destruct c end; inversion E1; subst; exact IH.
    - destruct (step _ _ _ _ _ _ _ _ s (QUpdate name n)) as [s1 p] eqn:E1.
      destruct (run _ _ _ _ _ _ _ _ s1 (reqs_of (S n) r)) as [s' ps'] eqn:E2. inversion H; subst.
      cbn [all2] in Hm. apply andb_prop in Hm. destruct Hm as [Hp Hm]. cbn [rules_walk].
      specialize (IH _ _ _ _ E2 Hm). rewrite step_update in E1.
      change (t_routed dev_names name) with (routed dev_names name).
      destruct (routed dev_names name).
      + pose proof (rule_conforms (Impl.v_val (ss_v s)) n) as Hc.
        destruct (rule (Impl.v_val (ss_v s)) n) as [nv|c] eqn:Er; inversion E1; subst; cbn [resp_matches] in Hp;
          apply upd_eqb_sound in Hp; subst resp; rewrite Hc; exact IH.
      + inversion E1; subst. exact IH.
    - destruct (step _ _ _ _ _ _ _ _ s (QPull name k uo)) as [s1 p] eqn:E1.
      destruct (run _ _ _ _ _ _ _ _ s1 (reqs_of n r)) as [s' ps'] eqn:E2. inversion H; subst.
      cbn [all2] in Hm. apply andb_prop in Hm. destruct Hm as [_ Hm]. cbn [rules_walk].
      specialize (IH _ _ _ _ E2 Hm). simpl in E1. inversion E1; subst. exact IH.
    - destruct (step _ _ _ _ _ _ _ _ s (QCancel i)) as [s1 p] eqn:E1.
      destruct (run _ _ _ _ _ _ _ _ s1 (reqs_of n r)) as [s' ps'] eqn:E2. inversion H; subst.
      cbn [all2] in Hm. apply andb_prop in Hm. destruct Hm as [_ Hm]. cbn [rules_walk].
      specialize (IH _ _ _ _ E2 Hm). simpl in E1. inversion E1; subst. exact IH.
    - destruct (step _ _ _ _ _ _ _ _ s (QStall i)) as [s1 p] eqn:E1.
      destruct (run _ _ _ _ _ _ _ _ s1 (reqs_of n r)) as [s' ps'] eqn:E2. inversion H; subst.
      cbn [all2] in Hm. apply andb_prop in Hm. destruct Hm as [_ Hm]. cbn [rules_walk].
      specialize (IH _ _ _ _ E2 Hm). simpl in E1. inversion E1; subst. exact IH.
  Qed.
End RulesWalk.

Theorem judge_rules_core : forall server init evs streams eqt reqs,
  agrees_core variant_of server init evs streams eqt reqs = true -> rules_core server init evs reqs = true.
Proof.
  intros server init evs streams eqt reqs Ha. unfold agrees_core, rules_core in *.
  destruct (info_of server) as [info|]; [|discriminate].
  unfold model_run, variant_of in Ha. cbn [get_filter_of live_of] in Ha.
  destruct (run value_eqb (VM []) (model_filter (sv_type info)) (fun _ : option value => true) clock
              (hybrid_rule server (sv_type info) reqs (update_resps evs)) true dev_names
              (srv_init rmask clock (Some init)) (reqs_of 0 evs)) as [s resps] eqn:Er.
  apply andb_prop in Ha. destruct Ha as [Hr _].
  exact (rules_walk_run (model_filter (sv_type info)) _ _ (hybrid_conforms server (sv_type info) reqs (update_resps evs))
           evs 0%nat _ _ _ Er Hr).
Qed.

Theorem judge_rules_all : forall c, agrees c = true -> C14_rules_ok c = true.
Proof. intros c Ha. exact (judge_rules_core _ _ _ _ _ _ Ha). Qed.

(* for every case, with or without oracle table and requests *)
Theorem judge_sound_all : forall c,
  C14_guard c = true -> trace_wf (c_server c) (c_init c) (c_evs c) = true -> agrees c = true -> C14_ok c = true.
Proof. intros c Hg Hwf Ha. exact (judge_sound_core _ _ _ _ _ _ Hg Hwf Ha). Qed.

Theorem judge_sound : forall server init evs streams parts,
  C14_guard (KTrace server init evs streams parts) = true ->
  trace_wf server init evs = true ->
  agrees (KTrace server init evs streams parts) = true -> C14_ok (KTrace server init evs streams parts) = true.
Proof. intros server init evs streams parts. exact (judge_sound_all (KTrace server init evs streams parts)). Qed.

(* ---- the oracle equivalence only ever relates values that differ in float leaves ---- *)
Lemma oracle_equiv_is_tolerance t a b :
  oracle_equiv t (Some a) (Some b) = true -> strip_floats a = strip_floats b.
Proof.
  unfold oracle_equiv, tolerance_shaped. intros H. apply andb_prop in H. destruct H as [_ H].
  apply value_eqb_eq. exact H.
Qed.
