(* Correspondence cases for C14.  A case is what a client observed during one history against one
   discovered server through WrapApi(router(WrapApi(server))): the initial full Get, the requests in
   issue order with their responses, and what every stream had received when the history ended.

   [agrees]  the observation equals the generic server model (Servers/GenericServer.v over the Value
             model of the Resource directory) run on the same requests, with
               - the business rule taken as an oracle from the observed Update responses
                 (rule-as-oracle: the n-th Update of the history is answered as observed),
               - reads through the model of ResponseFilter.FilterClone (Masks/Get.v) over the
                 descriptors of the resource type (Gen/Servers.v),
               - the equivalence the translator found in the model's default options,
               - both registered names routed, any other name NotFound.
   [C14_ok]  the five clauses of the property evaluated on the observation itself (Servers/Trace.v),
             with the reference projection [project] in place of the filter model.
   [C14_guard] read masks without empty segments (the guard of C06's projection theorem). *)
From SC Require Import Base.Prelude Msg.Msg Msg.Schema Msg.Path Masks.Get Masks.Update Traits.FanSpeed
  Resource.Impl Resource.Pull Servers.Kinds Servers.GenericServer Servers.Trace Gen.Servers.
Local Open Scope string_scope.

Definition rmask := list path.

Definition dev_names : list string := ["dev"; "dev2"].

(* [parts]: for every TUpdate of the history, in order, how many items of the collection behind the
   resource the request writes; [] (or a missing entry) = one, which is what every register does.
   Only openclosepb.ModelServer (a collection of positions assembled into one OpenClosePositions)
   has requests that write none or several. *)
(* an Update request as sent: the resource message it carries, its update mask, the whole request *)
Record ureq := mkU { u_res : option value; u_um : mask; u_req : value }.

(* [KTraceX] additionally carries
     [eqt]   the oracle table of the configured comparer (EqOracle servers): the ordered pairs (x, y) of
             values of this history -- register values and their projections under the read masks of the
             history's Pulls, and every message a stream received -- for which the REAL comparer taken out
             of the server's resource.Value answered true;
     [reqs]  the Update requests in issue order, for the servers whose business rule is written out
             below ([hand_table]). *)
Inductive c14case :=
| KTrace (server : string) (init : value) (evs : list (tev value rmask)) (streams : list (sobs value))
         (parts : list nat)
| KTraceX (server : string) (init : value) (evs : list (tev value rmask)) (streams : list (sobs value))
          (parts : list nat) (eqt : list (value * value)) (reqs : list ureq).

Definition c_server (c : c14case) := match c with KTrace s _ _ _ _ | KTraceX s _ _ _ _ _ _ => s end.
Definition c_init (c : c14case) := match c with KTrace _ i _ _ _ | KTraceX _ i _ _ _ _ _ => i end.
Definition c_evs (c : c14case) := match c with KTrace _ _ e _ _ | KTraceX _ _ e _ _ _ _ => e end.
Definition c_streams (c : c14case) := match c with KTrace _ _ _ s _ | KTraceX _ _ _ s _ _ _ => s end.
Definition c_parts (c : c14case) := match c with KTrace _ _ _ _ p | KTraceX _ _ _ _ p _ _ => p end.
Definition c_eqt (c : c14case) : list (value * value) := match c with KTrace _ _ _ _ _ => [] | KTraceX _ _ _ _ _ t _ => t end.
Definition c_reqs (c : c14case) : list ureq := match c with KTrace _ _ _ _ _ => [] | KTraceX _ _ _ _ _ _ r => r end.

(* ---- the configured equivalence ---- *)
Definition is_float (s : scalar) : bool := match s with SF32 _ | SF64 _ => true | _ => false end.

(* a value with its float leaves taken out: two values with the same image differ in floats only
   (an implicit-presence float field that is 0 on one side is absent from that side's tree) *)
Fixpoint strip_floats (v : value) {struct v} : value :=
  match v with
  | VS s => if is_float s then VS (SF32 0) else v
  | VM fs =>
      VM ((fix go (l : list (string * value)) : list (string * value) :=
             match l with
             | [] => []
             | (k, x) :: r =>
                 match x with
                 | VS s => if is_float s then go r else (k, x) :: go r
                 | _ => (k, strip_floats x) :: go r
                 end
             end) fs)
  | VL l => VL ((fix go (l : list value) : list value :=
                   match l with [] => [] | x :: r => strip_floats x :: go r end) l)
  | VMap kv => VMap ((fix go (l : list (scalar * value)) : list (scalar * value) :=
                        match l with [] => [] | (k, x) :: r => (k, strip_floats x) :: go r end) kv)
  end.

Definition tolerance_shaped (x y : value) : bool := value_eqb (strip_floats x) (strip_floats y).

Definition pair_in (t : list (value * value)) (x y : value) : bool :=
  existsb (fun p => value_eqb (fst p) x && value_eqb (snd p) y) t.

(* EqOracle: Compare(last, new) as the real comparer answered it -- accepted as "within the configured
   equivalence tolerance" only between values that differ in float leaves alone.  Compare(nil, x) is
   false for every comparer in the tree (cmp.Equal; a stream that was sent nothing compares nothing). *)
Definition oracle_equiv (t : list (value * value)) (a b : option value) : bool :=
  match a, b with
  | Some x, Some y => pair_in t x y && tolerance_shaped x y
  | _, _ => false
  end.

Definition equiv_of (e : eqkind) (eqt : list (value * value)) : option (option value -> option value -> bool) :=
  match e with
  | EqNone => None
  | EqExact => Some (option_eqb value_eqb)          (* Compare(nil, x) = false; proto.Equal otherwise *)
  | EqOracle => Some (oracle_equiv eqt)
  end.

(* the model's read filter: FilterClone as it is in pkg/masks; a panic shows as a marker value *)
Definition panic_marker : value := VM [("<read panicked>", VS (SBool true))].
Definition model_filter (ty : string) (ps : rmask) (v : value) : value :=
  match filter_clone servers_schema ty (Some ps) v with Ok r => r | Panic => panic_marker end.

(* the oracle's projection *)
Definition ref_proj (ps : rmask) (v : value) : value := project_mask (Some ps) v.

Definition clock (n : Z) : Z := n.

(* ---- the one server that was not a plain register: openclosepb.ModelServer keeps a COLLECTION of
   positions (one per direction) and assembles OpenClosePositions from it.  Two places of that
   assembly deviated from the register until /repo commits 406d0ba and cb6a657 (variant VOpenClose,
   kept as the v0 of this server; every server is VPlain now, see Props/C14.v):
     - GetPositions hands the request's read mask to Collection.List, which applies it to every
       OpenClosePosition element instead of to the OpenClosePositions message;
     - PullPositions only starts sending once it has seen the last seed item of the collection:
       opened on an empty collection it never sends anything, neither a first value nor updates. ---- *)
Inductive variant := VPlain | VOpenClose.

Definition oc_server : string := "openclosepb.ModelServer/OpenCloseApi.Positions".

(* the code as it is: every discovered server is a plain register *)
Definition variant_of (server : string) : variant := VPlain.
(* before 406d0ba / cb6a657 *)
Definition variant_of_v0 (server : string) : variant :=
  if String.eqb server oc_server then VOpenClose else VPlain.

Definition oc_states (v : value) : list value :=
  match v with
  | VM fields => match alookup "states" fields with Some (VL l) => l | _ => [] end
  | _ => []
  end.

Definition oc_get_filter (ps : rmask) (v : value) : value :=
  match oc_states v with
  | [] => VM []
  | l => VM [("states", VL (map (model_filter "smartcore.traits.OpenClosePosition" ps) l))]
  end.

Definition oc_live (cur : option value) : bool :=
  match cur with Some v => match oc_states v with [] => false | _ => true end | None => false end.

Definition get_filter_of (vr : variant) (ty : string) : rmask -> value -> value :=
  match vr with VPlain => model_filter ty | VOpenClose => oc_get_filter end.
Definition live_of (vr : variant) : option value -> bool :=
  match vr with VPlain => fun _ => true | VOpenClose => oc_live end.

(* ---- business rules written out (hand rules) ----
   For the servers below the Update handler is simple enough to be written in Gallina over message
   trees, on top of the C05 model of masks.FieldUpdater (Masks/Update.v [write]: Validate, then Merge
   into a clone of the stored value) and, for the fan speed, the C20 model of DeriveValues
   (Traits/FanSpeed.v).  [hand_rule] answers None where a request is outside what the rule covers
   (then the observed response is taken as an oracle, as for every other server). *)
Inductive hrule :=
| HPlain (resw : mask)                       (* Value.Set(request.<R>, WithUpdateMask(request.update_mask)) *)
| HUnless (flag : string) (resw : mask)      (* the same, when the request field [flag] is not populated *)
| HCount                                     (* countpb.MemoryDevice: delta adds the stored counts (int32) *)
| HFan                                       (* fanspeedpb: validateUpdate, Set without mask, DeriveValues *)
| HKeyed (key : string) (empty_invalid : bool)    (* hailpb / vendingpb stock: Collection.Update(request.<R>.<key>, request.<R>, mask) *)
| HEmergency                                 (* emergencypb: masked write, then the server clock into level_change_time *)
| HPublication                               (* publicationpb: id, version precondition, masked write, computed properties *)
| HElectric                                  (* electricpb active mode: the mode with the request's id out of the device's modes *)
| HLight.                              (* publicationpb: id, version precondition, masked write, computed properties *)

Definition p1 (f : string) : path := [f].

Definition hand_table : list (string * hrule) := [
  ("onoffpb.ModelServer/OnOffApi.OnOff", HPlain None);
  ("presspb.ModelServer/PressApi.PressedState", HPlain None);
  ("airtemperaturepb.ModelServer/AirTemperatureApi.AirTemperature", HPlain None);
  ("airtemperaturepb.MemoryDevice/AirTemperatureApi.AirTemperature",
     HPlain (Some [p1 "mode"; p1 "temperature_set_point"; p1 "temperature_set_point_delta"; p1 "temperature_range"]));
  ("countpb.MemoryDevice/CountApi.Count", HCount);
  ("speakerpb.MemoryDevice/SpeakerApi.Volume", HUnless "delta" None);
  ("modepb.ModelServer/ModeApi.ModeValues", HUnless "relative" None);
  ("fanspeedpb.ModelServer/FanSpeedApi.FanSpeed", HFan);
  ("hailpb.ModelServer/HailApi.Hail", HKeyed "id" true);
  ("vendingpb.ModelServer/VendingApi.Stock", HKeyed "consumable" false);
  ("emergencypb.MemoryDevice/EmergencyApi.Emergency", HEmergency);
  ("publicationpb.ModelServer/PublicationApi.Publication", HPublication);
  ("electricpb.ModelServer/ElectricApi.ActiveMode", HElectric);
  ("lightpb.ModelServer/LightApi.Brightness", HLight)
].

Definition tint (f : string) (v : option value) : Z :=
  match v with
  | Some m => match vget f m with Some (VS (SInt z)) => z | _ => 0 end
  | None => 0
  end.
Definition tset_int (f : string) (z : Z) (m : value) : value :=
  if (z =? 0)%Z then vclear f m else vset f (VS (SInt z)) m.

(* Set with the request's update mask against the resource's writable fields; a panic of the mask
   code is not something a rule predicts (None) *)
Definition plain_write (ty : string) (resw um : mask) (base : option value) (written : value) : option (value + Z) :=
  match write servers_schema ty false resw None um None (match base with Some b => b | None => VM [] end) written with
  | WErr c => Some (inr c)
  | WOk d => Some (inl d)
  | WPanic => None
  end.

(* ---- fan speed on trees: percentages are float32 bit patterns; Go's == on them is equality of the
   patterns as long as neither is a NaN or a negative zero (such requests are not covered) ---- *)
Definition fan_presets : list preset :=
  [("off", 0); ("low", 1097859072); ("med", 1109393408); ("high", 1117126656); ("full", 1120403456)].
Definition f32_plain (b : Z) : bool := ((0 <=? b) && (b <=? 2139095040))%Z.   (* +0 .. +Inf: no sign bit, no NaN *)
Definition fan_of (v : value) : option fan :=
  let pct := match vget "percentage" v with Some (VS (SF32 b)) => b | _ => 0 end in
  if f32_plain pct then
    Some (mkFan pct
            (match vget "preset" v with Some (VS (SStr s)) => s | _ => "" end)
            (match vget "preset_index" v with Some (VS (SInt z)) => z | _ => 0 end)
            (match vget "direction" v with Some (VS (SEnum z)) => z | _ => 0 end))
  else None.
Definition tree_of_fan (f : fan) : value :=
  VM ((if (f_pct f =? 0)%Z then [] else [("percentage", VS (SF32 (f_pct f)))]) ++
      (if String.eqb (f_preset f) "" then [] else [("preset", VS (SStr (f_preset f)))]) ++
      (if (f_idx f =? 0)%Z then [] else [("preset_index", VS (SInt (f_idx f)))]) ++
      (if (f_dir f =? 0)%Z then [] else [("direction", VS (SEnum (f_dir f)))])).

Definition populated (f : string) (v : value) : bool := vhas f v.

(* protobuf-go's Merge does not copy a float that compares equal to 0, a negative zero included, although
   such a field counts as populated; the merge model (Msg/ProtoOps.v) copies every populated field.
   Written messages holding a negative zero are left to the oracle. *)
Fixpoint has_negzero (v : value) {struct v} : bool :=
  match v with
  | VS (SF32 b) => (b =? 2147483648)%Z
  | VS (SF64 b) => (b =? 9223372036854775808)%Z
  | VS _ => false
  | VM fs => (fix go (l : list (string * value)) : bool :=
                match l with [] => false | (_, x) :: r => has_negzero x || go r end) fs
  | VL l => (fix go (l : list value) : bool :=
               match l with [] => false | x :: r => has_negzero x || go r end) l
  | VMap kv => (fix go (l : list (scalar * value)) : bool :=
                  match l with [] => false | (_, x) :: r => has_negzero x || go r end) kv
  end.

(* ---- rules of the servers that keep the resource in a Collection under a key taken from the written
   message (hail: id, vending stock: consumable, publication: id).  Collection.Update: Validate(mask) first,
   then the item is looked up (NotFound), then the merge into a clone.  The harness creates ONE item; the
   register of the triple is that item, so any other key is NotFound(5). ---- *)
Definition vstr (f : string) (v : value) : string :=
  match vget f v with Some (VS (SStr s)) => s | _ => "" end.
Definition venum (f : string) (v : value) : Z :=
  match vget f v with Some (VS (SEnum z)) => z | _ => 0%Z end.

Definition keyed_write (ty key : string) (um : mask) (b res : value) : option (value + Z) :=
  match plain_write ty None um (Some b) res with
  | Some (inl v) => if String.eqb (vstr key res) (vstr key b) then Some (inl v) else Some (inr 5%Z)
  | r => r
  end.

(* a field the server fills from ITS clock (or a hash of the stored bytes): taken from the observed response
   -- the one place where a hand rule looks at the observation; absent there = a marker no response equals *)
Definition minted (f : string) (obs : value + Z) (v : value) : value :=
  match obs with
  | inl w => match vget f w with Some t => vset f t v | None => vset f (VS (SStr "<not minted>")) v end
  | inr _ => v
  end.

(* a Timestamp field the server fills from its clock: the observed one, provided it lies inside the wall-clock
   bracket of the call that the harness measured ("@t0" / "@t1" next to the request, unix ns); a stale, zero
   or invented time does not *)
Definition ts_nanos (t : value) : Z := (tint "seconds" (Some t) * 1000000000 + tint "nanos" (Some t))%Z.
Definition in_bracket (q : ureq) (t : value) : bool :=
  match vget "@t0" (u_req q), vget "@t1" (u_req q) with
  | Some (VS (SInt lo)), Some (VS (SInt hi)) => ((lo <=? ts_nanos t) && (ts_nanos t <=? hi))%Z
  | _, _ => true
  end.
Definition minted_time (f : string) (q : ureq) (obs : value + Z) (v : value) : value :=
  match obs with
  | inl w => match vget f w with
             | Some t => if in_bracket q t then vset f t v else vset f (VS (SStr "<not the time of the call>")) v
             | None => vset f (VS (SStr "<not minted>")) v
             end
  | inr _ => v
  end.

(* emergencypb.MemoryDevice.UpdateEmergency, InterceptAfter: "use server time if the level changed but the
   change time didn't".  Until the repair in /repo the handler compared the *timestamppb.Timestamp POINTERS of
   the stored message and of its merged clone, which are equal only when both are nil: a level change written
   under a mask (or with the old time repeated) kept the stale change time ([emergency_after_v0]).  Now the
   times are compared by value (proto.Equal). *)
Definition opt_value_eqb (a b : option value) : bool := option_eqb value_eqb a b.
Definition emergency_after (q : ureq) (obs : value + Z) (b v : value) : value :=
  if negb (venum "level" v =? venum "level" b)%Z && opt_value_eqb (vget "level_change_time" b) (vget "level_change_time" v)
  then minted_time "level_change_time" q obs v else v.
Definition emergency_after_v0 (q : ureq) (obs : value + Z) (b v : value) : value :=
  if negb (venum "level" v =? venum "level" b)%Z && negb (vhas "level_change_time" b) && negb (vhas "level_change_time" v)
  then minted_time "level_change_time" q obs v else v.

(* publicationpb.Model.withComputedProperties (WithResetReceipt, WithNewPublishTime, WithNewVersion) *)
Definition publication_after (q : ureq) (obs : value + Z) (v : value) : value :=
  let v1 := match vget "audience" v with
            | Some a => vset "audience" (vset "receipt" (VS (SEnum 1)) (vclear "receipt_rejected_reason" (vclear "receipt_time" a))) v
            | None => v
            end in
  minted "version" obs (minted_time "publish_time" q obs v1).

(* electricpb.ModelServer.UpdateActiveMode: only the id of the written message counts; the mode stored
   under it in the device's mode collection is Set WHOLE (no mask: it replaces the active mode), and the
   start time is the server clock when the id changes.  The device's modes are data: the two the harness
   adds to every electric device (harness/c14/c14.go hints, AddMode m1 / m2 -- keep in step). *)
Definition electric_mode (id : string) : value :=
  VM [("id", VS (SStr id)); ("title", VS (SStr ("mode " ++ id)));
      ("segments", VL [VM [("magnitude", VS (SF32 1065353216))]])].
Definition electric_modes : list (string * value) := [("m1", electric_mode "m1"); ("m2", electric_mode "m2")].

(* lightpb.Model.UpdateBrightness: setLevelFromPreset looks the written preset's name up in the model's
   preset table (constructor options WithPreset); a hit overwrites level_percent and preset of the written
   message and adds "level_percent" to a non-nil update mask (WithMoreUpdatePaths); a miss writes the
   message as it is.  The table is data: the harness constructs every light model with the first n of
   (dim 20 %, bright 100 %) and tells n in the pseudo-field "@presets" next to the request (ctoropts.go). *)
Definition light_presets : list (string * (Z * string)) :=
  [("dim", (1101004800%Z, "Dim")); ("bright", (1120403456%Z, "Bright"))].
Definition light_prepare (n : nat) (um : mask) (res : value) : value * mask :=
  match vget "preset" res with
  | Some pv =>
      match alookup (vstr "name" pv) (firstn n light_presets) with
      | Some (lvl, title) =>
          (vset "preset" (VM [("name", VS (SStr (vstr "name" pv))); ("title", VS (SStr title))])
             (vset "level_percent" (VS (SF32 lvl)) res),
           option_map (fun ps => (ps ++ [p1 "level_percent"])%list) um)
      | None => (res, um)
      end
  | None => (res, um)
  end.

Definition hand_rule (ty : string) (h : hrule) (base : option value) (q : ureq) (obs : value + Z) : option (value + Z) :=
  match u_res q with
  | None => None
  | Some res =>
      if has_negzero res then None else
      match h with
      | HPlain resw => plain_write ty resw (u_um q) base res
      | HUnless flag resw => if populated flag (u_req q) then None else plain_write ty resw (u_um q) base res
      | HCount =>
          let res1 := if populated "delta" (u_req q)
                      then tset_int "removed" (wrap32 (tint "removed" (Some res) + tint "removed" base))
                             (tset_int "added" (wrap32 (tint "added" (Some res) + tint "added" base)) res)
                      else res in
          plain_write ty (Some [p1 "added"; p1 "removed"]) (u_um q) base res1
      | HFan =>
          if populated "relative" (u_req q) then None else
          match base with
          | None => None
          | Some b =>
              match fan_of b, fan_of res with
              | Some old, Some req =>
                  match fst (fan_update fan_presets old req false) with
                  | FOk new => Some (inl (tree_of_fan new))
                  | FErr c => if (c =? 3)%Z then Some (inr 3) else None
                  | FPanic => None
                  end
              | _, _ => None
              end
          end
      | HKeyed key ec =>
          if String.eqb (vstr key res) "" then Some (inr (if ec then 3 else 5)%Z) else
          match base with
          | None => None
          | Some b => keyed_write ty key (u_um q) b res
          end
      | HEmergency =>
          match base with
          | None => None
          | Some b =>
              match plain_write ty None (u_um q) base res with
              | Some (inl v) => Some (inl (emergency_after q obs b v))
              | r => r
              end
          end
      | HPublication =>
          if String.eqb (vstr "id" res) "" then Some (inr 3%Z) else
          match base with
          | None => None
          | Some b =>
              match keyed_write ty "id" (u_um q) b res with
              | Some (inl v) =>
                  let want := vstr "version" (u_req q) in
                  if negb (String.eqb want "") && negb (String.eqb (vstr "version" b) want) then Some (inr 9%Z)
                  else Some (inl (publication_after q obs v))
              | r => r
              end
          end
      | HElectric =>
          let id := vstr "id" res in
          if String.eqb id "" then Some (inr 3%Z) else
          match alookup id electric_modes, base with
          | None, _ => Some (inr 5%Z)
          | Some mode, Some b =>
              match plain_write ty None None base mode with
              | Some (inl v) => Some (inl (if String.eqb id (vstr "id" b) then v else minted_time "start_time" q obs v))
              | r => r
              end
          | Some _, None => None
          end
      | HLight =>
          match vget "@presets" (u_req q) with
          | Some (VS (SInt n)) =>
              let '(res1, um1) := light_prepare (Z.to_nat n) (u_um q) res in
              plain_write ty None um1 base res1
          | _ => None
          end
      end
  end.

(* ---- the rule the model runs with: the hand rule where there is one and it covers the request,
   otherwise the observed response of that Update (rule-as-oracle) ---- *)
Definition update_resps (evs : list (tev value rmask)) : list (value + Z) :=
  flat_map (fun e => match e with TUpdate _ r => [r] | _ => [] end) evs.

Definition oracle_rule (rs : list (value + Z)) : option value -> nat -> value + Z :=
  fun _ n => nth n rs (inr 2).

(* the merge model (Msg/ProtoOps.v proto_merge) appends fields new to the destination instead of placing
   them in field-number order: its result is the message up to the order of fields and map entries
   ([value_equiv]).  Where the observed response is that same message, the model continues with the
   observed (canonical) tree, so that later Gets and stream messages compare with [value_eqb]. *)
Definition snap (v : value) (observed : value + Z) : value :=
  match observed with
  | inl w => if value_equiv v w then w else v
  | inr _ => v
  end.

(* the part of the rule that is written out: what the hand rule of [server] answers to the n-th Update
   of the history on the stored value [base]; None = no hand rule / request not covered *)
Definition hand_part (server ty : string) (reqs : list ureq) (rs : list (value + Z)) : option value -> nat -> option (value + Z) :=
  fun base n =>
    match alookup server hand_table, nth_error reqs n with
    | Some h, Some q => hand_rule ty h base q (oracle_rule rs base n)
    | _, _ => None
    end.

Definition hybrid_rule (server ty : string) (reqs : list ureq) (rs : list (value + Z)) : option value -> nat -> value + Z :=
  fun base n =>
    match alookup server hand_table, nth_error reqs n with
    | Some h, Some q =>
        match hand_rule ty h base q (oracle_rule rs base n) with
        | Some (inl v) => inl (snap v (oracle_rule rs base n))
        | Some (inr c) => inr c
        | None => oracle_rule rs base n
        end
    | _, _ => oracle_rule rs base n
    end.

(* how many Updates of a case the hand rule decides (for the statistics only) *)
Definition hand_covered (server ty : string) (reqs : list ureq) : nat :=
  match alookup server hand_table with
  | Some h => List.length (filter (fun q => match hand_rule ty h None q (inr 2%Z) with Some _ => true | None => false end) reqs)
  | None => O
  end.

Fixpoint reqs_of (n : nat) (evs : list (tev value rmask)) : list (sreq rmask nat) :=
  match evs with
  | [] => []
  | TGet name k _ :: r => QGet name k :: reqs_of n r
  | TUpdate name _ :: r => QUpdate name n :: reqs_of (S n) r
  | TOpen name k uo :: r => QPull name k uo :: reqs_of n r
  | TCancel i :: r => QCancel i :: reqs_of n r
  | TStall i :: r => QStall i :: reqs_of n r
  end.

Definition model_run (vr : variant) (server : string) (info : srvinfo) (init : value) (evs : list (tev value rmask))
           (reqs : list ureq) :=
  run value_eqb (VM []) (get_filter_of vr (sv_type info)) (live_of vr) clock
      (hybrid_rule server (sv_type info) reqs (update_resps evs)) true dev_names
      (srv_init rmask clock (Some init)) (reqs_of 0 evs).

Definition upd_eqb (a b : value + Z) : bool :=
  match a, b with
  | inl x, inl y => value_eqb x y
  | inr x, inr y => Z.eqb x y
  | _, _ => false
  end.

Definition resp_matches (p : sresp value) (e : tev value rmask) : bool :=
  match p, e with
  | PGet r, TGet _ _ r' => get_eqb value_eqb r r'
  | PUpdate r, TUpdate _ r' => upd_eqb r r'
  | POpened, TOpen _ _ _ => true
  | PCancelled, TCancel _ => true
  | PStalled, TStall _ => true
  | _, _ => false
  end.

Fixpoint all2 {A B} (f : A -> B -> bool) (a : list A) (b : list B) : bool :=
  match a, b with
  | [], [] => true
  | x :: a', y :: b' => f x y && all2 f a' b'
  | _, _ => false
  end.

Definition info_of (server : string) : option srvinfo := alookup server servers_table.

Definition agrees_core (vof : string -> variant) (server : string) (init : value) (evs : list (tev value rmask))
           (streams : list (sobs value)) (eqt : list (value * value)) (reqs : list ureq) : bool :=
  match info_of server with
  | None => false
  | Some info =>
      let '(s, resps) := model_run (vof server) server info init evs reqs in
      all2 resp_matches resps evs &&
      list_eqb (sobs_eqb value_eqb) (outputs (model_filter (sv_type info)) (equiv_of (sv_eq info) eqt) s) streams
  end.

Definition agrees_gen (vof : string -> variant) (c : c14case) : bool :=
  agrees_core vof (c_server c) (c_init c) (c_evs c) (c_streams c) (c_eqt c) (c_reqs c).
Definition agrees := agrees_gen variant_of.
Definition agrees_v0 := agrees_gen variant_of_v0.

Definition ok_core (server : string) (init : value) (evs : list (tev value rmask)) (streams : list (sobs value))
           (eqt : list (value * value)) : bool :=
  match info_of server with
  | None => false
  | Some info => trace_ok value_eqb ref_proj (equiv_of (sv_eq info) eqt) dev_names (mkTrace (Some init) evs streams)
  end.

Definition C14_ok (c : c14case) : bool := ok_core (c_server c) (c_init c) (c_evs c) (c_streams c) (c_eqt c).

(* ---- the business rule evaluated DIRECTLY on the observation (no model run): the register is read off
   the trace as in [gets_ok] (initial full Get, then the last successful Update response); every Update
   under a registered name that the hand rule covers must be answered as the rule says on that register:
   the rule's status, or the rule's value up to the order of fields.  A response that is coherent with
   every later Get and stream but is not what the handler's rule computes fails here. ---- *)
Definition conforms_to (expected : option (value + Z)) (resp : value + Z) : bool :=
  match expected, resp with
  | None, _ => true
  | Some (inl v), inl w => value_equiv v w || value_eqb v w
  | Some (inr c), inr c' => Z.eqb c c'
  | _, _ => false
  end.

Fixpoint rules_walk (hp : option value -> nat -> option (value + Z)) (cur : option value) (n : nat)
         (evs : list (tev value rmask)) : bool :=
  match evs with
  | [] => true
  | TUpdate name resp :: r =>
      if t_routed dev_names name then
        conforms_to (hp cur n) resp &&
        rules_walk hp (match resp with inl v => Some v | inr _ => cur end) (S n) r
      else rules_walk hp cur (S n) r
  | _ :: r => rules_walk hp cur n r
  end.

Definition rules_core (server : string) (init : value) (evs : list (tev value rmask)) (reqs : list ureq) : bool :=
  match info_of server with
  | None => false
  | Some info => rules_walk (hand_part server (sv_type info) reqs (update_resps evs)) (Some init) 0 evs
  end.
Definition C14_rules_ok (c : c14case) : bool := rules_core (c_server c) (c_init c) (c_evs c) (c_reqs c).

Definition mask_ok (k : option rmask) : bool :=
  match k with None => true | Some ps => segs_ok ps && forallb (fun p => match p with [] => false | _ => true end) ps end.

Definition guard_core (evs : list (tev value rmask)) : bool :=
  forallb (fun e => match e with TGet _ k _ => mask_ok k | TOpen _ k _ => mask_ok k | _ => true end) evs.
Definition C14_guard (c : c14case) : bool := guard_core (c_evs c).

(* ---- histories with an Update that does not write exactly one item (openclosepb only) ----
   The register model has nothing to say about them ([agrees] is not consulted): an Update without
   positions writes and publishes nothing, one with several positions is several writes.  The
   property predicate is evaluated as for everything else.  Where it fails, ONE deviation is
   recorded (class 3): an UpdatePositions with n >= 2 positions publishes n collection changes, and
   PullPositions turns each into a message, so a stream may show up to n-1 intermediate values that
   no Get or Update response ever showed before the response's value.  [relaxed_ok] is C14_ok with
   exactly that allowance; anything else that goes wrong is still a failing input. *)
Fixpoint annotate (ps : list nat) (evs : list (tev value rmask)) : list (tev value rmask * nat) :=
  match evs with
  | [] => []
  | TUpdate n r :: rest =>
      match ps with
      | p :: ps' => (TUpdate n r, p) :: annotate ps' rest
      | [] => (TUpdate n r, 1%nat) :: annotate [] rest
      end
  | e :: rest => (e, 1%nat) :: annotate ps rest
  end.

Definition irregular (ps : list nat) : bool := existsb (fun p => negb (Nat.eqb p 1)) ps.
Definition has_multi (ps : list nat) : bool := existsb (fun p => Nat.leb 2 p) ps.

Fixpoint since_a (i : nat) (k : option rmask) (aevs : list (tev value rmask * nat)) : list (value * nat) * bool :=
  match aevs with
  | [] => ([], false)
  | (TUpdate name (inl v), n) :: r =>
      if t_routed dev_names name then let '(l, c) := since_a i k r in ((pm ref_proj k v, n) :: l, c) else since_a i k r
  | (TCancel j, _) :: r => if Nat.eqb j i then ([], true) else since_a i k r
  | (TStall j, _) :: r => if Nat.eqb j i then ([], cancelled_later i (map fst r)) else since_a i k r
  | _ :: r => since_a i k r
  end.

Fixpoint accepts_x (fuel : nat) (eqv : option (option value -> option value -> bool))
         (base last : option value) (ups : list (value * nat)) (obs : list value) : bool :=
  match fuel with
  | O => false
  | S fu =>
      match ups with
      | [] => match obs with [] => true | _ => false end
      | (v, n) :: r =>
          match obs with
          | o :: obs' =>
              (if value_eqb o v then accepts_x fu eqv base (Some v) r obs'
               else unchanged value_eqb eqv base last v && accepts_x fu eqv base last r obs)
              || (Nat.leb 2 n && accepts_x fu eqv base (Some o) ((v, pred n) :: r) obs')   (* an intermediate value *)
          | [] => unchanged value_eqb eqv base last v && accepts_x fu eqv base last r []
          end
      end
  end.

Definition stream_ok_x (eqv : option (option value -> option value -> bool)) (init : value)
           (evs : list (tev value rmask)) (parts : list nat) (i : nat) (o : sobs value) : bool :=
  match find_open dev_names i (Some init) evs with
  | None => false
  | Some (name, k, uo, cur, rest) =>
      if t_routed dev_names name then
        let aevs := annotate parts evs in
        let '(ups, cancelled) := since_a i k (skipn (List.length aevs - List.length rest) aevs) in
        let current := option_map (pm ref_proj k) cur in
        let fuel := (List.length (fst o) + List.length ups + fold_right Nat.add 0%nat (map snd ups) + 2)%nat in
        status_eqb (snd o) (if cancelled then Some 1 else None) &&
        forallb (fun x => String.eqb (fst x) name) (fst o) &&
        (if uo then accepts_x fuel eqv current None ups (map snd (fst o))
         else match current, map snd (fst o) with
              | Some c, first :: more => value_eqb first c && accepts_x fuel eqv None (Some c) ups more
              | None, more => accepts_x fuel eqv None None ups more
              | Some _, [] => false
              end)
      else match fst o with [] => status_eqb (snd o) (Some 5) | _ => false end
  end.

Fixpoint streams_from_x eqv init evs parts (i : nat) (obs : list (sobs value)) : bool :=
  match obs with
  | [] => true
  | o :: r => stream_ok_x eqv init evs parts i o && streams_from_x eqv init evs parts (S i) r
  end.

Definition relaxed_ok (c : c14case) : bool :=
  match info_of (c_server c) with
  | None => false
  | Some info =>
      gets_ok value_eqb ref_proj dev_names (Some (c_init c)) (c_evs c) &&
      Nat.eqb (List.length (c_streams c)) (count_opens (c_evs c)) &&
      streams_from_x (equiv_of (sv_eq info) (c_eqt c)) (c_init c) (c_evs c) (c_parts c) O (c_streams c)
  end.

Definition parts_of (c : c14case) : list nat := c_parts c.

Definition judge (c : c14case) : Z :=
  if irregular (parts_of c) then
    if (if C14_guard c then C14_ok c else true) then 0
    else if has_multi (parts_of c) && relaxed_ok c then 103
    else 3
  else verdict (agrees c) ((if C14_guard c then C14_ok c else true) && C14_rules_ok c) None.
