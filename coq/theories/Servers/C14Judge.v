(* Correspondence cases for C14.  A case is what a client observed during one history against one
   discovered server through WrapApi(router(WrapApi(server))): the initial full Get, the requests in
   issue order with their responses, and what every stream had received when the history ended.

   [agrees]  the observation equals the generic server model (Servers/GenericServer.v over the Value
             model of the Resource directory) run on the same requests, with
               - the business rule taken as an oracle from the observed Update responses
                 (rule-as-oracle: the n-th Update of the history is answered as observed),
               - reads through the model of ResponseFilter.FilterClone (Masks/Get.v) over the
                 descriptors of the resource type (Gen/Servers.v),
               - the equivalence the translator found in the model's default options,
               - both registered names routed, any other name NotFound.
   [C14_ok]  the five clauses of the property evaluated on the observation itself (Servers/Trace.v),
             with the reference projection [project] in place of the filter model.
   [C14_guard] read masks without empty segments (the guard of C06's projection theorem). *)
From SC Require Import Base.Prelude Msg.Msg Msg.Schema Msg.Path Masks.Get
  Resource.Impl Resource.Pull Servers.Kinds Servers.GenericServer Servers.Trace Gen.Servers.
Local Open Scope string_scope.

Definition rmask := list path.

Definition dev_names : list string := ["dev"; "dev2"].

(* [parts]: for every TUpdate of the history, in order, how many items of the collection behind the
   resource the request writes; [] (or a missing entry) = one, which is what every register does.
   Only openclosepb.ModelServer (a collection of positions assembled into one OpenClosePositions)
   has requests that write none or several. *)
Inductive c14case :=
| KTrace (server : string) (init : value) (evs : list (tev value rmask)) (streams : list (sobs value))
         (parts : list nat).

Definition equiv_of (e : eqkind) : option (option value -> option value -> bool) :=
  match e with
  | EqNone => None
  | EqExact => Some (option_eqb value_eqb)          (* Compare(nil, x) = false; proto.Equal otherwise *)
  end.

(* the model's read filter: FilterClone as it is in pkg/masks; a panic shows as a marker value *)
Definition panic_marker : value := VM [("<read panicked>", VS (SBool true))].
Definition model_filter (ty : string) (ps : rmask) (v : value) : value :=
  match filter_clone servers_schema ty (Some ps) v with Ok r => r | Panic => panic_marker end.

(* the oracle's projection *)
Definition ref_proj (ps : rmask) (v : value) : value := project_mask (Some ps) v.

Definition clock (n : Z) : Z := n.

(* ---- the one server that was not a plain register: openclosepb.ModelServer keeps a COLLECTION of
   positions (one per direction) and assembles OpenClosePositions from it.  Two places of that
   assembly deviated from the register until /repo commits 406d0ba and cb6a657 (variant VOpenClose,
   kept as the v0 of this server; every server is VPlain now, see Props/C14.v):
     - GetPositions hands the request's read mask to Collection.List, which applies it to every
       OpenClosePosition element instead of to the OpenClosePositions message;
     - PullPositions only starts sending once it has seen the last seed item of the collection:
       opened on an empty collection it never sends anything, neither a first value nor updates. ---- *)
Inductive variant := VPlain | VOpenClose.

Definition oc_server : string := "openclosepb.ModelServer/OpenCloseApi.Positions".

(* the code as it is: every discovered server is a plain register *)
Definition variant_of (server : string) : variant := VPlain.
(* before 406d0ba / cb6a657 *)
Definition variant_of_v0 (server : string) : variant :=
  if String.eqb server oc_server then VOpenClose else VPlain.

Definition oc_states (v : value) : list value :=
  match v with
  | VM fields => match alookup "states" fields with Some (VL l) => l | _ => [] end
  | _ => []
  end.

Definition oc_get_filter (ps : rmask) (v : value) : value :=
  match oc_states v with
  | [] => VM []
  | l => VM [("states", VL (map (model_filter "smartcore.traits.OpenClosePosition" ps) l))]
  end.

Definition oc_live (cur : option value) : bool :=
  match cur with Some v => match oc_states v with [] => false | _ => true end | None => false end.

Definition get_filter_of (vr : variant) (ty : string) : rmask -> value -> value :=
  match vr with VPlain => model_filter ty | VOpenClose => oc_get_filter end.
Definition live_of (vr : variant) : option value -> bool :=
  match vr with VPlain => fun _ => true | VOpenClose => oc_live end.

(* ---- rule-as-oracle ---- *)
Definition update_resps (evs : list (tev value rmask)) : list (value + Z) :=
  flat_map (fun e => match e with TUpdate _ r => [r] | _ => [] end) evs.

Definition oracle_rule (rs : list (value + Z)) : option value -> nat -> value + Z :=
  fun _ n => nth n rs (inr 2).

Fixpoint reqs_of (n : nat) (evs : list (tev value rmask)) : list (sreq rmask nat) :=
  match evs with
  | [] => []
  | TGet name k _ :: r => QGet name k :: reqs_of n r
  | TUpdate name _ :: r => QUpdate name n :: reqs_of (S n) r
  | TOpen name k uo :: r => QPull name k uo :: reqs_of n r
  | TCancel i :: r => QCancel i :: reqs_of n r
  end.

Definition model_run (vr : variant) (info : srvinfo) (init : value) (evs : list (tev value rmask)) :=
  run value_eqb (VM []) (get_filter_of vr (sv_type info)) (live_of vr) clock
      (oracle_rule (update_resps evs)) true dev_names
      (srv_init rmask clock (Some init)) (reqs_of 0 evs).

Definition upd_eqb (a b : value + Z) : bool :=
  match a, b with
  | inl x, inl y => value_eqb x y
  | inr x, inr y => Z.eqb x y
  | _, _ => false
  end.

Definition resp_matches (p : sresp value) (e : tev value rmask) : bool :=
  match p, e with
  | PGet r, TGet _ _ r' => get_eqb value_eqb r r'
  | PUpdate r, TUpdate _ r' => upd_eqb r r'
  | POpened, TOpen _ _ _ => true
  | PCancelled, TCancel _ => true
  | _, _ => false
  end.

Fixpoint all2 {A B} (f : A -> B -> bool) (a : list A) (b : list B) : bool :=
  match a, b with
  | [], [] => true
  | x :: a', y :: b' => f x y && all2 f a' b'
  | _, _ => false
  end.

Definition info_of (server : string) : option srvinfo := alookup server servers_table.

Definition agrees_gen (vof : string -> variant) (c : c14case) : bool :=
  match c with
  | KTrace server init evs streams _ =>
      match info_of server with
      | None => false
      | Some info =>
          let '(s, resps) := model_run (vof server) info init evs in
          all2 resp_matches resps evs && list_eqb (sobs_eqb value_eqb) (outputs (model_filter (sv_type info)) (equiv_of (sv_eq info)) s) streams
      end
  end.
Definition agrees := agrees_gen variant_of.
Definition agrees_v0 := agrees_gen variant_of_v0.

Definition C14_ok (c : c14case) : bool :=
  match c with
  | KTrace server init evs streams _ =>
      match info_of server with
      | None => false
      | Some info => trace_ok value_eqb ref_proj (equiv_of (sv_eq info)) dev_names (mkTrace (Some init) evs streams)
      end
  end.

Definition mask_ok (k : option rmask) : bool :=
  match k with None => true | Some ps => segs_ok ps && forallb (fun p => match p with [] => false | _ => true end) ps end.

Definition C14_guard (c : c14case) : bool :=
  match c with
  | KTrace _ _ evs _ _ =>
      forallb (fun e => match e with TGet _ k _ => mask_ok k | TOpen _ k _ => mask_ok k | _ => true end) evs
  end.

(* ---- histories with an Update that does not write exactly one item (openclosepb only) ----
   The register model has nothing to say about them ([agrees] is not consulted): an Update without
   positions writes and publishes nothing, one with several positions is several writes.  The
   property predicate is evaluated as for everything else.  Where it fails, ONE deviation is
   recorded (class 3): an UpdatePositions with n >= 2 positions publishes n collection changes, and
   PullPositions turns each into a message, so a stream may show up to n-1 intermediate values that
   no Get or Update response ever showed before the response's value.  [relaxed_ok] is C14_ok with
   exactly that allowance; anything else that goes wrong is still a failing input. *)
Fixpoint annotate (ps : list nat) (evs : list (tev value rmask)) : list (tev value rmask * nat) :=
  match evs with
  | [] => []
  | TUpdate n r :: rest =>
      match ps with
      | p :: ps' => (TUpdate n r, p) :: annotate ps' rest
      | [] => (TUpdate n r, 1%nat) :: annotate [] rest
      end
  | e :: rest => (e, 1%nat) :: annotate ps rest
  end.

Definition irregular (ps : list nat) : bool := existsb (fun p => negb (Nat.eqb p 1)) ps.
Definition has_multi (ps : list nat) : bool := existsb (fun p => Nat.leb 2 p) ps.

Fixpoint since_a (i : nat) (k : option rmask) (aevs : list (tev value rmask * nat)) : list (value * nat) * bool :=
  match aevs with
  | [] => ([], false)
  | (TUpdate name (inl v), n) :: r =>
      if t_routed dev_names name then let '(l, c) := since_a i k r in ((pm ref_proj k v, n) :: l, c) else since_a i k r
  | (TCancel j, _) :: r => if Nat.eqb j i then ([], true) else since_a i k r
  | _ :: r => since_a i k r
  end.

Fixpoint accepts_x (fuel : nat) (eqv : option (option value -> option value -> bool))
         (base last : option value) (ups : list (value * nat)) (obs : list value) : bool :=
  match fuel with
  | O => false
  | S fu =>
      match ups with
      | [] => match obs with [] => true | _ => false end
      | (v, n) :: r =>
          match obs with
          | o :: obs' =>
              (if value_eqb o v then accepts_x fu eqv base (Some v) r obs'
               else unchanged value_eqb eqv base last v && accepts_x fu eqv base last r obs)
              || (Nat.leb 2 n && accepts_x fu eqv base (Some o) ((v, pred n) :: r) obs')   (* an intermediate value *)
          | [] => unchanged value_eqb eqv base last v && accepts_x fu eqv base last r []
          end
      end
  end.

Definition stream_ok_x (eqv : option (option value -> option value -> bool)) (init : value)
           (evs : list (tev value rmask)) (parts : list nat) (i : nat) (o : sobs value) : bool :=
  match find_open dev_names i (Some init) evs with
  | None => false
  | Some (name, k, uo, cur, rest) =>
      if t_routed dev_names name then
        let aevs := annotate parts evs in
        let '(ups, cancelled) := since_a i k (skipn (List.length aevs - List.length rest) aevs) in
        let current := option_map (pm ref_proj k) cur in
        let fuel := (List.length (fst o) + List.length ups + fold_right Nat.add 0%nat (map snd ups) + 2)%nat in
        status_eqb (snd o) (if cancelled then Some 1 else None) &&
        forallb (fun x => String.eqb (fst x) name) (fst o) &&
        (if uo then accepts_x fuel eqv current None ups (map snd (fst o))
         else match current, map snd (fst o) with
              | Some c, first :: more => value_eqb first c && accepts_x fuel eqv None (Some c) ups more
              | None, more => accepts_x fuel eqv None None ups more
              | Some _, [] => false
              end)
      else match fst o with [] => status_eqb (snd o) (Some 5) | _ => false end
  end.

Fixpoint streams_from_x eqv init evs parts (i : nat) (obs : list (sobs value)) : bool :=
  match obs with
  | [] => true
  | o :: r => stream_ok_x eqv init evs parts i o && streams_from_x eqv init evs parts (S i) r
  end.

Definition relaxed_ok (c : c14case) : bool :=
  match c with
  | KTrace server init evs streams parts =>
      match info_of server with
      | None => false
      | Some info =>
          gets_ok value_eqb ref_proj dev_names (Some init) evs &&
          Nat.eqb (List.length streams) (count_opens evs) &&
          streams_from_x (equiv_of (sv_eq info)) init evs parts O streams
      end
  end.

Definition parts_of (c : c14case) : list nat := match c with KTrace _ _ _ _ ps => ps end.

Definition judge (c : c14case) : Z :=
  if irregular (parts_of c) then
    if (if C14_guard c then C14_ok c else true) then 0
    else if has_multi (parts_of c) && relaxed_ok c then 103
    else 3
  else verdict (agrees c) (if C14_guard c then C14_ok c else true) None.
