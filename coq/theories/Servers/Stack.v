(* The stack WrapApi(router(WrapApi(server))) seen by a stream: composition of the wrapper model
   of C13 (Wrap/Stream.v, scenario = server stream whose reader keeps receiving until it cancels)
   and the router's stream pump of C12 (Router/Pump.v, cooperative caller).  Messages are
   identified by their position in what the handler sends.  No proofs here. *)
From SC Require Import Base.Prelude Wrap.Stream.
From SC Require Router.Pump.

(* the messages a client received, from its transcript *)
Definition got (t : transcript) : list Z :=
  flat_map (fun o => match o with CGot m => [m] | _ => [] end) (fst t).

(* a server-streaming call: the handler sends [ms] one by one, each send meeting the client's
   RecvMsg (the reader keeps up), then the client cancels *)
Definition stream_scn (ms : list Z) : scenario := mkScn ServerStream 0 [] CtxLive (map S2C ms ++ [Cancel false]).

Definition wrap_stream (ms : list Z) : list Z := got (wrap_run fx_now (stream_scn ms)).

(* the router's Pull forwarder: child stream delivering [ms], caller accepting every Send *)
Definition router_stream (ms : list Z) : list Z :=
  Pump.t_msgs (Pump.pump (Pump.mkChild None None [] ms None None) Pump.cooperative).

Definition stack_stream (ms : list Z) : list Z := wrap_stream (router_stream (wrap_stream ms)).

(* what a client receives of the list [l] a handler sends *)
Definition index_list (n : nat) : list Z := map Z.of_nat (seq 0 n).
Definition through_stack {A} (l : list A) : list A :=
  flat_map (fun i => match nth_error l (Z.to_nat i) with Some x => [x] | None => [] end)
           (stack_stream (index_list (List.length l))).
