(* The stack is transparent for streams: from C13's wrapper = gRPC theorem and C12's pump theorem. *)
From SC Require Import Base.Prelude Wrap.Stream Wrap.GrpcSpec Wrap.C13Judge Wrap.StreamProofs Servers.Stack.
From SC Require Router.Pump Router.PumpProofs.

Lemma wf_stream_steps ms : forall sent, wf_steps ServerStream true sent false (map S2C ms ++ [Cancel false]) = true.
Proof. induction ms as [|m r IH]; intros sent; simpl; [reflexivity|]. apply IH. Qed.

Lemma k1_stream ms : k1_steps false (map S2C ms ++ [Cancel false]) = false.
Proof. induction ms as [|m r IH]; simpl; [reflexivity|exact IH]. Qed.

Lemma k2_stream ms : k2_steps ServerStream (map S2C ms ++ [Cancel false]) = false.
Proof. induction ms as [|m r IH]; simpl; [reflexivity|exact IH]. Qed.

Lemma k4_stream ms : forall sent, k4_steps sent (map S2C ms ++ [Cancel false]) = false.
Proof. induction ms as [|m r IH]; intros sent; simpl; [reflexivity|apply IH]. Qed.

Definition gots (c : list cobs) : list Z := flat_map (fun o => match o with CGot m => [m] | _ => [] end) c.

Lemma gots_app a b : gots (a ++ b) = gots a ++ gots b.
Proof. unfold gots. apply flat_map_app. Qed.

Lemma g_stream ms : forall g, g_over g = false ->
  gots (fst (g_steps ServerStream g (map S2C ms ++ [Cancel false]))) = ms.
Proof.
  induction ms as [|m r IH]; intros g Hg.
  - simpl. unfold g_step. rewrite Hg. reflexivity.
  - cbn [map app g_steps]. unfold g_step at 1. rewrite Hg. cbn [ss].
    assert (Ho : g_over (g_send_headers [] g) = false).
    { unfold g_send_headers. destruct (g_sent g); [exact Hg|exact Hg]. }
    specialize (IH (g_send_headers [] g) Ho).
    destruct (g_steps ServerStream (g_send_headers [] g) (map S2C r ++ [Cancel false])) as [c2 sv2].
    cbn [fst] in *. rewrite gots_app. simpl. f_equal. exact IH.
Qed.

Theorem wrap_stream_transparent : forall ms, wrap_stream ms = ms.
Proof.
  intros ms. unfold wrap_stream.
  rewrite wrapper_equals_grpc.
  - unfold grpc_run, stream_scn. cbn [precancel shp steps req cs is_invoke].
    pose proof (g_stream ms (g_init (negb false)) eq_refl) as H.
    destruct (g_steps ServerStream (g_init (negb false)) (map S2C ms ++ [Cancel false])) as [c sv].
    unfold got. cbn [fst] in *. change (gots ([CSent true; CClosed] ++ c) = ms). rewrite gots_app. exact H.
  - unfold wf, stream_scn. cbn [precancel shp steps cs negb]. apply wf_stream_steps.
  - unfold no_known, known_class, stream_scn. cbn [precancel shp steps]. rewrite k1_stream, k2_stream. reflexivity.
Qed.

Theorem router_stream_transparent : forall ms, router_stream ms = ms.
Proof.
  intros ms. unfold router_stream. rewrite PumpProofs.pump_transparent by reflexivity. reflexivity.
Qed.

Theorem stack_stream_transparent : forall ms, stack_stream ms = ms.
Proof.
  intros ms. unfold stack_stream. rewrite (wrap_stream_transparent ms), router_stream_transparent.
  apply wrap_stream_transparent.
Qed.

Lemma pick_indices {A} (l : list A) : forall pre,
  flat_map (fun i => match nth_error (pre ++ l) (Z.to_nat i) with Some x => [x] | None => [] end)
           (map Z.of_nat (seq (List.length pre) (List.length l))) = l.
Proof.
  induction l as [|x r IH]; intros pre; [reflexivity|].
  cbn [List.length seq map flat_map]. rewrite Nat2Z.id.
  rewrite nth_error_app2 by lia. rewrite Nat.sub_diag. cbn [nth_error app]. f_equal.
  specialize (IH (pre ++ [x])). rewrite <- app_assoc in IH. cbn [app] in IH.
  rewrite app_length in IH. cbn [List.length] in IH. rewrite Nat.add_1_r in IH. exact IH.
Qed.

Theorem through_stack_id {A} (l : list A) : through_stack l = l.
Proof.
  unfold through_stack. rewrite stack_stream_transparent. unfold index_list.
  exact (pick_indices l []).
Qed.
