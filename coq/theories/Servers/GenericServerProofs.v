(* Proofs about the generic trait server (Servers/GenericServer.v): for EVERY business rule, every
   read filter, every equivalence and every request history. *)
From SC Require Import Base.Prelude Resource.Impl Resource.Spec Resource.Pull Resource.PullProofs
  Servers.GenericServer.

Set Implicit Arguments.

Section Proofs.
  Variable M : Type.
  Variable m_eqb : M -> M -> bool.
  Variable m_empty : M.
  Variable rmask : Type.
  Variable r_filter : rmask -> M -> M.
  Variable get_filter : rmask -> M -> M.
  Variable live : option M -> bool.
  Variable equiv : option (option M -> option M -> bool).
  Variable clock_at : Z -> Z.
  Variable request : Type.
  Variable rule : option M -> request -> M + Z.
  Variable checked : bool.
  Variable devs : list string.

  Notation vstate := (vstate M).
  Notation vevent := (vevent M).
  Notation ropts := (ropts M rmask).
  Notation stream := (stream M rmask).
  Notation sstate := (sstate M rmask).
  Notation sreq := (sreq rmask request).
  Notation sresp := (sresp M).
  Notation srv_set := (srv_set m_eqb m_empty clock_at rule).
  Notation respond := (respond M checked).
  Notation routed := (routed devs).
  Notation step := (step m_eqb m_empty get_filter live clock_at rule checked devs).
  Notation run := (run m_eqb m_empty get_filter live clock_at rule checked devs).
  Notation handler_sent := (handler_sent r_filter equiv).
  Notation stream_status := (@stream_status M rmask).
  Notation stream_out := (stream_out r_filter equiv).
  Notation filt := (filt r_filter).

  (* ---- the write is exactly the rule ---- *)
  Lemma srv_set_rule (s : vstate) (q : request) :
    srv_set s q =
    match rule (v_val s) q with
    | inr c => (s, inr c, [])
    | inl nv => (mkV (Some nv) (clock_at (v_reads s)) (v_reads s + 1), inl nv,
                 [mkVE nv (clock_at (v_reads s))])
    end.
  Proof.
    unfold GenericServer.srv_set, spec_v_set, precondition, new_value, write_time, rule_opts. simpl.
    destruct (rule (v_val s) q); reflexivity.
  Qed.

  Definition ok_update (p : sresp) : bool := match p with PUpdate (inl _) => true | _ => false end.

  (* what a step does to the register *)
  Lemma step_register (s : sstate) (q : sreq) :
    let '(s1, p) := step s q in
    match p with
    | PUpdate (inl r) => v_val (ss_v s1) = Some r
    | _ => ss_v s1 = ss_v s
    end.
  Proof.
    destruct q as [name mask|name rq|name mask uo|i|i]; simpl.
    - destruct (routed name); reflexivity.
    - destruct (routed name); [|reflexivity].
      rewrite srv_set_rule. destruct (rule (v_val (ss_v s)) rq) as [nv|c]; simpl; [reflexivity|].
      destruct checked; reflexivity.
    - reflexivity.
    - reflexivity.
    - reflexivity.
  Qed.

  Lemma deliver_nil (st : stream) : deliver [] st = st.
  Proof.
    unfold deliver. destruct (st_open st && st_routed st && st_reading st) eqn:E; [|reflexivity].
    rewrite app_nil_r. apply andb_prop in E. destruct E as [E0 E2]. apply andb_prop in E0. destruct E0 as [E1 _].
    destruct st; simpl in *. subst. reflexivity.
  Qed.

  (* ---- clause 5: a rejected Update changes nothing at all (register, streams) ---- *)
  Theorem rejected_update_noop (s s1 : sstate) name q c :
    step s (QUpdate name q) = (s1, PUpdate (inr c)) -> s1 = s.
  Proof.
    simpl. destruct (routed name).
    - rewrite srv_set_rule. destruct (rule (v_val (ss_v s)) q) as [nv|c']; simpl; intros H.
      + discriminate.
      + inversion H; subst. destruct s as [v l]. simpl. f_equal.
        rewrite <- (map_id l) at 2. apply map_ext. intros st. apply deliver_nil.
    - intros H. inversion H. reflexivity.
  Qed.

  (* a step that is not a successful Update leaves the register alone *)
  Lemma quiet_step (s s1 : sstate) q p : step s q = (s1, p) -> ok_update p = false -> ss_v s1 = ss_v s.
  Proof.
    intros H Hq. pose proof (step_register s q) as R. rewrite H in R.
    destruct p as [r|[r|c]| | |]; try exact R. discriminate.
  Qed.

  Lemma quiet_run qs : forall (s s2 : sstate) outs,
    run s qs = (s2, outs) -> forallb (fun p => negb (ok_update p)) outs = true -> ss_v s2 = ss_v s.
  Proof.
    induction qs as [|q r IH]; intros s s2 outs; simpl.
    - intros H _. inversion H. reflexivity.
    - destruct (step s q) as [s1 p] eqn:E1. destruct (run s1 r) as [s' ps] eqn:E2.
      intros H Hq. inversion H; subst. simpl in Hq. apply andb_prop in Hq. destruct Hq as [Hp Hr].
      rewrite (IH _ _ _ E2 Hr). eapply quiet_step; [exact E1|]. destruct (ok_update p); [discriminate|reflexivity].
  Qed.

  (* ---- clause 1: the response of a successful Update is what the next full Get returns, however
     many Gets, Pulls, cancels and REJECTED Updates come in between ---- *)
  Theorem update_then_get (s s1 s2 : sstate) name q r mid outs :
    step s (QUpdate name q) = (s1, PUpdate (inl r)) ->
    run s1 mid = (s2, outs) -> forallb (fun p => negb (ok_update p)) outs = true ->
    forall name', routed name' = true -> step s2 (QGet name' None) = (s2, PGet (inl (Some r))).
  Proof.
    intros H1 H2 Hq name' Hn. simpl. rewrite Hn.
    pose proof (step_register s (QUpdate name q)) as R. rewrite H1 in R.
    unfold v_get. erewrite quiet_run; [|exact H2|exact Hq]. rewrite R. reflexivity.
  Qed.

  (* ---- clause 2: a masked Get is the filter of the full Get ---- *)
  Theorem get_mask_is_projection (s : sstate) name k :
    snd (step s (QGet name (Some k))) =
    match snd (step s (QGet name None)) with
    | PGet (inl full) => PGet (inl (option_map (get_filter k) full))
    | other => other
    end.
  Proof. simpl. destruct (routed name); reflexivity. Qed.

  (* reads never write *)
  Theorem get_changes_nothing (s : sstate) name k : fst (step s (QGet name k)) = s.
  Proof. simpl. destruct (routed name); reflexivity. Qed.

  (* ---- streams ---- *)
  Definition suppressed (last : option M) (v : M) : bool :=
    match equiv with Some cmp => cmp last (Some v) | None => false end.

  (* the value the subscriber holds: the last one delivered (initially the seed as sent) *)
  Fixpoint holding (ro : ropts) (last : option M) (evs : list vevent) : option M :=
    match evs with
    | [] => last
    | e :: r => if suppressed last (filt ro (ve_value e)) then holding ro last r
                else holding ro (Some (filt ro (ve_value e))) r
    end.

  Lemma v_forward_snoc (ro : ropts) evs : forall last e,
    v_forward r_filter equiv ro last (evs ++ [e]) =
    v_forward r_filter equiv ro last evs ++
    (if suppressed (holding ro last evs) (filt ro (ve_value e)) then []
     else [mkVC (filt ro (ve_value e)) (ve_time e) false false]).
  Proof.
    unfold suppressed. induction evs as [|x r IH]; intros last e; simpl.
    - destruct equiv as [cmp|]; [destruct (cmp last _)|]; reflexivity.
    - unfold suppressed in *. destruct equiv as [cmp|].
      + destruct (cmp last (Some (filt ro (ve_value x)))); simpl; rewrite IH; reflexivity.
      + simpl. rewrite IH. reflexivity.
  Qed.

  Definition last_value (l : list (string * M)) : option M :=
    match rev l with [] => None | x :: _ => Some (snd x) end.

  Lemma last_value_snoc l x : last_value (l ++ [x]) = Some (snd x).
  Proof. unfold last_value. rewrite rev_app_distr. reflexivity. Qed.

  (* the value held is observable: it is the last message of the stream *)
  Lemma holding_is_last name (ro : ropts) evs : forall last pre,
    last_value pre = last ->
    last_value (pre ++ map (fun c => (name, vc_value c)) (v_forward r_filter equiv ro last evs)) = holding ro last evs.
  Proof.
    induction evs as [|x r IH]; intros last pre Hp; simpl.
    - rewrite app_nil_r. exact Hp.
    - change (match equiv with Some cmp => cmp last (Some (filt ro (ve_value x))) | None => false end)
        with (suppressed last (filt ro (ve_value x))).
      destruct (suppressed last (filt ro (ve_value x))).
      + apply IH. exact Hp.
      + simpl.
        specialize (IH (Some (filt ro (ve_value x))) (pre ++ [(name, filt ro (ve_value x))])).
        rewrite <- app_assoc in IH. simpl in IH. apply IH. apply last_value_snoc.
  Qed.

  Definition seed_of (st : stream) : option M :=
    if ro_updates_only (st_ro st) then None else option_map (filt (st_ro st)) (v_val (st_at st)).

  (* the router found the name and the handler serves the subscription *)
  Definition served (st : stream) : bool := st_routed st && st_live st.

  Lemma handler_sent_shape (st : stream) :
    served st = true ->
    handler_sent st =
    match seed_of st with Some v => [(st_name st, v)] | None => [] end ++
    map (fun c => (st_name st, vc_value c)) (v_forward r_filter equiv (st_ro st) (seed_of st) (st_evs st)).
  Proof.
    intros Hr. unfold served in Hr. unfold GenericServer.handler_sent, pull_value, pull_value_gen, seed_of. rewrite Hr.
    rewrite map_app.
    destruct (ro_updates_only (st_ro st)); [reflexivity|]. destruct (v_val (st_at st)); reflexivity.
  Qed.

  Lemma last_sent_is_holding (st : stream) :
    served st = true ->
    last_value (handler_sent st) = holding (st_ro st) (seed_of st) (st_evs st).
  Proof.
    intros Hr. rewrite (handler_sent_shape st Hr). apply holding_is_last.
    destruct (seed_of st); reflexivity.
  Qed.

  (* ---- clause 3: a stream starts with the current value unless updates-only ---- *)
  Theorem pull_starts_with_current (st : stream) :
    served st = true ->
    exists tail,
      handler_sent st =
      (if ro_updates_only (st_ro st) then []
       else match v_val (st_at st) with Some v => [(st_name st, filt (st_ro st) v)] | None => [] end) ++ tail /\
      Forall (fun x => fst x = st_name st /\ exists e, In e (st_evs st) /\ snd x = filt (st_ro st) (ve_value e)) tail.
  Proof.
    intros Hr. rewrite (handler_sent_shape st Hr).
    exists (map (fun c => (st_name st, vc_value c)) (v_forward r_filter equiv (st_ro st) (seed_of st) (st_evs st))).
    split.
    - f_equal. unfold seed_of. destruct (ro_updates_only (st_ro st)); [reflexivity|].
      destruct (v_val (st_at st)); reflexivity.
    - generalize (seed_of st). induction (st_evs st) as [|x r IH]; intros last; simpl; [constructor|].
      assert (Hw : forall l, Forall (fun y : string * M => fst y = st_name st /\
                        (exists e, In e r /\ snd y = filt (st_ro st) (ve_value e))) l ->
                      Forall (fun y : string * M => fst y = st_name st /\
                        (exists e, (x = e \/ In e r) /\ snd y = filt (st_ro st) (ve_value e))) l).
      { intros l Hl. eapply Forall_impl; [|exact Hl]. intros y [Hy [e [He Hs]]]. split; [exact Hy|].
        exists e. split; [right; exact He|exact Hs]. }
      destruct (match equiv with Some cmp => cmp last (Some (filt (st_ro st) (ve_value x))) | None => false end).
      + apply Hw. apply IH.
      + simpl. constructor.
        * split; [reflexivity|]. exists x. split; [left; reflexivity|reflexivity].
        * apply Hw. apply IH.
  Qed.

  (* a fresh Pull: the stream is appended, holds the current register, and (clause 3 applied) its
     first message is the current value under the request's name *)
  Theorem pull_opens_at_current (s : sstate) name k uo :
    step s (QPull name k uo) =
    (mkSS (ss_v s) (ss_streams s ++ [mkSt name (mkR k uo None) (routed name) (live (v_val (ss_v s))) (ss_v s) [] true true]), POpened) /\
    (routed name = true -> live (v_val (ss_v s)) = true ->
     handler_sent (mkSt name (mkR k uo None) (routed name) (live (v_val (ss_v s))) (ss_v s) [] true true) =
     if uo then [] else match v_val (ss_v s) with
                        | Some v => [(name, match k with Some m => r_filter m v | None => v end)]
                        | None => [] end).
  Proof.
    split; [reflexivity|]. intros Hr Hl. unfold GenericServer.handler_sent, pull_value, pull_value_gen. simpl. rewrite Hr, Hl. simpl.
    destruct uo; simpl; [reflexivity|]. destruct (v_val (ss_v s)); simpl; reflexivity.
  Qed.

  Lemma nth_error_map_some {A B} (f : A -> B) l i x : nth_error l i = Some x -> nth_error (map f l) i = Some (f x).
  Proof. intros H. rewrite nth_error_map. rewrite H. reflexivity. Qed.

  (* ---- clause 4: every effective Update is streamed, exactly once, to every open stream ---- *)
  Theorem every_effective_update_streamed (s s1 : sstate) name q r :
    step s (QUpdate name q) = (s1, PUpdate (inl r)) ->
    List.length (ss_streams s1) = List.length (ss_streams s) /\
    forall i st, nth_error (ss_streams s) i = Some st ->
      exists st1, nth_error (ss_streams s1) i = Some st1 /\
        st_name st1 = st_name st /\ stream_status st1 = stream_status st /\
        handler_sent st1 = handler_sent st ++
          (if st_open st && st_reading st && served st && negb (suppressed (last_value (handler_sent st)) (filt (st_ro st) r))
           then [(st_name st, filt (st_ro st) r)] else []).
  Proof.
    simpl. destruct (routed name); [|discriminate].
    rewrite srv_set_rule. destruct (rule (v_val (ss_v s)) q) as [nv|c]; simpl.
    2:{ destruct checked; discriminate. }
    intros H. inversion H; subst. simpl. split; [apply map_length|].
    intros i st Hi. eexists. split; [apply nth_error_map_some; exact Hi|].
    unfold deliver. destruct (st_open st) eqn:Eo; simpl.
    2:{ repeat split; try reflexivity. rewrite app_nil_r. reflexivity. }
    unfold served. destruct (st_routed st) eqn:Er; simpl.
    2:{ rewrite andb_false_r. repeat split; try reflexivity. rewrite app_nil_r. reflexivity. }
    destruct (st_reading st) eqn:Erd; simpl.
    2:{ repeat split; try reflexivity. rewrite app_nil_r. reflexivity. }
    split; [reflexivity|]. split.
    { unfold GenericServer.stream_status. simpl. rewrite Er, Eo. reflexivity. }
    destruct (st_live st) eqn:El; simpl.
    2:{ unfold GenericServer.handler_sent. simpl. rewrite Er, El. reflexivity. }
    assert (Hsv : served st = true) by (unfold served; rewrite Er, El; reflexivity).
    rewrite last_sent_is_holding by exact Hsv.
    rewrite (@handler_sent_shape st) by exact Hsv.
    rewrite handler_sent_shape by (unfold served; simpl; try rewrite El; reflexivity). simpl.
    assert (Hs : seed_of (mkSt (st_name st) (st_ro st) true true (st_at st) (st_evs st ++ [mkVE r (clock_at (v_reads (ss_v s)))]) true true)
                 = seed_of st) by reflexivity.
    rewrite Hs. rewrite v_forward_snoc. simpl. rewrite map_app, app_assoc. f_equal.
    destruct (suppressed (holding (st_ro st) (seed_of st) (st_evs st)) (filt (st_ro st) r)); reflexivity.
  Qed.

  (* ---- what must NOT change: every step only ever appends to the existing streams, and only a
     successful Update appends anything ---- *)
  Lemma cancel_at_nth i : forall (l : list stream) j st,
    nth_error l j = Some st ->
    nth_error (cancel_at i l) j = Some (if Nat.eqb i j then close st else st).
  Proof.
    induction i as [|i IH]; intros [|x l] [|j] st H; simpl in *; try discriminate.
    - inversion H; reflexivity.
    - exact H.
    - exact H.
    - apply IH. exact H.
  Qed.

  Lemma cancel_at_length i : forall (l : list stream), List.length (cancel_at i l) = List.length l.
  Proof. induction i as [|i IH]; intros [|x l]; simpl; auto. Qed.

  Lemma stall_at_nth i : forall (l : list stream) j st,
    nth_error l j = Some st ->
    nth_error (stall_at i l) j = Some (if Nat.eqb i j then stall st else st).
  Proof.
    induction i as [|i IH]; intros [|x l] [|j] st H; simpl in *; try discriminate.
    - inversion H; reflexivity.
    - exact H.
    - exact H.
    - apply IH. exact H.
  Qed.

  Lemma stall_at_length i : forall (l : list stream), List.length (stall_at i l) = List.length l.
  Proof. induction i as [|i IH]; intros [|x l]; simpl; auto. Qed.

  Theorem other_requests_stream_nothing (s s1 : sstate) q p :
    step s q = (s1, p) -> ok_update p = false ->
    forall i st, nth_error (ss_streams s) i = Some st ->
      exists st1, nth_error (ss_streams s1) i = Some st1 /\ handler_sent st1 = handler_sent st /\
                  st_name st1 = st_name st.
  Proof.
    intros H Hq i st Hi. destruct q as [name mask|name rq|name mask uo|j|j]; simpl in H.
    - destruct (routed name); inversion H; subst; exists st; auto.
    - destruct (routed name).
      + rewrite srv_set_rule in H. destruct (rule (v_val (ss_v s)) rq) as [nv|c]; simpl in H.
        * inversion H; subst. discriminate.
        * inversion H; subst. simpl. exists (deliver [] st). split.
          { apply nth_error_map_some. exact Hi. }
          rewrite deliver_nil. auto.
      + inversion H; subst; exists st; auto.
    - inversion H; subst. simpl. exists st. split; [|auto].
      rewrite nth_error_app1; [exact Hi|]. apply nth_error_Some. rewrite Hi. discriminate.
    - inversion H; subst. simpl. rewrite (cancel_at_nth j _ _ Hi).
      destruct (Nat.eqb j i); [|exists st; auto].
      exists (close st). repeat split; reflexivity.
    - inversion H; subst. simpl. rewrite (stall_at_nth j _ _ Hi).
      destruct (Nat.eqb j i); [|exists st; auto].
      exists (stall st). repeat split; reflexivity.
  Qed.

  (* ---- a reader that does not keep up holds nobody back: stalling a stream changes neither the
     register nor any response nor any other stream, now or later ---- *)
  Definition same_but (i : nat) (a b : sstate) : Prop :=
    ss_v a = ss_v b /\ List.length (ss_streams a) = List.length (ss_streams b) /\
    forall j, j <> i -> nth_error (ss_streams a) j = nth_error (ss_streams b) j.

  Lemma cancel_at_nth_opt i : forall (l : list stream) j,
    nth_error (cancel_at i l) j = option_map (fun st => if Nat.eqb i j then close st else st) (nth_error l j).
  Proof.
    induction i as [|i IH]; intros [|x l] [|j]; simpl; try reflexivity.
    - destruct (nth_error l j); reflexivity.
    - apply IH.
  Qed.

  Lemma stall_at_nth_opt i : forall (l : list stream) j,
    nth_error (stall_at i l) j = option_map (fun st => if Nat.eqb i j then stall st else st) (nth_error l j).
  Proof.
    induction i as [|i IH]; intros [|x l] [|j]; simpl; try reflexivity.
    - destruct (nth_error l j); reflexivity.
    - apply IH.
  Qed.

  Lemma nth_error_snoc_eq {A} (l l' : list A) x j :
    List.length l = List.length l' -> nth_error l j = nth_error l' j ->
    nth_error (l ++ [x]) j = nth_error (l' ++ [x]) j.
  Proof.
    intros Hl Hn. destruct (Nat.lt_ge_cases j (List.length l)) as [Hlt|Hge].
    - rewrite !nth_error_app1 by lia. exact Hn.
    - rewrite !nth_error_app2 by lia. rewrite Hl. reflexivity.
  Qed.

  Lemma step_same_but i (a b : sstate) q :
    same_but i a b -> snd (step a q) = snd (step b q) /\ same_but i (fst (step a q)) (fst (step b q)).
  Proof.
    intros [Hv [Hl Hn]]. destruct a as [va la], b as [vb lb]. cbn [ss_v ss_streams] in *. subst vb.
    destruct q as [name mask|name rq|name mask uo|k|k]; cbn [step ss_v ss_streams].
    - destruct (routed name); cbn [fst snd]; (split; [reflexivity|]); repeat split; auto.
    - destruct (routed name); cbn [fst snd]; [|split; [reflexivity|]; repeat split; auto].
      destruct (srv_set va rq) as [[v' r] evs]. cbn [fst snd]. split; [reflexivity|].
      unfold same_but. cbn [ss_v ss_streams]. split; [reflexivity|]. split; [rewrite !map_length; exact Hl|].
      intros j Hj. rewrite !nth_error_map, (Hn j Hj). reflexivity.
    - cbn [fst snd]. split; [reflexivity|]. unfold same_but. cbn [ss_v ss_streams].
      split; [reflexivity|]. split; [rewrite !app_length, Hl; reflexivity|].
      intros j Hj. apply nth_error_snoc_eq; [exact Hl|exact (Hn j Hj)].
    - cbn [fst snd]. split; [reflexivity|]. unfold same_but. cbn [ss_v ss_streams].
      split; [reflexivity|]. split; [rewrite !cancel_at_length; exact Hl|].
      intros j Hj. rewrite !cancel_at_nth_opt, (Hn j Hj). reflexivity.
    - cbn [fst snd]. split; [reflexivity|]. unfold same_but. cbn [ss_v ss_streams].
      split; [reflexivity|]. split; [rewrite !stall_at_length; exact Hl|].
      intros j Hj. rewrite !stall_at_nth_opt, (Hn j Hj). reflexivity.
  Qed.

  Lemma run_same_but i qs : forall (a b : sstate),
    same_but i a b -> snd (run a qs) = snd (run b qs) /\ same_but i (fst (run a qs)) (fst (run b qs)).
  Proof.
    induction qs as [|q r IH]; intros a b H; [split; [reflexivity|exact H]|].
    cbn [run]. destruct (step_same_but q H) as [Hp Hs].
    destruct (step a q) as [a1 pa]. destruct (step b q) as [b1 pb]. cbn [fst snd] in *. subst pb.
    destruct (IH a1 b1 Hs) as [Hps Hss].
    destruct (run a1 r) as [a2 ps]. destruct (run b1 r) as [b2 ps']. cbn [fst snd] in *. subst ps'.
    split; [reflexivity|exact Hss].
  Qed.

  Theorem stalled_reader_holds_nobody_back (s : sstate) i qs :
    let stalled := mkSS (ss_v s) (stall_at i (ss_streams s)) in
    snd (run stalled qs) = snd (run s qs) /\
    ss_v (fst (run stalled qs)) = ss_v (fst (run s qs)) /\
    forall j, j <> i -> nth_error (ss_streams (fst (run stalled qs))) j = nth_error (ss_streams (fst (run s qs))) j.
  Proof.
    intros stalled.
    assert (H : same_but i stalled s).
    { unfold same_but, stalled. cbn [ss_v ss_streams]. split; [reflexivity|]. split; [apply stall_at_length|].
      intros j Hj. rewrite stall_at_nth_opt. destruct (Nat.eqb_spec i j); [congruence|].
      destruct (nth_error (ss_streams s) j); reflexivity. }
    destruct (run_same_but qs H) as [Hp [Hv [_ Hn]]]. auto.
  Qed.
End Proofs.
