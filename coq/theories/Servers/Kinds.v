(* What the translator (harness/c14, Gen/Servers.v) records about a discovered server. *)
From SC Require Import Base.Prelude.

(* the equivalence the model configures for the resource (resource.WithEquivalence):
   none; proto.Equal (WithNoDuplicates) -- which also stands for cmp.Equal(FloatValueApprox(0, 0.01)):
   on the generator's grid of floats (values at least 0.5 apart) the tolerance relates exactly the
   equal messages, and the harness re-checks this on every history with the real comparer *)
Inductive eqkind := EqNone | EqExact.

Record srvinfo := mkSrv {
  sv_type : string;        (* full name of the resource message *)
  sv_eq : eqkind;
  sv_keyed : bool;         (* the triple addresses one item of a collection (created by the harness) *)
  sv_get : string; sv_update : string; sv_pull : string;
  sv_eq_source : string    (* "none" | "exact" | "approx" as read from DefaultModelOptions *)
}.
