(* What the translator (harness/c14, Gen/Servers.v) records about a discovered server. *)
From SC Require Import Base.Prelude.

(* the equivalence the model configures for the resource:
     EqNone    no de-duplication at all;
     EqExact   proto.Equal inside the model's own Pull<R> (cmp.Equal() written in the Pull method);
     EqOracle  the resource.Value behind the triple carries a Comparer (resource.WithEquivalence /
               WithMessageEquivalence / WithNoDuplicates).  The harness takes that very comparer out of
               the constructed server and evaluates it on the pairs of values a history can compare;
               the pairs it relates travel with the case (oracle table).  The judge accepts such a
               verdict only between values that differ in float leaves alone: "equivalence tolerance"
               in the property is a numeric tolerance, a comparer that ignores a non-float field does
               not make a change of that field "no change" (Servers/C14Judge.v, [equiv_of]). *)
Inductive eqkind := EqNone | EqExact | EqOracle.

Record srvinfo := mkSrv {
  sv_type : string;        (* full name of the resource message *)
  sv_eq : eqkind;
  sv_keyed : bool;         (* the triple addresses one item of a collection (created by the harness) *)
  sv_get : string; sv_update : string; sv_pull : string;
  sv_eq_source : string    (* what the source text of DefaultModelOptions says: "none" | "exact" | "approx(f,m)" | "custom:<expr>" *)
}.
