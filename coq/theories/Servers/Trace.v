(* What a client of one trait server observes during one history, and the property C14 evaluated
   DIRECTLY on that observation: [trace_ok].  Nothing here goes through the server model
   (Servers/GenericServer.v) or through Resource/*: the register's current value is read off the
   trace itself (the last successful Update response, before that the initial full Get), the
   expected content of every stream is recomputed per stream by scanning the trace.

   The five clauses of C14:
     (1) update_then_get        a full Get equals the last successful Update response;
     (2) get_mask_is_projection a masked Get equals the reference projection of that value;
     (3) pull_starts_with_current  unless updates-only, a stream starts with the (projected) value
                                current when it was opened;
     (4) every_effective_update_streamed  after that, the (projected) response of every successful
                                Update issued while it was open is the next message unless it does not
                                change what the subscriber holds (an unchanged value may be delivered
                                or not); nothing else is delivered; every message carries the name
                                given in the Pull request;
     (5) rejected_update_noop   an Update answered with a status leaves all of the above unchanged
   plus: an Update is answered with a value or a gRPC status, never a panic; a name the router does
   not know gives NotFound and reaches nothing.  No proofs here. *)
From SC Require Import Base.Prelude.

Set Implicit Arguments.

Section Trace.
  Variable M : Type.
  Variable m_eqb : M -> M -> bool.
  Variable rmask : Type.
  Variable proj : rmask -> M -> M.                          (* the reference projection *)
  Variable equiv : option (option M -> option M -> bool).   (* configured equivalence of the model *)
  Variable devs : list string.                              (* names registered in the router *)

  Inductive tev :=
  | TGet (name : string) (mask : option rmask) (resp : option M + Z)
  | TUpdate (name : string) (resp : M + Z)             (* inr (-1): the handler panicked *)
  | TOpen (name : string) (mask : option rmask) (updates_only : bool)
  | TCancel (i : nat)
  | TStall (i : nat).    (* from here on the reader of stream i does not receive: the property's "whose reader
                            keeps up" ends for that stream; the call stays open until cancelled *)

  (* a stream as observed when the history is over: the changes received, as (name, value), and how
     it ended if it did (5 = NotFound, 1 = cancelled by the client) *)
  Definition sobs := (list (string * M) * option Z)%type.

  Record trace := mkTrace { t_init : option M; t_evs : list tev; t_streams : list sobs }.

  Definition t_routed (name : string) : bool := existsb (String.eqb name) devs.
  Definition pm (k : option rmask) (v : M) : M := match k with Some m => proj m v | None => v end.
  Definition is_status (c : Z) : bool := (1 <=? c) && (c <=? 16).

  Definition get_eqb (a b : option M + Z) : bool :=
    match a, b with
    | inl x, inl y => option_eqb m_eqb x y
    | inr x, inr y => x =? y
    | _, _ => false
    end.

  (* clauses 1, 2, 5 (and routing): left to right, [cur] = what the register must hold *)
  Fixpoint gets_ok (cur : option M) (evs : list tev) : bool :=
    match evs with
    | [] => true
    | TGet name k resp :: r =>
        (if t_routed name then get_eqb resp (inl (option_map (pm k) cur)) else get_eqb resp (inr 5))
        && gets_ok cur r
    | TUpdate name resp :: r =>
        if t_routed name then
          match resp with
          | inl v => gets_ok (Some v) r
          | inr c => is_status c && gets_ok cur r
          end
        else (match resp with inr c => c =? 5 | inl _ => false end) && gets_ok cur r
    | _ :: r => gets_ok cur r
    end.

  (* ---- streams ---- *)
  (* [v] does not differ from what the subscriber holds, as far as the property is concerned: the
     configured equivalence decides against the last delivered message; a model without one leaves
     only identical values undecided.  A subscriber that has not been sent anything yet (updates-only)
     holds nothing, but an Update that leaves the register as it was when the stream was opened
     ([base]) has not changed the value either *)
  Definition unchanged (base last : option M) (v : M) : bool :=
    match equiv with
    | Some cmp => cmp last (Some v)
    | None => option_eqb m_eqb last (Some v)
    end
    || match last with None => option_eqb m_eqb base (Some v) | Some _ => false end.

  (* the stream after its first value, against the (projected) responses of the successful Updates
     issued while it was open: every one of them that changes the value must be the next message;
     one that does not may be delivered or not; nothing else may appear *)
  Fixpoint accepts (base last : option M) (ups : list M) (obs : list M) : bool :=
    match ups with
    | [] => match obs with [] => true | _ => false end
    | v :: r =>
        match obs with
        | o :: obs' => if m_eqb o v then accepts base (Some v) r obs' else unchanged base last v && accepts base last r obs
        | [] => unchanged base last v && accepts base last r []
        end
    end.

  (* the i-th Pull of the history: its request, the register value at that moment, what follows *)
  Fixpoint find_open (i : nat) (cur : option M) (evs : list tev)
    : option (string * option rmask * bool * option M * list tev) :=
    match evs with
    | [] => None
    | TOpen name k uo :: r =>
        match i with O => Some (name, k, uo, cur, r) | S i' => find_open i' cur r end
    | TUpdate name (inl v) :: r => find_open i (if t_routed name then Some v else cur) r
    | _ :: r => find_open i cur r
    end.

  Fixpoint cancelled_later (i : nat) (evs : list tev) : bool :=
    match evs with
    | [] => false
    | TCancel j :: r => Nat.eqb j i || cancelled_later i r
    | _ :: r => cancelled_later i r
    end.

  (* projected responses of the successful Updates that follow, until the stream's cancel or until its
     reader stalls (what is published after that is not owed to it; the cancel is still looked for) *)
  Fixpoint since (i : nat) (k : option rmask) (evs : list tev) : list M * bool :=
    match evs with
    | [] => ([], false)
    | TUpdate name (inl v) :: r =>
        if t_routed name then let '(l, c) := since i k r in (pm k v :: l, c) else since i k r
    | TCancel j :: r => if Nat.eqb j i then ([], true) else since i k r
    | TStall j :: r => if Nat.eqb j i then ([], cancelled_later i r) else since i k r
    | _ :: r => since i k r
    end.

  Definition status_eqb (a b : option Z) : bool := option_eqb Z.eqb a b.
  Definition change_eqb (a b : string * M) : bool := String.eqb (fst a) (fst b) && m_eqb (snd a) (snd b).
  Definition sobs_eqb (a b : sobs) : bool := list_eqb change_eqb (fst a) (fst b) && status_eqb (snd a) (snd b).

  (* clauses 3, 4, 5 for the i-th stream of the history *)
  Definition stream_ok (t : trace) (i : nat) (o : sobs) : bool :=
    match find_open i (t_init t) (t_evs t) with
    | None => false
    | Some (name, k, uo, cur, rest) =>
        if t_routed name then
          let '(ups, cancelled) := since i k rest in
          let current := option_map (pm k) cur in
          status_eqb (snd o) (if cancelled then Some 1 else None) &&
          forallb (fun x => String.eqb (fst x) name) (fst o) &&
          (if uo then accepts current None ups (map snd (fst o))
           else match current, map snd (fst o) with
                | Some c, first :: more => m_eqb first c && accepts None (Some c) ups more
                | None, more => accepts None None ups more
                | Some _, [] => false
                end)
        else match fst o with [] => status_eqb (snd o) (Some 5) | _ => false end
    end.

  Fixpoint count_opens (evs : list tev) : nat :=
    match evs with
    | [] => O
    | TOpen _ _ _ :: r => S (count_opens r)
    | _ :: r => count_opens r
    end.

  Fixpoint streams_from (t : trace) (i : nat) (obs : list sobs) : bool :=
    match obs with
    | [] => true
    | o :: r =>
        stream_ok t i o && streams_from t (S i) r
    end.

  (* clauses 3, 4, 5 *)
  Definition streams_ok (t : trace) : bool :=
    Nat.eqb (List.length (t_streams t)) (count_opens (t_evs t)) && streams_from t O (t_streams t).

  Definition trace_ok (t : trace) : bool := gets_ok (t_init t) (t_evs t) && streams_ok t.
End Trace.

Arguments TGet {M rmask}.
Arguments TUpdate {M rmask}.
Arguments TOpen {M rmask}.
Arguments TCancel {M rmask}.
Arguments TStall {M rmask}.
