(* C08 — Include-filtered List/Pull behave as the filtered collection.
   Theorems only; for an arbitrary message algebra, ANY include predicate (a function of id and
   value, also one that is true on absent values), any read mask and every history. *)
From SC Require Import Base.Prelude Resource.Impl Resource.Spec Resource.Pull Resource.ImplProofs
  Resource.SpecProofs Resource.PullProofs Resource.HeldProofs Resource.Held04Proofs Resource.Flat Resource.Judge.

Section C08.
  Variable M : Type.
  Variable m_eqb : M -> M -> bool.
  Variable m_empty : M.
  Variable writer : Type.
  Variable w_validate : writer -> option Z.
  Variable w_merge : writer -> M -> M -> M.
  Variable rmask : Type.
  Variable r_filter : rmask -> M -> M.
  Variable clock_at : Z -> Z.
  Variable str_ltb : string -> string -> bool.
  Variable idfun : option (string -> string).
  Hypothesis ltb_irrefl : forall a, str_ltb a a = false.
  Hypothesis ltb_trans : forall a b c, str_ltb a b = true -> str_ltb b c = true -> str_ltb a c = true.
  Hypothesis ltb_total : forall a b, str_ltb a b = false -> str_ltb b a = false -> a = b.

  Notation spec_step := (spec_step m_eqb m_empty w_validate w_merge r_filter clock_at str_ltb idfun).

  (* the decision table: starts matching => ADD, stops matching => REMOVE, stays in => delivered as
     it is, stays out => never delivered (absent values never match) *)
  Theorem C08_decision_table : forall f (c : cchange M),
    include_gen false false (Some f) c =
    match incl f (cc_id c) (cc_old c), incl f (cc_id c) (cc_new c) with
    | true, true => Some c
    | false, false => None
    | false, true => Some (mkCC (cc_id c) (cc_time c) KAdd None (cc_new c) (cc_seed c) false)
    | true, false => Some (mkCC (cc_id c) (cc_time c) KRemove (cc_old c) None false false)
    end.
  Proof. intros. apply include_decision_table. Qed.

  (* folding the filtered stream always yields List with the same predicate and mask *)
  Theorem C08_filtered_fold_is_filtered_list : forall (ro : ropts M rmask) ops s s' outs,
    ro_updates_only ro = false -> sorted str_ltb (c_items s) ->
    run spec_step s ops = (s', outs) ->
    forall id,
      vlookup id (fold_view (pull_collection r_filter None s ro (flat_map snd outs))) =
      vlookup id (c_list r_filter s' (ro_mask ro) (ro_include ro)).
  Proof. intros. eapply filtered_fold_is_filtered_list; eauto. Qed.

  (* the same law for ANY chain of events that each describe one transition of the contents as the
     subscriber knows them (old = its value before, new = its value after, nothing else changes):
     this is what lossy delivery produces — C09_fold_preserved shows every merged event is valid
     against the receiver's own view — so the include-filtered fold tracks the filtered contents
     with backpressure off as well *)
  Theorem C08_filtered_fold_any_described_chain : forall (ro : ropts M rmask) evs l l' view,
    chain l evs l' -> view_inv r_filter ro view l ->
    view_inv r_filter ro (fold_left (@apply_change M) (c_forward_gen r_filter None false false ro evs) view) l'.
  Proof. intros. eapply chain_keeps_view; eauto. Qed.

  (* the seed is the filtered list *)
  Theorem C08_seed_is_filtered_list : forall (ro : ropts M rmask) (s : cstate M),
    map (@cc_id M) (seeds r_filter ro (included ro (c_items s))) =
    map fst (c_list r_filter s (ro_mask ro) (ro_include ro)).
  Proof.
    intros. destruct (seeds_shape r_filter ro (included ro (c_items s))) as [H _]. rewrite H.
    unfold c_list, included. rewrite map_map. reflexivity.
  Qed.
  (* ---- include together with an EQUIVALENCE on the collection (the held map of Collection.Pull,
     Pull.v [pull_collection_held], the code since /repo 3a50d70) ---- *)
  (* for every history (also: an item leaves the filter and returns, is deleted and re-added), ANY
     predicate, mask and REFLEXIVE comparer: what folding the filtered stream gives for an id is
     equivalent to what List with the same predicate and mask shows for it *)
  Theorem C08_held_fold_equivalent_to_filtered_list : forall cmp (ro : ropts M rmask) ops s s' outs,
    (forall a, cmp a a = true) ->
    ro_updates_only ro = false -> sorted str_ltb (c_items s) ->
    run spec_step s ops = (s', outs) ->
    forall id,
      cmp (vlookup id (fold_view (pull_collection_held r_filter (Some cmp) s ro (flat_map snd outs))))
          (vlookup id (c_list r_filter s' (ro_mask ro) (ro_include ro))) = true.
  Proof. intros. eapply held_fold_equiv_list; eauto. Qed.

  (* so, for a comparer that tells a value from nothing, an item is in the fold exactly when it is
     in the filtered List: a return into the filter is never swallowed *)
  Theorem C08_held_fold_same_presence : forall cmp (ro : ropts M rmask) ops s s' outs,
    (forall a, cmp a a = true) ->
    (forall v, cmp None (Some v) = false) -> (forall v, cmp (Some v) None = false) ->
    ro_updates_only ro = false -> sorted str_ltb (c_items s) ->
    run spec_step s ops = (s', outs) ->
    forall id,
      vlookup id (fold_view (pull_collection_held r_filter (Some cmp) s ro (flat_map snd outs))) = None <->
      vlookup id (c_list r_filter s' (ro_mask ro) (ro_include ro)) = None.
  Proof. intros. eapply held_fold_same_presence; eauto. Qed.

  (* and for a comparer that decides equality (no-duplicates) the fold IS the filtered List *)
  Theorem C08_held_fold_is_list_for_equality : forall cmp (ro : ropts M rmask) ops s s' outs,
    (forall a, cmp a a = true) -> (forall a b, cmp a b = true -> a = b) ->
    ro_updates_only ro = false -> sorted str_ltb (c_items s) ->
    run spec_step s ops = (s', outs) ->
    forall id,
      vlookup id (fold_view (pull_collection_held r_filter (Some cmp) s ro (flat_map snd outs))) =
      vlookup id (c_list r_filter s' (ro_mask ro) (ro_include ro)).
  Proof. intros. eapply held_fold_is_list_for_equality; eauto. Qed.

  (* the invariant behind it, for ANY chain of described events (lossy delivery's merged events):
     the view stays equivalent to the filtered contents and the held map stays the view *)
  Theorem C08_held_fold_any_described_chain : forall cmp (ro : ropts M rmask) evs l l' vw h,
    (forall a, cmp a a = true) ->
    chain l evs l' -> hview_inv r_filter cmp ro vw h l ->
    hview_inv r_filter cmp ro (fold_left (@apply_change M) (c_forward_held r_filter (Some cmp) ro h evs) vw)
              (held_after cmp h (offered r_filter ro evs)) l'.
  Proof. intros. eapply chain_keeps_hview; eauto. Qed.

  (* without an equivalence the held model is the model of the theorems above *)
  Theorem C08_held_without_equivalence : forall (ro : ropts M rmask) (s : cstate M) evs,
    pull_collection_held r_filter None s ro evs = pull_collection r_filter None s ro evs.
  Proof. intros. apply held_none_is_pull_collection. Qed.
End C08.

Print Assumptions C08_held_fold_equivalent_to_filtered_list.
Print Assumptions C08_held_fold_same_presence.
Print Assumptions C08_held_fold_is_list_for_equality.
Print Assumptions C08_held_fold_any_described_chain.
Print Assumptions C08_held_without_equivalence.

Print Assumptions C08_decision_table.
Print Assumptions C08_filtered_fold_is_filtered_list.
Print Assumptions C08_seed_is_filtered_list.
Print Assumptions C08_filtered_fold_any_described_chain.

(* the pinned commit's table: an update between two matching versions was dropped, and with a
   predicate true on absent values a delete of a non-matching item became an ADD of nothing *)
Theorem C08_polarity_v0_refuted :
  include_gen true true (Some (interp_pred (PIdIn ["a"%string])))
              (mkCC "a" 0 KUpdate (Some (mkF 1 0 0)) (Some (mkF 2 0 0)) false false) = None /\
  include_gen true true (Some (interp_pred (PIdIn ["a"%string])))
              (mkCC "b" 0 KUpdate (Some (mkF 1 0 0)) (Some (mkF 2 0 0)) false false) <> None.
Proof. vm_compute. split; [reflexivity|discriminate]. Qed.

Theorem C08_absent_v0_refuted :
  include_gen false true (Some (interp_pred (PAbsentTrue (PFieldGe Fa 5))))
              (mkCC "a" 0 KRemove (Some (mkF 1 0 0)) None false false) =
  Some (mkCC "a" 0 KAdd None None false false).
Proof. vm_compute. reflexivity. Qed.

Example C08_nonvacuous :
  let o := mkFWO None None None None false None false None false None None true false false false in
  let ro := mkFRO None false (Some (PFieldGe Fa 2)) in
  let '(cs, s2) := model_cstream None None None [FUpdate "a" (mkF 1 0 0) o []; FUpdate "b" (mkF 3 0 0) o []] ro
                     [FUpdate "a" (mkF 2 0 0) o []; FUpdate "b" (mkF 1 0 0) o []; FUpdate "a" (mkF 4 0 0) o []] in
  map (fun c => (cc_id c, cc_kind c, cc_seed c)) cs =
    [("b"%string, KAdd, true); ("a"%string, KAdd, false); ("b"%string, KRemove, false); ("a"%string, KUpdate, false)] /\
  fold_view cs = [("a"%string, mkF 4 0 0)] /\
  c_list fr_filter s2 None (Some (interp_pred (PFieldGe Fa 2))) = [("a"%string, mkF 4 0 0)].
Proof. vm_compute. auto. Qed.

(* ====================================================================================== *)
(* include on EVERY change kind (REPLACE from the lossy merge stage included) and the       *)
(* end-to-end law for BOTH delivery modes.  Changes are C09's token changes                 *)
(* (Excess/Change.v): ids, values, times are opaque; predicates are arbitrary functions;    *)
(* the lossy pipeline is C09's state machine m_run (reused) followed by include; a schedule *)
(* is any list of Send / Recv actions (any number of ids, any reader pace).                 *)
(* ====================================================================================== *)
From SC Require Import Excess.Change Excess.MergeExcess Resource.Include Resource.IncludeProofs
  Gen.IncludeTable Resource.IncludeTableProofs.

(* the decision table for every kind: the kind plays no part in the decision *)
Theorem C08_include_every_kind : forall (f : ipred) (c : change),
  x_include (Some f) c =
  match tpresent (cold c) && f (cid c) (cold c), tpresent (cnew c) && f (cid c) (cnew c) with
  | true, true => Some c
  | false, false => None
  | false, true => Some (mkChange (cid c) K_ADD None (cnew c) (ctime c) (cseed c) false)
  | true, false => Some (mkChange (cid c) K_REMOVE (cold c) None (ctime c) false false)
  end.
Proof. exact x_include_table. Qed.

(* REPLACE = REMOVE + re-ADD merged for a reader that is behind: matching -> non-matching must be
   a REMOVE, non-matching -> matching an ADD *)
Theorem C08_replace_decisions : forall (f : ipred) i o n t sd la,
  x_include (Some f) (mkChange i K_REPLACE (Some o) (Some n) t sd la) =
  match f i (Some o), f i (Some n) with
  | true, true => Some (mkChange i K_REPLACE (Some o) (Some n) t sd la)
  | false, false => None
  | false, true => Some (mkChange i K_ADD None (Some n) t sd false)
  | true, false => Some (mkChange i K_REMOVE (Some o) None t false false)
  end.
Proof. exact replace_decisions. Qed.

(* one step: for a legal edit c of an id holding x, what include returns is a legal edit of the
   FILTERED collection (ADD only of what it lacks; UPDATE/REPLACE/REMOVE only of what it has, with
   the value it has as old value) leading to the filtered new state; nothing returned = the
   filtered collection did not change *)
Theorem C08_include_step_law : forall inc c x, valid_at c x = true ->
  let w := Include.shown inc (cid c) x in
  match x_include inc c with
  | Some o => cid o = cid c /\ valid_at o w = true /\ result o w = Include.shown inc (cid c) (result c x)
  | None => w = Include.shown inc (cid c) (result c x)
  end.
Proof. exact include_step_law. Qed.

(* (a) backpressure: every history (valid edit script from any contents v0), any predicate: the
   filtered stream is an edit script of the filtered collection and folds to it *)
Theorem C08_backpressure_fold_is_filtered : forall inc sent v0, valid_script sent v0 = true ->
  valid_script (bp_stream inc sent) (filtered inc v0) = true /\
  forall i, Change.fold_view (bp_stream inc sent) (filtered inc v0) i = filtered inc (Change.fold_view sent v0) i.
Proof. exact bp_filtered_fold. Qed.

(* (b) lossy, at every moment of every schedule: what the filtered subscriber has received is an
   edit script of the filtered collection whose fold is the filter of the unfiltered lossy view *)
Theorem C08_lossy_fold_any_schedule : forall inc l v0,
  no_close l = true -> valid_script (sent_of l) v0 = true ->
  let got := got_of (snd (m_run m_init l)) in
  valid_script (lossy_stream inc l) (filtered inc v0) = true /\
  forall i, Change.fold_view (lossy_stream inc l) (filtered inc v0) i = filtered inc (Change.fold_view got v0) i.
Proof. exact lossy_filtered_fold. Qed.

(* (b) lossy, end to end: once the reader has drained, the fold is the filtered collection after
   the whole history -- List with the same predicate *)
Theorem C08_lossy_drained_fold_is_filtered_list : forall inc l v0,
  no_close l = true -> valid_script (sent_of l) v0 = true ->
  let n := List.length (queue (fst (m_run m_init l))) in
  let l' := l ++ repeat Recv n in
  valid_script (lossy_stream inc l') (filtered inc v0) = true /\
  forall i, Change.fold_view (lossy_stream inc l') (filtered inc v0) i = filtered inc (Change.fold_view (sent_of l) v0) i.
Proof. exact lossy_drained_fold. Qed.

(* a reader that keeps up sees exactly the backpressured stream *)
Theorem C08_lossy_prompt_reader_is_backpressure : forall inc cs,
  lossy_stream inc (flat_map (fun c => [Send c; Recv]) cs) = bp_stream inc cs.
Proof. exact lossy_prompt_reader_is_backpressure. Qed.

(* the generated table (the real include on all kinds x nil-ness x predicate answers x seed flags):
   the code is the model on every row, every legal row obeys the fold law, the table is complete,
   include never edits its input *)
Theorem C08_table_matches_model : forallb row_matches_model include_rows = true.
Proof. exact include_table_matches_model. Qed.
Theorem C08_table_obeys_law : forallb row_obeys_law include_rows = true.
Proof. exact include_table_obeys_law. Qed.
Theorem C08_table_complete :
  forallb (fun k => forallb (fun o => forallb (fun n => forallb (fun pin => forallb (fun pn =>
  forallb (fun pnil => forallb (fun sd => forallb (fun la => has_row k o n pin pn pnil sd la)
  bools) bools) bools) bools) bools) bools) bools) [0; 1; 2; 3; 4; 5] = true.
Proof. exact include_table_complete. Qed.
Theorem C08_table_input_untouched : include_rows_mutated = [].
Proof. exact include_table_input_untouched. Qed.

Print Assumptions C08_include_every_kind.
Print Assumptions C08_replace_decisions.
Print Assumptions C08_include_step_law.
Print Assumptions C08_backpressure_fold_is_filtered.
Print Assumptions C08_lossy_fold_any_schedule.
Print Assumptions C08_lossy_drained_fold_is_filtered_list.
Print Assumptions C08_lossy_prompt_reader_is_backpressure.
Print Assumptions C08_table_matches_model.
Print Assumptions C08_table_obeys_law.
Print Assumptions C08_table_complete.
Print Assumptions C08_table_input_untouched.

(* the hypotheses are satisfiable and the REPLACE path is exercised: REMOVE + re-ADD of id 0 while
   the reader is behind (the Pull goroutine holds the change of id 1), old version matching, new
   one not: include is handed a REPLACE, the subscriber gets a REMOVE *)
Example C08_nonvacuous_lossy_replace :
  let p : ipred := fun _ v => match v with Some t => 3 <=? t | None => false end in
  let v0 : view := fun i => if i =? 0 then Some 5 else if i =? 1 then Some 7 else None in
  let l := [Send (mkChange 1 K_UPDATE (Some 7) (Some 8) 10 false false); Recv;
            Send (mkChange 0 K_REMOVE (Some 5) None 11 false false);
            Send (mkChange 0 K_ADD None (Some 1) 12 false false); Recv] in
  valid_script (sent_of l) v0 = true /\
  got_of (snd (m_run m_init l)) =
    [mkChange 1 K_UPDATE (Some 7) (Some 8) 10 false false; mkChange 0 K_REPLACE (Some 5) (Some 1) 12 false false] /\
  lossy_stream (Some p) l =
    [mkChange 1 K_UPDATE (Some 7) (Some 8) 10 false false; mkChange 0 K_REMOVE (Some 5) None 12 false false] /\
  Change.fold_view (lossy_stream (Some p) l) (filtered (Some p) v0) 0 = None.
Proof. exact lossy_replace_stops_matching. Qed.

(* ====================================================================================== *)
(* The same end-to-end law on messages: any message algebra M, read mask, include predicate *)
(* (any function of id and message).  A value token stands for a message (tok, the heap of  *)
(* stored messages), a numbered id for a string id (idn).  The subscriber folds the stream   *)
(* with Pull.apply_change; List is Impl.c_list.                                             *)
(* ====================================================================================== *)
From SC Require Import Resource.IncludeDenote Resource.IncludeDenoteProofs.

Section C08_messages.
  Variable M : Type.
  Variable rmask : Type.
  Variable r_filter : rmask -> M -> M.
  Variable tok : Z -> M.
  Variable idn : Z -> string.
  Variable str_ltb : string -> string -> bool.
  Hypothesis ltb_irrefl : forall a, str_ltb a a = false.
  Hypothesis ltb_trans : forall a b c, str_ltb a b = true -> str_ltb b c = true -> str_ltb a c = true.
  Hypothesis idn_inj : forall i j, idn i = idn j -> i = j.
  Variable ro : ropts M rmask.

  (* include on tokens IS the include of Pull.v (the model run against the code with backpressure) *)
  Theorem C08_include_is_pull_include : forall c,
    option_map (d_change tok idn) (x_include (t_inc tok idn ro) c) =
    include_gen false false (ro_include ro) (d_change tok idn c).
  Proof. apply include_denotes. Qed.

  Variable v0 : Change.view.                    (* contents when the subscription starts *)
  Variable view0 : list (string * M).           (* the subscriber's view after the seed *)
  Hypothesis seed_ok : @rep M rmask r_filter tok idn ro view0 (filtered (t_inc tok idn ro) v0).
  Variable s' : cstate M.                       (* the collection after the history *)
  Hypothesis s'_sorted : sorted str_ltb (c_items s').

  (* (a) with backpressure *)
  Theorem C08_backpressure_fold_is_list_M : forall sent,
    valid_script sent v0 = true ->
    (forall i, option_map (@it_body M) (lookup (idn i) (c_items s')) = option_map tok (Change.fold_view sent v0 i)) ->
    forall i, vlookup (idn i) (fold_left (@apply_change M) (bp_stream_M r_filter tok idn ro sent) view0) =
              vlookup (idn i) (c_list r_filter s' (ro_mask ro) (ro_include ro)).
  Proof. eapply bp_fold_is_list_M; eassumption. Qed.

  (* (b) without backpressure: any schedule of publishes and receives, then the reader drains *)
  Theorem C08_lossy_fold_is_list_M : forall l,
    no_close l = true -> valid_script (sent_of l) v0 = true ->
    (forall i, option_map (@it_body M) (lookup (idn i) (c_items s')) = option_map tok (Change.fold_view (sent_of l) v0 i)) ->
    let n := List.length (queue (fst (m_run m_init l))) in
    forall i, vlookup (idn i) (fold_left (@apply_change M) (lossy_stream_M r_filter tok idn ro (l ++ repeat Recv n)) view0) =
              vlookup (idn i) (c_list r_filter s' (ro_mask ro) (ro_include ro)).
  Proof. eapply lossy_fold_is_list_M; eassumption. Qed.
End C08_messages.

Print Assumptions C08_include_is_pull_include.
Print Assumptions C08_backpressure_fold_is_list_M.
Print Assumptions C08_lossy_fold_is_list_M.

(* the representation hypothesis is satisfiable: an empty collection and an empty view, any predicate *)
Example C08_nonvacuous_rep : forall (M rmask : Type) (r_filter : rmask -> M -> M) tok idn (ro : ropts M rmask),
  @rep M rmask r_filter tok idn ro [] (filtered (t_inc tok idn ro) empty_view).
Proof.
  intros. split; [constructor|]. intros i. unfold filtered, Include.shown, empty_view.
  destruct (t_inc tok idn ro); reflexivity.
Qed.

(* include + equivalence, non-vacuity: ON -> OFF -> ON under no-duplicates with a filter on ON: the
   return is an ADD although its value equals the one last sent; fold = filtered List *)
Example C08_nonvacuous_leave_and_return_equal :
  let o := mkFWO None None None None false None false None false None None true false false false in
  let ro := mkFRO None false (Some (PFieldGe Fa 1)) in
  let '(cs, s2) := model_cstream None None (Some EqAll) [FUpdate "a" (mkF 1 0 0) o []] ro
                     [FUpdate "a" (mkF 0 7 0) o []; FUpdate "a" (mkF 1 0 0) o []] in
  map (fun c => (cc_kind c, cc_new c)) cs = [(KAdd, Some (mkF 1 0 0)); (KRemove, None); (KAdd, Some (mkF 1 0 0))] /\
  Pull.fold_view cs = c_list fr_filter s2 None (Some (interp_pred (PFieldGe Fa 1))).
Proof. vm_compute. split; reflexivity. Qed.

(* Print Assumptions for every theorem above that did not have its own line yet *)
Print Assumptions C08_polarity_v0_refuted.
Print Assumptions C08_absent_v0_refuted.

(* ====================================================================================== *)
(* Soundness of the judges: for EVERY case -- any history, writable mask, id function,      *)
(* predicate, read mask, equivalence, and any observation whatsoever -- that agrees with    *)
(* the model, the property predicate evaluated on the observation holds.  So a verdict 2    *)
(* ("the model agrees but the property fails") cannot occur for these kinds of case, and    *)
(* the end-to-end theorems above are what the correspondence run checks, carried across     *)
(* the executable comparisons (cc_matches, list_eqb, view_lookup, same_map, equiv_map) and  *)
(* the implementation-shaped model (run_c = impl_step, refined to spec_step).               *)
(* ====================================================================================== *)
From SC Require Import Resource.FlatProofs Resource.HeldJudge Resource.C08Judge
  Resource.JudgeSound08 Resource.JudgeSound08x Timeline.Timestamp.

(* generator C08 (judge08): a backpressured subscriber with include / mask / equivalence *)
Theorem C08_judge_sound_cpull : forall w i e before ro after codes witness stream final,
  Judge.agrees (CaseCPull w i e before ro after codes witness stream final) = true ->
  C08_ok (CaseCPull w i e before ro after codes witness stream final) = true.
Proof. exact judge08_sound_cpull. Qed.
Print Assumptions C08_judge_sound_cpull.

(* the whole of judge08: every kind but the model-free CaseFold (lossy delivery / trait servers,
   where agrees is constantly true and the oracle alone judges) *)
Theorem C08_judge_sound : forall c,
  Judge.agrees c = true -> match c with CaseFold _ _ _ => False | _ => True end -> C08_ok c = true.
Proof. exact judge08_sound. Qed.
Print Assumptions C08_judge_sound.

(* generator C08H (judge08h), backpressure: the END clause of C08H_ok (fold of the whole stream
   equivalent to the final List, id by id) follows from agreement.  _partial: the clause at the
   marks compares with listings taken during the run, which agreement does not constrain *)
Theorem C08_judge_sound_held_partial : forall e before ro after stream final,
  agrees_h (CaseH e before ro false after stream final) = true ->
  (r_updates_only ro = false -> equiv_map (h_eqv e) (Pull.fold_view (map to_cc stream)) final = true) /\
  C08H_ok (CaseH e before ro false after stream final) = (r_updates_only ro || marks_ok (h_eqv e) stream after).
Proof.
  intros e before ro after stream final H. split.
  - intros UO. eapply judge08h_sound_final; eassumption.
  - apply judge08h_sound_partial. exact H.
Qed.
Print Assumptions C08_judge_sound_held_partial.

(* generator C08x (judge08x), table rows: for ANY row (any change, any answers of the predicate,
   any output) -- not only the 768 generated ones -- agreement with x_include gives the fold law *)
Theorem C08_judge_sound_row : forall ch pin pn pnil out,
  C08Judge.agrees (CaseRow ch pin pn pnil out) = true -> C08x_ok (CaseRow ch pin pn pnil out) = true.
Proof. exact judge08x_sound_row. Qed.
Print Assumptions C08_judge_sound_row.

(* the booking predicate: the model of PeriodsIntersect the listing is compared with IS the
   arithmetic reference, for all periods with valid timestamps (inverted / empty / half-bounded
   / absent included) *)
Theorem C08_booking_predicate_is_reference : forall req booked,
  operiod_ts_ok req = true -> operiod_ts_ok booked = true -> book_in req booked = book_in_ref req booked.
Proof. exact book_in_is_ref. Qed.
Print Assumptions C08_booking_predicate_is_reference.

Theorem C08_judge_sound_booklist : forall req store listed,
  C08Judge.agrees (CaseBookList req store listed) = true -> book_guard (CaseBookList req store listed) = true ->
  C08x_ok (CaseBookList req store listed) = true.
Proof. exact judge08x_sound_booklist. Qed.
Print Assumptions C08_judge_sound_booklist.

(* _partial: PullBookings' stream is not modelled (the booking server's own Pull); agreement gives
   the listing clause, the fold clause stays on the observation *)
Theorem C08_judge_sound_bookpull_partial : forall req contents stream final,
  C08Judge.agrees (CaseBookPull req contents stream final) = true ->
  book_guard (CaseBookPull req contents stream final) = true ->
  C08x_ok (CaseBookPull req contents stream final) = same_map (Pull.fold_view (map to_cc stream)) final.
Proof. exact judge08x_sound_bookpull_partial. Qed.
Print Assumptions C08_judge_sound_bookpull_partial.

(* non-vacuity: cases that DO agree, with non-trivial streams.  The observation is the model's
   stream written as the harness writes it (ochange records). *)
Definition oc_of (c : cchange fmsg) : ochange :=
  mkOC (cc_id c) (cc_time c) (kind_code (cc_kind c)) (cc_old c) (cc_new c) (cc_seed c) (cc_last_seed c).

Example C08_judge_sound_nonvacuous :
  let o := mkFWO None None None None false None false None false None None true false false false in
  let ro := mkFRO None false (Some (PFieldGe Fa 2)) in
  let before := [FUpdate "a" (mkF 1 0 0) o []; FUpdate "b" (mkF 3 0 0) o []] in
  let after := [FUpdate "a" (mkF 2 0 0) o []; FUpdate "b" (mkF 1 0 0) o []; FUpdate "a" (mkF 4 0 0) o []] in
  let '(cs, s2) := model_cstream None None None before ro after in
  let c := CaseCPull None None None before ro after [0; 0; 0] [] (map oc_of cs)
                     (c_list fr_filter s2 None (Some (interp_pred (PFieldGe Fa 2)))) in
  Judge.agrees c = true /\ List.length cs = 4%nat /\ C08_ok c = true.
Proof. vm_compute. auto. Qed.

(* ... with an equivalence, an item leaving the filter and returning with the value last sent *)
Example C08_judge_sound_nonvacuous_equivalence :
  let o := mkFWO None None None None false None false None false None None true false false false in
  let ro := mkFRO None false (Some (PFieldGe Fa 1)) in
  let before := [FUpdate "a" (mkF 1 0 0) o []] in
  let after := [FUpdate "a" (mkF 0 7 0) o []; FUpdate "a" (mkF 1 0 0) o []] in
  let '(cs, s2) := model_cstream None None (Some EqAll) before ro after in
  let fin := c_list fr_filter s2 None (Some (interp_pred (PFieldGe Fa 1))) in
  Judge.agrees (CaseCPull None None (Some EqAll) before ro after [0; 0] [] (map oc_of cs) fin) = true /\
  agrees_h (CaseH (Some EqAll) before ro false (map (fun op => (op, 0, None)) after) (map oc_of cs) fin) = true /\
  map (fun c => cc_kind c) cs = [KAdd; KRemove; KAdd].
Proof. vm_compute. auto. Qed.

(* ... a REPLACE row (matching -> non-matching, returned as REMOVE), and a booking store with an
   inverted, a half-bounded and an absent period against a proper request *)
Example C08_judge_sound_nonvacuous_row_and_booking :
  C08Judge.agrees (CaseRow (mkChange 0 K_REPLACE (Some TOK_OLD) (Some TOK_NEW) 5 false false) true false false
                           (Some (mkChange 0 K_REMOVE (Some TOK_OLD) None 5 false false))) = true /\
  let t := fun s => Some (mkTs s 0) in
  let req := Some (mkPeriod (t 4) (t 6)) in
  let store := [(1, Some (mkPeriod (t 8) (t 2))); (2, Some (mkPeriod (t 5) None)); (3, None);
                (4, Some (mkPeriod (t 6) (t 8))); (5, Some (mkPeriod (t 2) (t 5)))] in
  let listed := map fst (filter (fun kv => book_in req (snd kv)) store) in
  C08Judge.agrees (CaseBookList req store listed) = true /\ book_guard (CaseBookList req store listed) = true /\
  (listed <> [] /\ List.length listed < List.length store)%nat.
Proof. vm_compute. repeat split; try discriminate; lia. Qed.

(* ====================================================================================== *)
(* "behaves as if the collection contained only the items satisfying it": nothing the       *)
(* filtered subscriber receives mentions a version the predicate rejects.  Both delivery    *)
(* modes, every history / schedule, every kind, every predicate (the oracle clause          *)
(* mentions_only_matching of C08x_ok, as a theorem of the model).                           *)
(* ====================================================================================== *)
From SC Require Import Resource.IncludeMatchProofs.

Theorem C08_delivered_versions_all_match : forall (f : ipred),
  (forall sent, Forall (matching f) (bp_stream (Some f) sent)) /\
  (forall l, Forall (matching f) (lossy_stream (Some f) l)).
Proof. intros f. split; [apply bp_all_matching|apply lossy_all_matching]. Qed.
Print Assumptions C08_delivered_versions_all_match.

(* one change: what include returns keeps the id and the time, carries at least one version, and
   only versions the predicate accepts *)
Theorem C08_include_returns_matching : forall (f : ipred) c o,
  x_include (Some f) c = Some o -> matching f o /\ cid o = cid c /\ ctime o = ctime c.
Proof. exact include_delivers_matching. Qed.
Print Assumptions C08_include_returns_matching.

(* a change between two versions the predicate rejects (or absent ones) is never delivered *)
Theorem C08_stays_out_never_delivered : forall (f : ipred) c,
  (forall t, cold c = Some t -> f (cid c) (Some t) = false) ->
  (forall t, cnew c = Some t -> f (cid c) (Some t) = false) ->
  x_include (Some f) c = None.
Proof. exact stays_out_never_delivered. Qed.
Print Assumptions C08_stays_out_never_delivered.

(* non-vacuity: a predicate TRUE on absent values; the update 1 -> 2 of a rejected item is dropped,
   the REPLACE 5 -> 1 arrives as a REMOVE carrying only the accepted version 5 *)
Example C08_nonvacuous_delivered_match :
  let p : ipred := fun _ v => match v with Some t => 3 <=? t | None => true end in
  bp_stream (Some p) [mkChange 7 K_UPDATE (Some 1) (Some 2) 9 false false;
                      mkChange 0 K_REPLACE (Some 5) (Some 1) 12 false false] =
    [mkChange 0 K_REMOVE (Some 5) None 12 false false].
Proof. vm_compute. reflexivity. Qed.

(* generator C08x, lossy public-API scenario: of the four clauses of C08x_ok, "nothing delivered
   mentions a version the predicate rejects" follows from agreement with seeds ++ include(m_run).
   _partial: fold = List, seeds first and the old-value chain stay oracle clauses (they need the
   token reading of the run_c history, see notes) *)
Theorem C08_judge_sound_lossy_matching_partial : forall what before ro phases stream final,
  C08Judge.agrees (CaseLossy what before ro phases stream final) = true ->
  le_guard (lossy_model before ro phases) = true ->
  mentions_only_matching ro stream = true.
Proof. exact judge08x_sound_lossy_matching_partial. Qed.
Print Assumptions C08_judge_sound_lossy_matching_partial.

(* non-vacuity: a guarded lossy case that agrees: seed b, plug on p, then a leaves the filter and
   b is deleted and re-added below the threshold while the reader is stalled *)
Example C08_judge_sound_nonvacuous_lossy :
  let o := mkFWO None None None None false None false None false None None true false false false in
  let ro := mkFRO None false (Some (PFieldGe Fa 2)) in
  let before := [FUpdate "a" (mkF 1 0 0) o []; FUpdate "b" (mkF 3 0 0) o []] in
  let phases := [[FUpdate "p" (mkF 9 0 0) o []; FUpdate "a" (mkF 4 0 0) o []; FDelete "b" o;
                  FUpdate "b" (mkF 1 0 0) o []; FUpdate "z" (mkF 9 0 0) o []]] in
  let e := lossy_model before ro phases in
  let stream := map oc_of (le_seeds e) ++
                map (fun c => mkOC (dec_id (le_tbl e) (cid c)) (ctime c) (ckind c) (option_map dec_msg (cold c))
                                   (option_map dec_msg (cnew c)) (cseed c) (clast c)) (le_got e) in
  let fin := c_list fr_filter (le_final e) None (Some (interp_pred (PFieldGe Fa 2))) in
  le_guard e = true /\ C08Judge.agrees (CaseLossy "x" before ro phases stream fin) = true /\
  map oc_kind stream = [1; 1; 1; 3; 1] /\ C08x_ok (CaseLossy "x" before ro phases stream fin) = true.
Proof. vm_compute. auto. Qed.
