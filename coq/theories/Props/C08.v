(* C08 — Include-filtered List/Pull behave as the filtered collection.
   Theorems only; for an arbitrary message algebra, ANY include predicate (a function of id and
   value, also one that is true on absent values), any read mask and every history. *)
From SC Require Import Base.Prelude Resource.Impl Resource.Spec Resource.Pull Resource.ImplProofs
  Resource.SpecProofs Resource.PullProofs Resource.Flat Resource.Judge.

Section C08.
  Variable M : Type.
  Variable m_eqb : M -> M -> bool.
  Variable m_empty : M.
  Variable writer : Type.
  Variable w_validate : writer -> option Z.
  Variable w_merge : writer -> M -> M -> M.
  Variable rmask : Type.
  Variable r_filter : rmask -> M -> M.
  Variable clock_at : Z -> Z.
  Variable str_ltb : string -> string -> bool.
  Variable idfun : option (string -> string).
  Hypothesis ltb_irrefl : forall a, str_ltb a a = false.
  Hypothesis ltb_trans : forall a b c, str_ltb a b = true -> str_ltb b c = true -> str_ltb a c = true.
  Hypothesis ltb_total : forall a b, str_ltb a b = false -> str_ltb b a = false -> a = b.

  Notation spec_step := (spec_step m_eqb m_empty w_validate w_merge r_filter clock_at str_ltb idfun).

  (* the decision table: starts matching => ADD, stops matching => REMOVE, stays in => delivered as
     it is, stays out => never delivered (absent values never match) *)
  Theorem C08_decision_table : forall f (c : cchange M),
    include_gen false false (Some f) c =
    match incl f (cc_id c) (cc_old c), incl f (cc_id c) (cc_new c) with
    | true, true => Some c
    | false, false => None
    | false, true => Some (mkCC (cc_id c) (cc_time c) KAdd None (cc_new c) (cc_seed c) false)
    | true, false => Some (mkCC (cc_id c) (cc_time c) KRemove (cc_old c) None false false)
    end.
  Proof. intros. apply include_decision_table. Qed.

  (* folding the filtered stream always yields List with the same predicate and mask *)
  Theorem C08_filtered_fold_is_filtered_list : forall (ro : ropts M rmask) ops s s' outs,
    ro_updates_only ro = false -> sorted str_ltb (c_items s) ->
    run spec_step s ops = (s', outs) ->
    forall id,
      vlookup id (fold_view (pull_collection r_filter None s ro (flat_map snd outs))) =
      vlookup id (c_list r_filter s' (ro_mask ro) (ro_include ro)).
  Proof. intros. eapply filtered_fold_is_filtered_list; eauto. Qed.

  (* the same law for ANY chain of events that each describe one transition of the contents as the
     subscriber knows them (old = its value before, new = its value after, nothing else changes):
     this is what lossy delivery produces — C09_fold_preserved shows every merged event is valid
     against the receiver's own view — so the include-filtered fold tracks the filtered contents
     with backpressure off as well *)
  Theorem C08_filtered_fold_any_described_chain : forall (ro : ropts M rmask) evs l l' view,
    chain l evs l' -> view_inv r_filter ro view l ->
    view_inv r_filter ro (fold_left (@apply_change M) (c_forward_gen r_filter None false false ro evs) view) l'.
  Proof. intros. eapply chain_keeps_view; eauto. Qed.

  (* the seed is the filtered list *)
  Theorem C08_seed_is_filtered_list : forall (ro : ropts M rmask) (s : cstate M),
    map (@cc_id M) (seeds r_filter ro (included ro (c_items s))) =
    map fst (c_list r_filter s (ro_mask ro) (ro_include ro)).
  Proof.
    intros. destruct (seeds_shape r_filter ro (included ro (c_items s))) as [H _]. rewrite H.
    unfold c_list, included. rewrite map_map. reflexivity.
  Qed.
End C08.

Print Assumptions C08_decision_table.
Print Assumptions C08_filtered_fold_is_filtered_list.
Print Assumptions C08_seed_is_filtered_list.
Print Assumptions C08_filtered_fold_any_described_chain.

(* the pinned commit's table: an update between two matching versions was dropped, and with a
   predicate true on absent values a delete of a non-matching item became an ADD of nothing *)
Theorem C08_polarity_v0_refuted :
  include_gen true true (Some (interp_pred (PIdIn ["a"%string])))
              (mkCC "a" 0 KUpdate (Some (mkF 1 0 0)) (Some (mkF 2 0 0)) false false) = None /\
  include_gen true true (Some (interp_pred (PIdIn ["a"%string])))
              (mkCC "b" 0 KUpdate (Some (mkF 1 0 0)) (Some (mkF 2 0 0)) false false) <> None.
Proof. vm_compute. split; [reflexivity|discriminate]. Qed.

Theorem C08_absent_v0_refuted :
  include_gen false true (Some (interp_pred (PAbsentTrue (PFieldGe Fa 5))))
              (mkCC "a" 0 KRemove (Some (mkF 1 0 0)) None false false) =
  Some (mkCC "a" 0 KAdd None None false false).
Proof. vm_compute. reflexivity. Qed.

Example C08_nonvacuous :
  let o := mkFWO None None None None false None false None false None None true false false false in
  let ro := mkFRO None false (Some (PFieldGe Fa 2)) in
  let '(cs, s2) := model_cstream None None None [FUpdate "a" (mkF 1 0 0) o []; FUpdate "b" (mkF 3 0 0) o []] ro
                     [FUpdate "a" (mkF 2 0 0) o []; FUpdate "b" (mkF 1 0 0) o []; FUpdate "a" (mkF 4 0 0) o []] in
  map (fun c => (cc_id c, cc_kind c, cc_seed c)) cs =
    [("b"%string, KAdd, true); ("a"%string, KAdd, false); ("b"%string, KRemove, false); ("a"%string, KUpdate, false)] /\
  fold_view cs = [("a"%string, mkF 4 0 0)] /\
  c_list fr_filter s2 None (Some (interp_pred (PFieldGe Fa 2))) = [("a"%string, mkF 4 0 0)].
Proof. vm_compute. auto. Qed.
