(* C08 — theorems are added below as the proofs land. *)
From SC Require Import Base.Prelude Resource.Impl Resource.Spec Resource.Pull.
