(* C06 — Reads return exactly the read-mask projection and never mutate.
   Theorems only; proofs live in Masks/GetProofs.v, Msg/*Proofs.v.

   Messages are canonical populated-field trees (Msg/Msg.v); a read mask is [None] (nil) or a list of
   paths, a path being the list of '.'-separated segments of the Go string.  [filter_clone] is the
   model of ResponseFilter.FilterClone / Filter in /repo/pkg/masks/get.go as it is now (after the two
   fix commits); [filter_clone_v0] is the pinned code.  [project] is the reference projection: it is
   defined on the SET of paths (a node is kept whole as soon as one path ends at it; a field is visited
   with the remainders of the paths that go through it; a path through a repeated field applies to
   every element), not on fmutils' nested masks.  [conforms sch ty v] says that v is a tree of message
   type ty of schema sch; the theorems hold for every schema, Gen/Schema.v is only an instance.
   Non-mutation is a matter of aliasing, which value trees cannot express: it is checked by the
   harness on deep copies on every run. *)
From SC Require Import Base.Prelude Msg.Msg Msg.Schema Msg.Path Msg.PathProofs Msg.FmUtils
  Masks.Get Masks.GetProofs Masks.C06Judge Masks.C06JudgeProofs Gen.Schema.
Local Open Scope string_scope.

(* every conformant message, every mask whose paths have no empty segment — valid or not,
   normalized or not, overlapping, parent + child in any order: the read returns the projection *)
Theorem C06_filter_is_projection : forall sch ty v ps,
  conforms sch ty v = true -> segs_ok ps = true -> (forall p, In p ps -> p <> []) -> ps <> [] ->
  filter_clone sch ty (Some ps) v = Ok (project ps v).
Proof. exact filter_is_projection. Qed.
Print Assumptions C06_filter_is_projection.

Theorem C06_nil_is_identity : forall sch ty v, filter_clone sch ty None v = Ok v.
Proof. exact nil_is_identity. Qed.
Print Assumptions C06_nil_is_identity.

Theorem C06_empty_is_empty : forall sch ty v, filter_clone sch ty (Some []) v = Ok (VM []).
Proof. exact empty_is_empty. Qed.
Print Assumptions C06_empty_is_empty.

(* no mask at all — unknown names, continuation through scalars, maps, repeated fields, empty
   segments — makes a read of a conformant message panic *)
Theorem C06_never_panics : forall sch ty m v, conforms sch ty v = true -> filter_clone sch ty m v <> Panic.
Proof. exact never_panics. Qed.
Print Assumptions C06_never_panics.

Theorem C06_valid_never_panics : forall sch ty ps v,
  conforms sch ty v = true -> validate sch ty (Some ps) = code_ok -> filter_clone sch ty (Some ps) v <> Panic.
Proof. intros sch ty ps v Hc _. apply never_panics. exact Hc. Qed.
Print Assumptions C06_valid_never_panics.

(* Validate accepts a mask iff every path is good: non-empty, each segment a field of the message
   reached so far, every segment but the last a SINGULAR MESSAGE field *)
Theorem C06_validate_ok_iff : forall sch ty ps,
  validate sch ty (Some ps) = code_ok <-> forall p, In p ps -> good_path sch ty p.
Proof. exact validate_ok_iff. Qed.
Print Assumptions C06_validate_ok_iff.

(* ... so an unknown segment, or a continuation below a scalar, a map or a repeated field, anywhere in
   any path, is reported as InvalidArgument *)
Theorem C06_invalid_detected : forall sch ty ps pre s r ty1,
  In (pre ++ s :: r)%list ps -> walk sch ty pre = Some ty1 ->
  (lookup_field sch ty1 s = None \/
   (r <> [] /\ forall f, lookup_field sch ty1 s = Some f ->
                         fcard f <> CSingular \/ forall ty', fkd f <> FMsg ty')) ->
  validate sch ty (Some ps) = code_invalid_argument.
Proof. exact invalid_detected. Qed.
Print Assumptions C06_invalid_detected.

(* the model's normalizePaths does what the repair relies on *)
Theorem C06_normalize_spec : forall l,
  (forall p, In p (normalize_paths l) -> In p l) /\
  (forall p, In p l -> exists q, In q (normalize_paths l) /\ is_prefix q p = true) /\
  prefix_free (normalize_paths l).
Proof.
  intros l. split; [apply normalize_subset|split; [apply normalize_covers|apply normalize_prefix_free]].
Qed.
Print Assumptions C06_normalize_spec.

(* an observation that agrees with the model satisfies the no-panic and projection clauses of C06_ok *)
Theorem C06_judge_sound : forall op ty m corrupt v code obs,
  C06_guard (KRead op ty m corrupt v code obs) = true ->
  agrees (KRead op ty m corrupt v code obs) = true ->
  obs <> Panic /\ (mask_segs_ok m = true -> obs = Ok (project_mask m v)).
Proof. exact judge_sound. Qed.
Print Assumptions C06_judge_sound.

(* ---- the pinned code ---- *)
(* where it was right: valid, prefix-free masks *)
Theorem C06_filter_v0_is_projection : forall sch ty v ps,
  conforms sch ty v = true -> fm_valid sch ty ps = true -> segs_ok ps = true -> prefix_free ps -> ps <> [] ->
  filter_clone_v0 (Some ps) v = Ok (project ps v).
Proof. exact filter_v0_is_projection. Qed.
Print Assumptions C06_filter_v0_is_projection.

Definition tat := "sc.go.test.TestAllTypes".

(* defect 1 (fixed): a parent path next to one of its child paths returned the child only *)
Theorem C06_parent_and_child_v0_refuted :
  exists v ps, conforms the_schema tat v = true /\ fm_valid the_schema tat ps = true /\
               filter_clone_v0 (Some ps) v <> Ok (project ps v) /\
               filter_clone the_schema tat (Some ps) v = Ok (project ps v).
Proof.
  exists (VM [("default_int32", VS (SInt 7));
              ("default_foreign_message", VM [("c", VS (SInt 1)); ("d", VS (SInt 2))])]).
  exists [["default_foreign_message"]; ["default_foreign_message"; "c"]].
  vm_compute. repeat split; congruence.
Qed.

(* defect 2 (fixed): an unvalidated mask continuing through a map or a repeated scalar panicked *)
Theorem C06_unvalidated_panics_v0_refuted :
  exists v ps ps', conforms the_schema tat v = true /\
                   filter_clone_v0 (Some ps) v = Panic /\ filter_clone_v0 (Some ps') v = Panic /\
                   validate the_schema tat (Some ps) = code_invalid_argument /\
                   filter_clone the_schema tat (Some ps) v = Ok (project ps v).
Proof.
  exists (VM [("repeated_int32", VL [VS (SInt 1); VS (SInt 2)]);
              ("map_string_nested_message", VMap [(SStr "a", VM [("a", VS (SInt 1))])])]).
  exists [["map_string_nested_message"; "a"]]. exists [["repeated_int32"; "x"]].
  vm_compute. repeat split; congruence.
Qed.

(* ---- non-vacuity ---- *)
Example C06_nonvacuous_projection :
  let v := VM [("default_int32", VS (SInt 7));
               ("default_nested_message", VM [("a", VS (SInt 1));
                                              ("corecursive", VM [("default_string", VS (SStr "x"))])]);
               ("repeated_foreign_message", VL [VM [("c", VS (SInt 1)); ("d", VS (SInt 2))]; VM [("d", VS (SInt 3))]])] in
  let ps := [["repeated_foreign_message"; "d"]; ["default_nested_message"; "corecursive"; "default_int64"];
             ["default_nested_message"; "a"]] in
  conforms the_schema tat v = true /\ segs_ok ps = true /\
  validate the_schema tat (Some ps) = code_invalid_argument /\    (* continues through a repeated field *)
  filter_clone the_schema tat (Some ps) v =
  Ok (VM [("default_nested_message", VM [("a", VS (SInt 1)); ("corecursive", VM [])]);
          ("repeated_foreign_message", VL [VM [("d", VS (SInt 2))]; VM [("d", VS (SInt 3))]])]).
Proof. vm_compute. repeat split; reflexivity. Qed.

Example C06_nonvacuous_invalid :
  validate the_schema tat (Some [["default_foreign_message"; "zzz"]]) = code_invalid_argument /\
  validate the_schema tat (Some [["default_int32"; "a"]]) = code_invalid_argument /\
  validate the_schema tat (Some [["map_string_string"; "a"]]) = code_invalid_argument /\
  validate the_schema tat (Some [["default_nested_message"; "corecursive"; "default_foreign_message"; "c"]]) = code_ok.
Proof. vm_compute. repeat split; reflexivity. Qed.

(* ---------------------------------------------------------------------------------------------------- *)
(* NON-MUTATION as a theorem (second wave): an ownership-aware model.  Messages are trees whose message   *)
(* structs carry the identity of their allocation (Msg/Tagged.v); two references alias where they share    *)
(* an identity; [rebase r v] is what reference v shows after an operation has turned the graph it worked   *)
(* on into r; [n] is the allocation counter ([below n v]: v existed when the call was made).               *)
From SC Require Import Msg.Tagged Msg.TaggedProofs Msg.PathAlgebra Masks.Aliasing Masks.AliasingProofs
  Masks.Update Masks.Options Masks.ReadOptionsProofs.

(* the ownership-aware FilterClone computes the tree the plain model computes (panics included) *)
Theorem C06_filter_clone_t_refines : forall sch ty m n t,
  erase_outcome (filter_clone_t sch ty m n t) = filter_clone sch ty m (erase t).
Proof. exact filter_clone_t_refines. Qed.
Print Assumptions C06_filter_clone_t_refines.

(* FilterClone with a non-nil mask: every message struct of the result is a new allocation, and every
   message that existed before the call - the message passed in, the stored value, anything else - shows
   after the call exactly what it showed before *)
Theorem C06_filter_clone_never_mutates : forall sch ty ps n t r v,
  filter_clone_t sch ty (Some ps) n t = TOk r ->
  below n v ->
  rebase r v = v /\ (forall i, In i (ids r) -> n <= i).
Proof.
  intros. split; [eapply filter_clone_never_mutates; eauto|eapply filter_clone_result_fresh; eauto].
Qed.
Print Assumptions C06_filter_clone_never_mutates.

(* ... while with a nil mask the caller receives the very message passed in (for Value.Get: the stored one) *)
Theorem C06_filter_clone_nil_is_the_source : forall sch ty n t, filter_clone_t sch ty None n t = TOk t.
Proof. exact filter_clone_nil_is_the_source. Qed.

(* Filter (in place) keeps only structs of its argument: a message sharing no struct with it is unaffected *)
Theorem C06_filter_in_place_frame : forall sch ty m t r v,
  filter_t sch ty m t = TOk r ->
  (forall i, In i (ids v) -> ~ In i (ids t)) ->
  rebase r v = v.
Proof. exact filter_in_place_frame. Qed.
Print Assumptions C06_filter_in_place_frame.

(* the model is sensitive to the clone: with the shallow clone of seeded change C06-r3-1 (repeated message
   elements shared) a read through repeated_foreign_message.c CHANGES the message read *)
Theorem C06_shallow_clone_refuted :
  let ty := "sc.go.test.TestAllTypes" in
  let src := TM 1 [("repeated_foreign_message", TL [TM 2 [("c", TS (SInt 1)); ("d", TS (SInt 2))]])] in
  let m := Some [["repeated_foreign_message"; "c"]] in
  below 10 src /\
  (exists r, filter_clone_shallow the_schema ty m 10 src = TOk r /\
             erase r = VM [("repeated_foreign_message", VL [VM [("c", VS (SInt 1))]])] /\
             rebase r src = TM 1 [("repeated_foreign_message", TL [TM 2 [("c", TS (SInt 1))]])]) /\
  (exists r, filter_clone_t the_schema ty m 10 src = TOk r /\
             erase r = VM [("repeated_foreign_message", VL [VM [("c", VS (SInt 1))]])] /\
             rebase r src = src).
Proof.
  cbv zeta. split; [intros i Hi; simpl in Hi; destruct Hi as [<-|[<-|[]]]; lia|].
  split; eexists; (split; [vm_compute; reflexivity|split; vm_compute; reflexivity]).
Qed.

(* READ OPTIONS (pkg/resource/opt.go): no read-mask option = nil mask; the LAST WithReadMask/WithReadPaths
   decides; WithReadPaths with a path that is invalid for the type panics where the option is built and
   otherwise yields a mask that Validate accepts *)
Theorem C06_read_mask_of_opts : forall sch ty,
  (forall opts, forallb (fun o => negb (is_mask_ropt o)) opts = true ->
     compute_rreq sch ty opts = Some None) /\
  (forall pre m post, compute_rreq sch ty pre <> None ->
     forallb (fun o => negb (is_mask_ropt o)) post = true ->
     compute_rreq sch ty (pre ++ OReadMask m :: post)%list = Some m) /\
  (forall pre ps post, compute_rreq sch ty pre <> None -> fm_valid sch ty ps = true ->
     forallb (fun o => negb (is_mask_ropt o)) post = true ->
     compute_rreq sch ty (pre ++ OReadPaths ps :: post)%list = Some (Some ps)).
Proof. exact read_mask_of_opts. Qed.
Print Assumptions C06_read_mask_of_opts.

Theorem C06_read_paths_option : forall sch ty pre ps post,
  (fm_valid sch ty ps = false -> compute_rreq sch ty (pre ++ OReadPaths ps :: post)%list = None) /\
  (forall m, forallb (fun o => negb (is_mask_ropt o)) post = true ->
     compute_rreq sch ty (pre ++ OReadPaths ps :: post)%list = Some m ->
     m = Some ps /\ validate sch ty m = code_ok).
Proof.
  intros. split; [apply read_paths_invalid_panics|intros; eapply read_paths_mask_valid; eauto].
Qed.
Print Assumptions C06_read_paths_option.

(* a read through any option list that does not panic while the options are built never panics and returns
   the projection by the effective mask *)
Theorem C06_read_opts_projection : forall sch ty opts v m,
  conforms sch ty v = true ->
  compute_rreq sch ty opts = Some m ->
  (forall ps, m = Some ps -> segs_ok ps = true /\ (forall p, In p ps -> p <> [])) ->
  read_opts sch ty opts v = RRead (Ok (project_mask m v)).
Proof.
  intros sch ty opts v m Hc Hm Hseg. unfold read_opts. rewrite Hm. f_equal.
  destruct m as [[|p ps]|]; try reflexivity.
  destruct (Hseg _ eq_refl) as [H1 H2].
  apply C06_filter_is_projection; auto. discriminate.
Qed.
Print Assumptions C06_read_opts_projection.

(* the mask algebra the options are made of: Normalize is idempotent, its result strictly sorted without
   nested or repeated paths, and it selects exactly what the list selected *)
Theorem C06_normalize_algebra : forall l,
  normalize_paths (normalize_paths l) = normalize_paths l /\
  normal (normalize_paths l) /\ NoDup (normalize_paths l) /\
  (forall p, covers (normalize_paths l) p <-> covers l p).
Proof.
  intros l. split; [apply normalize_idempotent|]. split; [apply normalize_is_normal|].
  split; [apply normalize_NoDup|apply normalize_covers_iff].
Qed.
Print Assumptions C06_normalize_algebra.

(* ---------------------------------------------------------------------------------------------------- *)
(* The EVENT path (round 4): what Collection.Pull hands a subscriber through a read mask.  The model of   *)
(* CollectionChange.filter (Masks/ChangeFilter.v) passes the old AND the new value through FilterClone    *)
(* whatever the change kind is; the merge stage of the pipeline without backpressure                     *)
(* (Excess/MergeExcess.v, C09's model of mergeCollectionExcess) only copies values around, so a merged     *)
(* change - REPLACE in particular, which no write publishes - still carries stored messages.               *)
From SC Require Import Masks.ChangeFilter Masks.ChangeFilterProofs Excess.Change Excess.MergeExcess.

(* every kind of change (ADD, UPDATE, REMOVE, REPLACE, any other number), every mask without empty
   segments: both values are projected (nil stays nil), the kind is kept *)
Theorem C06_change_filter_is_projection : forall sch ty m c,
  vconforms sch ty c = true -> mask_segs_ok m = true ->
  change_filter sch ty m c = Some (change_projection m c).
Proof. exact change_filter_is_projection. Qed.
Print Assumptions C06_change_filter_is_projection.

Theorem C06_change_filter_never_panics : forall sch ty m c,
  vconforms sch ty c = true -> change_filter sch ty m c <> None.
Proof. exact change_filter_never_panics. Qed.
Print Assumptions C06_change_filter_never_panics.

(* for EVERY interleaving l of changes published to the merge stage and receives by the subscriber's
   loop (so: every way the reader can be behind), provided the published changes carry stored messages
   of the type: every delivered change - merged or not - comes out with both values projected *)
Theorem C06_lossy_events_are_projections : forall sch ty m st l,
  mask_segs_ok m = true ->
  (forall c, In (Send c) l -> change_ok sch ty st c = true) ->
  lossy_deliveries sch ty m st l =
  map (fun c => Some (change_projection m (interp st c))) (got_of (snd (m_run m_init l))).
Proof. exact lossy_deliveries_are_projections. Qed.
Print Assumptions C06_lossy_events_are_projections.

Theorem C06_lossy_events_never_panic : forall sch ty m st l,
  (forall c, In (Send c) l -> change_ok sch ty st c = true) ->
  ~ In None (lossy_deliveries sch ty m st l).
Proof. exact lossy_deliveries_never_panic. Qed.
Print Assumptions C06_lossy_events_never_panic.

(* an observed event that equals the model of filter satisfies the event clause of C06_ok *)
Theorem C06_event_judge_sound : forall kind ty m sold snew oold onew,
  C06_guard (KEvent kind ty m sold snew oold onew) = true ->
  agrees (KEvent kind ty m sold snew oold onew) = true ->
  C06_ok (KEvent kind ty m sold snew oold onew) = true.
Proof. exact event_judge_sound. Qed.
Print Assumptions C06_event_judge_sound.

(* non-vacuity: Delete then Add of one id behind a reader that is not collecting (the REMOVE is pending
   when the ADD arrives) is delivered as ONE change of kind REPLACE, old = the deleted message, new = the
   added one, both projected *)
Example C06_nonvacuous_replace_is_projected :
  let v1 := VM [("default_int32", VS (SInt 7)); ("default_string", VS (SStr "old"));
                ("default_nested_message", VM [("a", VS (SInt 1)); ("corecursive", VM [("default_int64", VS (SInt 5))])])] in
  let v2 := VM [("default_int32", VS (SInt 8)); ("default_nested_message", VM [("a", VS (SInt 2))])] in
  let st := fun t : Z => if Z.eqb t 1 then Some v1 else if Z.eqb t 2 then Some v2 else None in
  let m := Some [["default_string"]; ["default_nested_message"; "a"]] in
  let l := [Send (mkChange 7 K_REMOVE (Some 1) None 1 false false);
            Send (mkChange 7 K_ADD None (Some 2) 2 false false); Recv] in
  forallb (fun a => match a with Send c => change_ok the_schema tat st c | _ => true end) l = true /\
  mask_segs_ok m = true /\
  lossy_deliveries the_schema tat m st l =
  [Some (mkV K_REPLACE
           (Some (VM [("default_string", VS (SStr "old")); ("default_nested_message", VM [("a", VS (SInt 1))])]))
           (Some (VM [("default_nested_message", VM [("a", VS (SInt 2))])])))].
Proof. vm_compute. repeat split; reflexivity. Qed.

(* ---------------------------------------------------------------------------------------------------- *)
(* WHO OWNS a delivered change (round 4).  Change structs are cells of a heap (Masks/ChangeAlias.v): the  *)
(* bus hands every subscription the same published struct p; a subscription without backpressure copies    *)
(* it in its merge stage and filter allocates again whenever a value changed.                              *)
From SC Require Import Masks.ChangeAlias Masks.ChangeAliasProofs.

(* any number of subscriptions with any masks, in any order: each ends up holding a struct allocated
   for it alone (all pairwise different, none older than the call), whose values are the projections by
   ITS OWN mask when all the others are done as well, and no cell that existed before - the published
   struct included - has been written *)
Theorem C06_each_subscription_owns_its_projection : forall sch ty ms h p c,
  wf h -> p < hnext h -> hmap h p = Some c -> vconforms sch ty c = true ->
  (forall m, In m ms -> mask_segs_ok m = true) ->
  exists h' ds, fan_out sch ty ms h p = Some (h', ds) /\
    wf h' /\ hnext h <= hnext h' /\
    List.length ds = List.length ms /\
    (forall d, In d ds -> hnext h <= d < hnext h') /\
    (forall i m d, nth_error ms i = Some m -> nth_error ds i = Some d ->
                   hmap h' d = Some (change_projection m c)) /\
    NoDup ds /\
    (forall q, q < hnext h -> hmap h' q = hmap h q).
Proof. exact fan_out_own_projection. Qed.
Print Assumptions C06_each_subscription_owns_its_projection.

(* the alternative in which the merge stage passes the published pointer on and the loop filters the
   struct where it is: two subscriptions with disjoint masks both hold the published struct, now empty *)
Theorem C06_shared_change_struct_refuted :
  let c := mkV 2
             (Some (VM [("default_int32", VS (SInt 1)); ("default_string", VS (SStr "one"))]))
             (Some (VM [("default_int32", VS (SInt 2)); ("default_string", VS (SStr "two"))])) in
  let h := mkH 1 (fun q : Z => if Z.eqb q 0 then Some c else None) in
  let m0 := Some [["default_int32"]] in
  let m1 := Some [["default_string"]] in
  exists h' , fan_out_shared the_schema tat [m0; m1] h 0 = Some (h', [0; 0]) /\
    hmap h' 0 = Some (mkV 2 (Some (VM [])) (Some (VM []))) /\
    hmap h' 0 <> Some (change_projection m0 c) /\ hmap h' 0 <> hmap h 0.
Proof. exact shared_struct_refuted. Qed.
Print Assumptions C06_shared_change_struct_refuted.

Example C06_nonvacuous_fan_out :
  let c := mkV 2 (Some (VM [("default_int32", VS (SInt 1)); ("default_string", VS (SStr "one"))]))
                 (Some (VM [("default_int32", VS (SInt 2)); ("default_string", VS (SStr "two"))])) in
  let h := mkH 1 (fun q : Z => if Z.eqb q 0 then Some c else None) in
  match fan_out the_schema tat [Some [["default_int32"]]; None; Some [["default_string"]]] h 0 with
  | Some (h', ds) =>
      ds = [2; 3; 5] /\
      hmap h' 2 = Some (mkV 2 (Some (VM [("default_int32", VS (SInt 1))])) (Some (VM [("default_int32", VS (SInt 2))]))) /\
      hmap h' 3 = Some c /\
      hmap h' 5 = Some (mkV 2 (Some (VM [("default_string", VS (SStr "one"))])) (Some (VM [("default_string", VS (SStr "two"))]))) /\
      hmap h' 0 = Some c
  | None => False
  end.
Proof. vm_compute. repeat split; reflexivity. Qed.

(* Print Assumptions for every theorem above that did not have its own line yet *)
Print Assumptions C06_parent_and_child_v0_refuted.
Print Assumptions C06_unvalidated_panics_v0_refuted.
Print Assumptions C06_filter_clone_nil_is_the_source.
Print Assumptions C06_shallow_clone_refuted.
