(* C06 — Reads return exactly the read-mask projection and never mutate.
   Theorems only; proofs live in Masks/GetProofs.v, Msg/*Proofs.v.

   Messages are canonical populated-field trees (Msg/Msg.v); a read mask is [None] (nil) or a list of
   paths, a path being the list of '.'-separated segments of the Go string.  [filter_clone] is the
   model of ResponseFilter.FilterClone / Filter in /repo/pkg/masks/get.go as it is now (after the two
   fix commits); [filter_clone_v0] is the pinned code.  [project] is the reference projection: it is
   defined on the SET of paths (a node is kept whole as soon as one path ends at it; a field is visited
   with the remainders of the paths that go through it; a path through a repeated field applies to
   every element), not on fmutils' nested masks.  [conforms sch ty v] says that v is a tree of message
   type ty of schema sch; the theorems hold for every schema, Gen/Schema.v is only an instance.
   Non-mutation is a matter of aliasing, which value trees cannot express: it is checked by the
   harness on deep copies on every run. *)
From SC Require Import Base.Prelude Msg.Msg Msg.Schema Msg.Path Msg.PathProofs Msg.FmUtils
  Masks.Get Masks.GetProofs Masks.C06Judge Masks.C06JudgeProofs Gen.Schema.
Local Open Scope string_scope.

(* every conformant message, every mask whose paths have no empty segment — valid or not,
   normalized or not, overlapping, parent + child in any order: the read returns the projection *)
Theorem C06_filter_is_projection : forall sch ty v ps,
  conforms sch ty v = true -> segs_ok ps = true -> (forall p, In p ps -> p <> []) -> ps <> [] ->
  filter_clone sch ty (Some ps) v = Ok (project ps v).
Proof. exact filter_is_projection. Qed.
Print Assumptions C06_filter_is_projection.

Theorem C06_nil_is_identity : forall sch ty v, filter_clone sch ty None v = Ok v.
Proof. exact nil_is_identity. Qed.
Print Assumptions C06_nil_is_identity.

Theorem C06_empty_is_empty : forall sch ty v, filter_clone sch ty (Some []) v = Ok (VM []).
Proof. exact empty_is_empty. Qed.
Print Assumptions C06_empty_is_empty.

(* no mask at all — unknown names, continuation through scalars, maps, repeated fields, empty
   segments — makes a read of a conformant message panic *)
Theorem C06_never_panics : forall sch ty m v, conforms sch ty v = true -> filter_clone sch ty m v <> Panic.
Proof. exact never_panics. Qed.
Print Assumptions C06_never_panics.

Theorem C06_valid_never_panics : forall sch ty ps v,
  conforms sch ty v = true -> validate sch ty (Some ps) = code_ok -> filter_clone sch ty (Some ps) v <> Panic.
Proof. intros sch ty ps v Hc _. apply never_panics. exact Hc. Qed.
Print Assumptions C06_valid_never_panics.

(* Validate accepts a mask iff every path is good: non-empty, each segment a field of the message
   reached so far, every segment but the last a SINGULAR MESSAGE field *)
Theorem C06_validate_ok_iff : forall sch ty ps,
  validate sch ty (Some ps) = code_ok <-> forall p, In p ps -> good_path sch ty p.
Proof. exact validate_ok_iff. Qed.
Print Assumptions C06_validate_ok_iff.

(* ... so an unknown segment, or a continuation below a scalar, a map or a repeated field, anywhere in
   any path, is reported as InvalidArgument *)
Theorem C06_invalid_detected : forall sch ty ps pre s r ty1,
  In (pre ++ s :: r)%list ps -> walk sch ty pre = Some ty1 ->
  (lookup_field sch ty1 s = None \/
   (r <> [] /\ forall f, lookup_field sch ty1 s = Some f ->
                         fcard f <> CSingular \/ forall ty', fkd f <> FMsg ty')) ->
  validate sch ty (Some ps) = code_invalid_argument.
Proof. exact invalid_detected. Qed.
Print Assumptions C06_invalid_detected.

(* the model's normalizePaths does what the repair relies on *)
Theorem C06_normalize_spec : forall l,
  (forall p, In p (normalize_paths l) -> In p l) /\
  (forall p, In p l -> exists q, In q (normalize_paths l) /\ is_prefix q p = true) /\
  prefix_free (normalize_paths l).
Proof.
  intros l. split; [apply normalize_subset|split; [apply normalize_covers|apply normalize_prefix_free]].
Qed.
Print Assumptions C06_normalize_spec.

(* an observation that agrees with the model satisfies the no-panic and projection clauses of C06_ok *)
Theorem C06_judge_sound : forall op ty m corrupt v code obs,
  C06_guard (KRead op ty m corrupt v code obs) = true ->
  agrees (KRead op ty m corrupt v code obs) = true ->
  obs <> Panic /\ (mask_segs_ok m = true -> obs = Ok (project_mask m v)).
Proof. exact judge_sound. Qed.
Print Assumptions C06_judge_sound.

(* ---- the pinned code ---- *)
(* where it was right: valid, prefix-free masks *)
Theorem C06_filter_v0_is_projection : forall sch ty v ps,
  conforms sch ty v = true -> fm_valid sch ty ps = true -> segs_ok ps = true -> prefix_free ps -> ps <> [] ->
  filter_clone_v0 (Some ps) v = Ok (project ps v).
Proof. exact filter_v0_is_projection. Qed.
Print Assumptions C06_filter_v0_is_projection.

Definition tat := "sc.go.test.TestAllTypes".

(* defect 1 (fixed): a parent path next to one of its child paths returned the child only *)
Theorem C06_parent_and_child_v0_refuted :
  exists v ps, conforms the_schema tat v = true /\ fm_valid the_schema tat ps = true /\
               filter_clone_v0 (Some ps) v <> Ok (project ps v) /\
               filter_clone the_schema tat (Some ps) v = Ok (project ps v).
Proof.
  exists (VM [("default_int32", VS (SInt 7));
              ("default_foreign_message", VM [("c", VS (SInt 1)); ("d", VS (SInt 2))])]).
  exists [["default_foreign_message"]; ["default_foreign_message"; "c"]].
  vm_compute. repeat split; congruence.
Qed.

(* defect 2 (fixed): an unvalidated mask continuing through a map or a repeated scalar panicked *)
Theorem C06_unvalidated_panics_v0_refuted :
  exists v ps ps', conforms the_schema tat v = true /\
                   filter_clone_v0 (Some ps) v = Panic /\ filter_clone_v0 (Some ps') v = Panic /\
                   validate the_schema tat (Some ps) = code_invalid_argument /\
                   filter_clone the_schema tat (Some ps) v = Ok (project ps v).
Proof.
  exists (VM [("repeated_int32", VL [VS (SInt 1); VS (SInt 2)]);
              ("map_string_nested_message", VMap [(SStr "a", VM [("a", VS (SInt 1))])])]).
  exists [["map_string_nested_message"; "a"]]. exists [["repeated_int32"; "x"]].
  vm_compute. repeat split; congruence.
Qed.

(* ---- non-vacuity ---- *)
Example C06_nonvacuous_projection :
  let v := VM [("default_int32", VS (SInt 7));
               ("default_nested_message", VM [("a", VS (SInt 1));
                                              ("corecursive", VM [("default_string", VS (SStr "x"))])]);
               ("repeated_foreign_message", VL [VM [("c", VS (SInt 1)); ("d", VS (SInt 2))]; VM [("d", VS (SInt 3))]])] in
  let ps := [["repeated_foreign_message"; "d"]; ["default_nested_message"; "corecursive"; "default_int64"];
             ["default_nested_message"; "a"]] in
  conforms the_schema tat v = true /\ segs_ok ps = true /\
  validate the_schema tat (Some ps) = code_invalid_argument /\    (* continues through a repeated field *)
  filter_clone the_schema tat (Some ps) v =
  Ok (VM [("default_nested_message", VM [("a", VS (SInt 1)); ("corecursive", VM [])]);
          ("repeated_foreign_message", VL [VM [("d", VS (SInt 2))]; VM [("d", VS (SInt 3))]])]).
Proof. vm_compute. repeat split; reflexivity. Qed.

Example C06_nonvacuous_invalid :
  validate the_schema tat (Some [["default_foreign_message"; "zzz"]]) = code_invalid_argument /\
  validate the_schema tat (Some [["default_int32"; "a"]]) = code_invalid_argument /\
  validate the_schema tat (Some [["map_string_string"; "a"]]) = code_invalid_argument /\
  validate the_schema tat (Some [["default_nested_message"; "corecursive"; "default_foreign_message"; "c"]]) = code_ok.
Proof. vm_compute. repeat split; reflexivity. Qed.

(* ---------------------------------------------------------------------------------------------------- *)
(* NON-MUTATION as a theorem (second wave): an ownership-aware model.  Messages are trees whose message   *)
(* structs carry the identity of their allocation (Msg/Tagged.v); two references alias where they share    *)
(* an identity; [rebase r v] is what reference v shows after an operation has turned the graph it worked   *)
(* on into r; [n] is the allocation counter ([below n v]: v existed when the call was made).               *)
From SC Require Import Msg.Tagged Msg.TaggedProofs Msg.PathAlgebra Masks.Aliasing Masks.AliasingProofs
  Masks.Update Masks.Options Masks.ReadOptionsProofs.

(* the ownership-aware FilterClone computes the tree the plain model computes (panics included) *)
Theorem C06_filter_clone_t_refines : forall sch ty m n t,
  erase_outcome (filter_clone_t sch ty m n t) = filter_clone sch ty m (erase t).
Proof. exact filter_clone_t_refines. Qed.
Print Assumptions C06_filter_clone_t_refines.

(* FilterClone with a non-nil mask: every message struct of the result is a new allocation, and every
   message that existed before the call - the message passed in, the stored value, anything else - shows
   after the call exactly what it showed before *)
Theorem C06_filter_clone_never_mutates : forall sch ty ps n t r v,
  filter_clone_t sch ty (Some ps) n t = TOk r ->
  below n v ->
  rebase r v = v /\ (forall i, In i (ids r) -> n <= i).
Proof.
  intros. split; [eapply filter_clone_never_mutates; eauto|eapply filter_clone_result_fresh; eauto].
Qed.
Print Assumptions C06_filter_clone_never_mutates.

(* ... while with a nil mask the caller receives the very message passed in (for Value.Get: the stored one) *)
Theorem C06_filter_clone_nil_is_the_source : forall sch ty n t, filter_clone_t sch ty None n t = TOk t.
Proof. exact filter_clone_nil_is_the_source. Qed.

(* Filter (in place) keeps only structs of its argument: a message sharing no struct with it is unaffected *)
Theorem C06_filter_in_place_frame : forall sch ty m t r v,
  filter_t sch ty m t = TOk r ->
  (forall i, In i (ids v) -> ~ In i (ids t)) ->
  rebase r v = v.
Proof. exact filter_in_place_frame. Qed.
Print Assumptions C06_filter_in_place_frame.

(* the model is sensitive to the clone: with the shallow clone of seeded change C06-r3-1 (repeated message
   elements shared) a read through repeated_foreign_message.c CHANGES the message read *)
Theorem C06_shallow_clone_refuted :
  let ty := "sc.go.test.TestAllTypes" in
  let src := TM 1 [("repeated_foreign_message", TL [TM 2 [("c", TS (SInt 1)); ("d", TS (SInt 2))]])] in
  let m := Some [["repeated_foreign_message"; "c"]] in
  below 10 src /\
  (exists r, filter_clone_shallow the_schema ty m 10 src = TOk r /\
             erase r = VM [("repeated_foreign_message", VL [VM [("c", VS (SInt 1))]])] /\
             rebase r src = TM 1 [("repeated_foreign_message", TL [TM 2 [("c", TS (SInt 1))]])]) /\
  (exists r, filter_clone_t the_schema ty m 10 src = TOk r /\
             erase r = VM [("repeated_foreign_message", VL [VM [("c", VS (SInt 1))]])] /\
             rebase r src = src).
Proof.
  cbv zeta. split; [intros i Hi; simpl in Hi; destruct Hi as [<-|[<-|[]]]; lia|].
  split; eexists; (split; [vm_compute; reflexivity|split; vm_compute; reflexivity]).
Qed.

(* READ OPTIONS (pkg/resource/opt.go): no read-mask option = nil mask; the LAST WithReadMask/WithReadPaths
   decides; WithReadPaths with a path that is invalid for the type panics where the option is built and
   otherwise yields a mask that Validate accepts *)
Theorem C06_read_mask_of_opts : forall sch ty,
  (forall opts, forallb (fun o => negb (is_mask_ropt o)) opts = true ->
     compute_rreq sch ty opts = Some None) /\
  (forall pre m post, compute_rreq sch ty pre <> None ->
     forallb (fun o => negb (is_mask_ropt o)) post = true ->
     compute_rreq sch ty (pre ++ OReadMask m :: post)%list = Some m) /\
  (forall pre ps post, compute_rreq sch ty pre <> None -> fm_valid sch ty ps = true ->
     forallb (fun o => negb (is_mask_ropt o)) post = true ->
     compute_rreq sch ty (pre ++ OReadPaths ps :: post)%list = Some (Some ps)).
Proof. exact read_mask_of_opts. Qed.
Print Assumptions C06_read_mask_of_opts.

Theorem C06_read_paths_option : forall sch ty pre ps post,
  (fm_valid sch ty ps = false -> compute_rreq sch ty (pre ++ OReadPaths ps :: post)%list = None) /\
  (forall m, forallb (fun o => negb (is_mask_ropt o)) post = true ->
     compute_rreq sch ty (pre ++ OReadPaths ps :: post)%list = Some m ->
     m = Some ps /\ validate sch ty m = code_ok).
Proof.
  intros. split; [apply read_paths_invalid_panics|intros; eapply read_paths_mask_valid; eauto].
Qed.
Print Assumptions C06_read_paths_option.

(* a read through any option list that does not panic while the options are built never panics and returns
   the projection by the effective mask *)
Theorem C06_read_opts_projection : forall sch ty opts v m,
  conforms sch ty v = true ->
  compute_rreq sch ty opts = Some m ->
  (forall ps, m = Some ps -> segs_ok ps = true /\ (forall p, In p ps -> p <> [])) ->
  read_opts sch ty opts v = RRead (Ok (project_mask m v)).
Proof.
  intros sch ty opts v m Hc Hm Hseg. unfold read_opts. rewrite Hm. f_equal.
  destruct m as [[|p ps]|]; try reflexivity.
  destruct (Hseg _ eq_refl) as [H1 H2].
  apply C06_filter_is_projection; auto. discriminate.
Qed.
Print Assumptions C06_read_opts_projection.

(* the mask algebra the options are made of: Normalize is idempotent, its result strictly sorted without
   nested or repeated paths, and it selects exactly what the list selected *)
Theorem C06_normalize_algebra : forall l,
  normalize_paths (normalize_paths l) = normalize_paths l /\
  normal (normalize_paths l) /\ NoDup (normalize_paths l) /\
  (forall p, covers (normalize_paths l) p <-> covers l p).
Proof.
  intros l. split; [apply normalize_idempotent|]. split; [apply normalize_is_normal|].
  split; [apply normalize_NoDup|apply normalize_covers_iff].
Qed.
Print Assumptions C06_normalize_algebra.
