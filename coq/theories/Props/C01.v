(* C01 — Value/Collection conform to a sequential register/map specification.
   Theorems only.  All are stated for an ARBITRARY message algebra (message type, proto.Equal,
   field-mask writer with its Validate and Merge, read-mask filter), arbitrary callbacks
   (interceptors, checks, id interceptor: plain functions), arbitrary clock, and any strict total
   order on ids; they are instantiated with the flat algebra of Resource/Flat.v for the
   correspondence (C01_instance_* shows the hypotheses hold there). *)
From SC Require Import Base.Prelude Msg.Msg Resource.Impl Resource.Spec Resource.ImplProofs Resource.SpecProofs
  Resource.Pull04Proofs Resource.Flat Resource.FlatProofs Resource.Judge Resource.JudgeProofs Resource.Tree Resource.TreeJudge Resource.TreeJudgeProofs Resource.Tween Resource.TweenProofs.

Section C01.
  Variable M : Type.
  Variable m_eqb : M -> M -> bool.
  Variable m_empty : M.
  Variable writer : Type.
  Variable w_validate : writer -> option Z.
  Variable w_merge : writer -> M -> M -> M.
  Variable rmask : Type.
  Variable r_filter : rmask -> M -> M.
  Variable clock_at : Z -> Z.
  Variable str_ltb : string -> string -> bool.
  Variable idfun : option (string -> string).
  Hypothesis m_eqb_refl : forall m, m_eqb m m = true.
  Hypothesis ltb_irrefl : forall a, str_ltb a a = false.
  Hypothesis ltb_trans : forall a b c, str_ltb a b = true -> str_ltb b c = true -> str_ltb a c = true.
  Hypothesis ltb_total : forall a b, str_ltb a b = false -> str_ltb b a = false -> a = b.

  Notation impl_step := (impl_step m_eqb m_empty w_validate w_merge r_filter clock_at str_ltb idfun).
  Notation spec_step := (spec_step m_eqb m_empty w_validate w_merge r_filter clock_at str_ltb idfun).
  Notation spec_c_update := (spec_c_update m_eqb m_empty w_validate w_merge clock_at str_ltb idfun).
  Notation spec_c_delete := (spec_c_delete m_eqb clock_at idfun).

  (* every call sequence: the code-shaped model returns what the plain reference returns, emits
     the same events and leaves the same contents *)
  Theorem C01_collection_refines_reference : forall ops s,
    run impl_step s ops = run spec_step s ops.
  Proof. intros. apply impl_run_is_spec. Qed.

  Theorem C01_value_refines_reference : forall (s : vstate M) msg (o : wopts M writer),
    v_set m_eqb m_empty w_validate w_merge clock_at s msg o =
    spec_v_set m_eqb m_empty w_validate w_merge clock_at s msg o.
  Proof. intros. apply v_set_is_spec. exact m_eqb_refl. Qed.

  (* a failing call changes nothing and emits nothing *)
  Theorem C01_failed_call_is_noop : forall s op s' out ev,
    spec_step s op = (s', out, ev) -> failed out = true -> s' = s /\ ev = [].
  Proof. intros. eapply failed_step_is_noop; eauto. Qed.

  (* contents stay sorted along every call sequence, and List is sorted by id *)
  Theorem C01_reachable_sorted : forall ops s s' outs,
    run spec_step s ops = (s', outs) -> sorted str_ltb (c_items s) -> sorted str_ltb (c_items s').
  Proof. intros. eapply run_keeps_sorted; eauto. Qed.

  Theorem C01_list_sorted : forall (s : cstate M) mask inc,
    sorted str_ltb (c_items s) -> sorted_keys str_ltb (map fst (c_list r_filter s mask inc)).
  Proof. intros. apply list_is_sorted; auto. Qed.

  (* a write is exactly one map update (or nothing), described by exactly one event *)
  Theorem C01_update_is_map_update : forall s id0 msg (o : wopts M writer) cands s' r ev cb,
    spec_c_update s id0 msg o cands = (s', r, ev, cb) ->
    (exists code, r = inr code /\ s' = s /\ ev = []) \/
    (exists id gen nv t,
        r = inl nv /\ resolves idfun s id0 o cands id gen /\
        lookup id (c_items s') = Some (mkItem nv t) /\
        (forall id', id' <> id -> lookup id' (c_items s') = lookup id' (c_items s)) /\
        t = match wo_time o with Some t0 => t0 | None => clock_at (c_reads s) end /\
        ev = [mkCE id t (match lookup id (c_items s) with Some _ => KUpdate | None => KAdd end)
                   (option_map (@it_body M) (lookup id (c_items s))) (Some nv)] /\
        nv = new_value m_empty w_merge o msg (Some (match lookup id (c_items s) with Some it => it_body it | None => m_empty end)) /\
        cb_ids cb = (match gen with Some g => if wo_id_cb o then [g] else [] | None => [] end) /\
        (match lookup id (c_items s) with Some _ => wo_expect_absent o = false | None => wo_create o = true end)).
  Proof. intros. eapply update_outcomes; eauto. Qed.

  (* Get after a successful write returns the written value; a generated id is non-empty, unused
     (seen through the id interceptor), reported exactly once and addresses the new item *)
  Theorem C01_get_after_write_and_generated_id : forall s id0 msg (o : wopts M writer) cands s' nv ev cb,
    spec_c_update s id0 msg o cands = (s', inl nv, ev, cb) ->
    (String.eqb (apply_id idfun id0) "" && wo_gen_id o = false -> c_get r_filter idfun s' id0 None = Some nv) /\
    (String.eqb (apply_id idfun id0) "" && wo_gen_id o = true ->
     exists g, first_fresh idfun cands 10 (c_items s) = Some g /\ g <> ""%string /\
               lookup (apply_id idfun g) (c_items s) = None /\
               cb_ids cb = (if wo_id_cb o then [g] else []) /\
               c_get r_filter idfun s' g None = Some nv).
  Proof. intros. eapply get_after_update; eauto. Qed.

  Theorem C01_delete_is_map_remove : forall s id0 (o : wopts M writer) s' body ev,
    spec_c_delete s id0 o = (s', Some body, None, ev) -> sorted str_ltb (c_items s) ->
    c_get r_filter idfun s' id0 None = None /\
    (forall id', id' <> apply_id idfun id0 -> lookup id' (c_items s') = lookup id' (c_items s)).
  Proof. intros. eapply get_after_delete; eauto. Qed.

  (* option combinations: BOTH value preconditions are consulted.  The reference lets a write through
     exactly when the expected value (if given) matches AND the expected check (if given) accepts;
     the code-shaped closure of opt.go succeeds only then *)
  Theorem C01_preconditions_all_consulted : forall (o : wopts M writer) base,
    precondition m_eqb o base = None <->
    (forall e, wo_expected o = Some e -> option_eqb m_eqb base (Some e) = true) /\
    (forall chk, wo_check o = Some chk -> chk base = None).
  Proof. intros. apply precondition_none_iff. Qed.

  Theorem C01_change_fn_success_needs_both : forall (o : wopts M writer) value old x,
    change_fn m_eqb m_empty w_merge o value old = inl x ->
    (forall e, wo_expected o = Some e -> option_eqb m_eqb old (Some e) = true) /\
    (forall chk, wo_check o = Some chk -> chk old = None).
  Proof. intros. eapply change_fn_success_needs_both; eauto. Qed.

  (* a Value is a single register: a Set either fails (validation first, then the value
     preconditions against the stored value) changing nothing and emitting nothing, or it stores
     exactly the new value computed from the stored one, returns it, emits exactly one event
     carrying it and the write's time, and the next Get returns it *)
  Theorem C01_value_is_register : forall (s : vstate M) msg (o : wopts M writer) s' r ev,
    spec_v_set m_eqb m_empty w_validate w_merge clock_at s msg o = (s', r, ev) ->
    (exists code, r = inr code /\ s' = s /\ ev = [] /\
       (w_validate (wo_writer o) = Some code \/
        (w_validate (wo_writer o) = None /\ precondition m_eqb o (v_val s) = Some code))) \/
    (exists nv t, r = inl nv /\ w_validate (wo_writer o) = None /\ precondition m_eqb o (v_val s) = None /\
       nv = new_value m_empty w_merge o msg (v_val s) /\
       t = match wo_time o with Some t0 => t0 | None => clock_at (v_reads s) end /\
       ev = [mkVE nv t] /\ v_val s' = Some nv /\ v_time s' = t /\
       v_get r_filter s' None = Some nv /\
       (forall k, v_get r_filter s' (Some k) = Some (r_filter k nv))).
  Proof.
    intros s msg o s' r ev. unfold spec_v_set.
    destruct (w_validate (wo_writer o)) as [c|] eqn:V.
    { intros H. inversion H. subst. left. exists c. auto. }
    destruct (precondition m_eqb o (v_val s)) as [c|] eqn:P.
    { intros H. inversion H. subst. left. exists c. auto 6. }
    unfold write_time. destruct (wo_time o) as [t0|]; intros H; inversion H; subst; right;
      eexists _, _; repeat split; reflexivity.
  Qed.

  (* NewCollection(WithInitialRecord ...): sorted contents holding exactly the given records, each
     stamped with the construction-time clock reading *)
  Theorem C01_initial_records : forall (records : list (string * M)),
    NoDup (map fst records) ->
    sorted str_ltb (c_items (c_new clock_at str_ltb records)) /\
    (forall id v, In (id, v) records ->
       lookup id (c_items (c_new clock_at str_ltb records)) = Some (mkItem v (clock_at 0))) /\
    (forall id, ~ In id (map fst records) -> lookup id (c_items (c_new clock_at str_ltb records)) = None).
  Proof. intros. apply c_new_contents; assumption. Qed.

  (* ... and how those records are addressed afterwards: Get looks up the id it is given THROUGH the
     id interceptor, the constructor stored the ids as given.  A record is found exactly under the
     ids the interceptor maps to its id; a record whose id is not in the interceptor's range (e.g.
     "A" under strings.ToLower) is returned by no Get (notes/C01.md: observation, not a finding) *)
  Theorem C01_initial_records_addressing : forall (records : list (string * M)) id0 mask,
    NoDup (map fst records) ->
    (forall v, In (apply_id idfun id0, v) records ->
       c_get r_filter idfun (c_new clock_at str_ltb records) id0 mask =
       Some (match mask with Some k => r_filter k v | None => v end)) /\
    (~ In (apply_id idfun id0) (map fst records) ->
       c_get r_filter idfun (c_new clock_at str_ltb records) id0 mask = None).
  Proof.
    intros records id0 mask N. destruct (C01_initial_records records N) as (_ & A & B). unfold c_get. split.
    - intros v Hin. rewrite (A _ _ Hin). reflexivity.
    - intros Hn. rewrite (B _ Hn). reflexivity.
  Qed.

  (* ... and usable afterwards: the reported id addresses the new item for Get, for Delete (every
     Delete of it returns the written value, a successful one removes it) and for Update (it
     resolves to the very key the item is stored under) *)
  Theorem C01_generated_id_usable : forall s id0 msg (o : wopts M writer) cands s' nv ev cb,
    spec_c_update s id0 msg o cands = (s', inl nv, ev, cb) ->
    String.eqb (apply_id idfun id0) "" && wo_gen_id o = true ->
    sorted str_ltb (c_items s) ->
    exists g t, first_fresh idfun cands 10 (c_items s) = Some g /\
      lookup (apply_id idfun g) (c_items s') = Some (mkItem nv t) /\
      c_get r_filter idfun s' g None = Some nv /\
      (forall (o2 : wopts M writer), exists s2 e ev2,
         spec_c_delete s' g o2 = (s2, Some nv, e, ev2) /\
         (e = None -> lookup (apply_id idfun g) (c_items s2) = None)) /\
      (forall (o2 : wopts M writer) c2,
         String.eqb (apply_id idfun g) "" && wo_gen_id o2 = false ->
         resolves idfun s' g o2 c2 (apply_id idfun g) None).
  Proof.
    intros s id0 msg o cands s' nv ev cb H G S.
    assert (S' : sorted str_ltb (c_items s')) by (eapply update_sorted; eauto).
    apply update_outcomes in H.
    destruct H as [(code & Hr & _)|(id & gen & nv' & t & Hr & Hres & Hl & _)]; [discriminate|].
    inversion Hr. subst nv'. unfold resolves in Hres. rewrite G in Hres.
    destruct Hres as (g & F & -> & ->). exists g, t. split; [exact F|]. split; [exact Hl|].
    split; [unfold c_get; rewrite Hl; reflexivity|]. split.
    - intros o2. destruct (spec_c_delete s' g o2) as [[[s2 r] e] ev2] eqn:D.
      exists s2, e, ev2. pose proof D as D'. apply delete_outcomes in D'. simpl in D'. rewrite Hl in D'.
      destruct D' as [(L & _)|[(it & c & L & -> & -> & -> & ->)|(it & t2 & L & -> & -> & E & _)]].
      + discriminate.
      + inversion L. subst it. simpl. split; [reflexivity|discriminate].
      + inversion L. subst it. simpl. split; [reflexivity|]. intros _.
        rewrite E. apply lookup_remove_same with (str_ltb := str_ltb); auto.
    - intros o2 c2 C. unfold resolves. rewrite C. auto.
  Qed.

  (* Get and List tell the same story: on sorted contents (every reachable state) Get finds v under
     id exactly when the full List has the entry (id through the interceptor, v) -- and List has at
     most one entry per id *)
  Lemma lookup_iff_in (l : list (string * item M)) : sorted str_ltb l ->
    forall k it, lookup k l = Some it <-> In (k, it) l.
  Proof.
    induction l as [|[k0 x] r IH]; intros S k it; simpl.
    - split; [discriminate|tauto].
    - apply (sorted_cons str_ltb ltb_trans) in S. destruct S as [Hab S].
      destruct (String.eqb_spec k0 k) as [->|Hk].
      + split.
        * intros H. inversion H. auto.
        * intros [H|H]; [inversion H; reflexivity|]. exfalso.
          assert (A : str_ltb k k = true) by (apply Hab; apply (in_map fst) in H; exact H).
          rewrite ltb_irrefl in A. discriminate.
      + rewrite (IH S). split; [auto|]. intros [H|H]; [inversion H; contradiction|exact H].
  Qed.

  Theorem C01_get_agrees_with_list : forall (s : cstate M) id v,
    sorted str_ltb (c_items s) ->
    (c_get r_filter idfun s id None = Some v <-> In (apply_id idfun id, v) (c_list r_filter s None None)) /\
    (forall k v1 v2, In (k, v1) (c_list r_filter s None None) -> In (k, v2) (c_list r_filter s None None) -> v1 = v2).
  Proof.
    intros s id v S.
    assert (L : forall k v, In (k, v) (c_list r_filter s None None) <-> exists t, In (k, mkItem v t) (c_items s)).
    { intros k w. unfold c_list. simpl. rewrite in_map_iff. split.
      - intros ([k' [b t]] & E & Hin). simpl in E. inversion E. subst. apply filter_In in Hin. exists t. tauto.
      - intros (t & Hin). exists (k, mkItem w t). split; [reflexivity|]. apply filter_In. auto. }
    split.
    - rewrite L. unfold c_get. split.
      + destruct (lookup (apply_id idfun id) (c_items s)) as [[b t]|] eqn:Q; [|discriminate].
        intros H. inversion H. subst. exists t. apply lookup_iff_in; assumption.
      + intros (t & Hin). apply (lookup_iff_in _ S) in Hin. rewrite Hin. reflexivity.
    - intros k v1 v2 H1 H2. apply L in H1, H2. destruct H1 as (t1 & H1), H2 as (t2 & H2).
      apply (lookup_iff_in _ S) in H1, H2. rewrite H1 in H2. inversion H2. reflexivity.
  Qed.
End C01.

Print Assumptions C01_preconditions_all_consulted.
Print Assumptions C01_change_fn_success_needs_both.
Print Assumptions C01_initial_records.
Print Assumptions C01_value_is_register.
Print Assumptions C01_generated_id_usable.
Print Assumptions C01_get_agrees_with_list.
Print Assumptions C01_initial_records_addressing.
Print Assumptions C01_collection_refines_reference.
Print Assumptions C01_value_refines_reference.
Print Assumptions C01_failed_call_is_noop.
Print Assumptions C01_reachable_sorted.
Print Assumptions C01_list_sorted.
Print Assumptions C01_update_is_map_update.
Print Assumptions C01_get_after_write_and_generated_id.
Print Assumptions C01_delete_is_map_remove.

(* the executed instance satisfies the hypotheses *)
Theorem C01_instance_hypotheses :
  (forall m, fmsg_eqb m m = true) /\ (forall a, str_ltb a a = false) /\
  (forall a b c, str_ltb a b = true -> str_ltb b c = true -> str_ltb a c = true) /\
  (forall a b, str_ltb a b = false -> str_ltb b a = false -> a = b).
Proof. exact (conj fmsg_eqb_refl (conj str_ltb_irrefl (conj str_ltb_trans str_ltb_total))). Qed.
Print Assumptions C01_instance_hypotheses.

(* the pinned commit stored a generated id without passing it through the id interceptor: the id
   reported to the caller was then not found by Get (fixed in /repo) *)
Theorem C01_generated_id_v0_refuted :
  exists cands,
    let '(s', r, _, cb) := c_update_v0 fmsg_eqb fzero fw_validate fw_merge fclock str_ltb (Some lower)
                             (mkC [] 0) "" (mkF 1 0 0)
                             (to_wopts None (mkFWO None None None None false None false None false None None true false true true))
                             cands in
    exists g, cb_ids cb = [g] /\ c_get fr_filter (Some lower) s' g None = None /\ r = inl (mkF 1 0 0).
Proof. exists ["AbC"%string]. vm_compute. exists "AbC"%string. auto. Qed.

(* non-vacuity: a concrete run exercising creation, a failed precondition and a delete *)
Example C01_nonvacuous :
  let o := mkFWO None None None None false None false None false None None true false false false in
  let ops := [FUpdate "b" (mkF 1 2 0) o []; FAdd "a" (mkF 3 0 0) o []; FAdd "a" (mkF 4 0 0) o [];
              FDelete "b" o; FList None None] in
  snd (run (f_spec_step None) c_init (map (to_cop None) ops)) =
  [(RWrite (inl (mkF 1 2 0)) cb_none, [mkCE "b" 1000 KAdd None (Some (mkF 1 2 0))]);
   (RWrite (inl (mkF 3 0 0)) cb_none, [mkCE "a" 1010 KAdd None (Some (mkF 3 0 0))]);
   (RWrite (inr 6) cb_none, []);
   (RDelete (Some (mkF 1 2 0)) None, [mkCE "b" 1020 KRemove (Some (mkF 1 2 0)) None]);
   (RList [("a"%string, mkF 3 0 0)], [])].
Proof. vm_compute. reflexivity. Qed.

(* non-vacuity of the precondition theorems: a Set carrying BOTH an expected value that matches and
   a check that rejects fails with the check's code and leaves the value alone; with a check that
   accepts it succeeds *)
Example C01_nonvacuous_both_preconditions :
  let both c := mkFWO None None None None false (Some (mkF 1 0 0)) false (Some c) false None None false false false false in
  let run c := snd (v_run f_v_spec_step (v_init fclock (Some (mkF 1 0 0)))
                     (map (to_vop None) [FVSet (mkF 2 0 0) (both c); FVGet None])) in
  map fst (run (CFail 7)) = [VRSet (inr 7); VRGet (Some (mkF 1 0 0))] /\
  map fst (run (CEq Fa 1 7)) = [VRSet (inl (mkF 2 0 0)); VRGet (Some (mkF 2 0 0))].
Proof. vm_compute. split; reflexivity. Qed.

(* non-vacuity of the register theorem: both disjuncts occur (a Set refused by its expected value,
   the same Set accepted once the value is there) *)
Example C01_nonvacuous_value_register :
  let o := mkFWO None None None None false (Some (mkF 1 0 0)) false None false None None false false false false in
  let set s := spec_v_set fmsg_eqb fzero fw_validate fw_merge fclock s (mkF 2 0 0) (to_wopts None o) in
  (let '(s', r, ev) := set (v_init fclock None) in r = inr 9 /\ s' = v_init fclock None /\ ev = []) /\
  (let '(s', r, ev) := set (v_init fclock (Some (mkF 1 0 0))) in
   r = inl (mkF 2 0 0) /\ v_get fr_filter s' None = Some (mkF 2 0 0) /\ ev = [mkVE (mkF 2 0 0) 1010]).
Proof. vm_compute. auto. Qed.

Example C01_nonvacuous_initial_records :
  c_list fr_filter (c_new fclock str_ltb [("b"%string, mkF 2 0 0); ("a"%string, mkF 1 0 0)]) None None =
  [("a"%string, mkF 1 0 0); ("b"%string, mkF 2 0 0)].
Proof. vm_compute. reflexivity. Qed.

(* soundness of the judge of the correspondence (flat algebra; Resource/JudgeProofs.v): whatever the
   call sequence, an observation that agrees with the code-shaped model satisfies EVERY clause of
   [C01_ok] -- the comparison with the plain reference (by the refinement theorem), the direct
   clauses on the observed trace (every List sorted by id; a failed write leaves the next full List
   equal to the previous one) and the generated-id clauses (non-empty, reported exactly once, not a
   key of the last full List seen through the id interceptor, found by the following Get).  So a
   verdict "predicate fails" always comes with "model disagrees": the clauses of the judge are
   consequences of the model, for every sequence and every observation, not facts about the sampled
   cases.  [C01_guard] (no Delete between the caller's last full List and a write that may generate
   an id: the generators list after every write) is needed for the "not a key of the last List"
   clause only; [C01_judge_guard_needed] is the agreeing observation that clause rejects without it. *)
Theorem C01_judge_sound : forall c, agrees c = true -> C01_guard c = true -> C01_ok c = true.
Proof. exact judge01_sound. Qed.
Print Assumptions C01_judge_sound.

(* the two families of direct clauses on their own, for an arbitrary start state of the run *)
Theorem C01_judge_direct_clauses : forall i w steps s s' outs last dirty,
  run (f_spec_step i) s (map (to_cop w) (map fst steps)) = (s', outs) ->
  trace_matches outs (map snd steps) = true ->
  sorted str_ltb (c_items s) ->
  (dirty = false -> forall l0, last = Some l0 -> l0 = c_list fr_filter s None None) ->
  direct_ok last dirty steps = true.
Proof. exact direct_ok_sound. Qed.
Print Assumptions C01_judge_direct_clauses.

Theorem C01_judge_generated_id_clauses : forall i w steps s s' outs last stale,
  run (f_spec_step i) s (map (to_cop w) (map fst steps)) = (s', outs) ->
  trace_matches outs (map snd steps) = true ->
  gen_guard stale steps = true ->
  (stale = false -> forall k, In k (map fst last) -> lookup k (c_items s) <> None) ->
  gen_ok i last steps = true.
Proof. exact gen_ok_sound. Qed.
Print Assumptions C01_judge_generated_id_clauses.

Example C01_judge_guard_needed :
  agrees guard_witness = true /\ C01_guard guard_witness = false /\ C01_ok guard_witness = false.
Proof. exact guard_witness_facts. Qed.

(* non-vacuity: an agreeing, guarded observation with a generated id (probed by Get), a failed write
   between two full Lists, a Delete and a second generation of the same id after a fresh List *)
Example C01_judge_sound_nonvacuous :
  agrees sound_witness = true /\ C01_guard sound_witness = true /\ C01_ok sound_witness = true /\
  judge01 sound_witness = 0.
Proof. vm_compute. auto. Qed.

(* the converse and the resulting exactness of the verdict: on the two case kinds of C01 (collection
   and value sequences) "the model agrees" and "the predicate holds" are the same boolean, so the
   judge answers 0 or 3 -- never 1 (mismatch only) or 2 (predicate fails though the model agrees) *)
Theorem C01_judge_exact : forall c, C01_guard c = true ->
  match c with
  | CaseC _ _ _ | CaseV _ _ _ => agrees c = C01_ok c /\ (judge01 c = 0 \/ judge01 c = 3)
  | _ => C01_ok c = true
  end.
Proof. exact judge01_exact. Qed.
Print Assumptions C01_judge_exact.

(* full-message cases (Resource/TreeJudge.v): the sortedness clause of [C01T_ok] follows from its
   reference clause, for every call sequence over a collection constructed with initial records
   (distinct ids; [records = []] is the empty collection of TCaseC) *)
Theorem C01_tree_lists_sorted_clause : forall i ty resw records steps s' outs,
  NoDup (map fst records) ->
  run (t_spec_step i) (c_new fclock str_ltb records) (map (to_tcop ty resw) (map fst steps)) = (s', outs) ->
  ttrace outs (map snd steps) = true ->
  t_lists_sorted steps = true.
Proof. exact t_lists_sorted_records. Qed.
Print Assumptions C01_tree_lists_sorted_clause.

Example C01_tree_lists_sorted_nonvacuous :
  let records := [("b"%string, vempty); ("a"%string, vempty)] in
  let steps := [(TList None, UList [("a"%string, vempty); ("b"%string, vempty)])] in
  NoDup (map fst records) /\
  ttrace (snd (run (t_spec_step None) (c_new fclock str_ltb records) (map (to_tcop "x" None) (map fst steps))))
         (map snd steps) = true /\
  C01T_ok (TCaseCR "x" None None records steps) = true /\
  t_lists_sorted [(TList None, UList [("b"%string, vempty); ("a"%string, vempty)])] = false.
Proof.
  split; [repeat constructor; simpl; intuition discriminate|]. vm_compute. auto.
Qed.

(* non-vacuity: the record stored as "A" is not found under "A" nor "a" with the lower-case
   interceptor, the record stored as "b" is *)
Example C01_nonvacuous_initial_records_addressing :
  let s := c_new fclock str_ltb [("A"%string, mkF 1 0 0); ("b"%string, mkF 2 0 0)] in
  c_get fr_filter (Some lower) s "A" None = None /\ c_get fr_filter (Some lower) s "a" None = None /\
  c_get fr_filter (Some lower) s "B" None = Some (mkF 2 0 0).
Proof. vm_compute. auto. Qed.

Example C01_nonvacuous_generated_id_usable :
  let o := mkFWO None None None None false None false None false None None true false true true in
  let '(s', r, _, cb) := spec_c_update fmsg_eqb fzero fw_validate fw_merge fclock str_ltb (Some lower)
                           (mkC [] 0) "" (mkF 1 0 0) (to_wopts None o) ["AbC"%string] in
  cb_ids cb = ["AbC"%string] /\ r = inl (mkF 1 0 0) /\
  c_get fr_filter (Some lower) s' "AbC" None = Some (mkF 1 0 0) /\
  let '(s2, body, e, _) := spec_c_delete fmsg_eqb fclock (Some lower) s' "AbC" (to_wopts None o) in
  body = Some (mkF 1 0 0) /\ e = None /\ c_items s2 = [].
Proof. vm_compute. auto 10. Qed.

Example C01_nonvacuous_get_agrees_with_list :
  let s := c_new fclock str_ltb [("b"%string, mkF 2 0 0); ("a"%string, mkF 1 0 0)] in
  c_get fr_filter (Some lower) s "A" None = Some (mkF 1 0 0) /\
  In ("a"%string, mkF 1 0 0) (c_list fr_filter s None None) /\
  c_get fr_filter (Some lower) s "c" None = None.
Proof. vm_compute. auto. Qed.

(* auxiliary (outside the statement of C01, see notes/C01.md): pkg/resource/tween.go's update
   validation, the remaining pure function of the package, accepts exactly "no tween, or zero
   progress and a non-negative total duration", and AsDuration is exact on every duration a
   time.Duration can hold *)
Theorem C01_aux_validate_tween_on_update : forall t,
  validate_tween_on_update t =
  match t with
  | None => None
  | Some tw =>
      if f32_is_zero (tw_progress tw) &&
         (0 <=? match tw_total tw with Some (s, n) => as_duration s n | None => 0 end)
      then None else Some 3
  end.
Proof. exact validate_tween_on_update_spec. Qed.
Theorem C01_aux_as_duration_exact : forall secs nanos,
  -9223372035 <= secs <= 9223372035 -> -999999999 <= nanos <= 999999999 ->
  as_duration secs nanos = secs * 1000000000 + nanos.
Proof. exact as_duration_exact. Qed.
Print Assumptions C01_aux_validate_tween_on_update.
Print Assumptions C01_aux_as_duration_exact.

(* Print Assumptions for every theorem above that did not have its own line yet *)
Print Assumptions C01_generated_id_v0_refuted.
