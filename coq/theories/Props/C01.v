(* C01 — Value/Collection conform to a sequential register/map specification.
   Theorems only.  All are stated for an ARBITRARY message algebra (message type, proto.Equal,
   field-mask writer with its Validate and Merge, read-mask filter), arbitrary callbacks
   (interceptors, checks, id interceptor: plain functions), arbitrary clock, and any strict total
   order on ids; they are instantiated with the flat algebra of Resource/Flat.v for the
   correspondence (C01_instance_* shows the hypotheses hold there). *)
From SC Require Import Base.Prelude Resource.Impl Resource.Spec Resource.ImplProofs Resource.SpecProofs
  Resource.Flat Resource.FlatProofs Resource.Judge.

Section C01.
  Variable M : Type.
  Variable m_eqb : M -> M -> bool.
  Variable m_empty : M.
  Variable writer : Type.
  Variable w_validate : writer -> option Z.
  Variable w_merge : writer -> M -> M -> M.
  Variable rmask : Type.
  Variable r_filter : rmask -> M -> M.
  Variable clock_at : Z -> Z.
  Variable str_ltb : string -> string -> bool.
  Variable idfun : option (string -> string).
  Hypothesis m_eqb_refl : forall m, m_eqb m m = true.
  Hypothesis ltb_irrefl : forall a, str_ltb a a = false.
  Hypothesis ltb_trans : forall a b c, str_ltb a b = true -> str_ltb b c = true -> str_ltb a c = true.
  Hypothesis ltb_total : forall a b, str_ltb a b = false -> str_ltb b a = false -> a = b.

  Notation impl_step := (impl_step m_eqb m_empty w_validate w_merge r_filter clock_at str_ltb idfun).
  Notation spec_step := (spec_step m_eqb m_empty w_validate w_merge r_filter clock_at str_ltb idfun).
  Notation spec_c_update := (spec_c_update m_eqb m_empty w_validate w_merge clock_at str_ltb idfun).
  Notation spec_c_delete := (spec_c_delete m_eqb clock_at idfun).

  (* every call sequence: the code-shaped model returns what the plain reference returns, emits
     the same events and leaves the same contents *)
  Theorem C01_collection_refines_reference : forall ops s,
    run impl_step s ops = run spec_step s ops.
  Proof. intros. apply impl_run_is_spec. Qed.

  Theorem C01_value_refines_reference : forall (s : vstate M) msg (o : wopts M writer),
    v_set m_eqb m_empty w_validate w_merge clock_at s msg o =
    spec_v_set m_eqb m_empty w_validate w_merge clock_at s msg o.
  Proof. intros. apply v_set_is_spec. exact m_eqb_refl. Qed.

  (* a failing call changes nothing and emits nothing *)
  Theorem C01_failed_call_is_noop : forall s op s' out ev,
    spec_step s op = (s', out, ev) -> failed out = true -> s' = s /\ ev = [].
  Proof. intros. eapply failed_step_is_noop; eauto. Qed.

  (* contents stay sorted along every call sequence, and List is sorted by id *)
  Theorem C01_reachable_sorted : forall ops s s' outs,
    run spec_step s ops = (s', outs) -> sorted str_ltb (c_items s) -> sorted str_ltb (c_items s').
  Proof. intros. eapply run_keeps_sorted; eauto. Qed.

  Theorem C01_list_sorted : forall (s : cstate M) mask inc,
    sorted str_ltb (c_items s) -> sorted_keys str_ltb (map fst (c_list r_filter s mask inc)).
  Proof. intros. apply list_is_sorted; auto. Qed.

  (* a write is exactly one map update (or nothing), described by exactly one event *)
  Theorem C01_update_is_map_update : forall s id0 msg (o : wopts M writer) cands s' r ev cb,
    spec_c_update s id0 msg o cands = (s', r, ev, cb) ->
    (exists code, r = inr code /\ s' = s /\ ev = []) \/
    (exists id gen nv t,
        r = inl nv /\ resolves idfun s id0 o cands id gen /\
        lookup id (c_items s') = Some (mkItem nv t) /\
        (forall id', id' <> id -> lookup id' (c_items s') = lookup id' (c_items s)) /\
        t = match wo_time o with Some t0 => t0 | None => clock_at (c_reads s) end /\
        ev = [mkCE id t (match lookup id (c_items s) with Some _ => KUpdate | None => KAdd end)
                   (option_map (@it_body M) (lookup id (c_items s))) (Some nv)] /\
        nv = new_value m_empty w_merge o msg (Some (match lookup id (c_items s) with Some it => it_body it | None => m_empty end)) /\
        cb_ids cb = (match gen with Some g => if wo_id_cb o then [g] else [] | None => [] end) /\
        (match lookup id (c_items s) with Some _ => wo_expect_absent o = false | None => wo_create o = true end)).
  Proof. intros. eapply update_outcomes; eauto. Qed.

  (* Get after a successful write returns the written value; a generated id is non-empty, unused
     (seen through the id interceptor), reported exactly once and addresses the new item *)
  Theorem C01_get_after_write_and_generated_id : forall s id0 msg (o : wopts M writer) cands s' nv ev cb,
    spec_c_update s id0 msg o cands = (s', inl nv, ev, cb) ->
    (String.eqb (apply_id idfun id0) "" && wo_gen_id o = false -> c_get r_filter idfun s' id0 None = Some nv) /\
    (String.eqb (apply_id idfun id0) "" && wo_gen_id o = true ->
     exists g, first_fresh idfun cands 10 (c_items s) = Some g /\ g <> ""%string /\
               lookup (apply_id idfun g) (c_items s) = None /\
               cb_ids cb = (if wo_id_cb o then [g] else []) /\
               c_get r_filter idfun s' g None = Some nv).
  Proof. intros. eapply get_after_update; eauto. Qed.

  Theorem C01_delete_is_map_remove : forall s id0 (o : wopts M writer) s' body ev,
    spec_c_delete s id0 o = (s', Some body, None, ev) -> sorted str_ltb (c_items s) ->
    c_get r_filter idfun s' id0 None = None /\
    (forall id', id' <> apply_id idfun id0 -> lookup id' (c_items s') = lookup id' (c_items s)).
  Proof. intros. eapply get_after_delete; eauto. Qed.
End C01.

Print Assumptions C01_collection_refines_reference.
Print Assumptions C01_value_refines_reference.
Print Assumptions C01_failed_call_is_noop.
Print Assumptions C01_reachable_sorted.
Print Assumptions C01_list_sorted.
Print Assumptions C01_update_is_map_update.
Print Assumptions C01_get_after_write_and_generated_id.
Print Assumptions C01_delete_is_map_remove.

(* the executed instance satisfies the hypotheses *)
Theorem C01_instance_hypotheses :
  (forall m, fmsg_eqb m m = true) /\ (forall a, str_ltb a a = false) /\
  (forall a b c, str_ltb a b = true -> str_ltb b c = true -> str_ltb a c = true) /\
  (forall a b, str_ltb a b = false -> str_ltb b a = false -> a = b).
Proof. exact (conj fmsg_eqb_refl (conj str_ltb_irrefl (conj str_ltb_trans str_ltb_total))). Qed.
Print Assumptions C01_instance_hypotheses.

(* the pinned commit stored a generated id without passing it through the id interceptor: the id
   reported to the caller was then not found by Get (fixed in /repo) *)
Theorem C01_generated_id_v0_refuted :
  exists cands,
    let '(s', r, _, cb) := c_update_v0 fmsg_eqb fzero fw_validate fw_merge fclock str_ltb (Some lower)
                             (mkC [] 0) "" (mkF 1 0 0)
                             (to_wopts None (mkFWO None None None None false None false None false None None true false true true))
                             cands in
    exists g, cb_ids cb = [g] /\ c_get fr_filter (Some lower) s' g None = None /\ r = inl (mkF 1 0 0).
Proof. exists ["AbC"%string]. vm_compute. exists "AbC"%string. auto. Qed.

(* non-vacuity: a concrete run exercising creation, a failed precondition and a delete *)
Example C01_nonvacuous :
  let o := mkFWO None None None None false None false None false None None true false false false in
  let ops := [FUpdate "b" (mkF 1 2 0) o []; FAdd "a" (mkF 3 0 0) o []; FAdd "a" (mkF 4 0 0) o [];
              FDelete "b" o; FList None None] in
  snd (run (f_spec_step None) c_init (map (to_cop None) ops)) =
  [(RWrite (inl (mkF 1 2 0)) cb_none, [mkCE "b" 1000 KAdd None (Some (mkF 1 2 0))]);
   (RWrite (inl (mkF 3 0 0)) cb_none, [mkCE "a" 1010 KAdd None (Some (mkF 3 0 0))]);
   (RWrite (inr 6) cb_none, []);
   (RDelete (Some (mkF 1 2 0)) None, [mkCE "b" 1020 KRemove (Some (mkF 1 2 0)) None]);
   (RList [("a"%string, mkF 3 0 0)], [])].
Proof. vm_compute. reflexivity. Qed.
