(* C14 -- Trait servers give read-your-writes through the full stack.
   Theorems only; proofs live in Servers/*Proofs.v.

   [step]/[run] (Servers/GenericServer.v) are the model of a trait server with ONE resource behind
   Get<R>/Update<R>/Pull<R>, seen through WrapApi(router(WrapApi(server))): a register (the Value model
   of Resource/Impl.v, Spec.v, Pull.v) whose write is decided by an arbitrary business rule
   [rule : option M -> request -> M + Z] -- whatever the handler, the model's interceptors / derive
   functions, the update mask and the writable-fields check make of an Update request given the
   stored value.  The theorems hold for EVERY rule, every message algebra, every read filter, every
   configured equivalence, every set of registered names and every request history.
   [stack_stream] (Servers/Stack.v) composes the wrapper model of C13 and the router
   pump of C12 into what the client sees of what the handler sends.
   [trace_ok] (Servers/Trace.v) is the property evaluated on an observation, [C14_ok] its instance
   used by the correspondence (Servers/C14Judge.v). *)
From SC Require Import Base.Prelude Msg.Msg Msg.Schema Msg.Path Masks.Get Masks.GetProofs
  Masks.Update Resource.Impl Resource.Pull Servers.Kinds Servers.GenericServer Servers.GenericServerProofs
  Servers.Trace Servers.TraceProofs Servers.Stack Servers.StackProofs
  Servers.TraceOf Servers.C14Judge Servers.C14JudgeProofs Gen.Servers.
Section C14.
  Variable M : Type.
  Variable m_eqb : M -> M -> bool.
  Variable m_empty : M.
  Variable rmask : Type.
  Variable r_filter : rmask -> M -> M.          (* read filter of Pull *)
  Variable get_filter : rmask -> M -> M.        (* read filter of Get *)
  Variable live : option M -> bool.
  Variable equiv : option (option M -> option M -> bool).
  Variable clock_at : Z -> Z.
  Variable request : Type.
  Variable rule : option M -> request -> M + Z.
  Variable checked : bool.
  Variable devs : list string.

  Notation step := (step m_eqb m_empty get_filter live clock_at rule checked devs).
  Notation run := (run m_eqb m_empty get_filter live clock_at rule checked devs).
  Notation handler_sent := (handler_sent r_filter equiv).
  Notation routed := (routed devs).

  (* (1) a successful Update's response is what the next full Get returns -- whatever Gets, Pulls,
     cancels and REJECTED Updates come in between, under whichever registered name *)
  Theorem C14_update_then_get : forall (s s1 s2 : sstate M rmask) name q r mid outs,
    step s (QUpdate name q) = (s1, PUpdate (inl r)) ->
    run s1 mid = (s2, outs) -> forallb (fun p => negb (ok_update p)) outs = true ->
    forall name', routed name' = true -> step s2 (QGet name' None) = (s2, PGet (inl (Some r))).
  Proof. intros. eapply update_then_get; eauto. Qed.

  (* (2) a Get with a read mask is the filter of the full Get (and reads change nothing) *)
  Theorem C14_get_mask_is_projection : forall (s : sstate M rmask) name k,
    snd (step s (QGet name (Some k))) =
    match snd (step s (QGet name None)) with
    | PGet (inl full) => PGet (inl (option_map (get_filter k) full))
    | other => other
    end /\ fst (step s (QGet name (Some k))) = s.
  Proof. intros. split; [apply get_mask_is_projection|apply get_changes_nothing]. Qed.

  (* (3) a stream that is served starts with the value current at subscription, filtered, under
     the request's name -- unless updates-only; everything after it is the filtered value of an event
     published later, under the same name *)
  Theorem C14_pull_starts_with_current : forall (st : stream M rmask),
    served st = true ->
    exists tail,
      handler_sent st =
      (if ro_updates_only (st_ro st) then []
       else match v_val (st_at st) with Some v => [(st_name st, filt r_filter (st_ro st) v)] | None => [] end) ++ tail /\
      Forall (fun x => fst x = st_name st /\
                       exists e, In e (st_evs st) /\ snd x = filt r_filter (st_ro st) (ve_value e)) tail.
  Proof. intros. apply pull_starts_with_current. assumption. Qed.

  Theorem C14_pull_opens_at_current : forall (s : sstate M rmask) name k uo,
    step s (QPull name k uo) =
    (mkSS (ss_v s) (ss_streams s ++ [mkSt name (mkR k uo None) (routed name) (live (v_val (ss_v s))) (ss_v s) [] true true]), POpened) /\
    (routed name = true -> live (v_val (ss_v s)) = true ->
     handler_sent (mkSt name (mkR k uo None) (routed name) (live (v_val (ss_v s))) (ss_v s) [] true true) =
     if uo then [] else match v_val (ss_v s) with
                        | Some v => [(name, match k with Some m => r_filter m v | None => v end)]
                        | None => [] end).
  Proof. intros. apply pull_opens_at_current. Qed.

  (* (4) a successful Update reaches every stream whose reader keeps up: an open, served stream that has
     not stalled gets exactly one more
     message -- the response's value, filtered, under the Pull request's name -- unless that value is
     equivalent (configured equivalence) to the last message the stream delivered; every other stream
     is left as it was; no stream is added, removed or ended *)
  Theorem C14_every_effective_update_streamed : forall (s s1 : sstate M rmask) name q r,
    step s (QUpdate name q) = (s1, PUpdate (inl r)) ->
    List.length (ss_streams s1) = List.length (ss_streams s) /\
    forall i st, nth_error (ss_streams s) i = Some st ->
      exists st1, nth_error (ss_streams s1) i = Some st1 /\
        st_name st1 = st_name st /\ stream_status st1 = stream_status st /\
        handler_sent st1 = handler_sent st ++
          (if st_open st && st_reading st && served st &&
              negb (suppressed equiv (last_value (handler_sent st)) (filt r_filter (st_ro st) r))
           then [(st_name st, filt r_filter (st_ro st) r)] else []).
  Proof. intros. eapply every_effective_update_streamed; eauto. Qed.

  (* ... and nothing but a successful Update ever adds a message to an existing stream *)
  Theorem C14_only_updates_are_streamed : forall (s s1 : sstate M rmask) q p,
    step s q = (s1, p) -> ok_update p = false ->
    forall i st, nth_error (ss_streams s) i = Some st ->
      exists st1, nth_error (ss_streams s1) i = Some st1 /\ handler_sent st1 = handler_sent st /\
                  st_name st1 = st_name st.
  Proof. intros. eapply other_requests_stream_nothing; eauto. Qed.

  (* (5) an Update rejected with any status leaves the whole state as it was: Get, every stream *)
  Theorem C14_rejected_update_noop : forall (s s1 : sstate M rmask) name q c,
    step s (QUpdate name q) = (s1, PUpdate (inr c)) -> s1 = s.
  Proof. intros. eapply rejected_update_noop; eauto. Qed.

  (* "whose reader keeps up": a stream whose reader has stopped receiving (QStall) is owed nothing more,
     and it holds nobody back -- for EVERY later history the responses (Updates included: none is
     rejected or delayed on its account), the register and every other stream are exactly what they
     would have been had the reader kept receiving.  (The code: Value.onUpdate puts minibus.DropExcess
     between the bus and each subscriber that did not ask for back-pressure.) *)
  Theorem C14_stalled_reader_holds_nobody_back : forall (s : sstate M rmask) i qs,
    let stalled := mkSS (ss_v s) (stall_at i (ss_streams s)) in
    snd (run stalled qs) = snd (run s qs) /\
    ss_v (fst (run stalled qs)) = ss_v (fst (run s qs)) /\
    forall j, j <> i -> nth_error (ss_streams (fst (run stalled qs))) j = nth_error (ss_streams (fst (run s qs))) j.
  Proof. intros. apply stalled_reader_holds_nobody_back. Qed.
End C14.

Print Assumptions C14_stalled_reader_holds_nobody_back.
Print Assumptions C14_update_then_get.
Print Assumptions C14_get_mask_is_projection.
Print Assumptions C14_pull_starts_with_current.
Print Assumptions C14_pull_opens_at_current.
Print Assumptions C14_every_effective_update_streamed.
Print Assumptions C14_only_updates_are_streamed.
Print Assumptions C14_rejected_update_noop.

Local Open Scope string_scope.

(* (2) instantiated: with the read filter of pkg/masks (Masks/Get.v) the masked Get IS the reference
   projection of the stored message, for every conformant message of every schema and every mask
   without empty segments -- valid or not (C06) *)
Theorem C14_masked_get_is_reference_projection :
  forall sch ty live (rule : option value -> nat -> value + Z) checked devs (s : sstate value (list path)) name ps v,
  routed devs name = true -> v_val (ss_v s) = Some v ->
  conforms sch ty v = true -> segs_ok ps = true -> (forall p, In p ps -> p <> []) -> ps <> [] ->
  snd (step value_eqb (VM [])
            (fun k x => match filter_clone sch ty (Some k) x with Ok r => r | Panic => panic_marker end)
            live clock rule checked devs s (QGet name (Some ps)))
  = PGet (inl (Some (project ps v))).
Proof.
  intros sch ty live rule checked devs s name ps v Hr Hv Hc Hs Hn Hne.
  cbn [step snd]. rewrite Hr. cbn [snd]. unfold v_get. rewrite Hv. cbn [option_map].
  rewrite (filter_is_projection sch ty v ps Hc Hs Hn Hne). reflexivity.
Qed.
Print Assumptions C14_masked_get_is_reference_projection.

(* ---- the whole property on whole histories: for every rule that answers with values or gRPC
   statuses, every history, the trace of the model (requests, responses, final stream contents as
   the client receives them through the stack) satisfies the property predicate ---- *)
Theorem C14_model_satisfies_property :
  forall (M rmask request : Type) (m_eqb : M -> M -> bool) (m_empty : M) (f : rmask -> M -> M)
         (equiv : option (option M -> option M -> bool)) (clock_at : Z -> Z)
         (rule : option M -> request -> M + Z) (devs : list string),
  (forall a, m_eqb a a = true) -> (forall a b, m_eqb a b = true -> a = b) ->
  (forall b q c, rule b q = inr c -> is_status c = true) ->
  forall init qs,
    trace_ok m_eqb f equiv devs
      (trace_of_run m_eqb m_empty f equiv clock_at rule devs init qs) = true.
Proof. exact model_satisfies_property. Qed.
Print Assumptions C14_model_satisfies_property.

(* ---- the stack: what the handler sends on a stream is what the client receives, in order, nothing
   lost or added, as long as the reader keeps receiving (wrapper model and theorem of C13 applied
   twice, router pump theorem of C12 in between); [trace_of_run] passes every stream through it ---- *)
Theorem C14_stack_stream_transparent : forall ms, stack_stream ms = ms.
Proof. exact stack_stream_transparent. Qed.
Print Assumptions C14_stack_stream_transparent.

Theorem C14_through_stack_identity : forall (A : Type) (l : list A), through_stack l = l.
Proof. exact @through_stack_id. Qed.
Print Assumptions C14_through_stack_identity.

(* ---- the correspondence judge: an observation that agrees with the model run (rule taken from the
   observed Update responses) satisfies C14_ok, whenever it is well-formed: register values are
   messages of the resource type, rejected Updates carry statuses (a recovered panic is what makes
   the two differ), read masks have no empty segment.  So for well-formed observations verdict 2 is
   impossible and verdict 0 means both ---- *)
Theorem C14_judge_sound : forall server init evs streams parts,
  C14_guard (KTrace server init evs streams parts) = true ->
  trace_wf server init evs = true ->
  agrees (KTrace server init evs streams parts) = true -> C14_ok (KTrace server init evs streams parts) = true.
Proof. exact judge_sound. Qed.
Print Assumptions C14_judge_sound.

(* the same for every case shape: with the oracle table of the configured comparer and with the Update
   requests of the servers whose business rule is written out (the model then runs with that rule) *)
Theorem C14_judge_sound_all : forall c,
  C14_guard c = true -> trace_wf (c_server c) (c_init c) (c_evs c) = true -> agrees c = true -> C14_ok c = true.
Proof. exact judge_sound_all. Qed.
Print Assumptions C14_judge_sound_all.

(* ---- the business rules written out in Servers/C14Judge.v (onoff, press, air temperature x2, count,
   speaker volume without delta, mode values without relative, fan speed without relative) meet the
   [rule] interface the theorems above quantify over: they answer with a value or a gRPC status ---- *)
Theorem C14_hand_rules_are_rules : forall ty h base q obs c,
  hand_rule ty h base q obs = Some (inr c) -> is_status c = true.
Proof. exact hand_rule_status. Qed.
Print Assumptions C14_hand_rules_are_rules.

(* ---- the configured equivalence, as the judge reads it: the real comparer's verdicts (oracle table)
   count only between values that differ in float leaves alone -- a tolerance ---- *)
Theorem C14_oracle_equivalence_is_tolerance : forall t a b,
  oracle_equiv t (Some a) (Some b) = true -> strip_floats a = strip_floats b.
Proof. exact oracle_equiv_is_tolerance. Qed.
Print Assumptions C14_oracle_equivalence_is_tolerance.

(* what the three mechanisms catch, on the shapes of the observations they were built for *)
Definition fan_key := "fanspeedpb.ModelServer/FanSpeedApi.FanSpeed".
Example C14_lost_near_equal_write_is_a_failing_input :
  (* a write within the tolerance of the stored value is acknowledged with the new value but not stored *)
  let a := VM [("percentage", VS (SF32 1008971033)); ("preset_index", VS (SInt (-1))); ("direction", VS (SEnum 1))] in
  let b := VM [("percentage", VS (SF32 1017359641)); ("preset_index", VS (SInt (-1))); ("direction", VS (SEnum 1))] in
  let i := VM [("preset", VS (SStr "off")); ("direction", VS (SEnum 1))] in
  let t := [(a, b); (b, a); (a, a); (b, b); (i, i)] in
  judge (KTraceX fan_key i [TUpdate "dev" (inl a); TUpdate "dev" (inl b); TGet "dev" None (inl (Some a))] [] [] t []) = 3 /\
  judge (KTraceX fan_key i [TUpdate "dev" (inl a); TUpdate "dev" (inl b); TGet "dev" None (inl (Some b))] [] [] t []) = 0.
Proof. vm_compute. split; reflexivity. Qed.

Example C14_comparer_ignoring_a_field_is_a_failing_input :
  (* the comparer relates two values that differ in [direction]: not a tolerance, the Update must be
     streamed (stated on the predicate with the oracle equivalence, independent of the generated table) *)
  let ok := fun t init evs streams =>
    trace_ok value_eqb ref_proj (equiv_of EqOracle t) dev_names (mkTrace (Some init) evs streams) in
  let i := VM [("preset", VS (SStr "off")); ("direction", VS (SEnum 1))] in
  let j := VM [("preset", VS (SStr "off"))] in
  let t := [(i, j); (j, i); (i, i); (j, j)] in
  ok t i [TOpen "dev" None false; TUpdate "dev" (inl j)] [([("dev", i)], None)] = false /\
  ok t i [TOpen "dev" None false; TUpdate "dev" (inl j)] [([("dev", i); ("dev", j)], None)] = true /\
  (* ... while a float within the tolerance may stay unsent, or be sent *)
  let a := VM [("percentage", VS (SF32 1008971033)); ("preset_index", VS (SInt (-1))); ("direction", VS (SEnum 1))] in
  let b := VM [("percentage", VS (SF32 1017359641)); ("preset_index", VS (SInt (-1))); ("direction", VS (SEnum 1))] in
  let t' := [(a, b); (b, a); (a, a); (b, b)] in
  ok t' a [TOpen "dev" None false; TUpdate "dev" (inl b)] [([("dev", a)], None)] = true /\
  ok t' a [TOpen "dev" None false; TUpdate "dev" (inl b)] [([("dev", a); ("dev", b)], None)] = true /\
  (* ... and without the comparer's verdict it must be sent *)
  ok [] a [TOpen "dev" None false; TUpdate "dev" (inl b)] [([("dev", a)], None)] = false.
Proof. vm_compute. repeat split; reflexivity. Qed.

Example C14_hand_rule_catches_a_wrong_response :
  (* countpb: UpdateCount{count:{added:2}} on a fresh device; a response (and Get) showing added = 3 is
     coherent with itself -- the clauses about Get and streams hold -- and still not what the rule says:
     a failing input of the clause "the response is the written value" (C14_rules_ok), verdict 3 *)
  let key := "countpb.MemoryDevice/CountApi.Count" in
  let rt := ("reset_time", VM [("seconds", VS (SInt 5))]) in
  let q := mkU (Some (VM [("added", VS (SInt 2))])) None (VM [("name", VS (SStr "dev"))]) in
  let bad := VM [("added", VS (SInt 3)); rt] in
  let good := VM [("added", VS (SInt 2)); rt] in
  judge (KTraceX key (VM [rt]) [TUpdate "dev" (inl bad); TGet "dev" None (inl (Some bad))] [] [] [] [q]) = 3 /\
  C14_ok (KTraceX key (VM [rt]) [TUpdate "dev" (inl bad); TGet "dev" None (inl (Some bad))] [] [] [] [q]) = true /\
  judge (KTraceX key (VM [rt]) [TUpdate "dev" (inl good); TGet "dev" None (inl (Some good))] [] [] [] [q]) = 0 /\
  (* delta adds the stored count, in int32 *)
  let qd := mkU (Some (VM [("added", VS (SInt 2147483647))])) None (VM [("name", VS (SStr "dev")); ("delta", VS (SBool true))]) in
  let wrapped := VM [("added", VS (SInt (-2147483647))); rt] in
  judge (KTraceX key good [TUpdate "dev" (inl wrapped); TGet "dev" None (inl (Some wrapped))] [] [] [] [qd]) = 0.
Proof. vm_compute. repeat split; reflexivity. Qed.

(* ---- the written-out rules are part of the judge's property side: [C14_rules_ok] evaluates the hand rule
   of the server on the register read off the observation (no model run) and demands the observed response;
   an observation that agrees with the model run passes it (so verdict 2 cannot come from it), one that does
   not is a failing input (verdict 3) even when every Get and stream is coherent with the response ---- *)
Theorem C14_agreeing_observation_follows_the_hand_rules : forall c, agrees c = true -> C14_rules_ok c = true.
Proof. exact judge_rules_all. Qed.
Print Assumptions C14_agreeing_observation_follows_the_hand_rules.

Theorem C14_judge_sound_with_rules : forall c,
  C14_guard c = true -> trace_wf (c_server c) (c_init c) (c_evs c) = true -> agrees c = true ->
  C14_ok c && C14_rules_ok c = true.
Proof. intros c Hg Hwf Ha. rewrite (judge_sound_all c Hg Hwf Ha), (judge_rules_all c Ha). reflexivity. Qed.
Print Assumptions C14_judge_sound_with_rules.

Definition ts (n : Z) : value := VM [("seconds", VS (SInt n))].
Definition at_ (lo hi : Z) : value := VM [("@t0", VS (SInt (lo * 1000000000))); ("@t1", VS (SInt (hi * 1000000000)))].
Example C14_keyed_rules_catch_wrong_but_coherent_responses :
  let hail := "hailpb.ModelServer/HailApi.Hail" in
  let b := VM [("id", VS (SStr "1")); ("state", VS (SEnum 1)); ("note", VS (SStr "x"))] in
  (* UpdateHail{hail:{id:1, state:2, note:y}, update_mask:[state]}: only the state is written *)
  let q := mkU (Some (VM [("id", VS (SStr "1")); ("state", VS (SEnum 2)); ("note", VS (SStr "y"))])) (Some [["state"]]) (VM [("name", VS (SStr "dev"))]) in
  let good := VM [("id", VS (SStr "1")); ("state", VS (SEnum 2)); ("note", VS (SStr "x"))] in
  let bad := VM [("id", VS (SStr "1")); ("state", VS (SEnum 2)); ("note", VS (SStr "y"))] in   (* mask ignored, stored and returned *)
  judge (KTraceX hail b [TUpdate "dev" (inl good); TGet "dev" None (inl (Some good))] [] [] [] [q]) = 0 /\
  judge (KTraceX hail b [TUpdate "dev" (inl bad); TGet "dev" None (inl (Some bad))] [] [] [] [q]) = 3 /\
  (* another id: NotFound, an empty id: InvalidArgument (hail) *)
  let q2 := mkU (Some (VM [("id", VS (SStr "2")); ("state", VS (SEnum 2))])) None (VM []) in
  let q0 := mkU (Some (VM [("state", VS (SEnum 2))])) None (VM []) in
  judge (KTraceX hail b [TUpdate "dev" (inr 5); TUpdate "dev" (inr 3)] [] [] [] [q2; q0]) = 0 /\
  judge (KTraceX hail b [TUpdate "dev" (inr 5); TUpdate "dev" (inr 5)] [] [] [] [q2; q0]) = 3 /\
  (* a swallowed error: the rejected Update answered with the current value *)
  judge (KTraceX hail b [TUpdate "dev" (inl b); TGet "dev" None (inl (Some b))] [] [] [] [q2]) = 3.
Proof. vm_compute. repeat split; reflexivity. Qed.

Example C14_emergency_rule_uses_the_observed_server_clock :
  let em := "emergencypb.MemoryDevice/EmergencyApi.Emergency" in
  let b := VM [("level", VS (SEnum 1))] in                       (* no change time stored *)
  let q := mkU (Some (VM [("level", VS (SEnum 3))])) None (at_ 70 80) in
  let good := VM [("level", VS (SEnum 3)); ("level_change_time", ts 77)] in
  let bad := VM [("level", VS (SEnum 3))] in                     (* level changed, no time minted *)
  judge (KTraceX em b [TUpdate "dev" (inl good); TGet "dev" None (inl (Some good))] [] [] [] [q]) = 0 /\
  judge (KTraceX em b [TUpdate "dev" (inl bad); TGet "dev" None (inl (Some bad))] [] [] [] [q]) = 3 /\
  (* level written under a mask, a change time stored: the time did not change with the level, so the server's is used *)
  let q := mkU (Some (VM [("level", VS (SEnum 3))])) (Some [["level"]]) (at_ 70 80) in
  let b2 := VM [("level", VS (SEnum 1)); ("level_change_time", ts 5)] in
  let kept := VM [("level", VS (SEnum 3)); ("level_change_time", ts 5)] in
  let restamped := VM [("level", VS (SEnum 3)); ("level_change_time", ts 77)] in
  judge (KTraceX em b2 [TUpdate "dev" (inl restamped); TGet "dev" None (inl (Some restamped))] [] [] [] [q]) = 0 /\
  judge (KTraceX em b2 [TUpdate "dev" (inl kept); TGet "dev" None (inl (Some kept))] [] [] [] [q]) = 3.
Proof. vm_compute. repeat split; reflexivity. Qed.

(* fixed in /repo (emergencypb/memory.go): the interceptor compared Timestamp pointers, so a level change kept a stale
   level_change_time unless neither the stored nor the written message had one; v0 of the rule = the old code *)
Example C14_emergency_stale_change_time_v0_refuted :
  let b2 := VM [("level", VS (SEnum 1)); ("level_change_time", ts 5)] in
  let merged := VM [("level", VS (SEnum 3)); ("level_change_time", ts 5)] in        (* Update{level: 3, mask [level]} merged into a clone *)
  let restamped := VM [("level", VS (SEnum 3)); ("level_change_time", ts 77)] in
  emergency_after_v0 (mkU None None (at_ 70 80)) (inl restamped) b2 merged = merged /\                           (* old code: level 1 -> 3 at a change time of 5 *)
  venum "level" merged <> venum "level" b2 /\ vget "level_change_time" merged = vget "level_change_time" b2 /\
  emergency_after (mkU None None (at_ 70 80)) (inl restamped) b2 merged = restamped.
Proof. vm_compute. repeat split; congruence. Qed.

Example C14_publication_rule_version_precondition :
  let pb := "publicationpb.ModelServer/PublicationApi.Publication" in
  let b := VM [("id", VS (SStr "p")); ("version", VS (SStr "v1")); ("media_type", VS (SStr "a"))] in
  let res := VM [("id", VS (SStr "p")); ("media_type", VS (SStr "b"))] in
  let stale := mkU (Some res) None (VM [("version", VS (SStr "v0"))]) in
  let fresh := mkU (Some res) None (VM [("version", VS (SStr "v1"))]) in
  let w := VM [("id", VS (SStr "p")); ("version", VS (SStr "v2")); ("media_type", VS (SStr "b")); ("publish_time", ts 9)] in
  judge (KTraceX pb b [TUpdate "dev" (inr 9)] [] [] [] [stale]) = 0 /\
  judge (KTraceX pb b [TUpdate "dev" (inl w); TGet "dev" None (inl (Some w))] [] [] [] [stale]) = 3 /\   (* precondition skipped *)
  judge (KTraceX pb b [TUpdate "dev" (inl w); TGet "dev" None (inl (Some w))] [] [] [] [fresh]) = 0.
Proof. vm_compute. repeat split; reflexivity. Qed.

Example C14_electric_and_light_rules_use_the_device_tables :
  let el := "electricpb.ModelServer/ElectricApi.ActiveMode" in
  let b := VM [("id", VS (SStr "m1")); ("title", VS (SStr "mode m1")); ("start_time", ts 3)] in
  let q := mkU (Some (VM [("id", VS (SStr "m2")); ("title", VS (SStr "ignored"))])) None (VM []) in
  let m2 := VM [("id", VS (SStr "m2")); ("title", VS (SStr "mode m2")); ("start_time", ts 9);
                ("segments", VL [VM [("magnitude", VS (SF32 1065353216))]])] in
  let echoed := VM [("id", VS (SStr "m2")); ("title", VS (SStr "ignored")); ("start_time", ts 9)] in   (* the request stored instead of the device's mode *)
  judge (KTraceX el b [TUpdate "dev" (inl m2); TGet "dev" None (inl (Some m2))] [] [] [] [q]) = 0 /\
  judge (KTraceX el b [TUpdate "dev" (inl echoed); TGet "dev" None (inl (Some echoed))] [] [] [] [q]) = 3 /\
  judge (KTraceX el b [TUpdate "dev" (inr 5)] [] [] [] [mkU (Some (VM [("id", VS (SStr "nope"))])) None (VM [])]) = 0 /\
  let li := "lightpb.ModelServer/LightApi.Brightness" in
  let lb := VM [("level_percent", VS (SF32 1109393408))] in       (* 40 % *)
  let cfg n := VM [("@presets", VS (SInt n))] in
  let byname := mkU (Some (VM [("preset", VM [("name", VS (SStr "dim"))])])) (Some [["preset"]]) in
  let dim := VM [("level_percent", VS (SF32 1101004800)); ("preset", VM [("name", VS (SStr "dim")); ("title", VS (SStr "Dim"))])] in
  let nolevel := VM [("level_percent", VS (SF32 1109393408)); ("preset", VM [("name", VS (SStr "dim")); ("title", VS (SStr "Dim"))])] in
  (* a model that knows "dim": the level follows although the mask names preset only *)
  judge (KTraceX li lb [TUpdate "dev" (inl dim); TGet "dev" None (inl (Some dim))] [] [] [] [byname (cfg 1)]) = 0 /\
  judge (KTraceX li lb [TUpdate "dev" (inl nolevel); TGet "dev" None (inl (Some nolevel))] [] [] [] [byname (cfg 1)]) = 3.
Proof. vm_compute. repeat split; reflexivity. Qed.

(* ---- defects ---- *)
(* fixed (4 handlers: count Update/Reset, emergency, air temperature memory device): the handler
   asserted the result type before looking at err; a rejected write was a panic, not a status *)
Theorem C14_unchecked_assert_v0_refuted :
  exists (rule : option Z -> unit -> Z + Z) (s : sstate Z unit),
    snd (step Z.eqb 0 (fun _ x => x) (fun _ => true) (fun n => n) rule false ["dev"] s (QUpdate "dev" tt))
      = PUpdate (inr (-1)) /\
    snd (step Z.eqb 0 (fun _ x => x) (fun _ => true) (fun n => n) rule true ["dev"] s (QUpdate "dev" tt))
      = PUpdate (inr 3).
Proof.
  exists (fun _ _ => inr 3). exists (srv_init unit (fun n => n) (Some 7)). split; reflexivity.
Qed.

(* fixed 406d0ba (openclosepb): GetPositions applied the read mask to every position instead of to the
   OpenClosePositions message -- the masked Get was not the projection of the full Get.  The v0
   variant of the model reproduces the recorded observation, which fails the property; the current
   model does not produce it *)
Theorem C14_openclose_masked_get_v0_refuted :
  exists init evs streams,
    agrees_v0 (KTrace oc_server init evs streams []) = true /\
    C14_guard (KTrace oc_server init evs streams []) = true /\
    C14_ok (KTrace oc_server init evs streams []) = false /\
    agrees (KTrace oc_server init evs streams []) = false.
Proof.
  exists (VM [("states", VL [VM [("direction", VS (SEnum 1)); ("open_percent", VS (SF32 1065353216))]])]).
  exists [TGet "dev" (Some [["preset"]])
            (inl (Some (VM [("states", VL [VM []])])))].
  exists []. vm_compute. repeat split; reflexivity.
Qed.

(* fixed cb6a657 (openclosepb): PullPositions opened while no position exists never sent anything: no
   first value, and no later update either *)
Theorem C14_openclose_dead_pull_v0_refuted :
  exists init evs streams,
    agrees_v0 (KTrace oc_server init evs streams []) = true /\
    C14_ok (KTrace oc_server init evs streams []) = false /\
    agrees (KTrace oc_server init evs streams []) = false.
Proof.
  exists (VM []).
  exists [TOpen "dev" None false;
          TUpdate "dev" (inl (VM [("states", VL [VM [("direction", VS (SEnum 1))]])]))].
  exists [([], None)]. vm_compute. repeat split; reflexivity.
Qed.

(* ... and what the repaired server shows on the same two histories is accepted *)
Example C14_openclose_repaired :
  judge (KTrace oc_server
           (VM [("states", VL [VM [("direction", VS (SEnum 1)); ("open_percent", VS (SF32 1065353216))]])])
           [TGet "dev" (Some [["preset"]]) (inl (Some (VM [])))] [] []) = 0 /\
  judge (KTrace oc_server (VM [])
           [TOpen "dev" None false;
            TUpdate "dev" (inl (VM [("states", VL [VM [("direction", VS (SEnum 1))]])]))]
           [([("dev", VM []); ("dev", VM [("states", VL [VM [("direction", VS (SEnum 1))]])])], None)] []) = 0.
Proof. vm_compute. split; reflexivity. Qed.

(* recorded (openclosepb, class 3): an UpdatePositions with two positions is two writes of the
   collection behind the resource; an open stream shows the value in between, which no Get and no
   Update response ever showed.  The property predicate fails on the observation; with exactly that
   allowance (n-1 intermediate messages before the response of an Update writing n >= 2 positions)
   it holds, and the judge answers 103.  The same stream without that Update being a two-position
   one is a plain failing input (3) *)
Theorem C14_openclose_piecewise_update_refuted :
  let p1 := VM [("direction", VS (SEnum 1)); ("open_percent", VS (SF32 1065353216))] in
  let p2 := VM [("direction", VS (SEnum 2)); ("open_percent", VS (SF32 1065353216))] in
  let evs := [TOpen "dev" None false; TUpdate "dev" (inl (VM [("states", VL [p1; p2])]))] in
  let streams := [([("dev", VM []); ("dev", VM [("states", VL [p1])]); ("dev", VM [("states", VL [p1; p2])])], None)] in
  C14_ok (KTrace oc_server (VM []) evs streams [2%nat]) = false /\
  relaxed_ok (KTrace oc_server (VM []) evs streams [2%nat]) = true /\
  judge (KTrace oc_server (VM []) evs streams [2%nat]) = 103 /\
  judge (KTrace oc_server (VM []) evs streams []) = 3.
Proof. vm_compute. repeat split; reflexivity. Qed.

(* ---- non-vacuity: a history with two registered names, a masked stream, a rejected Update, an
   unchanged value under an equivalence and a cancel; the model's trace is accepted and changes ---- *)
Example C14_nonvacuous_history :
  let rule := fun (b : option Z) (q : Z) => if (q <? 0)%Z then inr 3 else inl q : Z + Z in
  let t := trace_of_run Z.eqb 0 (fun (k : Z) (x : Z) => (x mod k)%Z) (Some (option_eqb Z.eqb)) (fun n => n) rule
             ["dev"; "dev2"] (Some 5)
             [QPull "dev2" (Some 10) false; QUpdate "dev" 17; QUpdate "dev" (-1); QUpdate "dev2" 27;
              QGet "dev" None; QGet "nobody" None; QCancel 0%nat; QUpdate "dev" 8; QGet "dev2" (Some 3)] in
  t_streams t = [([("dev2", 5); ("dev2", 7)], Some 1)] /\
  map (fun e => match e with TGet _ _ r => Some r | _ => None end) (t_evs t) =
    [None; None; None; None; Some (inl (Some 27)); Some (inr 5); None; None; Some (inl (Some 2))] /\
  trace_ok Z.eqb (fun (k : Z) (x : Z) => (x mod k)%Z) (Some (option_eqb Z.eqb)) ["dev"; "dev2"] t = true.
Proof. vm_compute. repeat split; reflexivity. Qed.

(* ---- stalled readers: stream 1 (updates only) stops receiving after its first message; the other
   stream and every Update go on as if nothing had happened; the model's trace is accepted.  The
   shape of C14-r4-2 -- with a stalled updates-only stream open, an Update is answered with an error
   (2, after blocking in bus.Send) although the next Get shows its value -- is rejected by the property
   predicate: "an Update rejected with any error status leaves Get unchanged". ---- *)
Example C14_stalled_reader_nonvacuous :
  let rule := fun (b : option Z) (q : Z) => if (q <? 0)%Z then inr 3 else inl q : Z + Z in
  let qs := [QPull "dev" None false; QPull "dev2" None true; QUpdate "dev" 1; QStall 1%nat;
             QUpdate "dev" 2; QUpdate "dev" (-1); QUpdate "dev" 3; QGet "dev" None; QCancel 1%nat; QUpdate "dev" 4] in
  let t := trace_of_run Z.eqb 0 (fun (k : Z) (x : Z) => x) None (fun n => n) rule ["dev"; "dev2"] (Some 0) qs in
  t_streams t = [([("dev", 0); ("dev", 1); ("dev", 2); ("dev", 3); ("dev", 4)], None); ([("dev2", 1)], Some 1)] /\
  trace_ok Z.eqb (fun (k : Z) (x : Z) => x) None ["dev"; "dev2"] t = true /\
  trace_ok Z.eqb (fun (k : Z) (x : Z) => x) None ["dev"; "dev2"]
    (mkTrace (Some 0)
       [TOpen "dev2" None true; TStall 0%nat; TUpdate "dev" (inl 1); TUpdate "dev" (inr 2); TGet "dev" None (inl (Some 2))]
       [([], None)]) = false.
Proof. vm_compute. repeat split; reflexivity. Qed.

(* Print Assumptions for every theorem above that did not have its own line yet *)
Print Assumptions C14_unchecked_assert_v0_refuted.
Print Assumptions C14_openclose_masked_get_v0_refuted.
Print Assumptions C14_openclose_dead_pull_v0_refuted.
Print Assumptions C14_openclose_piecewise_update_refuted.
