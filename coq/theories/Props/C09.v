(* C09 -- Lossy delivery preserves the folded view; slow readers never block writers.
   Theorems only; proofs live in Excess/*Proofs.v.

   Reading guide.  mergeCollectionExcess / DropExcess are goroutines that select on an unbuffered
   input and output; they commit one select case at a time, so every concurrent execution is one
   sequence over {Send c, Recv, Close} and "for all action sequences" covers all interleavings of
   producers and the consumer (trusted: Go's channel semantics, see bin/props.d/C09.py).
   A view maps ids to current values; fold_view applies events in order; a valid edit script
   has ADD only on absent ids, UPDATE/REPLACE/REMOVE only on present ids, each with
   old = the previous new.  v0 is the view both sides start from (the seed). *)
From SC Require Import Base.Prelude Excess.Change Excess.MergeExcess Excess.DropExcess
  Excess.MergeProofs Excess.DropProofs Excess.C09Judge Excess.TableProofs Excess.JudgeProofs.
From SC Require Gen.MergeTable.

(* the model's kind algebra IS the code's: every row of the table generated from the working tree *)
Theorem C09_merge_model_matches_table :
  forall a b out send, In (a, b, out, send) Gen.MergeTable.table -> merge_changes a b = (out, send).
Proof. exact model_is_table. Qed.
Print Assumptions C09_merge_model_matches_table.

(* one merge step: pending a (valid on the receiver's value x), next edit b (valid after a) *)
Theorem C09_merge_sound : forall a b x,
  valid_at a x = true -> valid_at b (result a x) = true ->
  match merge_changes a b with
  | (m, true) => valid_at m x = true /\ result m x = result b (result a x) /\ cid m = cid b
  | (_, false) => result b (result a x) = x
  end.
Proof. exact merge_sound. Qed.
Print Assumptions C09_merge_sound.

(* The invariant, for EVERY sequence of Send / Recv whose sent events form a valid edit script:
   fold_preserved (received fold, then the pending changes = sent fold, at every point since the
   statement holds for every prefix), old_chain (what was received, and what is pending, is valid
   against the receiver's own folded view), one pending change per id with the FIFO holding
   exactly the pending ids, and every Send was taken. *)
Theorem C09_fold_preserved : forall l v0,
  no_close l = true -> valid_script (sent_of l) v0 = true ->
  let '(s', os) := m_run m_init l in
  (forall i, fold_view (pending s') (fold_view (got_of os) v0) i = fold_view (sent_of l) v0 i) /\
  valid_script (got_of os) v0 = true /\
  (forall c, In c (pending s') -> valid c (fold_view (got_of os) v0) = true) /\
  NoDup (queue s') /\ (forall i, In i (queue s') <-> msgs s' i <> None) /\
  List.length (pending s') = List.length (queue s') /\
  (forall n c, nth_error l n = Some (Send c) -> nth_error os n = Some OSent).
Proof. exact lossy_run_invariant. Qed.
Print Assumptions C09_fold_preserved.

(* the consumer eventually has the latest state: as many Recv as there are queued ids deliver the
   pending changes, nothing is left, and the received fold equals the sent fold *)
Theorem C09_drain_delivers_latest : forall l v0,
  no_close l = true -> valid_script (sent_of l) v0 = true ->
  let '(s', os) := m_run m_init l in
  let '(s'', os') := m_run s' (repeat Recv (List.length (queue s'))) in
  os' = map OGot (pending s') /\ queue s'' = [] /\
  (forall i, fold_view (got_of (os ++ os')) v0 i = fold_view (sent_of l) v0 i) /\
  snd (m_step s'' Recv) = ONothing.
Proof. exact drain_delivers_latest. Qed.
Print Assumptions C09_drain_delivers_latest.

(* writers never wait: Send is enabled in every open state, whatever is pending *)
Theorem C09_send_always_enabled : forall s c, closed s = false ->
  snd (m_step s (Send c)) = OSent /\ closed (fst (m_step s (Send c))) = false.
Proof. intros s c H. split; [exact (send_enabled s c H)|exact (send_keeps_open s c H)]. Qed.
Print Assumptions C09_send_always_enabled.

(* The size dimension.  Nothing above has a hypothesis on how much is pending; said outright:
   (1) the stage has NO capacity -- for every n and every n changes to n DIFFERENT ids (any kinds and
       values, no validity hypothesis) sent with no receive in between: every Send is taken, all n
       are held in arrival order, and n receives then deliver exactly these changes, in order,
       unmerged ("memory proportional to one change for each id that has not been emitted yet", and
       not a change less: a stage that hands over the oldest before taking more once k ids are
       pending is not this model for any k);
   (2) so a backlog of every length n is reachable, by a valid script;
   (3) and from EVERY open state -- whatever its backlog -- every Send of every further sequence of
       sends and receives is taken.
   The tie to the code at sizes no small id alphabet reaches: single-action sequences and public-API
   bursts that leave 600..2000 (thorough: up to 4000) different ids pending (tags merge:size,
   api:coll-big), and the source fact KSrc: the goroutine parks nowhere but in a receive from its
   input or in a select that has such a case (C09Judge.src_receptive). *)
From SC Require Import Excess.SizeProofs.

Theorem C09_no_capacity_limit : forall cs, NoDup (map cid cs) ->
  let '(s', os) := m_run m_init (map Send cs) in
  os = repeat OSent (List.length cs) /\ closed s' = false /\
  queue s' = map cid cs /\ pending s' = cs /\
  let '(s'', os') := m_run s' (repeat Recv (List.length cs)) in
  os' = map OGot cs /\ queue s'' = [] /\ snd (m_step s'' Recv) = ONothing.
Proof. exact burst_all_held. Qed.
Print Assumptions C09_no_capacity_limit.

Theorem C09_backlog_of_every_length_reachable : forall n, exists l s os,
  m_run m_init l = (s, os) /\ closed s = false /\ List.length (queue s) = n /\
  List.length (pending s) = n /\ no_close l = true /\ valid_script (sent_of l) empty_view = true.
Proof. exact backlog_of_every_length_reachable. Qed.
Print Assumptions C09_backlog_of_every_length_reachable.

Theorem C09_sends_taken_whatever_the_backlog : forall n s l, closed s = false -> List.length (queue s) = n ->
  no_close l = true ->
  forall k c, nth_error l k = Some (Send c) -> nth_error (snd (m_run s l)) k = Some OSent.
Proof. intros n s l Ho _ Hc. exact (sends_taken_from_any_state l s Ho Hc). Qed.
Print Assumptions C09_sends_taken_whatever_the_backlog.

Example C09_no_capacity_limit_nonvacuous :
  let cs := map add_of (map Z.of_nat (seq 0 700)) in
  NoDup (map cid cs) /\ List.length (queue (fst (m_run m_init (map Send cs)))) = 700%nat /\
  snd (m_step (fst (m_run m_init (map Send cs))) (Send (add_of 700))) = OSent.
Proof. split; [apply seq_ids_nodup|]. vm_compute. auto. Qed.

(* an add followed by a remove cancels out (in any reachable state with nothing pending for the id) *)
Theorem C09_add_remove_cancels : forall s vr vs a b,
  Inv s vr vs -> msgs s (cid a) = None -> cid b = cid a ->
  ckind a = K_ADD -> ckind b = K_REMOVE ->
  let s2 := fst (m_step (fst (m_step s (Send a))) (Send b)) in
  queue s2 = queue s /\ (forall j, msgs s2 j = msgs s j).
Proof. exact add_remove_cancels_state. Qed.
Print Assumptions C09_add_remove_cancels.

(* a remove followed by an add becomes a replace whose old value is the removed value *)
Theorem C09_remove_add_replaces : forall s vr vs a b,
  Inv s vr vs -> msgs s (cid a) = None -> cid b = cid a ->
  ckind a = K_REMOVE -> ckind b = K_ADD ->
  let s2 := fst (m_step (fst (m_step s (Send a))) (Send b)) in
  msgs s2 (cid a) = Some (mkChange (cid b) K_REPLACE (cold a) (cnew b) (ctime b) (cseed b) (clast a || clast b)) /\
  queue s2 = queue s ++ [cid a] /\ (forall j, j <> cid a -> msgs s2 j = msgs s j).
Proof. exact remove_add_replaces_state. Qed.
Print Assumptions C09_remove_add_replaces.

(* old values chain through merges: a merged change keeps the old value of the first change *)
Theorem C09_old_chain : forall a b x,
  valid_at a x = true -> valid_at b (result a x) = true ->
  snd (merge_changes a b) = true -> cold (fst (merge_changes a b)) = cold a.
Proof. exact merge_keeps_first_old. Qed.
Print Assumptions C09_old_chain.

(* the states of C09_add_remove_cancels / C09_remove_add_replaces are exactly the reachable ones *)
Theorem C09_reachable_states_satisfy_Inv : forall l v0,
  no_close l = true -> valid_script (sent_of l) v0 = true ->
  Inv (fst (m_run m_init l)) (fold_view (got_of (snd (m_run m_init l))) v0) (fold_view (sent_of l) v0).
Proof.
  intros l v0 Hc Hs. pose proof (run_invariant l m_init v0 v0 (inv_init v0) Hc Hs) as R.
  destruct (m_run m_init l) as [s' os]. exact (proj1 R).
Qed.
Print Assumptions C09_reachable_states_satisfy_Inv.

(* a consumer that receives between sends loses nothing: every change arrives unchanged *)
Theorem C09_nothing_dropped_if_recv_between_sends : forall cs,
  snd (m_run m_init (flat_map (fun c => [Send c; Recv]) cs)) = flat_map (fun c => [OSent; OGot c]) cs.
Proof.
  intros cs. destruct (alternate_lossless cs m_init eq_refl eq_refl) as [s' [E _]]. rewrite E. reflexivity.
Qed.
Print Assumptions C09_nothing_dropped_if_recv_between_sends.

(* DropExcess: the receiver always gets the most recent message *)
Theorem C09_drop_recv_gets_latest : forall pre m more,
  d_no_close pre = true ->
  exists s', d_run d_init (pre ++ map DSend (m :: more) ++ [DRecv]) =
             (s', snd (d_run d_init pre) ++ map (fun _ => DSent) (m :: more) ++ [DGot (last more m)])
             /\ slot s' = None /\ dclosed s' = false.
Proof. intros pre m more H. exact (recv_gets_latest pre m more d_init eq_refl H). Qed.
Print Assumptions C09_drop_recv_gets_latest.

(* ... and gets nothing exactly when nothing was sent since its previous Recv *)
Theorem C09_drop_recv_nothing_iff : forall l, d_no_close l = true ->
  snd (d_step (fst (d_run d_init l)) DRecv) =
  match slot_after d_init l with Some m => DGot m | None => DNothing end.
Proof. intros l H. exact (recv_nothing_iff l d_init eq_refl H). Qed.
Print Assumptions C09_drop_recv_nothing_iff.

Theorem C09_drop_send_always_enabled : forall s m, dclosed s = false -> snd (d_step s (DSend m)) = DSent.
Proof. exact d_send_enabled. Qed.
Print Assumptions C09_drop_send_always_enabled.

(* the code's table itself satisfies the one-step fold-preservation law (no model involved) *)
Theorem C09_table_rows_preserve_fold :
  forallb (fun r => let '(a, b, out, send) := r in row_law a b out send) Gen.MergeTable.table = true.
Proof. exact table_rows_preserve_fold. Qed.
Print Assumptions C09_table_rows_preserve_fold.

(* the predicate the check evaluates on every observation (C09Judge.C09_ok: two folded views, a
   merge-free bound on what can be pending) holds of every model-conforming observation inside
   the guard: it is implied by the theorems above, for all sequences / rows *)
Theorem C09_judge_sound : forall c,
  agrees c = true -> C09_guard c = true ->
  match c with KMerge _ _ | KDrop _ _ | KRow _ _ _ _ => C09_ok c = true | _ => True end.
Proof. exact judge_sound. Qed.
Print Assumptions C09_judge_sound.

Theorem C09_model_passes_oracle : forall acts,
  no_close acts = true -> valid_script (sent_of acts) empty_view = true ->
  merge_ok acts (snd (m_run m_init acts)) = true.
Proof.
  intros acts H1 H2. apply judge_sound_merge. unfold merge_guard. rewrite H1, H2. reflexivity.
Qed.
Print Assumptions C09_model_passes_oracle.

(* Listeners are independent -- what the theorem side says and does not say.  The model's
   [Send c] takes the change as a VALUE (Go: `newMessage := *(newAny.(*CollectionChange))`, and
   `change := messages[id]; return &change` on the way out): the state machine owns its pending
   changes and cannot touch the object the bus also hands to the other listeners; Gallina cannot
   even express such aliasing.  So the theorems are about one pipeline in isolation, and "a stalled
   lossy subscriber does not alter what another subscriber receives" is a hypothesis of the model,
   not a consequence.  It is checked on the implementation directly: (1) after every driven
   sequence each sent *CollectionChange object must be unchanged (Direct c09:sent-object-modified),
   (2) two subscribers on one Collection / Value, a stalled lossy one registered before and after a
   prompt backpressured one -- the latter's stream must be the exact committed edit script (KApiColl
   true / KApiValue true cases tagged multi-*), the former's drained fold the final List. *)

(* Not a theorem: the wall-clock parts of the statement ("complete without waiting" as a latency,
   the five second send timeout of Value.set, writers waiting under backpressure).  They are
   measured by the harness (KApi* cases) -- see notes/C09.md. *)

(* non-vacuity *)
Example C09_nonvacuous_script :
  let l := [Short.A 0 1 101; Short.A 1 2 102; Short.U 0 1 3 103; Recv; Short.D 1 2 104; Short.A 1 4 105;
            Short.D 0 3 106; Recv; Recv; Recv] in
  no_close l = true /\ valid_script (sent_of l) empty_view = true /\
  snd (m_run m_init l) =
    [OSent; OSent; OSent; OGot (mkChange 1 1 None (Some 2) 102 false false); OSent; OSent; OSent;
     OGot (mkChange 1 4 (Some 2) (Some 4) 105 false false); ONothing; ONothing] /\
  merge_ok l (snd (m_run m_init l)) = true.
Proof. vm_compute. auto. Qed.

Example C09_nonvacuous_drop :
  snd (d_run d_init [DRecv; DSend 1; DSend 2; DSend 3; DRecv; DRecv; DSend 4; DRecv]) =
  [DNothing; DSent; DSent; DSent; DGot 3; DNothing; DSent; DGot 4].
Proof. vm_compute. reflexivity. Qed.

(* ------------------------------------------------------------------------------------------ *)
(* changesAfter and the assembled pipelines (Excess/ChangesAfter.v, Excess/Pipeline.v)          *)
(* ------------------------------------------------------------------------------------------ *)
From SC Require Import Excess.ChangesAfter Excess.ChangesAfterProofs Excess.Pipeline Excess.PipelineProofs.

(* Arrival order.  Since /repo 3d54e87 publications leave in commit order (ChangesAfter.v says what a
   listener can see exactly; C09_in_order_arrival_drops_a_prefix below).  The theorems need less:
   only the order of the publications of each id.  Two streams with the same per-id subsequences
   are the same edit script, so they also cover the store as it was before that commit (Update
   published after releasing the lock, publications of different ids could cross): *)
Theorem C09_arrival_order_irrelevant_across_ids : forall l1 l2 v,
  per_id_same l1 l2 -> valid_script l1 v = true ->
  valid_script l2 v = true /\ (forall i, fold_view l2 v i = fold_view l1 v i).
Proof. exact reorder_preserves. Qed.
Print Assumptions C09_arrival_order_irrelevant_across_ids.

(* the lossy front mergeCollectionExcess(changesAfter(in, seeded)): for the committed script hist
   (commit order), EVERY arrival order with the same per-id subsequences above the threshold --
   including late arrivals of publications the seed already shows -- and every receive pattern:
   fold(received) then pending = fold(committed after the seed), received is a valid script *)
Theorem C09_lossy_front_fold_preserved : forall thr hist acts v0,
  per_id_same (changes_after thr hist) (changes_after thr (pubs_of acts)) ->
  valid_script (changes_after thr hist) v0 = true ->
  let '(s', os) := m_run m_init (l_proj thr acts) in
  (forall i, fold_view (pending s') (fold_view (got_of os) v0) i = fold_view (changes_after thr hist) v0 i) /\
  valid_script (got_of os) v0 = true /\
  (forall n c, nth_error (l_proj thr acts) n = Some (Send c) -> nth_error os n = Some OSent).
Proof. exact lossy_front_fold_preserved. Qed.
Print Assumptions C09_lossy_front_fold_preserved.

(* (i) The assembled pipeline writer -> changesAfter -> mergeCollectionExcess -> Pull loop ->
   subscriber, for EVERY action sequence over Publish / Step i / PRecv (any reader pace, any
   internal scheduling, any number of seed events still to be taken), any post-processing `post`
   of the Pull loop (include, read mask, equivalence): what the subscriber has received plus what
   the Pull loop offers is post applied to a valid edit script D, and D followed by everything
   upstream folds to what was published above the threshold. *)
Theorem C09_pipeline_invariant : forall post thr v0 l nseed s' rcv,
  no_cancel l = true ->
  valid_script (changes_after thr (published_of l)) v0 = true ->
  p_run post (p_init thr nseed) l = Some (s', rcv) ->
  exists D,
    rcv ++ olist (p_pl s') = filter_map post D /\ valid_script D v0 = true /\
    (forall i, fold_view (upstream s') (fold_view D v0) i
               = fold_view (changes_after thr (published_of l)) v0 i) /\
    closed (p_mg s') = false /\ p_cancel s' = false.
Proof. exact pipeline_invariant. Qed.
Print Assumptions C09_pipeline_invariant.

(* ... with the default ReadRequest (post = Some) and any arrival order the store can produce *)
Theorem C09_pipeline_fold_preserved : forall thr v0 hist l nseed s' rcv,
  no_cancel l = true ->
  per_id_same (changes_after thr hist) (changes_after thr (published_of l)) ->
  valid_script (changes_after thr hist) v0 = true ->
  p_run Some (p_init thr nseed) l = Some (s', rcv) ->
  valid_script (rcv ++ olist (p_pl s')) v0 = true /\
  (forall i, fold_view (upstream s') (fold_view (olist (p_pl s')) (fold_view rcv v0)) i
             = fold_view (changes_after thr hist) v0 i).
Proof. exact pipeline_fold_preserved_any_arrival. Qed.
Print Assumptions C09_pipeline_fold_preserved.

(* (ii) writers never wait for the reader: in every state of the lossy pipeline -- whatever the
   subscriber has or has not taken, seed included -- the writer's hand-over is enabled, at most
   after ONE internal step that involves only the two upstream goroutines and changes nothing the
   reader can see; Publish itself is enabled exactly when changesAfter holds nothing *)
Theorem C09_lossy_writer_never_waits_for_reader : forall post s p, p_cancel s = false ->
  (exists s', p_step post s (Publish p) = Some (s', OutNone)) \/
  (exists s1 s2, p_step post s (Step 0) = Some (s1, OutNone) /\
                 p_step post s1 (Publish p) = Some (s2, OutNone) /\
                 p_seed s1 = p_seed s /\ p_pl s1 = p_pl s).
Proof. exact lossy_writer_never_waits_for_reader. Qed.
Print Assumptions C09_lossy_writer_never_waits_for_reader.

Theorem C09_lossy_publish_enabled_iff : forall post s p,
  p_step post s (Publish p) <> None <-> (p_cancel s = false /\ ca_held (p_ca s) = None).
Proof. exact lossy_publish_enabled_iff. Qed.
Print Assumptions C09_lossy_publish_enabled_iff.

(* ... and with backpressure they wait exactly for delivery: Publish is enabled iff the seed has
   been taken and the Pull loop holds nothing, and nothing is dropped: what was received plus what
   is offered is post of everything published above the threshold, in order *)
Theorem C09_backpressure_publish_enabled_iff : forall post s p,
  b_step post s (Publish p) <> None <-> (b_cancel s = false /\ b_seed s = O /\ b_pl s = None).
Proof. exact bp_publish_enabled_iff. Qed.
Print Assumptions C09_backpressure_publish_enabled_iff.

Theorem C09_backpressure_nothing_dropped : forall post l s s' out,
  no_cancel l = true -> b_run post s l = Some (s', out) ->
  out ++ olist (b_pl s') = olist (b_pl s) ++ filter_map post (changes_after (b_thr s) (published_of l))
  /\ b_thr s' = b_thr s /\ b_cancel s' = b_cancel s.
Proof. exact bp_nothing_dropped. Qed.
Print Assumptions C09_backpressure_nothing_dropped.

(* (iii) eventual delivery, with the measure mu = 3*[changesAfter holds] + 2*|merge queue| +
   [Pull loop holds] + seed events left: every enabled internal step or receive lowers it, one is
   enabled while it is positive, so after publishing stops at most mu further steps -- ANY such
   sequence is at most that long -- empty the pipeline, and then the subscriber has received post
   of a valid script with the fold of everything published *)
Theorem C09_pipeline_measure_decreases : forall post s a s' o,
  closed (p_mg s) = false -> internal_or_recv a = true -> p_step post s a = Some (s', o) ->
  (mu s' < mu s)%nat /\ closed (p_mg s') = false /\ p_cancel s' = false.
Proof. exact mu_decreases. Qed.
Print Assumptions C09_pipeline_measure_decreases.

Theorem C09_pipeline_progress : forall post s, p_cancel s = false -> closed (p_mg s) = false -> (0 < mu s)%nat ->
  exists a s' o, internal_or_recv a = true /\ p_step post s a = Some (s', o).
Proof. exact progress. Qed.
Print Assumptions C09_pipeline_progress.

Theorem C09_pipeline_drain_bound : forall post l s s' out, closed (p_mg s) = false ->
  forallb internal_or_recv l = true -> p_run post s l = Some (s', out) ->
  (List.length l + mu s' <= mu s)%nat.
Proof. exact drain_bound. Qed.
Print Assumptions C09_pipeline_drain_bound.

Theorem C09_pipeline_eventual_delivery : forall post thr v0 l nseed s rcv,
  no_cancel l = true ->
  valid_script (changes_after thr (published_of l)) v0 = true ->
  p_run post (p_init thr nseed) l = Some (s, rcv) ->
  exists l2 s2 out2,
    forallb internal_or_recv l2 = true /\ (List.length l2 <= mu s)%nat /\
    p_run post s l2 = Some (s2, out2) /\ mu s2 = O /\
    exists D, rcv ++ out2 = filter_map post D /\ valid_script D v0 = true /\
      (forall i, fold_view D v0 i = fold_view (changes_after thr (published_of l)) v0 i).
Proof. exact pipeline_eventual_delivery. Qed.
Print Assumptions C09_pipeline_eventual_delivery.

(* the trace checker the correspondence uses is sound: an accepted external trace IS a run of the
   product machine (so all of the above applies to what was observed) *)
Theorem C09_pipe_checker_sound : forall post fuel thr nseed es,
  pipe_agrees post fuel thr nseed es = true ->
  exists l s', p_trace post (p_init thr nseed) l = Some (s', es) /\
               p_run post (p_init thr nseed) l = Some (s', recvd es) /\ published_of l = epubs es.
Proof. exact pipe_agrees_sound. Qed.
Print Assumptions C09_pipe_checker_sound.

Theorem C09_pipe_drained_trace_has_committed_fold : forall fuel thr nseed hist es v0,
  pipe_agrees_drained Some fuel thr nseed es = true ->
  per_id_same (changes_after thr hist) (changes_after thr (epubs es)) ->
  valid_script (changes_after thr hist) v0 = true ->
  valid_script (recvd es) v0 = true /\
  (forall i, fold_view (recvd es) v0 i = fold_view (changes_after thr hist) v0 i).
Proof. exact pipe_agrees_drained_sound. Qed.
Print Assumptions C09_pipe_drained_trace_has_committed_fold.

Theorem C09_judge_sound_lossy_front : forall seeded hist acts os,
  agrees (KLossy seeded hist acts os) = true -> C09_guard (KLossy seeded hist acts os) = true ->
  C09_ok (KLossy seeded hist acts os) = true.
Proof. exact judge_sound_lossy. Qed.
Print Assumptions C09_judge_sound_lossy_front.

(* since /repo 3d54e87 publications leave in commit order; then changesAfter only ever drops a prefix
   (the arrivals the seed already shows), and what it passes on is the rest, unchanged *)
Theorem C09_in_order_arrival_drops_a_prefix : forall thr arr, increasing arr = true ->
  exists stale live, arr = stale ++ live /\
    forallb (fun p => negb (ca_pass thr p)) stale = true /\
    forallb (ca_pass thr) live = true /\
    changes_after thr arr = map pchange live.
Proof. exact in_order_drops_a_prefix. Qed.
Print Assumptions C09_in_order_arrival_drops_a_prefix.

(* non-vacuity (of the model's larger class of orders; the store itself no longer lets publications
   cross): two writers of different ids publish in the opposite order to their commits while
   the subscriber is stalled; a stale publication (commit 1, already in the seed) arrives late *)
Example C09_nonvacuous_pipeline :
  let a0 := mkChange 0 1 None (Some 1) 0 false false in
  let u0 := mkChange 0 2 (Some 1) (Some 3) 0 false false in
  let a1 := mkChange 1 1 None (Some 2) 0 false false in
  let hist := [mkPub a0 1; mkPub u0 2; mkPub a1 3] in
  let l := [Publish (mkPub a1 3); Step 0; Publish (mkPub a0 1); Publish (mkPub u0 2); PRecv; Step 1; Step 0; PRecv; Step 1; PRecv] in
  let v0 := seed_view 1 hist in
  no_cancel l = true /\
  per_id_sameb (changes_after 1 hist) (changes_after 1 (published_of l)) = true /\
  valid_script (changes_after 1 hist) v0 = true /\
  option_map snd (p_run Some (p_init 1 1) l) = Some [a1; u0] /\
  pipe_agrees_drained Some 4 1 1 [EPub (mkPub a1 3); EPub (mkPub a0 1); EPub (mkPub u0 2); ESeed; ERecv a1; ERecv u0] = true.
Proof. vm_compute. auto. Qed.

(* ------------------------------------------------------------------------------------------ *)
(* Value: writer -> DropExcess -> Pull loop (equivalence against the last value sent) -> subscriber *)
(* ------------------------------------------------------------------------------------------ *)
From SC Require Import Excess.ValuePipeProofs.

(* (ii) the writer's hand-over is enabled in every live state, whatever the subscriber has taken *)
Theorem C09_value_publish_always_enabled : forall eqv s m, v_cancel s = false ->
  exists s', v_step eqv s (VPublish m) = Some (s', None).
Proof. exact value_publish_always_enabled. Qed.
Print Assumptions C09_value_publish_always_enabled.

(* (i)+(iii) for EVERY action sequence over VPublish / VStep / VRecv: once nothing is in flight the
   last value received is the newest value written, or the newest one was left out because the
   configured equivalence says it equals the last one received *)
Theorem C09_value_latest : forall eqv l seed s rcv,
  vno_cancel l = true -> v_run eqv (v_init seed) l = Some (s, rcv) ->
  v_mu s = O -> vpublished_of l <> [] ->
  lastZ rcv = lastZ (vpublished_of l) \/
  (exists m, lastZ (vpublished_of l) = Some m /\ eqv (lastZ rcv) m = true).
Proof. exact value_latest. Qed.
Print Assumptions C09_value_latest.

Theorem C09_value_latest_no_equivalence : forall l seed s rcv,
  vno_cancel l = true -> v_run (fun _ _ => false) (v_init seed) l = Some (s, rcv) ->
  v_mu s = O -> vpublished_of l <> [] -> lastZ rcv = lastZ (vpublished_of l).
Proof. exact value_latest_no_equivalence. Qed.
Print Assumptions C09_value_latest_no_equivalence.

(* the measure v_mu = 2*[slot full] + [Pull loop holds] + [seed not taken]: any run of internal
   steps and receives is at most v_mu long, and one that empties the pipeline exists *)
Theorem C09_value_drain_bound : forall eqv l s s' out, dclosed (v_de s) = false ->
  forallb v_internal_or_recv l = true -> v_run eqv s l = Some (s', out) ->
  (List.length l + v_mu s' <= v_mu s)%nat.
Proof. exact v_drain_bound. Qed.
Print Assumptions C09_value_drain_bound.

Theorem C09_value_drain_exists : forall eqv n s, (v_mu s <= n)%nat -> v_cancel s = false -> dclosed (v_de s) = false ->
  (v_seed s <> None -> v_pl s = None) ->
  exists l s' out, forallb v_internal_or_recv l = true /\ v_run eqv s l = Some (s', out) /\
                   v_mu s' = O /\ (List.length l <= v_mu s)%nat.
Proof. exact value_drain_exists. Qed.
Print Assumptions C09_value_drain_exists.

(* with backpressure the writer's hand-over is enabled exactly when the Pull loop has nothing to deliver *)
Theorem C09_value_backpressure_publish_enabled_iff : forall eqv s m,
  w_step eqv s (VPublish m) <> None <-> (w_cancel s = false /\ w_seed s = None /\ w_pl s = None).
Proof. exact value_bp_publish_enabled_iff. Qed.
Print Assumptions C09_value_backpressure_publish_enabled_iff.

(* the Value trace checker is sound, and what it accepts as drained has delivered the newest value *)
Theorem C09_value_checker_sound : forall seed es,
  value_agrees_drained (fun _ _ => false) seed es = true -> vepubs es <> [] ->
  lastZ (vrecvd es) = lastZ (vepubs es).
Proof. exact value_agrees_drained_sound. Qed.
Print Assumptions C09_value_checker_sound.

Example C09_nonvacuous_value_pipeline :
  option_map snd (v_run (fun _ _ => false) (v_init (Some 1)) [VPublish 2; VPublish 3; VRecv; VStep; VPublish 4; VRecv; VStep; VRecv])
    = Some [1; 3; 4] /\
  value_agrees_drained (fun _ _ => false) (Some 1) [VEPub 2; VEPub 3; VERecv 1; VEPub 4; VERecv 3; VERecv 4] = true.
Proof. vm_compute. auto. Qed.

(* ------------------------------------------------------------------------------------------ *)
(* Value.set's send timeout around the backpressure pipeline (Excess/SendTimeout.v)            *)
(* ------------------------------------------------------------------------------------------ *)
From SC Require Import Excess.SendTimeout.

(* "with backpressure ... a Value write whose event cannot be delivered within its five-second send
   timeout returns an error instead of hanging".  The writer side of Value.set as a machine over
   TSet m / THand / TTick / TTimeout / TRecv / TCancel around Pipeline.w_step; T = the timeout in
   ticks (any T).  For EVERY run without a cancel -- any reader pace, any number of ticks, any
   equivalence --: the writes return in the order they were made, one result each; what the
   subscriber received ++ the seed if still pending ++ what the Pull loop holds = the seed followed
   by what the Pull loop keeps of the writes that returned NIL.  So a write that returned an error
   was never handed over, a write that returned nil was (a Set that reports success for an event
   nobody was sent, or an error for one that was, is not this model); and nobody waits > T ticks. *)
Theorem C09_timeout_results_exact : forall eqv T seed l s os,
  no_tcancel l = true -> t_run eqv T (t_init seed) l = Some (s, os) ->
  map res_val (results os) ++ match t_wait s with Some (m, _) => [m] | None => [] end = sets_of l /\
  delivered os ++ olist (w_seed (t_pipe s)) ++ olist (w_pl (t_pipe s)) = olist seed ++ keep eqv seed (oks (results os)) /\
  match t_wait s with Some (_, k) => (k <= T)%nat | None => True end.
Proof. exact timeout_results_exact. Qed.
Print Assumptions C09_timeout_results_exact.

(* no hanging, and the reader plays no part: a waiting write returns an error after exactly the
   remaining ticks by the clock and the deadline alone; the pipeline is untouched and the turnstile
   is left, so the next Set can enter *)
Theorem C09_timeout_write_never_hangs : forall eqv T s m k, t_wait s = Some (m, k) -> (k <= T)%nat ->
  t_run eqv T s (repeat TTick (T - k) ++ [TTimeout]) =
    Some (mkT (t_pipe s) None (t_gone s), repeat TNone (T - k) ++ [TRet (RErr m)]) /\
  forall m', t_step eqv T (mkT (t_pipe s) None (t_gone s)) (TSet m') <> None.
Proof. exact write_never_hangs. Qed.
Print Assumptions C09_timeout_write_never_hangs.

Theorem C09_timeout_wait_bounded : forall eqv T l s s' os m k, t_wait s = Some (m, k) ->
  forallb (fun a => match a with TTick => true | _ => false end) l = true ->
  t_run eqv T s l = Some (s', os) -> (k + List.length l <= T)%nat \/ (T < k)%nat.
Proof. exact wait_bounded. Qed.
Print Assumptions C09_timeout_wait_bounded.

(* an error only once the deadline has passed; every return, nil or error, leaves the turnstile *)
Theorem C09_timeout_error_only_after_deadline : forall eqv T s s' m,
  t_step eqv T s TTimeout = Some (s', TRet (RErr m)) ->
  exists k, t_wait s = Some (m, k) /\ (T <= k)%nat /\ t_pipe s' = t_pipe s /\ t_wait s' = None.
Proof. exact error_only_after_deadline. Qed.
Print Assumptions C09_timeout_error_only_after_deadline.

Theorem C09_timeout_every_return_leaves_the_turnstile : forall eqv T s a s' r,
  t_step eqv T s a = Some (s', TRet r) -> t_wait s' = None /\ forall m, t_step eqv T s' (TSet m) <> None.
Proof. exact every_return_leaves_the_turnstile. Qed.
Print Assumptions C09_timeout_every_return_leaves_the_turnstile.

(* a reader that keeps up never causes a timeout: the hand-over is enabled exactly when the seed has
   been taken and the Pull loop holds nothing *)
Theorem C09_timeout_hand_over_enabled_iff : forall eqv T s m k, t_wait s = Some (m, k) -> t_gone s = false ->
  (t_step eqv T s THand <> None <->
   (w_cancel (t_pipe s) = false /\ w_seed (t_pipe s) = None /\ w_pl (t_pipe s) = None)).
Proof. exact hand_over_enabled_iff. Qed.
Print Assumptions C09_timeout_hand_over_enabled_iff.

(* the oracle of the measured scenarios: an observation that agrees with the model's run passes it as
   soon as the measured duration is inside the window (the one thing the model does not say) *)
Theorem C09_judge_sound_timeout : forall resume errored ms later written got,
  agrees (KApiTimeout resume errored ms later written got) = true ->
  4000 <= ms <= 9000 ->
  C09_ok (KApiTimeout resume errored ms later written got) = true.
Proof. exact judge_sound_timeout. Qed.
Print Assumptions C09_judge_sound_timeout.

(* non-vacuity = the two scenarios the harness measures in both tiers (KApiTimeout; agrees compares
   the observation with exactly these runs) *)
Example C09_timeout_nonvacuous :
  timeout_expected true = Some ([ROk 1; RErr 2; ROk 3; ROk 4], [1; 3]) /\
  timeout_expected false = Some ([RErr 1; ROk 2], []) /\
  (* ... and the hand-over of write 2 is indeed not enabled while the Pull loop holds write 1 *)
  option_map snd (t_run noeq 5 (t_init None) [TSet 1; THand; TSet 2; THand]) = None.
Proof. vm_compute. auto. Qed.

(* ------------------------------------------------------------------------------------------ *)
(* Soundness of the judge for the trace cases of the assembled pipelines (Excess/PipeJudgeProofs.v) *)
(* ------------------------------------------------------------------------------------------ *)
From SC Require Import Excess.PipeJudgeProofs.

(* a trace the checker accepts as drained has delivered every seed event, whatever post is (the
   count was "a direct observation" before: now it follows from the model) *)
Theorem C09_pipe_drained_all_seeds_delivered : forall post fuel thr nseed es,
  pipe_agrees_drained post fuel thr nseed es = true -> nseeds_of es = nseed.
Proof. exact pipe_drained_seed_count. Qed.
Print Assumptions C09_pipe_drained_all_seeds_delivered.

(* KPipe without backpressure: EVERY external trace (any length, any publications, any reader pace)
   that the set-of-states checker accepts as a drained run and that is inside the guard passes the
   whole oracle: not blocked, seed count, received = valid script on the seed view, fold = committed *)
Theorem C09_judge_sound_pipe_lossy : forall seeded nseed fuel hist es blocked,
  agrees (KPipe false seeded nseed fuel hist es blocked) = true ->
  C09_guard (KPipe false seeded nseed fuel hist es blocked) = true ->
  C09_ok (KPipe false seeded nseed fuel hist es blocked) = true.
Proof. exact judge_sound_pipe_lossy. Qed.
Print Assumptions C09_judge_sound_pipe_lossy.

Example C09_judge_sound_pipe_lossy_nonvacuous :
  let a0 := mkChange 0 1 None (Some 1) 0 false false in
  let u0 := mkChange 0 2 (Some 1) (Some 3) 0 false false in
  let a1 := mkChange 1 1 None (Some 2) 0 false false in
  let c := KPipe false 1 1 4 [mkPub a0 1; mkPub u0 2; mkPub a1 3]
             [EPub (mkPub a0 1); EPub (mkPub u0 2); ESeed; EPub (mkPub a1 3); ERecv u0; ERecv a1] false in
  agrees c = true /\ C09_guard c = true /\ C09_ok c = true.
Proof. vm_compute. auto. Qed.

(* Value pipeline, EVERY action sequence, any equivalence, any seed: what the subscriber has received
   followed by what is in flight (seed not yet taken, the Pull loop's value, DropExcess' slot) is a
   subsequence of seed ++ written -- nothing is invented, duplicated or reordered *)
Theorem C09_value_received_is_subsequence : forall eqv l seed s rcv,
  v_run eqv (v_init seed) l = Some (s, rcv) ->
  subseq (rcv ++ vflight s) (olist seed ++ vpublished_of l) = true.
Proof. exact value_received_is_subsequence. Qed.
Print Assumptions C09_value_received_is_subsequence.

(* KVPipe without backpressure (no guard: C09_guard is true on this kind): an accepted drained trace
   passes the oracle -- received is a subsequence of seed ++ written ending in the newest; with
   nothing written the subscriber got exactly the seed *)
Theorem C09_judge_sound_value_pipe_lossy : forall seed es blocked,
  agrees (KVPipe false seed es blocked) = true -> C09_ok (KVPipe false seed es blocked) = true.
Proof. exact judge_sound_vpipe_lossy. Qed.
Print Assumptions C09_judge_sound_value_pipe_lossy.

(* KVPipe with backpressure: w_explore accepts only traces that end drained; then received = seed ++
   written exactly *)
Theorem C09_judge_sound_value_pipe_backpressure : forall seed es blocked,
  agrees (KVPipe true seed es blocked) = true -> C09_ok (KVPipe true seed es blocked) = true.
Proof. exact judge_sound_vpipe_backpressure. Qed.
Print Assumptions C09_judge_sound_value_pipe_backpressure.

Example C09_judge_sound_value_pipe_nonvacuous :
  agrees (KVPipe false (Some 1) [VEPub 2; VEPub 3; VERecv 1; VEPub 4; VERecv 3; VERecv 4] false) = true /\
  agrees (KVPipe false (Some 1) [VERecv 1] false) = true /\
  agrees (KVPipe true (Some 1) [VERecv 1; VEPub 2; VERecv 2; VEPub 3; VERecv 3] false) = true /\
  (* a trace that stops with a value still held is not accepted (so w_explore is not vacuous either way) *)
  agrees (KVPipe true None [VEPub 2] false) = false.
Proof. vm_compute. auto. Qed.

(* KPipe with backpressure.  The judge's agrees (b_explore) accepts every PREFIX of a run, the oracle
   demands the whole committed script: soundness as stated for the other kinds is FALSE here -- *)
Example C09_judge_sound_pipe_backpressure_undrained_refuted :
  let a0 := mkChange 0 1 None (Some 1) 0 false false in
  let c1 := KPipe true 0 1 4 [] [] false in
  let c2 := KPipe true 0 0 4 [mkPub a0 1] [EPub (mkPub a0 1)] false in
  (agrees c1 = true /\ C09_guard c1 = true /\ C09_ok c1 = false) /\
  (agrees c2 = true /\ C09_guard c2 = true /\ C09_ok c2 = false).
Proof. vm_compute. auto. Qed.

(* -- and true for the traces that end drained (b_explore_drained = b_explore + "seed taken, Pull loop
   empty at the end", which is how the harness ends every run): such a trace agrees, and inside the
   guard it passes the whole oracle; received is then EXACTLY what changesAfter lets through of the
   publications, in arrival order (so per id the committed script, same length) *)
Theorem C09_backpressure_drained_trace_exact : forall es s, b_explore_drained Some s es = true ->
  recvd_of es = olist (b_pl s) ++ changes_after (b_thr s) (epubs_of es) /\ nseeds_of es = b_seed s.
Proof. exact b_explore_drained_recvd. Qed.
Print Assumptions C09_backpressure_drained_trace_exact.

Theorem C09_judge_sound_pipe_backpressure_drained : forall seeded nseed fuel hist es blocked,
  blocked = false -> b_explore_drained Some (b_init seeded nseed) es = true ->
  C09_guard (KPipe true seeded nseed fuel hist es blocked) = true ->
  agrees (KPipe true seeded nseed fuel hist es blocked) = true /\
  C09_ok (KPipe true seeded nseed fuel hist es blocked) = true.
Proof. exact judge_sound_pipe_backpressure_drained. Qed.
Print Assumptions C09_judge_sound_pipe_backpressure_drained.

Example C09_judge_sound_pipe_backpressure_nonvacuous :
  let a0 := mkChange 0 1 None (Some 1) 0 false false in
  let u0 := mkChange 0 2 (Some 1) (Some 3) 0 false false in
  let a1 := mkChange 1 1 None (Some 2) 0 false false in
  let es := [ESeed; EPub (mkPub a0 1); EPub (mkPub u0 2); ERecv u0; EPub (mkPub a1 3); ERecv a1] in
  b_explore_drained Some (b_init 1 1) es = true /\
  C09_guard (KPipe true 1 1 4 [mkPub a0 1; mkPub u0 2; mkPub a1 3] es false) = true.
Proof. vm_compute. auto. Qed.

(* two streams with the same per-id subsequences have the same length (used for the oracle's length
   clause; any lists, no validity hypothesis) *)
Theorem C09_per_id_same_length : forall l1 l2, per_id_same l1 l2 -> List.length l1 = List.length l2.
Proof. intros l1 l2 P. exact (per_id_same_length _ l1 l2 eq_refl P). Qed.
Print Assumptions C09_per_id_same_length.

(* All case kinds at once: for every kind whose agrees compares with a model, agreement inside the
   guard implies the oracle -- with the two provisos stated in the type (the measured window of the
   timeout; the drained end of a backpressure Collection trace).  The KApiColl / KApiValue / KApiWaits
   runs have agrees = true by definition (their receive pattern is the scheduler's and is not
   recorded): they are judged by the oracle alone and nothing can be said here. *)
Theorem C09_judge_sound_all_modelled_kinds : forall c,
  agrees c = true -> C09_guard c = true ->
  match c with
  | KApiColl _ _ _ _ _ | KApiValue _ _ _ _ _ | KApiWaits _ _ _ => True
  | KApiTimeout _ _ ms _ _ _ => 4000 <= ms <= 9000 -> C09_ok c = true
  | KPipe true seeded nseed _ _ es _ =>
      b_explore_drained Some (b_init seeded nseed) es = true -> C09_ok c = true
  | _ => C09_ok c = true
  end.
Proof. exact judge_sound_all_modelled_kinds. Qed.
Print Assumptions C09_judge_sound_all_modelled_kinds.

(* ------------------------------------------------------------------------------------------ *)
(* Value: eventual delivery from EVERY reachable state as one statement; the trace checker is exact *)
(* ------------------------------------------------------------------------------------------ *)
From SC Require Import Excess.ValueCheckerComplete Excess.ValueEventual.

(* After ANY cancel-free run of writer -> DropExcess -> Pull loop -> subscriber (any reader pace, any
   equivalence, any seed) there is a continuation of at most v_mu internal steps / receives -- no
   further write needed -- after which nothing is in flight, and then what the subscriber has
   received is a subsequence of seed ++ written; it is exactly the seed if nothing was written, and
   otherwise ends in the newest value written, or the newest was left out as equivalent to the last
   one received.  (C09_value_drain_exists needed side conditions on the state and C09_value_latest
   needed a write: both are discharged here from reachability.) *)
Theorem C09_value_eventual_delivery : forall eqv l seed s rcv,
  vno_cancel l = true -> v_run eqv (v_init seed) l = Some (s, rcv) ->
  exists l2 s2 out2,
    forallb v_internal_or_recv l2 = true /\ (List.length l2 <= v_mu s)%nat /\
    v_run eqv s l2 = Some (s2, out2) /\ v_mu s2 = O /\
    subseq (rcv ++ out2) (olist seed ++ vpublished_of l) = true /\
    (vpublished_of l = [] -> rcv ++ out2 = olist seed) /\
    (vpublished_of l <> [] ->
       lastZ (rcv ++ out2) = lastZ (vpublished_of l) \/
       (exists m, lastZ (vpublished_of l) = Some m /\ eqv (lastZ (rcv ++ out2)) m = true)).
Proof. exact value_eventual_delivery. Qed.
Print Assumptions C09_value_eventual_delivery.

Example C09_value_eventual_delivery_nonvacuous :
  (* stalled reader: seed 1 not taken, 2 written and moved on to the Pull loop, 3 and 4 written: v_mu = 4 *)
  let l := [VPublish 2; VRecv; VStep; VPublish 3; VPublish 4] in
  vno_cancel l = true /\
  option_map (fun x => (v_mu (fst x), snd x)) (v_run (fun _ _ => false) (v_init (Some 1)) l) = Some (3%nat, [1]) /\
  option_map snd (v_run (fun _ _ => false) (v_init (Some 1)) (l ++ [VRecv; VStep; VRecv])) = Some [1; 2; 4].
Proof. vm_compute. auto. Qed.

(* The Value trace checker accepts EXACTLY the external traces of cancel-free model runs that end
   with nothing in flight: sound (no trace accepted that the model cannot produce) and complete (no
   false alarm -- one VStep at most fits between two external actions, which is all v_explore tries) *)
Theorem C09_value_checker_exact : forall eqv seed es,
  value_agrees_drained eqv seed es = true <->
  exists l s', v_trace eqv (v_init seed) l = Some (s', es) /\ vno_cancel l = true /\ v_mu s' = O.
Proof.
  intros eqv seed es. split.
  - apply value_agrees_drained_run.
  - intros [l [s' [T [N M]]]]. exact (value_agrees_drained_complete eqv l seed s' es T N M).
Qed.
Print Assumptions C09_value_checker_exact.

(* ... and at every point of a run, not only at the end: the final state of every cancel-free run
   with external trace es is in the explored set (closed under one internal step) *)
Theorem C09_value_checker_complete : forall eqv l seed s' es,
  v_trace eqv (v_init seed) l = Some (s', es) -> vno_cancel l = true ->
  In s' (vclose eqv (v_explore eqv [v_init seed] es)).
Proof.
  intros eqv l seed s' es T N.
  apply (v_explore_complete eqv l [v_init seed] (v_init seed) s' es); [|exact T|exact N].
  unfold vclose. apply in_or_app. left. left. reflexivity.
Qed.
Print Assumptions C09_value_checker_complete.

(* ------------------------------------------------------------------------------------------ *)
(* the verdict the judge computes; completeness of the deterministic (backpressure) checkers       *)
(* ------------------------------------------------------------------------------------------ *)
From SC Require Import Excess.BpCheckerComplete.

(* Verdict 2 = "the observation agrees with the model and the property predicate fails on it": the
   model itself would violate the property.  For every modelled case kind the judge can never
   return it, inside or outside the guard (provisos as in C09_judge_sound_all_modelled_kinds): a
   VIOLATION reported by C09 for these kinds always comes with a disagreement between the code
   and the model, never from the model. *)
Theorem C09_judge_never_blames_the_model : forall c,
  match c with
  | KApiColl _ _ _ _ _ | KApiValue _ _ _ _ _ | KApiWaits _ _ _ => True
  | KApiTimeout _ _ ms _ _ _ => 4000 <= ms <= 9000 -> judge c <> 2
  | KPipe true seeded nseed _ _ es _ =>
      (agrees c = true -> b_explore_drained Some (b_init seeded nseed) es = true) -> judge c <> 2
  | _ => judge c <> 2
  end.
Proof. exact judge_never_blames_the_model. Qed.
Print Assumptions C09_judge_never_blames_the_model.

(* the external trace of EVERY cancel-free run of the backpressure Collection model is accepted by
   b_explore, and by b_explore_drained when the run ends with the seed taken and the Pull loop empty *)
Theorem C09_backpressure_checker_complete : forall post l s s' es,
  b_trace post s l = Some (s', es) -> no_cancel l = true ->
  b_explore post s es = true /\ (b_idle s' = true -> b_explore_drained post s es = true).
Proof. exact b_explore_complete. Qed.
Print Assumptions C09_backpressure_checker_complete.

(* same for Value with backpressure (w_explore demands the drained end itself) *)
Theorem C09_value_backpressure_checker_complete : forall eqv l s s' es,
  w_trace eqv s l = Some (s', es) -> vno_cancel l = true ->
  w_seed s' = None -> w_pl s' = None -> w_explore eqv s es = true.
Proof. exact w_explore_complete. Qed.
Print Assumptions C09_value_backpressure_checker_complete.

Example C09_backpressure_checkers_nonvacuous :
  let a0 := mkChange 0 1 None (Some 1) 0 false false in
  let u0 := mkChange 0 2 (Some 1) (Some 3) 0 false false in
  option_map snd (b_trace Some (b_init 1 1) [PRecv; Publish (mkPub a0 1); Publish (mkPub u0 2); PRecv])
    = Some [ESeed; EPub (mkPub a0 1); EPub (mkPub u0 2); ERecv u0] /\
  (* the writer waits: a second publication is not enabled while the Pull loop holds the first *)
  b_trace Some (b_init 0 0) [Publish (mkPub a0 1); Publish (mkPub u0 2)] = None /\
  option_map snd (w_trace (fun _ _ => false) (w_init (Some 1)) [VRecv; VPublish 2; VRecv])
    = Some [VERecv 1; VEPub 2; VERecv 2].
Proof. vm_compute. auto. Qed.

(* One ingredient of the (unproved) completeness of the lossy Collection trace checker: with the
   default ReadRequest at most two internal steps fit between two external actions, from ANY state --
   so the closure fuel 4 the harness passes is more than enough, for every backlog *)
From SC Require Import Excess.ClosureFuel.
Theorem C09_internal_chain_bound : forall l s s' out,
  forallb is_step l = true -> p_run Some s l = Some (s', out) ->
  (List.length l + tau_budget s' = tau_budget s)%nat /\ (List.length l <= 2)%nat.
Proof. exact internal_chain_bound. Qed.
Print Assumptions C09_internal_chain_bound.

Example C09_internal_chain_bound_nonvacuous :   (* a chain of exactly two internal steps exists *)
  let a0 := mkChange 0 1 None (Some 1) 0 false false in
  let a1 := mkChange 1 1 None (Some 2) 0 false false in
  option_map (fun x => tau_budget (fst x))
    (p_run Some (p_init 0 0) [Publish (mkPub a0 1); Step 0; Publish (mkPub a1 2)]) = Some 2%nat /\
  option_map snd (p_run Some (p_init 0 0) [Publish (mkPub a0 1); Step 0; Publish (mkPub a1 2); Step 1; Step 0; PRecv])
    = Some [a0].
Proof. vm_compute. auto. Qed.
