(* C09 -- Lossy delivery preserves the folded view; slow readers never block writers.
   Theorems only; proofs live in Excess/*Proofs.v.

   Reading guide.  mergeCollectionExcess / DropExcess are goroutines that select on an unbuffered
   input and output; they commit one select case at a time, so every concurrent execution is one
   sequence over {Send c, Recv, Close} and "for all action sequences" covers all interleavings of
   producers and the consumer (trusted: Go's channel semantics, see bin/props.d/C09.py).
   A view maps ids to current values; fold_view applies events in order; a valid edit script
   has ADD only on absent ids, UPDATE/REPLACE/REMOVE only on present ids, each with
   old = the previous new.  v0 is the view both sides start from (the seed). *)
From SC Require Import Base.Prelude Excess.Change Excess.MergeExcess Excess.DropExcess
  Excess.MergeProofs Excess.DropProofs Excess.C09Judge Excess.TableProofs Excess.JudgeProofs.
From SC Require Gen.MergeTable.

(* the model's kind algebra IS the code's: every row of the table generated from the working tree *)
Theorem C09_merge_model_matches_table :
  forall a b out send, In (a, b, out, send) Gen.MergeTable.table -> merge_changes a b = (out, send).
Proof. exact model_is_table. Qed.
Print Assumptions C09_merge_model_matches_table.

(* one merge step: pending a (valid on the receiver's value x), next edit b (valid after a) *)
Theorem C09_merge_sound : forall a b x,
  valid_at a x = true -> valid_at b (result a x) = true ->
  match merge_changes a b with
  | (m, true) => valid_at m x = true /\ result m x = result b (result a x) /\ cid m = cid b
  | (_, false) => result b (result a x) = x
  end.
Proof. exact merge_sound. Qed.
Print Assumptions C09_merge_sound.

(* The invariant, for EVERY sequence of Send / Recv whose sent events form a valid edit script:
   fold_preserved (received fold, then the pending changes = sent fold, at every point since the
   statement holds for every prefix), old_chain (what was received, and what is pending, is valid
   against the receiver's own folded view), one pending change per id with the FIFO holding
   exactly the pending ids, and every Send was taken. *)
Theorem C09_fold_preserved : forall l v0,
  no_close l = true -> valid_script (sent_of l) v0 = true ->
  let '(s', os) := m_run m_init l in
  (forall i, fold_view (pending s') (fold_view (got_of os) v0) i = fold_view (sent_of l) v0 i) /\
  valid_script (got_of os) v0 = true /\
  (forall c, In c (pending s') -> valid c (fold_view (got_of os) v0) = true) /\
  NoDup (queue s') /\ (forall i, In i (queue s') <-> msgs s' i <> None) /\
  List.length (pending s') = List.length (queue s') /\
  (forall n c, nth_error l n = Some (Send c) -> nth_error os n = Some OSent).
Proof. exact lossy_run_invariant. Qed.
Print Assumptions C09_fold_preserved.

(* the consumer eventually has the latest state: as many Recv as there are queued ids deliver the
   pending changes, nothing is left, and the received fold equals the sent fold *)
Theorem C09_drain_delivers_latest : forall l v0,
  no_close l = true -> valid_script (sent_of l) v0 = true ->
  let '(s', os) := m_run m_init l in
  let '(s'', os') := m_run s' (repeat Recv (List.length (queue s'))) in
  os' = map OGot (pending s') /\ queue s'' = [] /\
  (forall i, fold_view (got_of (os ++ os')) v0 i = fold_view (sent_of l) v0 i) /\
  snd (m_step s'' Recv) = ONothing.
Proof. exact drain_delivers_latest. Qed.
Print Assumptions C09_drain_delivers_latest.

(* writers never wait: Send is enabled in every open state, whatever is pending *)
Theorem C09_send_always_enabled : forall s c, closed s = false ->
  snd (m_step s (Send c)) = OSent /\ closed (fst (m_step s (Send c))) = false.
Proof. intros s c H. split; [exact (send_enabled s c H)|exact (send_keeps_open s c H)]. Qed.
Print Assumptions C09_send_always_enabled.

(* an add followed by a remove cancels out (in any reachable state with nothing pending for the id) *)
Theorem C09_add_remove_cancels : forall s vr vs a b,
  Inv s vr vs -> msgs s (cid a) = None -> cid b = cid a ->
  ckind a = K_ADD -> ckind b = K_REMOVE ->
  let s2 := fst (m_step (fst (m_step s (Send a))) (Send b)) in
  queue s2 = queue s /\ (forall j, msgs s2 j = msgs s j).
Proof. exact add_remove_cancels_state. Qed.
Print Assumptions C09_add_remove_cancels.

(* a remove followed by an add becomes a replace whose old value is the removed value *)
Theorem C09_remove_add_replaces : forall s vr vs a b,
  Inv s vr vs -> msgs s (cid a) = None -> cid b = cid a ->
  ckind a = K_REMOVE -> ckind b = K_ADD ->
  let s2 := fst (m_step (fst (m_step s (Send a))) (Send b)) in
  msgs s2 (cid a) = Some (mkChange (cid b) K_REPLACE (cold a) (cnew b) (ctime b) (cseed b) (clast a || clast b)) /\
  queue s2 = queue s ++ [cid a] /\ (forall j, j <> cid a -> msgs s2 j = msgs s j).
Proof. exact remove_add_replaces_state. Qed.
Print Assumptions C09_remove_add_replaces.

(* old values chain through merges: a merged change keeps the old value of the first change *)
Theorem C09_old_chain : forall a b x,
  valid_at a x = true -> valid_at b (result a x) = true ->
  snd (merge_changes a b) = true -> cold (fst (merge_changes a b)) = cold a.
Proof. exact merge_keeps_first_old. Qed.
Print Assumptions C09_old_chain.

(* the states of C09_add_remove_cancels / C09_remove_add_replaces are exactly the reachable ones *)
Theorem C09_reachable_states_satisfy_Inv : forall l v0,
  no_close l = true -> valid_script (sent_of l) v0 = true ->
  Inv (fst (m_run m_init l)) (fold_view (got_of (snd (m_run m_init l))) v0) (fold_view (sent_of l) v0).
Proof.
  intros l v0 Hc Hs. pose proof (run_invariant l m_init v0 v0 (inv_init v0) Hc Hs) as R.
  destruct (m_run m_init l) as [s' os]. exact (proj1 R).
Qed.
Print Assumptions C09_reachable_states_satisfy_Inv.

(* a consumer that receives between sends loses nothing: every change arrives unchanged *)
Theorem C09_nothing_dropped_if_recv_between_sends : forall cs,
  snd (m_run m_init (flat_map (fun c => [Send c; Recv]) cs)) = flat_map (fun c => [OSent; OGot c]) cs.
Proof.
  intros cs. destruct (alternate_lossless cs m_init eq_refl eq_refl) as [s' [E _]]. rewrite E. reflexivity.
Qed.
Print Assumptions C09_nothing_dropped_if_recv_between_sends.

(* DropExcess: the receiver always gets the most recent message *)
Theorem C09_drop_recv_gets_latest : forall pre m more,
  d_no_close pre = true ->
  exists s', d_run d_init (pre ++ map DSend (m :: more) ++ [DRecv]) =
             (s', snd (d_run d_init pre) ++ map (fun _ => DSent) (m :: more) ++ [DGot (last more m)])
             /\ slot s' = None /\ dclosed s' = false.
Proof. intros pre m more H. exact (recv_gets_latest pre m more d_init eq_refl H). Qed.
Print Assumptions C09_drop_recv_gets_latest.

(* ... and gets nothing exactly when nothing was sent since its previous Recv *)
Theorem C09_drop_recv_nothing_iff : forall l, d_no_close l = true ->
  snd (d_step (fst (d_run d_init l)) DRecv) =
  match slot_after d_init l with Some m => DGot m | None => DNothing end.
Proof. intros l H. exact (recv_nothing_iff l d_init eq_refl H). Qed.
Print Assumptions C09_drop_recv_nothing_iff.

Theorem C09_drop_send_always_enabled : forall s m, dclosed s = false -> snd (d_step s (DSend m)) = DSent.
Proof. exact d_send_enabled. Qed.
Print Assumptions C09_drop_send_always_enabled.

(* the code's table itself satisfies the one-step fold-preservation law (no model involved) *)
Theorem C09_table_rows_preserve_fold :
  forallb (fun r => let '(a, b, out, send) := r in row_law a b out send) Gen.MergeTable.table = true.
Proof. exact table_rows_preserve_fold. Qed.
Print Assumptions C09_table_rows_preserve_fold.

(* the predicate the check evaluates on every observation (C09Judge.C09_ok: two folded views, a
   merge-free bound on what can be pending) holds of every model-conforming observation inside
   the guard: it is implied by the theorems above, for all sequences / rows *)
Theorem C09_judge_sound : forall c,
  agrees c = true -> C09_guard c = true ->
  match c with KMerge _ _ | KDrop _ _ | KRow _ _ _ _ => C09_ok c = true | _ => True end.
Proof. exact judge_sound. Qed.
Print Assumptions C09_judge_sound.

Theorem C09_model_passes_oracle : forall acts,
  no_close acts = true -> valid_script (sent_of acts) empty_view = true ->
  merge_ok acts (snd (m_run m_init acts)) = true.
Proof.
  intros acts H1 H2. apply judge_sound_merge. unfold merge_guard. rewrite H1, H2. reflexivity.
Qed.
Print Assumptions C09_model_passes_oracle.

(* Listeners are independent -- what the theorem side says and does not say.  The model's
   [Send c] takes the change as a VALUE (Go: `newMessage := *(newAny.(*CollectionChange))`, and
   `change := messages[id]; return &change` on the way out): the state machine owns its pending
   changes and cannot touch the object the bus also hands to the other listeners; Gallina cannot
   even express such aliasing.  So the theorems are about one pipeline in isolation, and "a stalled
   lossy subscriber does not alter what another subscriber receives" is a hypothesis of the model,
   not a consequence.  It is checked on the implementation directly: (1) after every driven
   sequence each sent *CollectionChange object must be unchanged (Direct c09:sent-object-modified),
   (2) two subscribers on one Collection / Value, a stalled lossy one registered before and after a
   prompt backpressured one -- the latter's stream must be the exact committed edit script (KApiColl
   true / KApiValue true cases tagged multi-*), the former's drained fold the final List. *)

(* Not a theorem: the wall-clock parts of the statement ("complete without waiting" as a latency,
   the five second send timeout of Value.set, writers waiting under backpressure).  They are
   measured by the harness (KApi* cases) -- see notes/C09.md. *)

(* non-vacuity *)
Example C09_nonvacuous_script :
  let l := [Short.A 0 1 101; Short.A 1 2 102; Short.U 0 1 3 103; Recv; Short.D 1 2 104; Short.A 1 4 105;
            Short.D 0 3 106; Recv; Recv; Recv] in
  no_close l = true /\ valid_script (sent_of l) empty_view = true /\
  snd (m_run m_init l) =
    [OSent; OSent; OSent; OGot (mkChange 1 1 None (Some 2) 102 false false); OSent; OSent; OSent;
     OGot (mkChange 1 4 (Some 2) (Some 4) 105 false false); ONothing; ONothing] /\
  merge_ok l (snd (m_run m_init l)) = true.
Proof. vm_compute. auto. Qed.

Example C09_nonvacuous_drop :
  snd (d_run d_init [DRecv; DSend 1; DSend 2; DSend 3; DRecv; DRecv; DSend 4; DRecv]) =
  [DNothing; DSent; DSent; DSent; DGot 3; DNothing; DSent; DGot 4].
Proof. vm_compute. reflexivity. Qed.
