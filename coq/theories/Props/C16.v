(* C16 — Message comparers are sound equivalences.  Theorems only.

   Messages are canonical self-describing trees (Cmp/Cmp.v); [wf] is what protoreflect guarantees of
   any message (each populated field reported once, distinct map keys).  [proto_equal] is the model
   of the third-party proto.Equal, written from its documentation as "the same set of populated
   fields / map keys with equal values" (modelled, not verified; the correspondence runs the real
   one on every case).  The tolerance theorems are about the model of Go's arithmetic in
   Cmp/Tolerance.v (int64 wrap-around, AsTime / AsDuration, exact rationals for finite floats). *)
From Coq Require Import QArith Reals.
From Flocq Require Import Core.Core IEEE754.BinarySingleNaN.
From SC Require Import Base.Prelude Cmp.Cmp Cmp.Logic Cmp.Tolerance Cmp.FloatB64 Cmp.GoTime Cmp.Spec Cmp.LogicProofs Cmp.ToleranceProofs Cmp.FloatB64Proofs
  Cmp.GoTimeProofs Cmp.CmpProofs Cmp.CmpTableProofs Cmp.SpecSymProofs Cmp.CollEquiv Cmp.CollEquivProofs Cmp.C16Judge Cmp.TreeProofs Cmp.JudgeProofs Cmp.CollJudgeProofs Cmp.MaskJudgeProofs Cmp.MaskCollJudgeProofs Cmp.CollLossy Cmp.CollLossyProofs
  Resource.Impl Resource.Pull Resource.PullProofs.
Open Scope Z_scope.

(* ---- the default comparer is proto.Equal, modulo change_time in Change messages ---- *)
(* for ALL pairs: nil, typed nil, different types, unset vs default (presence is part of the tree),
   NaN, +-0, maps, lists, unknown fields *)
Theorem C16_default_is_proto_equal : forall x y : option cval,
  opt_wf x = true -> opt_wf y = true ->
  cmp_equal [] x y = proto_equal (option_map strip x) (option_map strip y).
Proof. exact default_is_proto_equal. Qed.

(* with any value comparers: the equator is the reference equality whose leaves are the comparers'
   answers (ValueAnd of them), nothing else changes *)
Theorem C16_equal_with_comparers_is_reference : forall (cs : list vcmp) (x y : option cval),
  opt_wf x = true -> opt_wf y = true ->
  cmp_equal cs x y = spec_top ignored (leaf_of (value_and cs)) x y.
Proof. exact cmp_equal_is_spec. Qed.

Theorem C16_ignoring_is_clearing : forall x y : cval,
  spec_equal ignored no_leaf x y = spec_equal no_ign no_leaf (strip x) (strip y).
Proof. exact spec_ignored_is_strip. Qed.

(* the pinned commit: change_time was ignored only when both sides had one *)
Theorem C16_change_time_presence_v0_refuted :
  cmp_equal_v0 [] (Some (change_msg true)) (Some (change_msg false)) = false /\
  proto_equal (option_map strip (Some (change_msg true))) (option_map strip (Some (change_msg false))) = true /\
  cmp_equal [] (Some (change_msg true)) (Some (change_msg false)) = true.
Proof. exact change_time_presence_v0_refuted. Qed.

(* the decision structure of pkg/cmp, read from the SOURCE on every run (Gen/CmpTable.v), is the one the
   model and the tree conversion assume: every protoreflect kind compared through the accessor of its
   constructor, none falling to the default, hook before the switch, order of equalField, the literals
   of the exception and of the tolerance comparers' kind / full-name tests *)
Theorem C16_source_table_matches_model : cmp_table_ok = true.
Proof. exact cmp_table_matches_model. Qed.

(* ---- And / Or ---- *)
Theorem C16_and_is_conj : forall (eqs : list mcmp) x y,
  msg_and eqs x y = true <-> forall e, In e eqs -> e x y = true.
Proof. exact and_true_iff. Qed.

Theorem C16_or_is_disj : forall (eqs : list mcmp) x y,
  msg_or eqs x y = true <-> exists e, In e eqs /\ e x y = true.
Proof. exact or_true_iff. Qed.

(* ValueAnd / ValueOr with the ok flag: conjunction / disjunction over the comparers that answer;
   ok iff some comparer answers (else the equator falls back to the default) *)
Theorem C16_value_and_is_conj : forall (eqs : list vcmp) x y,
  value_and eqs x y =
  (forallb (fun e => negb (answers e x y) || says e x y) eqs, existsb (fun e => answers e x y) eqs).
Proof. exact value_and_is_conj. Qed.

Theorem C16_value_or_is_disj : forall (eqs : list vcmp) x y,
  value_or eqs x y =
  (existsb (fun e => answers e x y && says e x y) eqs, existsb (fun e => answers e x y) eqs).
Proof. exact value_or_is_disj. Qed.

(* ---- FloatValueApprox ---- *)
Theorem C16_float_reflexive : forall fr mg x,
  says (float_approx fr mg) x x = true \/ answers (float_approx fr mg) x x = false.
Proof. exact float_reflexive. Qed.

Theorem C16_float_symmetric : forall fr mg x y, float_approx fr mg x y = float_approx fr mg y x.
Proof. exact float_symmetric. Qed.

(* every pair of float values, NaN and the infinities included: |x-y| <= max(margin, fraction*min(|x|,|y|))
   for finite values, identity otherwise *)
Theorem C16_float_accepts_iff_within : forall fr mg a b,
  Qle_bool 0 mg = true -> fl_approx_gen false fr mg a b = ideal_float fr mg a b.
Proof. exact float_accepts_iff_within. Qed.

Theorem C16_float_only_own_kind : forall fr mg x y,
  answers (float_approx fr mg) x y = true ->
  (exists a b, x = CS (CF32 a) /\ y = CS (CF32 b)) \/ (exists a b, x = CS (CF64 a) /\ y = CS (CF64 b)).
Proof. exact float_only_own_kind. Qed.

Theorem C16_float_special_values_v0_refuted :
  fl_approx_gen true 0 (1#2) FNaN FNaN = false /\
  fl_approx_gen true 0 (1#2) (FInf false) (FInf false) = false /\
  fl_approx_gen true (1#2) 0 (FInf false) (FInf true) = true.
Proof. exact float_v0_refuted. Qed.

(* ---- FloatValueApprox on ACTUAL float64 arithmetic (Flocq binary64, round to nearest even; Cmp/FloatB64.v).
   These theorems (and the ones below that go through the model of a configuration, model_v) rest on
   the four standard-library axioms of the real numbers that Flocq inherits. ---- *)
(* every float64: NaN, +-Inf, +-0, subnormals; every fraction and margin, NaN and negative included *)
Theorem C16_float_b64_reflexive : forall fr mg x : binary64, b64_approx fr mg x x = true.
Proof. exact b64_approx_refl. Qed.

(* symmetric on every pair, rounding and overflow of x-y included *)
Theorem C16_float_b64_symmetric : forall fr mg x y : binary64, b64_approx fr mg x y = b64_approx fr mg y x.
Proof. exact b64_approx_sym. Qed.

(* accepts exactly the pairs within the stated tolerance, over the reals, whenever neither x-y nor
   fraction*min(|x|,|y|) rounds or overflows *)
Theorem C16_float_b64_accepts_iff_within_real : forall fr mg x y : binary64,
  is_finite fr = true -> is_finite mg = true -> is_finite x = true -> is_finite y = true ->
  b64_exact (B2R x - B2R y)%R ->
  b64_exact (B2R fr * Rmin (Rabs (B2R x)) (Rabs (B2R y)))%R ->
  b64_approx fr mg x y =
  Req_bool (B2R x) (B2R y)
  || Rle_bool (Rabs (B2R x - B2R y)) (Rmax (B2R mg) (B2R fr * Rmin (Rabs (B2R x)) (Rabs (B2R y)))).
Proof. exact b64_approx_real. Qed.

(* on the judge's guard (small dyadic values, fraction, margin) no operation rounds: the binary64
   comparer is the exact-rational one, hence the ideal tolerance *)
Theorem C16_float_b64_is_rational_on_guard : forall fr mg a b,
  small_dyadic fr = true -> small_dyadic mg = true -> fl_small a = true -> fl_small b = true ->
  fl_approx_b64 fr mg a b = fl_approx_gen false fr mg a b.
Proof. exact b64_approx_exact. Qed.

Theorem C16_float_b64_accepts_iff_within : forall fr mg a b,
  small_dyadic fr = true -> small_dyadic mg = true -> fl_small a = true -> fl_small b = true ->
  Qle_bool 0 mg = true -> fl_approx_b64 fr mg a b = ideal_float fr mg a b.
Proof. exact b64_accepts_iff_within. Qed.

(* the conversion of the harness's exact rationals to binary64 loses nothing but the sign of zero,
   which the comparer never sees *)
Theorem C16_float_b64_conversion_exact : forall fr mg x y : binary64,
  b64_approx fr mg (b64_of_fl (fl_of_b64 x)) (b64_of_fl (fl_of_b64 y)) = b64_approx fr mg x y.
Proof. exact b64_approx_via_fl. Qed.

(* outside the guard the exact-rational model is NOT the code: 2^53 against -1 under margin 2^53 (x-y
   rounds to even), one subnormal against three under fraction 3/2 (the product rounds up) *)
Theorem C16_float_rational_model_outside_guard_refuted :
  (fl_approx_b64 0 9007199254740992 (FFin 9007199254740992) (FFin (-1)) = true
   /\ fl_approx_gen false 0 9007199254740992 (FFin 9007199254740992) (FFin (-1)) = false)
  /\ (let u := Q_of_finite false 1 (-1074) in
      fl_approx_b64 (3 # 2) 0 (FFin u) (FFin (3 * u)) = true
      /\ fl_approx_gen false (3 # 2) 0 (FFin u) (FFin (3 * u)) = false).
Proof. exact b64_differs_from_rational_when_rounding. Qed.

(* ---- TimeValueWithin (time.Unix, Before, Sub, Add, Equal as Go computes them: Cmp/GoTime.v) ---- *)
Theorem C16_time_reflexive : forall d x, 0 <= d <= max_dur ->
  says (time_within_fixed d) x x = true \/ answers (time_within_fixed d) x x = false.
Proof. exact time_fixed_reflexive. Qed.

Theorem C16_time_symmetric : forall d x y, time_within_fixed d x y = time_within_fixed d y x.
Proof. exact time_fixed_symmetric. Qed.

(* every tolerance a time.Duration can express, math.MaxInt64 included *)
Theorem C16_time_accepts_iff_within : forall d tx ux fx ty uy fy,
  0 <= d <= max_dur -> tx = ts_full -> ty = ts_full ->
  Z.abs (get_int "seconds" fx) <= 1152921504606846976 -> -2147483648 <= get_int "nanos" fx <= 2147483647 ->
  Z.abs (get_int "seconds" fy) <= 1152921504606846976 -> -2147483648 <= get_int "nanos" fy <= 2147483647 ->
  time_within_fixed d (CM tx true fx ux) (CM ty true fy uy) =
  (Z.abs (total_nanos fx - total_nanos fy) <=? d, true).
Proof. exact time_fixed_accepts_iff_within. Qed.

Theorem C16_time_only_own_kind : forall d x y,
  answers (time_within_fixed d) x y = true ->
  exists tx vx fx ux ty vy fy uy, x = CM tx vx fx ux /\ y = CM ty vy fy uy /\ (tx = ts_full \/ ty = ts_full).
Proof. exact time_fixed_only_own_kind. Qed.

(* Time.Sub as Go computes it (wrapping int64 product, u.Add(d).Equal(t), addSec saturation) is "the
   exact difference if it fits a Duration, else saturated", on the whole int64 range of seconds *)
Theorem C16_go_sub_is_saturating_difference : forall t u, wf_time t -> wf_time u ->
  go_sub t u = (if in64 (time_diff t u) then time_diff t u else if time_before t u then min_dur else max_dur).
Proof. intros t u Wt Wu. rewrite go_sub_is_time_sub by assumption. reflexivity. Qed.

(* the kernel before /repo 4b183a5 (Sub(...) <= d in both orders): exact for d < MaxInt64 on ALL
   pairs of times, in particular "false" in both argument orders for times more than 292 years apart *)
Theorem C16_time_v0_exact_below_max : forall d xt yt, wf_time xt -> wf_time yt ->
  0 <= d < max_dur -> time_close_go d xt yt = (Z.abs (time_diff xt yt) <=? d).
Proof. exact time_close_go_exact. Qed.

Theorem C16_time_v0_far_apart_rejected_both_orders : forall d xt yt, wf_time xt -> wf_time yt ->
  0 <= d < max_dur -> Z.abs (time_diff xt yt) > max_dur ->
  time_close_go d xt yt = false /\ time_close_go d yt xt = false.
Proof. exact time_kernel_far_apart. Qed.

(* ... but with d = math.MaxInt64 it accepted every pair of Timestamps (fixed in 4b183a5) *)
Theorem C16_time_max_dur_v0_refuted :
  (forall tx ux fx ty uy fy, tx = ts_full -> ty = ts_full ->
     time_within_go max_dur (CM tx true fx ux) (CM ty true fy uy) = (true, true)) /\
  time_within_go max_dur (ts_msg 0 0) (ts_msg 10000000000 0) = (true, true) /\
  time_within_fixed max_dur (ts_msg 0 0) (ts_msg 10000000000 0) = (false, true) /\
  time_within_fixed max_dur (ts_msg 10000000000 0) (ts_msg 0 0) = (false, true).
Proof.
  split; [exact time_within_go_max_dur_accepts_all|]. repeat split; vm_compute; reflexivity.
Qed.

(* ---- DurationValueWithin ---- *)
Theorem C16_duration_reflexive : forall d x, 0 <= d ->
  says (duration_within d) x x = true \/ answers (duration_within d) x x = false.
Proof. exact duration_reflexive. Qed.

Theorem C16_duration_symmetric : forall d x y, duration_within d x y = duration_within d y x.
Proof. exact duration_symmetric. Qed.

(* full (was _partial): EVERY pair of Durations -- any int64 seconds, any int32 nanos, of either sign, normalised
   or not, also beyond the +-10000 years of a valid Duration -- and every tolerance a time.Duration can hold:
   the verdict is |x - y| <= d on the exact totals.  (/repo's DurationValueWithin now works on the seconds and
   nanos fields; until then it went through AsDuration, which saturates beyond about 292 years.) *)
Theorem C16_duration_accepts_iff_within : forall d tx ux fx ty uy fy,
  0 <= d <= max_dur -> tx = dur_full -> ty = dur_full ->
  in32 (get_int "nanos" fx) = true -> in32 (get_int "nanos" fy) = true ->
  duration_within d (CM tx true fx ux) (CM ty true fy uy) =
  (Z.abs (total_nanos fx - total_nanos fy) <=? d, true).
Proof. exact duration_accepts_iff_within. Qed.

Example C16_duration_accepts_iff_within_nonvacuous :
  duration_within 1 (dur_msg 315576000000 0) (dur_msg 315575999999 999999999) = (true, true) /\
  duration_within 1 (dur_msg 315576000000 0) (dur_msg 315575999999 999999998) = (false, true) /\
  duration_within max_dur (dur_msg 9223372036 854775807) (dur_msg 0 0) = (true, true) /\
  duration_within max_dur (dur_msg 9223372036 854775808) (dur_msg 0 0) = (false, true) /\
  duration_within max_dur (dur_msg 9223372041 (-2147483648)) (dur_msg 0 2147483647) = (true, true) /\
  duration_within max_dur (dur_msg 9223372042 (-2147483648)) (dur_msg 0 2147483647) = (false, true).
Proof. repeat split; vm_compute; reflexivity. Qed.

(* the model on Z is the code as Go computes it: for int64 seconds and int32 nanos no uint64 / int64 operation
   of durationsWithin wraps *)
Theorem C16_duration_kernel_no_wrap : forall d xs xn ys yn,
  0 <= d <= max_dur -> in64 xs = true -> in64 ys = true -> in32 xn = true -> in32 yn = true ->
  dur_sn_close_go d xs xn ys yn = dur_sn_close d xs xn ys yn.
Proof. exact dur_sn_no_wrap. Qed.

(* the kernel before the repair (AsDuration, then the exact distance of the two saturated values): right inside
   the int64 nanosecond range, refuted beyond it (was known finding coq:2) *)
Theorem C16_duration_v1_exact_inside_int64_ns : forall d tx ux fx ty uy fy,
  0 <= d -> tx = dur_full -> ty = dur_full ->
  in64 (get_int "seconds" fx * giga) = true -> in64 (total_nanos fx) = true ->
  in64 (get_int "seconds" fy * giga) = true -> in64 (total_nanos fy) = true ->
  duration_within_v1 d (CM tx true fx ux) (CM ty true fy uy) =
  (Z.abs (total_nanos fx - total_nanos fy) <=? d, true).
Proof. exact duration_v1_accepts_iff_within. Qed.

Theorem C16_duration_saturation_v1_refuted :
  duration_within_v1 0 (dur_msg 10000000000 0) (dur_msg 20000000000 0) = (true, true) /\
  duration_within 0 (dur_msg 10000000000 0) (dur_msg 20000000000 0) = (false, true) /\
  duration_within_v1 9223372036000000000 (dur_msg 0 999999999) (dur_msg 10000000000 0) = (true, true) /\
  duration_within 9223372036000000000 (dur_msg 0 999999999) (dur_msg 10000000000 0) = (false, true).
Proof. exact duration_saturation_v1_refuted. Qed.

Theorem C16_duration_only_own_kind : forall d x y,
  answers (duration_within d) x y = true ->
  exists tx vx fx ux ty vy fy uy, x = CM tx vx fx ux /\ y = CM ty vy fy uy /\ (tx = dur_full \/ ty = dur_full).
Proof. exact duration_only_own_kind. Qed.

Theorem C16_duration_wrap_v0_refuted :
  duration_within_v0 0 (dur_msg 9000000000 0) (dur_msg (-4611686018) 0) = (true, true) /\
  duration_within 0 (dur_msg 9000000000 0) (dur_msg (-4611686018) 0) = (false, true).
Proof. exact duration_wrap_v0_refuted. Qed.

(* ---- DurationValueWithinP: a ratio test (known finding) ---- *)
Theorem C16_durp_symmetric_refuted :
  duration_within_p (3#4) (dur_msg 1 0) (dur_msg 2 0) = (true, true) /\
  duration_within_p (3#4) (dur_msg 2 0) (dur_msg 1 0) = (false, true).
Proof. exact durp_not_symmetric_refuted. Qed.

Theorem C16_durp_reflexive_refuted :
  duration_within_p (3#4) (dur_msg 1 0) (dur_msg 1 0) = (false, true).
Proof. exact durp_not_reflexive_refuted. Qed.

Theorem C16_durp_only_own_kind : forall p x y,
  answers (duration_within_p p) x y = true ->
  exists tx vx fx ux ty vy fy uy, x = CM tx vx fx ux /\ y = CM ty vy fy uy /\ (tx = dur_full \/ ty = dur_full).
Proof. exact durp_only_own_kind. Qed.

(* ---- symmetry and reflexivity at the level of WHOLE messages ---- *)
(* the reference equality is symmetric / reflexive on well-formed trees whenever its leaf relation is
   (leaves answer on scalars and messages only) *)
Theorem C16_reference_symmetric : forall ign (L : cval -> cval -> option bool),
  (forall a b, L a b = L b a) -> (forall a b, is_singular a && is_singular b = false -> L a b = None) ->
  forall x y, opt_wf x = true -> opt_wf y = true -> spec_top ign L x y = spec_top ign L y x.
Proof. intros. apply spec_top_sym; assumption. Qed.

Theorem C16_reference_reflexive : forall ign (L : cval -> cval -> option bool),
  (forall a, L a a = Some true \/ L a a = None) ->
  forall x, opt_wf x = true -> spec_top ign L x x = true.
Proof. intros. apply spec_top_refl; assumption. Qed.

(* cmp.Equal(FloatValueApprox.., TimeValueWithin.., DurationValueWithin..) and cmp.Equal(cmp.ValueOr(..))
   are symmetric on ALL pairs of possibly-nil messages (no guard on the values: NaN, infinities,
   saturating Durations, typed nil, different types, unknown fields), and reflexive on every message
   for non-negative tolerances *)
Theorem C16_equal_symmetric : forall e x y, has_durp e = false -> opt_wf x = true -> opt_wf y = true ->
  model_e e x y = model_e e y x.
Proof. exact model_symmetric. Qed.

Theorem C16_equal_reflexive : forall e x, ecfg_guard e = true -> has_durp e = false -> opt_wf x = true ->
  model_e e x x = true.
Proof. exact model_reflexive. Qed.

(* ---- the judge is sound with respect to the model ---- *)
(* whenever the observation is the model's ([agrees]), the guard holds and the case is in scope
   ([in_scope_every], described below), the property predicate evaluated on the OBSERVATION holds: symmetric, reflexive,
   equal to the reference equality with ideal leaves, equal to the real proto.Equal modulo
   change_time, And/Or = fold, delivered iff not ideally equivalent to what the subscriber holds.
   So on in-scope cases a non-zero verdict can only come from the code differing from the model. *)
Theorem C16_judge_sound : forall c,
  agrees c = true -> C16_guard c = true -> in_scope_every c = true -> C16_ok c = true.
Proof. exact judge_sound_every. Qed.
(* [in_scope_every]: pair (combinator trees included), Value-stream, one-item and whole-collection cases, and the
   read-mask stream and collection cases (the read-mask filter keeps a value guarded and in scope:
   MaskCollJudgeProofs.path_filter_tree_ok); every kind but the lossy collection cases KCollL.  The scope: no
   DurationValueWithinP; int32 nanos in Durations under DurationValueWithin; distinct ids. *)
Theorem C16_judge_sound_without_masks : forall c,
  agrees c = true -> C16_guard c = true -> in_scope_all c = true -> C16_ok c = true.
Proof. exact judge_sound_all. Qed.

(* read-mask streams (Value.Pull WithReadPaths): the same, on the FILTERED values *)
Theorem C16_judge_sound_masked_stream : forall paths e seed writes emitted,
  let c := KStreamM paths e seed writes emitted in
  agrees_core c = true -> mask_stream_scope paths e seed writes = true -> ok_core c = true.
Proof. exact mask_stream_sound. Qed.

(* read-mask whole collections (Collection.Pull WithReadPaths, optional WithInclude / WithUpdatesOnly): inclusion
   is decided on the stored value, the equivalence sees and the subscriber holds filtered values; the hypotheses
   (guard, scope: [tree_ok]) are on the FILTERED values; distinct ids *)
Theorem C16_judge_sound_masked_collection : forall paths e uo thr init ops emitted,
  let c := KCollM paths e uo thr init ops emitted in
  agrees_core c = true -> mask_coll_scope c = true -> ok_core c = true.
Proof. exact mask_coll_judge_sound. Qed.

(* "a" = (1, "x") seen through the mask {default_double} and WithInclude(default_double >= 1) under a margin of 1/2:
   a write that changes only the hidden string is not delivered, 2 is, 1/2 leaves the included set: a REMOVE *)
Example C16_nonvacuous_masked_collection :
  let m (d : Q) (s : string) := CM "sc.go.test.TestAllTypes" true
        [("default_double"%string, CS (CF64 (FFin d))); ("default_string"%string, CS (CStr s))] [] in
  let v (d : Q) := CM "sc.go.test.TestAllTypes" true [("default_double"%string, CS (CF64 (FFin d)))] [] in
  let c := KCollM ["default_double"%string] (EAnd [VFloat 0 (1#2)]) false (Some (1#1)) [("a"%string, m (1#1) "x"%string)]
             [("a"%string, Some (m (1#1) "y"%string)); ("a"%string, Some (m (2#1) "y"%string)); ("a"%string, Some (m (1#2) "y"%string))]
             [("a"%string, None, Some (v (1#1))); ("a"%string, Some (v (1#1)), Some (v (2#1))); ("a"%string, Some (v (2#1)), None)] in
  (agrees c && C16_guard c && mask_coll_scope c && in_scope_every c && C16_ok c) = true.
Proof. vm_compute. reflexivity. Qed.

Theorem C16_judge_sound_comb : forall is_or es x y,
  ok_obs x y (false, false)
         (OComb is_or es (map (fun e => four (model_e e) x y) es)
                (four ((if is_or then msg_or else msg_and) (map model_e es)) x y)) = true.
Proof. exact comb_model_ok. Qed.

Theorem C16_judge_sound_default : forall x y,
  opt_wf x = true -> opt_wf y = true ->
  let ps := (proto_equal (strip_opt x) (strip_opt y), proto_equal (strip_opt y) (strip_opt x)) in
  let '(xy, yx, _, _) := four (model_e (EAnd [])) x y in
  Bool.eqb xy (fst ps) && Bool.eqb yx (snd ps) = true.
Proof. exact default_model_agrees_with_proto_equal. Qed.

(* ---- resource level (model and proofs: Resource/Pull.v, Resource/PullProofs.v) ---- *)
Section Resource.
  Variable M : Type.
  Variable rmask : Type.
  Variable r_filter : rmask -> M -> M.

  (* no equivalence configured: nothing is suppressed *)
  Theorem C16_resource_value_stream_exact : forall (ro : ropts M rmask) (s : vstate M) evs,
    pull_value r_filter None s ro evs =
    (match (if ro_updates_only ro then None else v_val s) with
     | Some v => [mkVC (filt r_filter ro v) (v_time s) true true]
     | None => []
     end) ++ map (fun e => mkVC (filt r_filter ro (ve_value e)) (ve_time e) false false) evs.
  Proof. intros. apply value_stream_exact. Qed.

  (* with an equivalence a change is delivered exactly when it is NOT equivalent to the value the
     subscriber holds (the last delivered one; initially the seed as it was sent): never an
     equivalent one delivered, never a non-equivalent one suppressed *)
  Theorem C16_resource_equivalence_suppresses_exactly_equivalent : forall cmp (ro : ropts M rmask) evs last e,
    let v := filt r_filter ro (ve_value e) in
    v_forward r_filter (Some cmp) ro last (evs ++ [e]) =
    v_forward r_filter (Some cmp) ro last evs ++
    (if cmp (holds r_filter cmp ro last evs) (Some v) then [] else [mkVC v (ve_time e) false false]).
  Proof. intros. apply equivalence_delivery. Qed.
End Resource.

(* ---- Collection.Pull with an equivalence (model: Cmp/CollEquiv.v, the code since /repo 3a50d70) ---- *)
Section Collection.
  Variable M : Type.
  Variable rmask : Type.
  Variable r_filter : rmask -> M -> M.

  (* for EVERY history of one evolving collection, every comparer, read mask and include filter: a
     change is delivered exactly when its new value (as the reader sees it) is NOT equivalent to the
     value the subscriber holds for that id; [w] is what the subscriber holds, [h] the goroutine's map *)
  Theorem C16_collection_delivers_iff_not_equivalent_to_held :
    forall cmp (ro : ropts M rmask) evs (h : heldmap M) (w cur : view M),
    held_inv h w (seen r_filter ro cur) -> ev_chained_from cur evs ->
    c_forward_held r_filter (Some cmp) ro h evs = ideal_filter cmp w (offered r_filter ro evs).
  Proof. intros. eapply coll_pull_held_exact; eassumption. Qed.

  (* ... where "holds" is the new value of the last change delivered for the id *)
  Theorem C16_collection_held_is_last_delivered : forall cmp cs (w : view M) (c : cchange M),
    ideal_filter cmp w (cs ++ [c]) =
    ideal_filter cmp w cs ++
    (if cmp (holds_after w (ideal_filter cmp w cs) (cc_id c)) (cc_new c) then [] else [c]).
  Proof. intros. apply ideal_last_delivered. Qed.

  (* after the seed loop the map is the seed as sent *)
  Theorem C16_collection_seeded : forall cmp (ro : ropts M rmask) (sd : list (cchange M)) evs (cur : view M),
    (forall k, holds_after (fun _ => None) sd k = None -> seen r_filter ro cur k = None) ->
    ev_chained_from cur evs ->
    c_forward_held r_filter (Some cmp) ro (held_of_seeds sd) evs =
    ideal_filter cmp (holds_after (fun _ => None) sd) (offered r_filter ro evs).
  Proof. intros. eapply coll_pull_held_seeded; eassumption. Qed.

  (* WithUpdatesOnly: the subscriber is taken to hold the collection as it was at subscription *)
  Theorem C16_collection_updates_only : forall cmp (ro : ropts M rmask) evs (cur : view M),
    ev_chained_from cur evs ->
    c_forward_held r_filter (Some cmp) ro [] evs = ideal_filter cmp (seen r_filter ro cur) (offered r_filter ro evs).
  Proof. intros. apply coll_pull_held_updates_only. assumption. Qed.

  (* without an equivalence the loop is the one of Resource/Pull.v *)
  Theorem C16_collection_no_equivalence_unchanged : forall (ro : ropts M rmask) evs h,
    c_forward_held r_filter None ro h evs = c_forward_gen r_filter None false false ro evs.
  Proof. intros. apply c_forward_held_none. Qed.

  (* the code before the repair (old against new of each change) is the same function whenever the
     comparer is an equivalence RELATION (WithNoDuplicates, cmp.Equal(), projections) *)
  Theorem C16_collection_v0_right_for_equivalence_relations :
    forall (cmp : option M -> option M -> bool),
    (forall a, cmp a a = true) -> (forall a b, cmp a b = cmp b a) ->
    (forall a b c, cmp a b = true -> cmp b c = true -> cmp a c = true) ->
    forall (ro : ropts M rmask) evs (h : heldmap M) (w cur : view M),
    held_inv h w (seen r_filter ro cur) -> (forall id, cmp (w id) (seen r_filter ro cur id) = true) ->
    ev_chained_from cur evs ->
    c_forward_gen r_filter (Some cmp) false false ro evs = c_forward_held r_filter (Some cmp) ro h evs.
  Proof. intros. eapply c_forward_gen_is_held_for_equivalence_relations; eassumption. Qed.
End Collection.

(* ... and wrong for tolerances: the item drifts 0 -> 1 -> 2 -> 3 in steps of 1 under |a-b| <= 1, every
   step is suppressed, and the subscriber still holds 0 although 3 is not equivalent to 0; the repaired
   loop delivers 2 *)
Theorem C16_collection_tolerance_drift_v0_refuted :
  ~ (forall (cmp : option Z -> option Z -> bool) (held : Z) (evs : list (cevent Z)),
       chained held evs ->
       c_forward_gen (fun (_ : unit) (m : Z) => m) (Some cmp) false false plain_ropts evs = [] ->
       cmp (Some held) (Some (final held evs)) = true) /\
  map (@cc_new Z) (c_forward_held (fun (_ : unit) (m : Z) => m) (Some within1) plain_ropts [("a"%string, Some 0)] drift_events)
  = [Some 2].
Proof.
  split; [|vm_compute; reflexivity].
  intros H. destruct drift_witness as (C & F & N).
  specialize (H within1 0 drift_events C F). rewrite N in H. discriminate.
Qed.

(* ---- the whole-message acceptance clause, one theorem over message trees ---- *)
(* for every pair of guarded possibly-nil message trees and every guarded configuration of
   FloatValueApprox / TimeValueWithin / DurationValueWithin under Equal(...) or Equal(ValueOr(...)):
   the verdict is the reference equality whose leaves are the tolerances in exact arithmetic *)
Theorem C16_whole_message_is_ideal : forall e x y,
  ecfg_guard e = true -> has_durp e = false -> tree_ok e x = true -> tree_ok e y = true ->
  model_e e x y = ideal_e e x y.
Proof. exact model_is_ideal. Qed.

(* ---- non-vacuity ---- *)
Definition nv_msg (d : Q) (nanos : Z) : cval :=
  CM "sc.go.test.TestAllTypes" true
     [("default_double"%string, CS (CF64 (FFin d)));
      ("default_well_known"%string,
       CM "sc.go.test.WellKnown" true
          [("default_timestamp"%string, CM ts_full true [("seconds"%string, CS (CInt 1)); ("nanos"%string, CS (CInt nanos))] [])] []);
      ("map_int32_double"%string, CMap [(CInt 1, CS (CF64 FNaN))])]
     [(1000, "c03e01"%string)].

Example C16_nonvacuous_wf : opt_wf (Some (nv_msg (1#2) 5)) = true.
Proof. vm_compute. reflexivity. Qed.
(* equal to itself (NaN in a map, an unknown field), different from a near copy, equal to it under
   tolerances that cover the differences and not under smaller ones *)
Example C16_nonvacuous_default :
  cmp_equal [] (Some (nv_msg (1#2) 5)) (Some (nv_msg (1#2) 5)) = true /\
  cmp_equal [] (Some (nv_msg (1#2) 5)) (Some (nv_msg (3#4) 7)) = false /\
  cmp_equal [float_approx 0 (1#4); time_within_fixed 2] (Some (nv_msg (1#2) 5)) (Some (nv_msg (3#4) 7)) = true /\
  cmp_equal [float_approx 0 (1#8); time_within_fixed 2] (Some (nv_msg (1#2) 5)) (Some (nv_msg (3#4) 7)) = false /\
  cmp_equal [float_approx 0 (1#4); time_within_fixed 1] (Some (nv_msg (1#2) 5)) (Some (nv_msg (3#4) 7)) = false.
Proof. repeat split; vm_compute; reflexivity. Qed.
Example C16_nonvacuous_stream :
  pull_model (EAnd [VFloat 0 (1#2)]) (Some (nv_msg 0 0)) [nv_msg (1#2) 0; nv_msg 1 0; nv_msg (3#2) 0] =
  [nv_msg 0 0; nv_msg 1 0].
Proof. vm_compute. reflexivity. Qed.

(* ---- combinator TREES: ValueAnd / ValueOr nested to any depth, over ANY leaf comparers ---- *)
(* the (equal, ok) pair of a tree is (the formula over its applicable members, some leaf applies):
   a conjunction skips the members that do not apply, a disjunction only counts members that apply
   -- however deep, and whatever (equal, _) a non-applicable member reports *)
Theorem C16_tree_verdict : forall (L : Type) (f : L -> vcmp) (t : ctree L) x y,
  tree_cmp f t x y = (tree_says f t x y, tree_applies f t x y).
Proof. exact tree_verdict. Qed.

Theorem C16_tree_answers_iff_some_leaf_applies : forall (L : Type) (f : L -> vcmp) (t : ctree L) x y,
  answers (tree_cmp f t) x y = true <-> exists l, In l (tree_leaves t) /\ answers (f l) x y = true.
Proof. exact tree_answers_iff_some_leaf. Qed.

(* nested ValueAnds flatten to the conjunction over the APPLICABLE leaves, nested ValueOrs to the
   disjunction over them *)
Theorem C16_and_tree_is_conj_of_applicable_leaves : forall (L : Type) (f : L -> vcmp) (t : ctree L) x y,
  all_and t = true ->
  negb (tree_applies f t x y) || tree_says f t x y
  = forallb (fun l => negb (answers (f l) x y) || says (f l) x y) (tree_leaves t).
Proof. exact and_tree_flattens. Qed.

Theorem C16_or_tree_is_disj_of_applicable_leaves : forall (L : Type) (f : L -> vcmp) (t : ctree L) x y,
  all_or t = true ->
  tree_applies f t x y && tree_says f t x y
  = existsb (fun l => answers (f l) x y && says (f l) x y) (tree_leaves t).
Proof. exact or_tree_flattens. Qed.

(* cmp.Equal(t) for every tree t over the tolerance comparers: symmetric on all pairs of possibly-nil wf
   messages, reflexive for non-negative tolerances, and on guarded messages the reference equality
   whose leaf is the tree's ideal (the exact tolerances combined over the applicable members) *)
Theorem C16_tree_equal_symmetric : forall t x y, existsb is_durp (tree_leaves t) = false ->
  opt_wf x = true -> opt_wf y = true -> model_tree t x y = model_tree t y x.
Proof. exact model_tree_symmetric. Qed.

Theorem C16_tree_equal_reflexive : forall t x, forallb vcfg_guard (tree_leaves t) = true ->
  existsb is_durp (tree_leaves t) = false -> opt_wf x = true -> model_tree t x x = true.
Proof. exact model_tree_reflexive. Qed.

Theorem C16_tree_whole_message_is_ideal : forall t x y,
  ecfg_guard (EAnd (tree_leaves t)) = true -> has_durp (EAnd (tree_leaves t)) = false ->
  tree_ok (EAnd (tree_leaves t)) x = true -> tree_ok (EAnd (tree_leaves t)) y = true ->
  model_tree t x y = ideal_tree t x y.
Proof. exact tree_model_is_ideal. Qed.

(* ValueOr(TimeValueWithin(2), ValueAnd(FloatValueApprox(0, 1/4))) on timestamps 5 and 7 ns apart...:
   the time leaf decides although the And (not applicable to a Timestamp) reports equal = true *)
Example C16_nonvacuous_tree :
  let t := TOr [TLeaf (VTime 1); TAnd [TLeaf (VFloat 0 (1#4))]] in
  let x := Some (nv_msg (1#2) 5) in let y := Some (nv_msg (1#2) 7) in let z := Some (nv_msg (1#2) 6) in
  let c := KG true (KPair x y (false, false) (false, false)
              [OTree t (false, false, true, true); OTree (TOr [TLeaf (VTime 2); TAnd [TLeaf (VFloat 0 (1#4))]]) (true, true, true, true)]) in
  model_tree t x y = false /\ model_tree t x z = true /\
  model_t (TAnd [TLeaf (VFloat 0 (1#4))]) (CM ts_full true [] []) (CM ts_full true [] []) = (true, false) /\
  (agrees c && C16_guard c && in_scope_all c && C16_ok c) = true.
Proof. repeat split; vm_compute; reflexivity. Qed.

(* ---- Collection.Pull WITHOUT backpressure under an equivalence: the merge stage composed with the held map ---- *)
Section LossyProps.
  Variable M : Type.
  Variable rmask : Type.
  Variable r_filter : rmask -> M -> M.
  (* the merge-stage model (Excess/MergeExcess.v) works on tokens: any injective naming of ids, any valuation *)
  Variable name : Z -> string.
  Variable code : string -> Z.
  Hypothesis code_name : forall i, code (name i) = i.
  Variable val : Z -> M.
  Variable kind_of : Z -> kind.

  (* for EVERY schedule of the merge stage (any interleaving of writes arriving and the subscription's loop
     taking changes) and every history of writes, what mergeCollectionExcess hands on is a chained history
     again: the old value of a merged change (a REPLACE included) is the new value of the previous change
     handed on for that id *)
  Theorem C16_collection_lossy_history_chained : forall l v0,
    MergeExcess.no_close l = true -> Change.valid_script (MergeExcess.sent_of l) v0 = true ->
    ev_chained_from (dview name code val v0) (handed_on name val kind_of l).
  Proof. intros. apply merged_history_chained; assumption. Qed.

  (* ... and so the loop delivers a merged change exactly when its new value is NOT equivalent to what the
     subscriber holds for that id -- every schedule, history, comparer, read mask and include filter *)
  Theorem C16_collection_lossy_delivers_iff_not_equivalent_to_held :
    forall cmp (ro : ropts M rmask) l v0 (h : heldmap M) (w : view M),
    MergeExcess.no_close l = true -> Change.valid_script (MergeExcess.sent_of l) v0 = true ->
    held_inv h w (seen r_filter ro (dview name code val v0)) ->
    c_forward_held r_filter (Some cmp) ro h (handed_on name val kind_of l)
    = ideal_filter cmp w (offered r_filter ro (handed_on name val kind_of l)).
  Proof. intros. eapply lossy_delivers_iff_not_equivalent_to_held; eassumption. Qed.

  (* a seeded subscriber holds the seed as sent: a REPLACE of a seeded id is compared with the seed value *)
  Theorem C16_collection_lossy_seeded :
    forall cmp (ro : ropts M rmask) (sd : list (cchange M)) l v0,
    MergeExcess.no_close l = true -> Change.valid_script (MergeExcess.sent_of l) v0 = true ->
    (forall k, holds_after (fun _ => None) sd k = None -> seen r_filter ro (dview name code val v0) k = None) ->
    c_forward_held r_filter (Some cmp) ro (held_of_seeds sd) (handed_on name val kind_of l)
    = ideal_filter cmp (holds_after (fun _ => None) sd) (offered r_filter ro (handed_on name val kind_of l)).
  Proof. intros. eapply lossy_seeded; eassumption. Qed.
End LossyProps.

(* the naming hypothesis is satisfiable on all of Z *)
Example C16_nonvacuous_lossy_naming : forall i, nv_code (nv_name i) = i.
Proof. exact nv_code_name. Qed.

(* a reader behind while "a" (seeded 1) is deleted and re-added as 1.25 and "b" (seeded 5) as 7, under a margin
   of 0.5: the merge stage hands on two REPLACEs; the one of "a" is not delivered, the one of "b" is; the case
   passes agrees, guard and the oracle *)
Definition nv_mark (s : string) : cval :=
  CM "sc.go.test.TestAllTypes" true [("default_double"%string, CS (CF64 (FFin 1048576))); ("default_string"%string, CS (CStr s))] [].
Definition nv_d (d : Q) : cval := CM "sc.go.test.TestAllTypes" true [("default_double"%string, CS (CF64 (FFin d)))] [].
Example C16_nonvacuous_lossy :
  let init := [("a"%string, nv_d 1); ("b"%string, nv_d 5)] in
  let ph := [("pp"%string, Some (nv_mark "plug-0")); ("a"%string, None); ("a"%string, Some (nv_d (5#4)));
             ("b"%string, None); ("b"%string, Some (nv_d 7)); ("zz"%string, Some (nv_mark "barrier-0"))] in
  let em := [("a"%string, None, Some (nv_d 1)); ("b"%string, None, Some (nv_d 5)); ("pp"%string, None, Some (nv_mark "plug-0"));
             ("b"%string, Some (nv_d 5), Some (nv_d 7)); ("zz"%string, None, Some (nv_mark "barrier-0"))] in
  let c := KG true (KCollL (EAnd [VFloat 0 (1#2)]) false None init [ph] em [1; 1; 1; 4; 1]) in
  map Change.ckind (merged_changes init [ph]) = [1; 4; 4; 1] /\
  (agrees c && C16_guard c && C16_ok c) = true /\
  (* the REPLACE of "b" reported as an UPDATE is not the model's stream *)
  agrees (KG true (KCollL (EAnd [VFloat 0 (1#2)]) false None init [ph] em [1; 1; 1; 2; 1])) = false /\
  (* the same stream with the REPLACE of "a" delivered as well is rejected by the oracle *)
  C16_ok (KCollL (EAnd [VFloat 0 (1#2)]) false None init [ph]
            (firstn 3 em ++ [("a"%string, Some (nv_d 1), Some (nv_d (5#4)))] ++ skipn 3 em) [1; 1; 1; 4; 4; 1]) = false.
Proof. repeat split; vm_compute; reflexivity. Qed.

(* REPLACE as a kind of its own: the loop that carries the ChangeType each change goes out with (the merge stage's
   ADD / UPDATE / REMOVE / REPLACE, rewritten to ADD / REMOVE where include says the item came into / left the
   included set) delivers exactly the changes of the held-map model of record, in which a REPLACE is carried as an
   update -- so every C16_collection_* theorem speaks about the kind-carrying loop too *)
Theorem C16_collection_lossy_kinds_erase :
  forall (rmask : Type) (rf : rmask -> cval -> cval) cmp s (ro : ropts cval rmask) evs,
  map fst (pull_collection_held_k rmask rf cmp s ro evs) = pull_collection_held rf (Some cmp) s ro (map fst evs).
Proof. exact pull_collection_held_k_erase. Qed.
Theorem C16_collection_lossy_kinds_model_erase : forall e uo thr init phases,
  map triple_of (map fst (pull_collection_held_k unit id_filter (model_e e) (coll_state init) (coll_ro uo thr) (merged_events_k init phases)))
  = coll_lossy_model e uo thr init phases.
Proof.
  intros. unfold coll_lossy_model. rewrite pull_collection_held_k_erase, merged_events_k_erase. reflexivity.
Qed.

(* the hypotheses of C16_judge_sound hold of a non-trivial pair case and of a drifting stream *)
Example C16_nonvacuous_judge_sound :
  let c1 := KG true (KPair (Some (nv_msg (1#2) 5)) (Some (nv_msg (3#4) 7)) (false, false) (false, false)
              [OEq (EAnd [VFloat 0 (1#4); VTime 2; VDur 0]) (true, true, true, true);
               OEq (EOr [VFloat 0 0; VFloat 0 (1#8)]) (false, false, true, true)]) in
  let c2 := KStream (EAnd [VFloat 0 (1#2)]) (Some (nv_msg 0 0)) [nv_msg (1#2) 0; nv_msg 1 0; nv_msg (3#2) 0]
              [nv_msg 0 0; nv_msg 1 0] in
  let c3 := KColl (EAnd [VFloat 0 (1#2)]) false (Some (1#1)) [("a"%string, nv_msg 1 0); ("b"%string, nv_msg (1#2) 0)]
              [("a"%string, Some (nv_msg (5#4) 0)); ("a"%string, Some (nv_msg (3#2) 0)); ("a"%string, Some (nv_msg (7#4) 0));
               ("b"%string, Some (nv_msg (3#2) 0)); ("a"%string, None)]
              [("a"%string, None, Some (nv_msg 1 0)); ("a"%string, Some (nv_msg (3#2) 0), Some (nv_msg (7#4) 0));
               ("b"%string, None, Some (nv_msg (3#2) 0)); ("a"%string, Some (nv_msg (7#4) 0), None)] in
  (agrees c1 && C16_guard c1 && in_scope_all c1 && C16_ok c1) && (agrees c2 && C16_guard c2 && in_scope_all c2 && C16_ok c2)
  && (agrees c3 && C16_guard c3 && in_scope_all c3 && C16_ok c3) = true.
Proof. vm_compute. reflexivity. Qed.

Print Assumptions C16_default_is_proto_equal.
Print Assumptions C16_equal_with_comparers_is_reference.
Print Assumptions C16_ignoring_is_clearing.
Print Assumptions C16_change_time_presence_v0_refuted.
Print Assumptions C16_source_table_matches_model.
Print Assumptions C16_and_is_conj.
Print Assumptions C16_or_is_disj.
Print Assumptions C16_value_and_is_conj.
Print Assumptions C16_value_or_is_disj.
Print Assumptions C16_float_reflexive.
Print Assumptions C16_float_symmetric.
Print Assumptions C16_float_accepts_iff_within.
Print Assumptions C16_float_only_own_kind.
Print Assumptions C16_float_special_values_v0_refuted.
Print Assumptions C16_float_b64_reflexive.
Print Assumptions C16_float_b64_symmetric.
Print Assumptions C16_float_b64_accepts_iff_within_real.
Print Assumptions C16_float_b64_is_rational_on_guard.
Print Assumptions C16_float_b64_accepts_iff_within.
Print Assumptions C16_float_b64_conversion_exact.
Print Assumptions C16_float_rational_model_outside_guard_refuted.
Print Assumptions C16_time_reflexive.
Print Assumptions C16_time_symmetric.
Print Assumptions C16_time_accepts_iff_within.
Print Assumptions C16_time_only_own_kind.
Print Assumptions C16_duration_reflexive.
Print Assumptions C16_duration_symmetric.
Print Assumptions C16_duration_accepts_iff_within.
Print Assumptions C16_duration_kernel_no_wrap.
Print Assumptions C16_duration_v1_exact_inside_int64_ns.
Print Assumptions C16_duration_saturation_v1_refuted.
Print Assumptions C16_duration_only_own_kind.
Print Assumptions C16_duration_wrap_v0_refuted.
Print Assumptions C16_durp_symmetric_refuted.
Print Assumptions C16_durp_reflexive_refuted.
Print Assumptions C16_durp_only_own_kind.
Print Assumptions C16_judge_sound.
Print Assumptions C16_judge_sound_without_masks.
Print Assumptions C16_judge_sound_masked_stream.
Print Assumptions C16_judge_sound_masked_collection.
Print Assumptions C16_judge_sound_comb.
Print Assumptions C16_reference_symmetric.
Print Assumptions C16_reference_reflexive.
Print Assumptions C16_equal_symmetric.
Print Assumptions C16_equal_reflexive.
Print Assumptions C16_judge_sound_default.
Print Assumptions C16_resource_value_stream_exact.
Print Assumptions C16_resource_equivalence_suppresses_exactly_equivalent.
Print Assumptions C16_collection_tolerance_drift_v0_refuted.
Print Assumptions C16_go_sub_is_saturating_difference.
Print Assumptions C16_time_v0_exact_below_max.
Print Assumptions C16_time_v0_far_apart_rejected_both_orders.
Print Assumptions C16_time_max_dur_v0_refuted.
Print Assumptions C16_collection_delivers_iff_not_equivalent_to_held.
Print Assumptions C16_collection_held_is_last_delivered.
Print Assumptions C16_collection_seeded.
Print Assumptions C16_collection_updates_only.
Print Assumptions C16_collection_no_equivalence_unchanged.
Print Assumptions C16_collection_v0_right_for_equivalence_relations.
Print Assumptions C16_whole_message_is_ideal.
Print Assumptions C16_collection_lossy_history_chained.
Print Assumptions C16_collection_lossy_delivers_iff_not_equivalent_to_held.
Print Assumptions C16_collection_lossy_seeded.
Print Assumptions C16_collection_lossy_kinds_erase.
Print Assumptions C16_collection_lossy_kinds_model_erase.
Print Assumptions C16_tree_verdict.
Print Assumptions C16_tree_answers_iff_some_leaf_applies.
Print Assumptions C16_and_tree_is_conj_of_applicable_leaves.
Print Assumptions C16_or_tree_is_disj_of_applicable_leaves.
Print Assumptions C16_tree_equal_symmetric.
Print Assumptions C16_tree_equal_reflexive.
Print Assumptions C16_tree_whole_message_is_ideal.
