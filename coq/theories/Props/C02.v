(* C02 — Concurrent writes are atomic: linearizable outcomes, no lost updates.  Theorems only.

   Model: Conc/Lts.v — threads running one call each (Value.Set, Collection.Update / Add,
   Collection.Delete, Pull) on one shared Value and Collection; an atomic step is the code between
   two verifhook yield points; `run sched s` executes a schedule (list of thread ids).  Alongside
   the run the ghost `st_wit` records, at the step where a call's outcome becomes determined, the
   entry (thread, outcome, step index): the save step of a successful write, the (last) read of a
   call that fails NotFound / AlreadyExists / a precondition; calls that lose a race (Aborted,
   Unavailable) never enter it.  All statements: every message algebra whose proto.Equal decides
   equality, every program (any number of threads, arbitrary options / interceptors / checks),
   EVERY schedule, the repaired code (v0 = false). *)
From SC Require Import Base.Prelude Resource.Impl Resource.Spec Resource.Pull Resource.ImplProofs
  Resource.Flat Resource.FlatProofs Resource.Judge Conc.Lts Conc.LtsProofs Conc.DeleteProofs Conc.FlatInst Conc.Judge
  Conc.GenLts Conc.GenProofs Conc.LinSound Conc.AtomicDefs Gen.C02Atomic Conc.AtomicTable Conc.CfgLts Conc.CfgProofs Conc.CreatedProofs Conc.AgreesOk Conc.CfgRun.
From Coq Require Import Sorted.

Section C02.
  Variable M : Type.
  Variable m_eqb : M -> M -> bool.
  Variable m_empty : M.
  Variable writer : Type.
  Variable w_validate : writer -> option Z.
  Variable w_merge : writer -> M -> M -> M.
  Variable rmask : Type.
  Variable clock_at : Z -> Z.
  Variable str_ltb : string -> string -> bool.
  Variable idfun : option (string -> string).
  (* trusted: proto.Equal on canonical messages decides equality (NaN payloads identified) *)
  Hypothesis m_eqb_eq : forall a b, m_eqb a b = true -> a = b.
  Hypothesis ltb_irrefl : forall a, str_ltb a a = false.
  Hypothesis ltb_trans : forall a b c, str_ltb a b = true -> str_ltb b c = true -> str_ltb a c = true.
  Hypothesis ltb_total : forall a b, str_ltb a b = false -> str_ltb b a = false -> a = b.

  Variable prog : list (call M writer rmask).
  (* no restriction on the calls: an Update / Add with WithGenIDIfAbsent and an empty id is, here, a
     call whose rng offers no candidate; calls with candidates: section C02_generated_ids below *)
  Variable v0 : vstate M.
  Variable c0 : cstate M.
  Hypothesis c0_sorted : sorted str_ltb (c_items c0).

  Notation run := (run m_eqb m_empty w_validate w_merge clock_at str_ltb idfun false false prog).
  Notation replay := (replay m_eqb m_empty w_validate w_merge clock_at str_ltb idfun prog).
  Notation spec_call := (spec_call m_eqb m_empty w_validate w_merge clock_at str_ltb idfun (rmask := rmask)).
  Notation predicted := (predicted m_eqb m_empty w_merge (rmask := rmask)).
  Notation s0 := (s0 prog v0 c0).
  Notation mem_at := (mem_at m_eqb m_empty w_validate w_merge clock_at str_ltb idfun prog v0 c0).

  (* Linearizability with a constructive witness.  (1) Replaying the witness order one call at a
     time on the sequential reference (Resource/Spec.v) gives every call in it exactly its outcome
     and ends in the concrete memory — so calls outside it (lost races) had no effect, and every
     effect is accounted for exactly once.  (2) A call is in the witness exactly once with the
     outcome it returns (or is bound to return), and not at all if it returns Aborted / Unavailable
     from a lost race.  (3) Its linearization point is one of its own steps, and (4) the witness is
     in schedule order — hence consistent with real-time precedence (C02_real_time_order). *)
  Theorem C02_linearizable : forall sched,
    let s := run sched s0 in
    replay (v0, c0) (map (@wit_tid M) (st_wit s)) = (mem (st_w s), map (@wit_out M) (st_wit s)) /\
    (forall t c p, nth_error prog t = Some c -> nth_error (st_pcs s) t = Some p ->
                   map (@wit_out M) (wit_of t (st_wit s)) = olist (predicted c p)) /\
    (forall e, In e (st_wit s) -> nth_error sched (wit_k e) = Some (wit_tid e)) /\
    StronglySorted (fun a b => (wit_k a < wit_k b)%nat) (st_wit s).
  Proof. apply linearizable; assumption. Qed.

  (* what "outcome it returns" means for a finished call *)
  Theorem C02_returned_is_linearized : forall sched t c r,
    nth_error prog t = Some c -> nth_error (st_pcs (run sched s0)) t = Some (PDone r) ->
    match r with
    | OLost _ | OSub => wit_of t (st_wit (run sched s0)) = []
    | _ => exists k, wit_of t (st_wit (run sched s0)) = [(t, r, k)]
    end.
  Proof. apply returned_is_linearized; assumption. Qed.

  (* at its linearization step a call takes exactly the reference's step on the memory of that instant *)
  Theorem C02_linearization_points : forall sched e,
    In e (st_wit (run sched s0)) ->
    exists c, nth_error prog (wit_tid e) = Some c /\ nth_error sched (wit_k e) = Some (wit_tid e) /\
              spec_call (mem_at sched (wit_k e)) c = (mem_at sched (S (wit_k e)), wit_out e).
  Proof. apply linearization_points; assumption. Qed.

  Theorem C02_real_time_order : forall sched a b,
    In a (st_wit (run sched s0)) -> In b (st_wit (run sched s0)) ->
    (forall i j, nth_error sched i = Some (wit_tid a) -> nth_error sched j = Some (wit_tid b) -> (i < j)%nat) ->
    (wit_k a < wit_k b)%nat.
  Proof. apply real_time_order; assumption. Qed.

  (* a write with an expected value succeeds only if the stored value satisfied it at the instant
     of the write *)
  Theorem C02_set_cas_only_if_satisfied : forall sched t msg o e nv,
    nth_error prog t = Some (CSet msg o) -> wo_expected o = Some e ->
    nth_error (st_pcs (run sched s0)) t = Some (PDone (OVal (inl nv))) ->
    exists k, nth_error sched k = Some t /\
              om_eqb m_eqb (v_val (fst (mem_at sched k))) (Some e) = true /\
              v_val (fst (mem_at sched (S k))) = Some nv.
  Proof. apply set_cas_only_if_satisfied; assumption. Qed.

  Theorem C02_update_cas_only_if_satisfied : forall sched t id0 msg o e nv,
    nth_error prog t = Some (CUpdate id0 msg o) -> wo_expected o = Some e ->
    nth_error (st_pcs (run sched s0)) t = Some (PDone (OVal (inl nv))) ->
    exists k, nth_error sched k = Some t /\
              m_eqb (match lookup (apply_id idfun id0) (c_items (snd (mem_at sched k))) with
                     | Some it => it_body it | None => m_empty end) e = true /\
              option_map (@it_body M) (lookup (apply_id idfun id0) (c_items (snd (mem_at sched (S k))))) = Some nv.
  Proof. apply update_cas_only_if_satisfied; assumption. Qed.

  (* a Delete never removes a version its precondition did not see *)
  Theorem C02_delete_removes_what_it_checked : forall sched t id0 o b,
    nth_error prog t = Some (CDelete id0 o) ->
    nth_error (st_pcs (run sched s0)) t = Some (PDone (ODel (Some b) None)) ->
    exists k it, nth_error sched k = Some t /\
                 lookup (apply_id idfun id0) (c_items (snd (mem_at sched k))) = Some it /\ it_body it = b /\
                 del_check m_eqb o (Some (it, 0)) = None /\
                 c_items (snd (mem_at sched (S k))) = remove (apply_id idfun id0) (c_items (snd (mem_at sched k))).
  Proof. apply delete_removes_what_it_checked; assumption. Qed.

  (* read-modify-write interceptors never lose an increment: if every call is an unconditional Set
     adding delta(t) to a measured quantity of the old value, the stored quantity is the initial
     one plus the increments of exactly the linearized (= successful, by C02_linearizable (2)) calls *)
  Theorem C02_no_lost_increment : forall (measure : option M -> Z) (delta : nat -> Z),
    (forall t c, nth_error prog t = Some c -> is_delta m_empty w_validate w_merge measure c (delta t)) ->
    forall sched,
    let s := run sched s0 in
    measure (v_val (w_v (st_w s))) = measure (v_val v0) + sumZ (map (fun e => delta (wit_tid e)) (st_wit s)) /\
    Forall (fun e => exists nv, wit_out e = OVal (inl nv)) (st_wit s).
  Proof. apply no_lost_increment; assumption. Qed.

  (* two concurrent Adds of one id never both succeed (absent a Delete that could legitimately
     separate them) *)
  Theorem C02_adds_at_most_one :
    (forall t c, nth_error prog t = Some c -> not_delete c) ->
    forall sched t1 t2 id1 id2 msg1 msg2 o1 o2 nv1 nv2,
    t1 <> t2 ->
    nth_error prog t1 = Some (CUpdate id1 msg1 o1) -> nth_error prog t2 = Some (CUpdate id2 msg2 o2) ->
    apply_id idfun id1 = apply_id idfun id2 -> wo_expect_absent o1 = true -> wo_expect_absent o2 = true ->
    nth_error (st_pcs (run sched s0)) t1 = Some (PDone (OVal (inl nv1))) ->
    nth_error (st_pcs (run sched s0)) t2 = Some (PDone (OVal (inl nv2))) -> False.
  Proof. apply adds_at_most_one; assumption. Qed.
  (* with Deletes in the program: two successful Adds of one id are separated, in the witness
     order, by a successful Delete of that id *)
  Theorem C02_adds_separated_by_delete : forall sched t1 t2 id1 id2 msg1 msg2 o1 o2 nv1 nv2 k1 k2,
    nth_error prog t1 = Some (CUpdate id1 msg1 o1) -> nth_error prog t2 = Some (CUpdate id2 msg2 o2) ->
    apply_id idfun id1 = apply_id idfun id2 -> wo_expect_absent o2 = true ->
    In (t1, OVal (inl nv1), k1) (st_wit (run sched s0)) -> In (t2, OVal (inl nv2), k2) (st_wit (run sched s0)) ->
    (k1 < k2)%nat ->
    exists k3 t3 id3 o3 b, (k1 < k3 < k2)%nat /\ nth_error prog t3 = Some (CDelete id3 o3) /\
                           apply_id idfun id3 = apply_id idfun id1 /\
                           In (t3, ODel (Some b) None, k3) (st_wit (run sched s0)).
  Proof. apply adds_separated_by_delete; assumption. Qed.

  (* a Delete returns Unavailable only after five lost races: at least five distinct commits to its
     id (successful Updates / Adds / Deletes of OTHER calls) were linearized strictly between two
     of its own steps — each of its five re-reads under the lock found another version *)
  Theorem C02_unavailable_after_five_lost_races : forall sched t id0 o,
    nth_error prog t = Some (CDelete id0 o) ->
    nth_error (st_pcs (run sched s0)) t = Some (PDone (OLost 14)) ->
    exists r0 r ms, nth_error sched r0 = Some t /\ nth_error sched r = Some t /\
                    (5 <= List.length ms)%nat /\ NoDup ms /\
                    forall m, In m ms ->
                      (r0 < m < r)%nat /\
                      exists e, In e (st_wit (run sched s0)) /\ wit_k e = m /\ wit_tid e <> t /\
                                commits_to idfun prog (apply_id idfun id0) e.
  Proof. apply unavailable_after_five_lost_races; assumption. Qed.
End C02.

(* ---------- generated ids (WithGenIDIfAbsent), Conc/GenLts.v ----------
   A thread whose call generates its id resolves, in its first step, the first of its rng's ten
   candidates that is non-empty and unused at THAT instant, and continues as the call of that id.
   cands t: the candidates of thread t's call.  Every program, every candidate assignment, every
   schedule. *)
Section C02_generated_ids.
  Variable M : Type.
  Variable m_eqb : M -> M -> bool.
  Variable m_empty : M.
  Variable writer : Type.
  Variable w_validate : writer -> option Z.
  Variable w_merge : writer -> M -> M -> M.
  Variable rmask : Type.
  Variable clock_at : Z -> Z.
  Variable str_ltb : string -> string -> bool.
  Variable idfun : option (string -> string).
  Hypothesis m_eqb_eq : forall a b, m_eqb a b = true -> a = b.
  Hypothesis ltb_irrefl : forall a, str_ltb a a = false.
  Hypothesis ltb_trans : forall a b c, str_ltb a b = true -> str_ltb b c = true -> str_ltb a c = true.
  Hypothesis ltb_total : forall a b, str_ltb a b = false -> str_ltb b a = false -> a = b.
  Variable prog : list (call M writer rmask).
  Variable cands : nat -> list string.
  Variable v0 : vstate M.
  Variable c0 : cstate M.
  Hypothesis c0_sorted : sorted str_ltb (c_items c0).

  Notation grun := (grun m_eqb m_empty w_validate w_merge clock_at str_ltb idfun false false prog cands).
  Notation run := (run m_eqb m_empty w_validate w_merge clock_at str_ltb idfun false false).
  Notation replay := (replay m_eqb m_empty w_validate w_merge clock_at str_ltb idfun).
  Notation spec_call := (spec_call m_eqb m_empty w_validate w_merge clock_at str_ltb idfun (rmask := rmask)).
  Notation predicted := (predicted m_eqb m_empty w_merge (rmask := rmask)).
  Notation g0 := (g0 prog v0 c0).
  Notation resolved := (resolved m_eqb m_empty w_validate w_merge clock_at str_ltb idfun prog cands v0 c0).
  Notation rprog := (rprog m_eqb m_empty w_validate w_merge clock_at str_ltb idfun prog cands v0 c0).
  Notation gmem_at := (gmem_at m_eqb m_empty w_validate w_merge clock_at str_ltb idfun prog cands v0 c0).

  (* THE REDUCTION (what the harness used to assume when it handed the model Add(<reported id>)): the
     run with generated ids is, state for state (memory, pcs, witness, subscribers), the run of
     Conc/Lts.v on the program in which every call that resolved candidate g is the call of g -- and
     so is every prefix of it.  Hence every C02 theorem above holds of runs with generated ids. *)
  Theorem C02_generated_ids_reduction : forall sched,
    g_st (grun sched g0) = run (rprog sched) sched (init (rprog sched) v0 c0) /\
    (forall k, g_st (grun (firstn k sched) g0) = run (rprog sched) (firstn k sched) (init (rprog sched) v0 c0)) /\
    (forall t, nth_error (rprog sched) t = option_map (fun c => subst_call idfun c (resolved sched t)) (nth_error prog t)) /\
    (forall t g, resolved sched t = Some g ->
       (exists id0 msg o, nth_error prog t = Some (CUpdate id0 msg o) /\ is_gen idfun (CUpdate id0 msg o (rmask := rmask)) = true /\
                          nth_error (rprog sched) t = Some (CUpdate g msg (no_gen o))) /\
       In g (firstn 10 (cands t)) /\ g <> ""%string /\ In t sched).
  Proof.
    intros sched. split; [apply grun_is_run; assumption|]. split; [intros k; apply grun_prefix; assumption|].
    split; [intros t; apply rprog_spec|]. intros t g. apply resolved_spec; assumption.
  Qed.

  (* linearizability: the reference (Resource/Spec.v) replays every generating call as the call of
     the candidate it resolved *)
  Theorem C02_generated_ids_linearizable : forall sched,
    let s := g_st (grun sched g0) in
    let P := rprog sched in
    replay P (v0, c0) (map (@wit_tid M) (st_wit s)) = (mem (st_w s), map (@wit_out M) (st_wit s)) /\
    (forall t c p, nth_error P t = Some c -> nth_error (st_pcs s) t = Some p ->
                   map (@wit_out M) (wit_of t (st_wit s)) = olist (predicted c p)) /\
    (forall e, In e (st_wit s) -> nth_error sched (wit_k e) = Some (wit_tid e)) /\
    StronglySorted (fun a b => (wit_k a < wit_k b)%nat) (st_wit s).
  Proof. apply gen_linearizable; assumption. Qed.

  Theorem C02_generated_ids_linearization_points : forall sched e,
    In e (st_wit (g_st (grun sched g0))) ->
    exists c, nth_error (rprog sched) (wit_tid e) = Some c /\ nth_error sched (wit_k e) = Some (wit_tid e) /\
              spec_call (gmem_at sched (wit_k e)) c = (gmem_at sched (S (wit_k e)), wit_out e).
  Proof. apply gen_linearization_points; assumption. Qed.

  (* the right reference for a generating Add is NOT "the first unused candidate at the write" (a
     Delete between the read and the write can free an earlier candidate: C02_first_fresh_spec_refuted)
     but "ANY unused id": the id the call resolved was not stored at the instant of its write, and
     is stored with the returned message right after *)
  Theorem C02_generated_id_fresh_at_write : forall sched t id0 msg o g nv,
    nth_error prog t = Some (CUpdate id0 msg o) -> wo_expect_absent o = true -> resolved sched t = Some g ->
    nth_error (st_pcs (g_st (grun sched g0))) t = Some (PDone (OVal (inl nv))) ->
    exists k, nth_error sched k = Some t /\
              lookup (apply_id idfun g) (c_items (snd (gmem_at sched k))) = None /\
              option_map (@it_body M) (lookup (apply_id idfun g) (c_items (snd (gmem_at sched (S k))))) = Some nv.
  Proof. apply gen_add_fresh_at_write; assumption. Qed.

  (* generated ids never collide: two Adds that generate never both succeed under one stored id
     (program without Deletes) ... *)
  Theorem C02_generated_ids_never_collide : forall sched t1 t2 id1 id2 msg1 msg2 o1 o2 g1 g2 nv1 nv2,
    (forall t c, nth_error prog t = Some c -> not_delete c) ->
    t1 <> t2 ->
    nth_error prog t1 = Some (CUpdate id1 msg1 o1) -> nth_error prog t2 = Some (CUpdate id2 msg2 o2) ->
    wo_expect_absent o1 = true -> wo_expect_absent o2 = true ->
    resolved sched t1 = Some g1 -> resolved sched t2 = Some g2 ->
    nth_error (st_pcs (g_st (grun sched g0))) t1 = Some (PDone (OVal (inl nv1))) ->
    nth_error (st_pcs (g_st (grun sched g0))) t2 = Some (PDone (OVal (inl nv2))) ->
    apply_id idfun g1 <> apply_id idfun g2.
  Proof. apply gen_ids_never_collide; assumption. Qed.

  (* ... and with Deletes in the program a successful Delete of the id is linearized between them *)
  Theorem C02_generated_ids_separated_by_delete : forall sched t1 t2 id1 id2 msg1 msg2 o1 o2 g1 g2 nv1 nv2 k1 k2,
    nth_error prog t1 = Some (CUpdate id1 msg1 o1) -> nth_error prog t2 = Some (CUpdate id2 msg2 o2) ->
    wo_expect_absent o2 = true ->
    resolved sched t1 = Some g1 -> resolved sched t2 = Some g2 -> apply_id idfun g1 = apply_id idfun g2 ->
    In (t1, OVal (inl nv1), k1) (st_wit (g_st (grun sched g0))) ->
    In (t2, OVal (inl nv2), k2) (st_wit (g_st (grun sched g0))) -> (k1 < k2)%nat ->
    exists k3 t3 id3 o3 b, (k1 < k3 < k2)%nat /\ nth_error prog t3 = Some (CDelete id3 o3) /\
                           apply_id idfun id3 = apply_id idfun g1 /\
                           In (t3, ODel (Some b) None, k3) (st_wit (g_st (grun sched g0))).
  Proof. apply gen_ids_separated_by_delete; assumption. Qed.

  (* the id callback is invoked exactly once, with the resolved candidate; never without one *)
  Theorem C02_id_callback : forall sched t,
    g_ids (grun sched g0) t = match resolved sched t with
                              | Some g => if id_cb_at prog t then [g] else []
                              | None => []
                              end.
  Proof. apply id_callback_spec; assumption. Qed.
End C02_generated_ids.

Print Assumptions C02_generated_ids_reduction.
Print Assumptions C02_generated_ids_linearizable.
Print Assumptions C02_generated_ids_linearization_points.
Print Assumptions C02_generated_id_fresh_at_write.
Print Assumptions C02_generated_ids_never_collide.
Print Assumptions C02_generated_ids_separated_by_delete.
Print Assumptions C02_id_callback.

Print Assumptions C02_linearizable.
Print Assumptions C02_returned_is_linearized.
Print Assumptions C02_linearization_points.
Print Assumptions C02_real_time_order.
Print Assumptions C02_set_cas_only_if_satisfied.
Print Assumptions C02_update_cas_only_if_satisfied.
Print Assumptions C02_delete_removes_what_it_checked.
Print Assumptions C02_no_lost_increment.
Print Assumptions C02_adds_at_most_one.
Print Assumptions C02_adds_separated_by_delete.
Print Assumptions C02_unavailable_after_five_lost_races.

(* ---------- the pinned commit ---------- *)
Definition plain_wo := mkFWO None None None None false None false None false None None false false false false.
Definition two_adds : list fcall := [FAdd "a" (mkF 10 0 0) plain_wo; FAdd "a" (mkF 11 0 0) plain_wo].

(* with schedule [T0.read; T1.read; T0.save; T1.save; publishes] both Adds of one id report success
   and the second overwrites the first: the get closure answered the re-read under the write lock
   with the provisional `created` message, so the re-validation could not fail *)
Theorem C02_two_adds_v0_refuted :
  let s := f_run true None two_adds [0; 1; 0; 1; 0; 1]%nat None [] in
  map (@result_of fmsg) (st_pcs s) = [Some (OVal (inl (mkF 10 0 0))); Some (OVal (inl (mkF 11 0 0)))] /\
  final_list (w_c (st_w s)) = [("a"%string, mkF 11 0 0)] /\
  C02_ok (CaseSched None None [] two_adds [0; 1; 0; 1; 0; 1]%nat
                    [mkFO (Some (mkF 10 0 0)) 0; mkFO (Some (mkF 11 0 0)) 0] None [("a"%string, mkF 11 0 0)] [] [] []) = false.
Proof. vm_compute. repeat split; reflexivity. Qed.
Print Assumptions C02_two_adds_v0_refuted.

(* ---------- the linearizability checker (C02_ok) is sound and complete ---------- *)
(* whatever history the harness observed -- a forced schedule, or a free-running one from the
   16-core stress -- if C02_ok accepts it then a linearization EXISTS: a permutation of the calls
   that took effect, consistent with real-time precedence of the recorded stamps, on which the
   sequential reference returns every call's observed result and ends in the contents read at the end *)
Theorem C02_checker_sound : forall c rw i vinit cinit hist fv fc,
  hist_of_case c = Some (rw, i, vinit, cinit, hist, fv, fc) -> C02_ok c = true ->
  forallb allowed_code (filter (fun h => is_write_call (h_call h)) hist) = true /\
  exists order, linearization rw i (init_v vinit, init_c cinit) (effective hist) order fv fc.
Proof. exact C02_ok_sound. Qed.

(* and it rejects no linearizable history (stamps distinct, invocation before response) *)
Theorem C02_checker_complete : forall rw i vinit cinit hist fv fc order,
  forallb allowed_code (filter (fun h => is_write_call (h_call h)) hist) = true ->
  keys_distinct (effective hist) = true ->
  (forall h, In h (effective hist) -> h_inv h <= h_resp h) ->
  linearization rw i (init_v vinit, init_c cinit) (effective hist) order fv fc ->
  linearizable_b rw i vinit cinit hist fv fc = true.
Proof. exact linearizable_b_complete. Qed.
Print Assumptions C02_checker_sound.

(* ---------- forced schedules: the two halves of the verdict are tied (Conc/AgreesOk.v) ----------
   If the implementation agreed with the transition system on a forced schedule (CaseSched / CaseCfg), the
   independent checker accepts the history -- the linearization it finds is the witness order of
   C02_linearizable, seen through the checker's own stamps (first / last schedule index of each thread).
   forced_guard (computable from the case): no subscriber without backpressure; initial contents sorted by
   id; every returned code is one the call can return (allowed_code); no check / validation of the run itself
   answered Aborted for a Set / Update or Unavailable for a Delete (the checker reads those two codes as "lost
   a race").  CaseGen (generated ids) is not covered: the guard is false there. *)
Theorem C02_agrees_implies_ok : forall c, forced_guard c = true -> agrees c = true -> C02_ok c = true.
Proof. exact agrees_implies_C02_ok. Qed.

(* the one conjunct of forced_guard that runs the model follows from the PROGRAM TEXT (forced_guard_static: the
   code of every WithExpectedCheck callback is not 10 for Set / Update / Add, not 14 for Delete, and no call
   generates its id; validation answers 3 or 13 only): a guard that mentions neither the model nor the verdict *)
Theorem C02_agrees_implies_ok_static : forall c, forced_guard_static c = true -> agrees c = true -> C02_ok c = true.
Proof. exact agrees_implies_C02_ok_static. Qed.
Print Assumptions C02_agrees_implies_ok_static.

(* so verdict 2 ("model agrees, predicate fails") cannot occur on such a case *)
Theorem C02_forced_verdict_never_2 : forall c, forced_guard c = true -> judge02 c <> 2.
Proof. exact judge02_never_2. Qed.
Print Assumptions C02_agrees_implies_ok.
Print Assumptions C02_forced_verdict_never_2.
Print Assumptions C02_checker_complete.

(* ---------- the lock discipline that makes the model's steps atomic, on today's source ---------- *)
(* Gen/C02Atomic.v is regenerated from pkg/resource/{atomic,value,collection}.go on every run: in
   GetAndUpdate the re-read, the proto.Equal re-validation and the save are ONE exclusive critical
   section entered after the change function ran with no lock; in Collection.Delete the re-read,
   delete, commit number, turnstile and publication are ONE exclusive section and the caller's check
   runs before it with no lock; every yield point (= boundary of a model step) is outside any lock *)
Theorem C02_lock_table : atomic_table_ok atomic_rows = true.
Proof. exact atomic_table_holds. Qed.
Print Assumptions C02_lock_table.

(* ---------- the created callback (WithCreatedCallback) is counted ----------
   For every program (with or without generated ids), candidate assignment and schedule: a call invokes its
   created callback at most once, and never without the option.  While it holds the provisional `created`
   message (allocated at the first read of an absent id, or at the re-read under the write lock when the
   item read at first has been deleted meanwhile) it has invoked it exactly once; once it has saved, it has
   invoked it exactly once if the change it committed and is about to publish is an ADD, and not at all if
   it is an UPDATE.  (A call that allocated and then lost the race has invoked it and created nothing:
   C02_created_callback_fires_on_lost_race.) *)
Section C02_created_callback.
  Variable M : Type.
  Variable m_eqb : M -> M -> bool.
  Variable m_empty : M.
  Variable writer : Type.
  Variable w_validate : writer -> option Z.
  Variable w_merge : writer -> M -> M -> M.
  Variable rmask : Type.
  Variable clock_at : Z -> Z.
  Variable str_ltb : string -> string -> bool.
  Variable idfun : option (string -> string).
  Variable prog : list (call M writer rmask).
  Variable cands : nat -> list string.
  Variable v0 : vstate M.
  Variable c0 : cstate M.

  Notation grun := (grun m_eqb m_empty w_validate w_merge clock_at str_ltb idfun false false prog cands).
  Notation cb_at := (cb_at M writer rmask).

  Theorem C02_created_callback_count : forall sched t,
    let gs := grun sched (ginit prog v0 c0) in
    0 <= g_created gs t <= 1 /\
    (cb_at prog t = false -> g_created gs t = 0) /\
    (forall old cr, nth_error (st_pcs (g_st gs)) t = Some (PRead old cr) -> cb_at prog t = true ->
                    (g_created gs t = 1 <-> cr = true)) /\
    (forall nv e, nth_error (st_pcs (g_st gs)) t = Some (PSavedC nv e) -> cb_at prog t = true ->
                  (g_created gs t = 1 <-> ce_kind e = KAdd)).
  Proof. intros sched t. apply created_count. Qed.
End C02_created_callback.
Print Assumptions C02_created_callback_count.

(* ---------- the configuration the resources are constructed with (Conc/CfgLts.v) ----------
   A program runs on a Value and a Collection constructed with: an equivalence (WithEquivalence /
   WithMessageEquivalence / WithNoDuplicates; usually NOT exact: a float tolerance, ignored time fields), an
   id interceptor, an initial value or none, initial contents.  THE EQUIVALENCE PLAYS NO ROLE IN THE WRITE
   PATH: for every program and every schedule the state reached -- each call's result or parking place, the
   stored value and items with their versions, the linearization witness, the commit logs, the raw events
   offered to each subscriber -- is the same whatever the equivalence; only what the Pull goroutines pass on
   to their subscribers depends on it (non-vacuity: C02_nonvacuous_equivalence_is_configured).  Hence a
   conflict between two writers is never decided by the equivalence: "equivalent" is not "unchanged". *)
Section C02_configuration.
  Variable M : Type.
  Variable m_eqb : M -> M -> bool.
  Variable m_empty : M.
  Variable writer : Type.
  Variable w_validate : writer -> option Z.
  Variable w_merge : writer -> M -> M -> M.
  Variable rmask : Type.
  Variable r_filter : rmask -> M -> M.
  Variable clock_at : Z -> Z.
  Variable str_ltb : string -> string -> bool.
  Hypothesis m_eqb_eq : forall a b, m_eqb a b = true -> a = b.
  Hypothesis ltb_irrefl : forall a, str_ltb a a = false.
  Hypothesis ltb_trans : forall a b c, str_ltb a b = true -> str_ltb b c = true -> str_ltb a c = true.
  Hypothesis ltb_total : forall a b, str_ltb a b = false -> str_ltb b a = false -> a = b.

  Notation crun := (crun m_eqb m_empty w_validate w_merge clock_at str_ltb false false).
  Notation observe := (observe m_eqb m_empty w_validate w_merge r_filter clock_at str_ltb false false).

  Theorem C02_equivalence_plays_no_role :
    forall (rc rc' : rconfig M) (prog : list (call M writer rmask)) (sched : list nat),
    rc_idfun rc = rc_idfun rc' -> rc_vinit rc = rc_vinit rc' -> rc_cinit rc = rc_cinit rc' ->
    ob_state (observe rc prog sched) = ob_state (observe rc' prog sched) /\
    forall k, crun rc prog (firstn k sched) = crun rc' prog (firstn k sched).
  Proof.
    intros rc rc' prog sched Hi Hv Hc. split.
    - apply crun_same_but_equiv; assumption.
    - intro k. apply crun_same_but_equiv; assumption.
  Qed.

  (* ... and under EVERY configuration the run is linearizable, with the witness built alongside it
     (C02_linearizable; likewise every other theorem above: the configured run is that run) *)
  Theorem C02_linearizable_configured :
    forall (rc : rconfig M) (prog : list (call M writer rmask)) (sched : list nat),
    sorted str_ltb (c_items (rc_cinit rc)) ->
    let s := crun rc prog sched in
    replay m_eqb m_empty w_validate w_merge clock_at str_ltb (rc_idfun rc) prog (rc_vinit rc, rc_cinit rc)
           (map (@wit_tid M) (st_wit s)) = (mem (st_w s), map (@wit_out M) (st_wit s)) /\
    (forall t c p, nth_error prog t = Some c -> nth_error (st_pcs s) t = Some p ->
                   map (@wit_out M) (wit_of t (st_wit s)) = olist (predicted m_eqb m_empty w_merge c p)) /\
    (forall e, In e (st_wit s) -> nth_error sched (wit_k e) = Some (wit_tid e)) /\
    StronglySorted (fun a b => (wit_k a < wit_k b)%nat) (st_wit s).
  Proof.
    intros rc prog sched Hs.
    apply C02_linearizable; assumption.
  Qed.

  (* A get closure that REMEMBERS the message of its first read and answers the re-read under the write
     lock with it whenever the configured equivalence calls the stored value equivalent (Conc/CfgLts.v
     trans_rem; not the code) takes exactly the code's steps -- for every call, parking place and memory --
     when no equivalence is configured or the configured one is exact (WithNoDuplicates) ... *)
  Theorem C02_remembered_read_harmless_iff_exact :
    forall (eqv : option (option M -> option M -> bool)) idfun v0 (c : call M writer rmask) p w,
    match eqv with Some cmp => forall a b, cmp a b = true -> a = b | None => True end ->
    trans_rem m_eqb m_empty w_validate w_merge clock_at str_ltb v0 eqv idfun c p w =
    trans m_eqb m_empty w_validate w_merge clock_at str_ltb idfun v0 c p w.
  Proof.
    intros [cmp|] idfun v0 c p w H.
    - apply trans_rem_exact. exact H.
    - apply trans_rem_none.
  Qed.

  (* ... and so does every RUN of it (Conc/CfgRun.v: run_rem executes a schedule with the remembering closure;
     step_tr_trans: the parametrised step with the code's atomic step IS the step of Conc/Lts.v): for every
     program and every schedule the state reached is the code's *)
  Theorem C02_remembered_read_run_harmless_iff_exact :
    forall (eqv : option (option M -> option M -> bool)) idfun v0 v1 (prog : list (call M writer rmask)) sched s,
    match eqv with Some cmp => forall a b, cmp a b = true -> a = b | None => True end ->
    run_rem m_eqb m_empty w_validate w_merge clock_at str_ltb idfun v0 v1 prog eqv sched s =
    run m_eqb m_empty w_validate w_merge clock_at str_ltb idfun v0 v1 prog sched s.
  Proof.
    intros [cmp|] idfun v0 v1 prog sched s H.
    - apply run_rem_exact. exact H.
    - apply run_rem_none.
  Qed.
End C02_configuration.
Print Assumptions C02_remembered_read_run_harmless_iff_exact.
Print Assumptions C02_equivalence_plays_no_role.
Print Assumptions C02_linearizable_configured.
Print Assumptions C02_remembered_read_harmless_iff_exact.

(* ... and is REFUTED for a tolerance: the writer read 5 and expects 5, a write of 7 (within the tolerance
   3) landed in the window: the remembering closure saves -- WithExpectedValue(5) succeeds while 7 is
   stored -- where the code is Aborted and leaves the 7 *)
Theorem C02_remembered_read_tolerance_refuted :
  (match trans_rem fmsg_eqb fzero fw_validate fw_merge fclock str_ltb false (Some (interp_ceqv (CqTol Fa 3))) None
                   rem_call (PRead (Some (mkF 5 0 0)) false) rem_world with
   | Some (PSavedV nv _, w', _) => fmsg_eqb nv (mkF 6 0 0) && ofm_eqb (v_val (w_v w')) (Some (mkF 6 0 0))
   | _ => false
   end) = true /\
  (match trans fmsg_eqb fzero fw_validate fw_merge fclock str_ltb None false
                   rem_call (PRead (Some (mkF 5 0 0)) false) rem_world with
   | Some (PDone (OLost 10), w', _) => ofm_eqb (v_val (w_v w')) (Some (mkF 7 0 0))
   | _ => false
   end) = true.
Proof. exact trans_rem_tolerance_refuted. Qed.
Print Assumptions C02_remembered_read_tolerance_refuted.

(* the same as a RUN: stored 5, tolerance 3; T0 = Set 6 expecting 5, T1 = Set 7; schedule T0.read T1.read T1.save
   T1.publish T0.save T0.publish.  The variant: both succeed and 6 is stored -- a history the checker rejects; the
   code on the same schedule: T0 is Aborted, 7 stays *)
Theorem C02_remembered_read_run_tolerance_refuted :
  let s := f_run_rem (Some (CqTol Fa 3)) rem_prog rem_sched (Some (mkF 5 0 0)) in
  let s' := f_run false None rem_prog rem_sched (Some (mkF 5 0 0)) [] in
  map (@result_of fmsg) (st_pcs s) = [Some (OVal (inl (mkF 6 0 0))); Some (OVal (inl (mkF 7 0 0)))] /\
  v_val (w_v (st_w s)) = Some (mkF 6 0 0) /\ st_stutter s = O /\
  C02_ok (CaseSched None (Some (mkF 5 0 0)) [] rem_prog rem_sched
                    [mkFO (Some (mkF 6 0 0)) 0; mkFO (Some (mkF 7 0 0)) 0] (Some (mkF 6 0 0)) [] [] [] []) = false /\
  map (@result_of fmsg) (st_pcs s') = [Some (OLost 10); Some (OVal (inl (mkF 7 0 0)))] /\
  v_val (w_v (st_w s')) = Some (mkF 7 0 0).
Proof. exact run_rem_tolerance_refuted. Qed.
Print Assumptions C02_remembered_read_run_tolerance_refuted.

(* non-vacuity: the equivalence IS a parameter of the model.  A subscriber of a Value constructed with the
   tolerance 3 is not sent the write 5 -> 6, one of a Value without equivalence is; the write happened in both *)
Example C02_nonvacuous_equivalence_is_configured :
  map (fun p => List.length (snd p))
      (ob_vstreams (f_observe (mkCfg (Some (CqTol Fa 3)) None) None (Some (mkF 5 0 0)) [] eq_prog eq_sched)) = [1%nat] /\
  map (fun p => List.length (snd p))
      (ob_vstreams (f_observe (mkCfg None None) None (Some (mkF 5 0 0)) [] eq_prog eq_sched)) = [2%nat] /\
  v_val (w_v (st_w (ob_state (f_observe (mkCfg (Some (CqTol Fa 3)) None) None (Some (mkF 5 0 0)) [] eq_prog eq_sched)))) = Some (mkF 6 0 0).
Proof. exact equivalence_visible_to_subscribers. Qed.
Example C02_nonvacuous_exact_equivalence : forall a b, interp_ceqv CqExact a b = true -> a = b.
Proof. exact ceqv_exact_is_exact. Qed.

(* ---------- generated ids: "the first unused candidate at the instant of the write" is NOT the reference ---------- *)
Definition gen_wo := mkFWO None None None None false None false None false None None false true true true.
Definition freed_prog : list fcall := [FAdd "" (mkF 60 0 0) gen_wo; FDelete "x1" plain_wo].
Definition freed_cands : list (list string) := [["x1"; "x2"]%string; []].
Definition freed_init : list (string * fmsg * Z) := [("x1"%string, mkF 7 0 0, 320)].

(* x1 is stored; the Add reads (x1 taken: it resolves x2); the Delete removes x1; the Add writes.
   At the instant of the write the first unused candidate is x1, the call stores x2: refinement to
   Spec.v with the same candidate list fails, while x2 IS unused at that instant
   (C02_generated_id_fresh_at_write) *)
Theorem C02_first_fresh_at_write_refuted :
  let gs := f_grun None freed_prog freed_cands [0; 1; 1; 0; 0]%nat freed_init in
  let at_write := f_grun None freed_prog freed_cands [0; 1; 1]%nat freed_init in
  g_res gs 0%nat = Some "x2"%string /\
  map (@result_of fmsg) (st_pcs (g_st gs)) = [Some (OVal (inl (mkF 60 0 0))); Some (ODel (Some (mkF 7 0 0)) None)] /\
  first_fresh (M := fmsg) None ["x1"; "x2"]%string 10 (c_items (w_c (st_w (g_st at_write)))) = Some "x1"%string /\
  final_list (w_c (st_w (g_st gs))) = [("x2"%string, mkF 60 0 0)] /\
  g_ids gs 0%nat = ["x2"%string] /\ g_created gs 0%nat = 1.
Proof. vm_compute. repeat split; reflexivity. Qed.
Print Assumptions C02_first_fresh_at_write_refuted.

(* the created callback fires when the provisional message is allocated, also for a call that then
   loses the race and creates nothing (two create-if-absent Updates of one absent id) *)
Definition cb_wo := mkFWO None None None None false None false None false (Some (IAddOld Fa)) None true true false false.
Definition two_upserts_cb : list fcall := [FUpdate "a" (mkF 3 0 0) cb_wo; FUpdate "a" (mkF 4 0 0) cb_wo].
Example C02_created_callback_fires_on_lost_race :
  let gs := f_grun None two_upserts_cb [[]; []] [0; 1; 0; 1; 0]%nat [] in
  map (@result_of fmsg) (st_pcs (g_st gs)) = [Some (OVal (inl (mkF 3 0 0))); Some (OLost 10)] /\
  g_created gs 0%nat = 1 /\ g_created gs 1%nat = 1 /\
  final_list (w_c (st_w (g_st gs))) = [("a"%string, mkF 3 0 0)].
Proof. vm_compute. repeat split; reflexivity. Qed.

(* non-vacuity of the generated-id theorems: two Adds drawing the same first candidate, both past
   the read before either writes: the loser is Aborted; run one after the other they get x1 and x2 *)
Definition two_gen : list fcall := [FAdd "" (mkF 60 0 0) gen_wo; FAdd "" (mkF 61 0 0) gen_wo].
Example C02_nonvacuous_generated_ids :
  let gs := f_grun None two_gen [["x1"; "x2"]%string; ["x1"; "x3"]%string] [0; 1; 0; 1; 0]%nat [] in
  let gs2 := f_grun None two_gen [["x1"; "x2"]%string; ["x1"; "x3"]%string] [0; 0; 0; 1; 1; 1]%nat [] in
  map (@result_of fmsg) (st_pcs (g_st gs)) = [Some (OVal (inl (mkF 60 0 0))); Some (OLost 10)] /\
  g_res gs 1%nat = Some "x1"%string /\
  map (@result_of fmsg) (st_pcs (g_st gs2)) = [Some (OVal (inl (mkF 60 0 0))); Some (OVal (inl (mkF 61 0 0)))] /\
  g_res gs2 1%nat = Some "x3"%string /\
  final_list (w_c (st_w (g_st gs2))) = [("x1"%string, mkF 60 0 0); ("x3"%string, mkF 61 0 0)].
Proof. vm_compute. repeat split; reflexivity. Qed.

(* ---------- non-vacuity: the flat algebra meets the hypotheses; a run with a lost race ---------- *)
Example C02_nonvacuous_hypotheses :
  (forall a b, fmsg_eqb a b = true -> a = b) /\ (forall a, str_ltb a a = false) /\
  (forall a b c, str_ltb a b = true -> str_ltb b c = true -> str_ltb a c = true) /\
  (forall a b, str_ltb a b = false -> str_ltb b a = false -> a = b).
Proof. repeat split; [exact fmsg_eqb_eq|exact str_ltb_irrefl|exact str_ltb_trans|exact str_ltb_total]. Qed.

Definition delta_wo := mkFWO None None None None false None false None false (Some (IAddOld Fa)) None false false false false.
Definition two_deltas : list fcall := [FSet (mkF 3 0 0) delta_wo; FSet (mkF 4 0 0) delta_wo].

(* repaired code, both threads read 5 before either saves: the second is Aborted, stays out of the
   witness, and the stored value is 5 + 3 — one increment, none lost *)
Example C02_nonvacuous_lost_race :
  let s := f_run false None two_deltas [0; 1; 0; 1; 0]%nat (Some (mkF 5 0 0)) [] in
  map (@result_of fmsg) (st_pcs s) = [Some (OVal (inl (mkF 8 0 0))); Some (OLost 10)] /\
  st_wit s = [(0%nat, OVal (inl (mkF 8 0 0)), 2%nat)] /\
  v_val (w_v (st_w s)) = Some (mkF 8 0 0).
Proof. vm_compute. repeat split; reflexivity. Qed.

(* the two Adds on the repaired code: the loser reports Aborted *)
Example C02_nonvacuous_two_adds_fixed :
  let s := f_run false None two_adds [0; 1; 0; 1; 0]%nat None [] in
  map (@result_of fmsg) (st_pcs s) = [Some (OVal (inl (mkF 10 0 0))); Some (OLost 10)] /\
  final_list (w_c (st_w s)) = [("a"%string, mkF 10 0 0)].
Proof. vm_compute. repeat split; reflexivity. Qed.

(* the hypotheses of C02_agrees_implies_ok are met by a case with a lost race (the Aborted call is dropped
   by the checker and is absent from the witness) *)
Example C02_nonvacuous_agrees_implies_ok :
  let c := CaseSched None (Some (mkF 5 0 0)) [] two_deltas [0; 1; 0; 1; 0]%nat
                     [mkFO (Some (mkF 8 0 0)) 0; mkFO None 10] (Some (mkF 8 0 0)) [] [] [] [] in
  forced_guard c = true /\ forced_guard_static c = true /\ agrees c = true /\ C02_ok c = true.
Proof. vm_compute. repeat split; reflexivity. Qed.

(* ... and the guard cannot simply be dropped: a Set whose reset mask names an unknown field is answered Internal (13)
   by validation, in the model as in the code (agrees = true); the checker does not count 13 among the codes a Set can
   return (allowed_code) and rejects the history -- the unguarded implication is REFUTED *)
Definition bad_reset_wo := mkFWO None None (Some [Fbad]) None false None false None false None None false false false false.
Theorem C02_agrees_implies_ok_unguarded_refuted :
  let c := CaseSched None (Some (mkF 5 0 0)) [] [FSet (mkF 6 0 0) bad_reset_wo; FSet (mkF 7 0 0) plain_wo] [0; 1; 1; 1]%nat
                     [mkFO None 13; mkFO (Some (mkF 7 0 0)) 0] (Some (mkF 7 0 0)) [] [] [] [] in
  agrees c = true /\ C02_ok c = false /\ forced_guard c = false.
Proof. vm_compute. repeat split; reflexivity. Qed.
Print Assumptions C02_agrees_implies_ok_unguarded_refuted.
