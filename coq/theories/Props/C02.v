(* C02 — Concurrent writes are atomic: linearizable outcomes, no lost updates.  Theorems only.

   Model: Conc/Lts.v — threads running one call each (Value.Set, Collection.Update / Add,
   Collection.Delete, Pull) on one shared Value and Collection; an atomic step is the code between
   two verifhook yield points; `run sched s` executes a schedule (list of thread ids).  Alongside
   the run the ghost `st_wit` records, at the step where a call's outcome becomes determined, the
   entry (thread, outcome, step index): the save step of a successful write, the (last) read of a
   call that fails NotFound / AlreadyExists / a precondition; calls that lose a race (Aborted,
   Unavailable) never enter it.  All statements: every message algebra whose proto.Equal decides
   equality, every program (any number of threads, arbitrary options / interceptors / checks),
   EVERY schedule, the repaired code (v0 = false). *)
From SC Require Import Base.Prelude Resource.Impl Resource.Spec Resource.Pull Resource.ImplProofs
  Resource.Flat Resource.FlatProofs Resource.Judge Conc.Lts Conc.LtsProofs Conc.DeleteProofs Conc.FlatInst Conc.Judge.
From Coq Require Import Sorted.

Section C02.
  Variable M : Type.
  Variable m_eqb : M -> M -> bool.
  Variable m_empty : M.
  Variable writer : Type.
  Variable w_validate : writer -> option Z.
  Variable w_merge : writer -> M -> M -> M.
  Variable rmask : Type.
  Variable clock_at : Z -> Z.
  Variable str_ltb : string -> string -> bool.
  Variable idfun : option (string -> string).
  (* trusted: proto.Equal on canonical messages decides equality (NaN payloads identified) *)
  Hypothesis m_eqb_eq : forall a b, m_eqb a b = true -> a = b.
  Hypothesis ltb_irrefl : forall a, str_ltb a a = false.
  Hypothesis ltb_trans : forall a b c, str_ltb a b = true -> str_ltb b c = true -> str_ltb a c = true.
  Hypothesis ltb_total : forall a b, str_ltb a b = false -> str_ltb b a = false -> a = b.

  Variable prog : list (call M writer rmask).
  (* no restriction on the calls: an Update / Add with WithGenIDIfAbsent and an empty id is, here, a
     call whose rng offers no candidate; calls with candidates: section C02_generated_ids below *)
  Variable v0 : vstate M.
  Variable c0 : cstate M.
  Hypothesis c0_sorted : sorted str_ltb (c_items c0).

  Notation run := (run m_eqb m_empty w_validate w_merge clock_at str_ltb idfun false false prog).
  Notation replay := (replay m_eqb m_empty w_validate w_merge clock_at str_ltb idfun prog).
  Notation spec_call := (spec_call m_eqb m_empty w_validate w_merge clock_at str_ltb idfun (rmask := rmask)).
  Notation predicted := (predicted m_eqb m_empty w_merge (rmask := rmask)).
  Notation s0 := (s0 prog v0 c0).
  Notation mem_at := (mem_at m_eqb m_empty w_validate w_merge clock_at str_ltb idfun prog v0 c0).

  (* Linearizability with a constructive witness.  (1) Replaying the witness order one call at a
     time on the sequential reference (Resource/Spec.v) gives every call in it exactly its outcome
     and ends in the concrete memory — so calls outside it (lost races) had no effect, and every
     effect is accounted for exactly once.  (2) A call is in the witness exactly once with the
     outcome it returns (or is bound to return), and not at all if it returns Aborted / Unavailable
     from a lost race.  (3) Its linearization point is one of its own steps, and (4) the witness is
     in schedule order — hence consistent with real-time precedence (C02_real_time_order). *)
  Theorem C02_linearizable : forall sched,
    let s := run sched s0 in
    replay (v0, c0) (map (@wit_tid M) (st_wit s)) = (mem (st_w s), map (@wit_out M) (st_wit s)) /\
    (forall t c p, nth_error prog t = Some c -> nth_error (st_pcs s) t = Some p ->
                   map (@wit_out M) (wit_of t (st_wit s)) = olist (predicted c p)) /\
    (forall e, In e (st_wit s) -> nth_error sched (wit_k e) = Some (wit_tid e)) /\
    StronglySorted (fun a b => (wit_k a < wit_k b)%nat) (st_wit s).
  Proof. apply linearizable; assumption. Qed.

  (* what "outcome it returns" means for a finished call *)
  Theorem C02_returned_is_linearized : forall sched t c r,
    nth_error prog t = Some c -> nth_error (st_pcs (run sched s0)) t = Some (PDone r) ->
    match r with
    | OLost _ | OSub => wit_of t (st_wit (run sched s0)) = []
    | _ => exists k, wit_of t (st_wit (run sched s0)) = [(t, r, k)]
    end.
  Proof. apply returned_is_linearized; assumption. Qed.

  (* at its linearization step a call takes exactly the reference's step on the memory of that instant *)
  Theorem C02_linearization_points : forall sched e,
    In e (st_wit (run sched s0)) ->
    exists c, nth_error prog (wit_tid e) = Some c /\ nth_error sched (wit_k e) = Some (wit_tid e) /\
              spec_call (mem_at sched (wit_k e)) c = (mem_at sched (S (wit_k e)), wit_out e).
  Proof. apply linearization_points; assumption. Qed.

  Theorem C02_real_time_order : forall sched a b,
    In a (st_wit (run sched s0)) -> In b (st_wit (run sched s0)) ->
    (forall i j, nth_error sched i = Some (wit_tid a) -> nth_error sched j = Some (wit_tid b) -> (i < j)%nat) ->
    (wit_k a < wit_k b)%nat.
  Proof. apply real_time_order; assumption. Qed.

  (* a write with an expected value succeeds only if the stored value satisfied it at the instant
     of the write *)
  Theorem C02_set_cas_only_if_satisfied : forall sched t msg o e nv,
    nth_error prog t = Some (CSet msg o) -> wo_expected o = Some e ->
    nth_error (st_pcs (run sched s0)) t = Some (PDone (OVal (inl nv))) ->
    exists k, nth_error sched k = Some t /\
              om_eqb m_eqb (v_val (fst (mem_at sched k))) (Some e) = true /\
              v_val (fst (mem_at sched (S k))) = Some nv.
  Proof. apply set_cas_only_if_satisfied; assumption. Qed.

  Theorem C02_update_cas_only_if_satisfied : forall sched t id0 msg o e nv,
    nth_error prog t = Some (CUpdate id0 msg o) -> wo_expected o = Some e ->
    nth_error (st_pcs (run sched s0)) t = Some (PDone (OVal (inl nv))) ->
    exists k, nth_error sched k = Some t /\
              m_eqb (match lookup (apply_id idfun id0) (c_items (snd (mem_at sched k))) with
                     | Some it => it_body it | None => m_empty end) e = true /\
              option_map (@it_body M) (lookup (apply_id idfun id0) (c_items (snd (mem_at sched (S k))))) = Some nv.
  Proof. apply update_cas_only_if_satisfied; assumption. Qed.

  (* a Delete never removes a version its precondition did not see *)
  Theorem C02_delete_removes_what_it_checked : forall sched t id0 o b,
    nth_error prog t = Some (CDelete id0 o) ->
    nth_error (st_pcs (run sched s0)) t = Some (PDone (ODel (Some b) None)) ->
    exists k it, nth_error sched k = Some t /\
                 lookup (apply_id idfun id0) (c_items (snd (mem_at sched k))) = Some it /\ it_body it = b /\
                 del_check m_eqb o (Some (it, 0)) = None /\
                 c_items (snd (mem_at sched (S k))) = remove (apply_id idfun id0) (c_items (snd (mem_at sched k))).
  Proof. apply delete_removes_what_it_checked; assumption. Qed.

  (* read-modify-write interceptors never lose an increment: if every call is an unconditional Set
     adding delta(t) to a measured quantity of the old value, the stored quantity is the initial
     one plus the increments of exactly the linearized (= successful, by C02_linearizable (2)) calls *)
  Theorem C02_no_lost_increment : forall (measure : option M -> Z) (delta : nat -> Z),
    (forall t c, nth_error prog t = Some c -> is_delta m_empty w_validate w_merge measure c (delta t)) ->
    forall sched,
    let s := run sched s0 in
    measure (v_val (w_v (st_w s))) = measure (v_val v0) + sumZ (map (fun e => delta (wit_tid e)) (st_wit s)) /\
    Forall (fun e => exists nv, wit_out e = OVal (inl nv)) (st_wit s).
  Proof. apply no_lost_increment; assumption. Qed.

  (* two concurrent Adds of one id never both succeed (absent a Delete that could legitimately
     separate them) *)
  Theorem C02_adds_at_most_one :
    (forall t c, nth_error prog t = Some c -> not_delete c) ->
    forall sched t1 t2 id1 id2 msg1 msg2 o1 o2 nv1 nv2,
    t1 <> t2 ->
    nth_error prog t1 = Some (CUpdate id1 msg1 o1) -> nth_error prog t2 = Some (CUpdate id2 msg2 o2) ->
    apply_id idfun id1 = apply_id idfun id2 -> wo_expect_absent o1 = true -> wo_expect_absent o2 = true ->
    nth_error (st_pcs (run sched s0)) t1 = Some (PDone (OVal (inl nv1))) ->
    nth_error (st_pcs (run sched s0)) t2 = Some (PDone (OVal (inl nv2))) -> False.
  Proof. apply adds_at_most_one; assumption. Qed.
  (* with Deletes in the program: two successful Adds of one id are separated, in the witness
     order, by a successful Delete of that id *)
  Theorem C02_adds_separated_by_delete : forall sched t1 t2 id1 id2 msg1 msg2 o1 o2 nv1 nv2 k1 k2,
    nth_error prog t1 = Some (CUpdate id1 msg1 o1) -> nth_error prog t2 = Some (CUpdate id2 msg2 o2) ->
    apply_id idfun id1 = apply_id idfun id2 -> wo_expect_absent o2 = true ->
    In (t1, OVal (inl nv1), k1) (st_wit (run sched s0)) -> In (t2, OVal (inl nv2), k2) (st_wit (run sched s0)) ->
    (k1 < k2)%nat ->
    exists k3 t3 id3 o3 b, (k1 < k3 < k2)%nat /\ nth_error prog t3 = Some (CDelete id3 o3) /\
                           apply_id idfun id3 = apply_id idfun id1 /\
                           In (t3, ODel (Some b) None, k3) (st_wit (run sched s0)).
  Proof. apply adds_separated_by_delete; assumption. Qed.

  (* a Delete returns Unavailable only after five lost races: at least five distinct commits to its
     id (successful Updates / Adds / Deletes of OTHER calls) were linearized strictly between two
     of its own steps — each of its five re-reads under the lock found another version *)
  Theorem C02_unavailable_after_five_lost_races : forall sched t id0 o,
    nth_error prog t = Some (CDelete id0 o) ->
    nth_error (st_pcs (run sched s0)) t = Some (PDone (OLost 14)) ->
    exists r0 r ms, nth_error sched r0 = Some t /\ nth_error sched r = Some t /\
                    (5 <= List.length ms)%nat /\ NoDup ms /\
                    forall m, In m ms ->
                      (r0 < m < r)%nat /\
                      exists e, In e (st_wit (run sched s0)) /\ wit_k e = m /\ wit_tid e <> t /\
                                commits_to idfun prog (apply_id idfun id0) e.
  Proof. apply unavailable_after_five_lost_races; assumption. Qed.
End C02.

Print Assumptions C02_linearizable.
Print Assumptions C02_returned_is_linearized.
Print Assumptions C02_linearization_points.
Print Assumptions C02_real_time_order.
Print Assumptions C02_set_cas_only_if_satisfied.
Print Assumptions C02_update_cas_only_if_satisfied.
Print Assumptions C02_delete_removes_what_it_checked.
Print Assumptions C02_no_lost_increment.
Print Assumptions C02_adds_at_most_one.
Print Assumptions C02_adds_separated_by_delete.
Print Assumptions C02_unavailable_after_five_lost_races.

(* ---------- the pinned commit ---------- *)
Definition plain_wo := mkFWO None None None None false None false None false None None false false false false.
Definition two_adds : list fcall := [FAdd "a" (mkF 10 0 0) plain_wo; FAdd "a" (mkF 11 0 0) plain_wo].

(* with schedule [T0.read; T1.read; T0.save; T1.save; publishes] both Adds of one id report success
   and the second overwrites the first: the get closure answered the re-read under the write lock
   with the provisional `created` message, so the re-validation could not fail *)
Theorem C02_two_adds_v0_refuted :
  let s := f_run true None two_adds [0; 1; 0; 1; 0; 1]%nat None [] in
  map (@result_of fmsg) (st_pcs s) = [Some (OVal (inl (mkF 10 0 0))); Some (OVal (inl (mkF 11 0 0)))] /\
  final_list (w_c (st_w s)) = [("a"%string, mkF 11 0 0)] /\
  C02_ok (CaseSched None None [] two_adds [0; 1; 0; 1; 0; 1]%nat
                    [mkFO (Some (mkF 10 0 0)) 0; mkFO (Some (mkF 11 0 0)) 0] None [("a"%string, mkF 11 0 0)] [] [] []) = false.
Proof. vm_compute. repeat split; reflexivity. Qed.
Print Assumptions C02_two_adds_v0_refuted.

(* ---------- non-vacuity: the flat algebra meets the hypotheses; a run with a lost race ---------- *)
Example C02_nonvacuous_hypotheses :
  (forall a b, fmsg_eqb a b = true -> a = b) /\ (forall a, str_ltb a a = false) /\
  (forall a b c, str_ltb a b = true -> str_ltb b c = true -> str_ltb a c = true) /\
  (forall a b, str_ltb a b = false -> str_ltb b a = false -> a = b).
Proof. repeat split; [exact fmsg_eqb_eq|exact str_ltb_irrefl|exact str_ltb_trans|exact str_ltb_total]. Qed.

Definition delta_wo := mkFWO None None None None false None false None false (Some (IAddOld Fa)) None false false false false.
Definition two_deltas : list fcall := [FSet (mkF 3 0 0) delta_wo; FSet (mkF 4 0 0) delta_wo].

(* repaired code, both threads read 5 before either saves: the second is Aborted, stays out of the
   witness, and the stored value is 5 + 3 — one increment, none lost *)
Example C02_nonvacuous_lost_race :
  let s := f_run false None two_deltas [0; 1; 0; 1; 0]%nat (Some (mkF 5 0 0)) [] in
  map (@result_of fmsg) (st_pcs s) = [Some (OVal (inl (mkF 8 0 0))); Some (OLost 10)] /\
  st_wit s = [(0%nat, OVal (inl (mkF 8 0 0)), 2%nat)] /\
  v_val (w_v (st_w s)) = Some (mkF 8 0 0).
Proof. vm_compute. repeat split; reflexivity. Qed.

(* the two Adds on the repaired code: the loser reports Aborted *)
Example C02_nonvacuous_two_adds_fixed :
  let s := f_run false None two_adds [0; 1; 0; 1; 0]%nat None [] in
  map (@result_of fmsg) (st_pcs s) = [Some (OVal (inl (mkF 10 0 0))); Some (OLost 10)] /\
  final_list (w_c (st_w s)) = [("a"%string, mkF 10 0 0)].
Proof. vm_compute. repeat split; reflexivity. Qed.
