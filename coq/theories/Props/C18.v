(* C18 — Timeline algebra matches its mathematical meaning.
   Theorems only; proofs live in Timeline/*Proofs.v.  Reference meanings:
     - a valid timestamp (0 <= nanos < 10^9, seconds in int64) denotes the integer ts_val;
     - a period denotes the half-open integer interval [start, end), missing ends unbounded;
       well-formed = valid ends and start <= end (an empty period [a, a) is well-formed);
     - a segment list denotes the step function val (0 where no segment is active);
     - a mode with a start time denotes mode_val (absolute time). *)
From SC Require Import Base.Prelude Timeline.Timestamp Timeline.Segment Timeline.Mode
  Timeline.TimestampProofs Timeline.SegmentProofs Timeline.ShiftSumProofs Timeline.ModeProofs
  Timeline.C18Judge Timeline.C18JudgeProofs.

(* timestamp comparison is the chronological total order and returns -1, 0 or 1 *)
Theorem C18_compare_contract : forall a b,
  ts_valid a = true -> ts_valid b = true ->
  (compare_ascending a b = -1 <-> ts_val a < ts_val b) /\
  (compare_ascending a b = 0 <-> a = b) /\
  (compare_ascending a b = 1 <-> ts_val a > ts_val b) /\
  (compare_ascending a b = -1 \/ compare_ascending a b = 0 \/ compare_ascending a b = 1).
Proof. exact compare_ascending_contract. Qed.
Print Assumptions C18_compare_contract.

Theorem C18_compare_antisym : forall a b, ts_valid a = true -> ts_valid b = true ->
  compare_ascending a b = - compare_ascending b a.
Proof. exact compare_ascending_antisym. Qed.
Print Assumptions C18_compare_antisym.

Theorem C18_compare_trans : forall a b c, ts_valid a = true -> ts_valid b = true -> ts_valid c = true ->
  compare_ascending a b <= 0 -> compare_ascending b c <= 0 -> compare_ascending a c <= 0.
Proof. exact compare_ascending_trans. Qed.
Print Assumptions C18_compare_trans.

(* Intersect decides exactly whether the two half-open intervals share a point *)
Theorem C18_intersect_iff_common_point : forall p q,
  period_wf p = true -> period_wf q = true ->
  (periods_intersect (Some p) (Some q) = true <-> exists x, in_period p x /\ in_period q x).
Proof.
  intros p q Hp Hq. rewrite (intersect_is_ref p q Hp Hq). exact (intersect_ref_meaning p q).
Qed.
Print Assumptions C18_intersect_iff_common_point.

(* Connected decides overlap-or-touch: the closures share a point *)
Theorem C18_connected_iff_touch : forall p q,
  period_wf p = true -> period_wf q = true ->
  (periods_connected (Some p) (Some q) = true <-> exists x, in_closure p x /\ in_closure q x).
Proof.
  intros p q Hp Hq. rewrite (connected_is_ref p q Hp Hq).
  apply connected_ref_meaning; [apply (period_wf_spec p Hp)|apply (period_wf_spec q Hq)].
Qed.
Print Assumptions C18_connected_iff_touch.

Theorem C18_intersect_symmetric : forall p q, periods_intersect p q = periods_intersect q p.
Proof. exact intersect_sym. Qed.
Print Assumptions C18_intersect_symmetric.
Theorem C18_connected_symmetric : forall p q, periods_connected p q = periods_connected q p.
Proof. exact connected_sym. Qed.
Print Assumptions C18_connected_symmetric.

(* magnitude-at reads the step function; active-at locates the active segment *)
Theorem C18_magnitude_at : forall d l, magnitude_at d l = of_level (level d l).
Proof. exact magnitude_at_is_level. Qed.
Print Assumptions C18_magnitude_at.

Theorem C18_active_at : forall d l, 0 <= d ->
  let '(el, i) := active_at d l in
  0 <= i <= zlen l /\ el = prefix_len' i l /\ el <= d /\
  forallb (fun s => match len s with Some _ => true | None => false end) (firstn (Z.to_nat i) l) = true /\
  (i < zlen l -> match len (nth (Z.to_nat i) l (mkSeg 0 None)) with Some n => d < el + n | None => True end).
Proof. exact active_at_contract. Qed.
Print Assumptions C18_active_at.

Theorem C18_duration : forall l,
  duration l =
  if forallb (fun s => match len s with Some _ => true | None => false end) l
  then (0 + sumZ (map fin_len l), false) else (fst (duration l), true).
Proof. intros l. exact (duration_from_spec l 0). Qed.
Print Assumptions C18_duration.

Theorem C18_max : forall l,
  let i := max_index l in
  if i <? zlen l then
    0 <= i /\ counts (nth (Z.to_nat i) l (mkSeg 0 None)) = true /\
    forallb (fun s => negb (counts s) || (mag s <=? nth_mag i l)) l = true /\
    forallb (fun s => negb (counts s) || (mag s <? nth_mag i l)) (firstn (Z.to_nat i) l) = true
  else forallb (fun s => negb (counts s)) l = true.
Proof. exact max_index_contract. Qed.
Print Assumptions C18_max.

(* cut splits without changing the function *)
Theorem C18_cut_preserves : forall d s, 0 < d -> (match len s with Some n => d < n | None => True end) ->
  exists b a, cut_seg d s = (Some b, Some a, false) /\ len b = Some d /\ forall t, val [b; a] t = val [s] t.
Proof. exact cut_seg_preserves. Qed.
Print Assumptions C18_cut_preserves.

(* shift is translation *)
Theorem C18_shift_is_translation : forall d l t, segs_wf l = true ->
  val (shift d l) t = if t <? 0 then 0 else val l (t - d).
Proof. exact shift_is_translation. Qed.
Print Assumptions C18_shift_is_translation.

(* sum is pointwise addition (magnitudes >= 0; see C18_sum_negative_tail_refuted for the guard) *)
Theorem C18_sum_is_pointwise : forall ls t,
  forallb segs_wf ls = true -> forallb segs_nonneg ls = true ->
  val (sum ls) t = sumZ (map (fun l => val l t) ls).
Proof. exact sum_is_pointwise. Qed.
Print Assumptions C18_sum_is_pointwise.

Theorem C18_sum_negative_tail_refuted :
  exists ls t, forallb segs_wf ls = true /\ 0 <= t /\ val (sum ls) t <> sumZ (map (fun l => val l t) ls).
Proof. exact sum_negative_tail_refuted. Qed.
Print Assumptions C18_sum_negative_tail_refuted.

(* mode operations translate by the start time and delegate to segments *)
Theorem C18_mode_magnitude_at : forall t m,
  mode_magnitude_at t m = of_level (level (t - t_or_st t m) (msegs m)).
Proof. exact mode_magnitude_at_is_level. Qed.
Print Assumptions C18_mode_magnitude_at.

Theorem C18_mode_shift : forall d m s x, mstart m = Some s ->
  mode_val (mode_shift d m) x = mode_val m (x - d).
Proof. exact mode_shift_with_start. Qed.
Print Assumptions C18_mode_shift.

Theorem C18_mode_shift_no_start : forall d m t, mstart m = None -> segs_wf (msegs m) = true ->
  mstart (mode_shift d m) = None /\
  val (msegs (mode_shift d m)) t = if t <? 0 then 0 else val (msegs m) (t - d).
Proof. exact mode_shift_without_start. Qed.
Print Assumptions C18_mode_shift_no_start.

Theorem C18_mode_cut : forall t m s, mstart m = Some s -> segs_wf (msegs m) = true ->
  forall b a, mode_cut t m = (Some b, Some a, false) ->
  mstart a = Some (ts_of t) /\ mstart b = Some s /\
  (forall x, x < t -> mode_val b x = mode_val m x) /\
  (forall x, t <= x -> mode_val a x = mode_val m x).
Proof. exact mode_cut_preserves. Qed.
Print Assumptions C18_mode_cut.

Theorem C18_mode_sum : forall ms s0 rest,
  ms <> [] -> starts ms = s0 :: rest ->
  forallb (fun m => segs_wf (msegs m)) ms = true ->
  forallb (fun m => segs_nonneg (msegs m)) ms = true ->
  exists r, mode_sum ms = Some r /\
    mstart r = Some (ts_of (minZ rest s0)) /\
    forall x, minZ rest s0 <= x ->
      mode_val r x = sumZ (map (fun m => val (msegs m) (x - mode_st (maxZ rest s0) m)) ms).
Proof. exact mode_sum_is_pointwise. Qed.
Print Assumptions C18_mode_sum.

Theorem C18_mode_sum_no_start : forall ms t,
  ms <> [] -> starts ms = [] ->
  forallb (fun m => segs_wf (msegs m)) ms = true ->
  forallb (fun m => segs_nonneg (msegs m)) ms = true ->
  exists r, mode_sum ms = Some r /\ mstart r = None /\
            val (msegs r) t = sumZ (map (fun m => val (msegs m) t) ms).
Proof. exact mode_sum_no_start. Qed.
Print Assumptions C18_mode_sum_no_start.

(* the predicate the check evaluates on every observation is implied by the theorems above: on
   every input inside the guard, an observation equal to the model's output satisfies C18_ok, so
   a non-zero verdict always involves a disagreement between code and model *)
Theorem C18_judge_sound : forall c, C18_guard c = true -> agrees c = true -> C18_ok c = true.
Proof. exact judge_sound. Qed.
Print Assumptions C18_judge_sound.

(* the defects of the pinned commit, kept as theorems about the old definitions *)
Theorem C18_compare_v0_refuted :
  exists a b, ts_valid a = true /\ ts_valid b = true /\
              compare_ascending_v0 a b <> -1 /\ compare_ascending_v0 a b <> 0 /\ compare_ascending_v0 a b <> 1.
Proof. exact compare_ascending_v0_not_sign. Qed.
Theorem C18_compare_v0_wrong_order :
  exists a b, ts_valid a = true /\ ts_valid b = true /\ ts_val a > ts_val b /\ compare_ascending_v0 a b < 0.
Proof. exact compare_ascending_v0_wrong_order. Qed.
Theorem C18_intersect_v0_refuted :
  exists p q, period_wf p = true /\ period_wf q = true /\
              periods_intersect_v0 (Some p) (Some q) = true /\ ~ exists x, in_period p x /\ in_period q x.
Proof. exact intersect_v0_empty_period_refuted. Qed.

(* non-vacuity: the hypotheses are met by concrete non-trivial inputs *)
Example C18_nonvacuous_periods :
  period_wf (mkPeriod (Some (mkTs 1 999999999)) None) = true /\
  period_wf (mkPeriod None (Some (mkTs 2 0))) = true /\
  periods_intersect (Some (mkPeriod (Some (mkTs 1 999999999)) None)) (Some (mkPeriod None (Some (mkTs 2 0)))) = true.
Proof. vm_compute. auto. Qed.
Example C18_nonvacuous_sum :
  let ls := [[mkSeg 2 (Some 3); mkSeg 0 (Some 0); mkSeg 5 None]; [mkSeg 1 (Some 1); mkSeg 4 (Some 4)]] in
  forallb segs_wf ls = true /\ forallb segs_nonneg ls = true /\
  sum ls = [mkSeg 3 (Some 1); mkSeg 6 (Some 2); mkSeg 9 (Some 2); mkSeg 5 None].
Proof. vm_compute. auto. Qed.
Example C18_nonvacuous_cut :
  mode_cut 5000000003 (mkMode (Some (mkTs 5 0)) [mkSeg 2 (Some 2); mkSeg 7 (Some 4)]) =
  (Some (mkMode (Some (mkTs 5 0)) [mkSeg 2 (Some 2); mkSeg 7 (Some 1)]),
   Some (mkMode (Some (mkTs 5 3)) [mkSeg 7 (Some 3)]), false).
Proof. vm_compute. reflexivity. Qed.
