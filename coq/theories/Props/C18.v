(* C18 — Timeline algebra matches its mathematical meaning.
   Theorems only; proofs live in Timeline/*Proofs.v.  Reference meanings:
     - a valid timestamp (0 <= nanos < 10^9, seconds in int64) denotes the integer ts_val;
     - a period denotes the half-open integer interval [start, end), missing ends unbounded;
       well-formed = valid ends and start <= end (an empty period [a, a) is well-formed);
     - a segment list denotes the step function val (0 where no segment is active);
     - a mode with a start time denotes mode_val (absolute time). *)
From Coq Require Import Permutation.
From SC Require Import Base.Prelude Timeline.Timestamp Timeline.Segment Timeline.Mode Timeline.Own Timeline.Wrap
  Timeline.TimestampProofs Timeline.SegmentProofs Timeline.ShiftSumProofs Timeline.ModeProofs
  Timeline.OwnProofs Timeline.OwnRefine Timeline.WrapProofs Timeline.C18Judge Timeline.MoreProofs Timeline.C18JudgeProofs
  Timeline.C18Table Gen.C18Funcs.
From SC Require Import Cmp.Cmp Cmp.Tolerance Cmp.GoTime Timeline.GoTimeMode Timeline.GoTimeModeProofs.

(* timestamp comparison is the chronological total order and returns -1, 0 or 1 *)
Theorem C18_compare_contract : forall a b,
  ts_valid a = true -> ts_valid b = true ->
  (compare_ascending a b = -1 <-> ts_val a < ts_val b) /\
  (compare_ascending a b = 0 <-> a = b) /\
  (compare_ascending a b = 1 <-> ts_val a > ts_val b) /\
  (compare_ascending a b = -1 \/ compare_ascending a b = 0 \/ compare_ascending a b = 1).
Proof. exact compare_ascending_contract. Qed.
Print Assumptions C18_compare_contract.

Theorem C18_compare_antisym : forall a b, ts_valid a = true -> ts_valid b = true ->
  compare_ascending a b = - compare_ascending b a.
Proof. exact compare_ascending_antisym. Qed.
Print Assumptions C18_compare_antisym.

Theorem C18_compare_trans : forall a b c, ts_valid a = true -> ts_valid b = true -> ts_valid c = true ->
  compare_ascending a b <= 0 -> compare_ascending b c <= 0 -> compare_ascending a c <= 0.
Proof. exact compare_ascending_trans. Qed.
Print Assumptions C18_compare_trans.

(* Intersect decides exactly whether the two half-open intervals share a point *)
Theorem C18_intersect_iff_common_point : forall p q,
  period_wf p = true -> period_wf q = true ->
  (periods_intersect (Some p) (Some q) = true <-> exists x, in_period p x /\ in_period q x).
Proof.
  intros p q Hp Hq. rewrite (intersect_is_ref p q Hp Hq). exact (intersect_ref_meaning p q).
Qed.
Print Assumptions C18_intersect_iff_common_point.

(* Connected decides overlap-or-touch: the closures share a point *)
Theorem C18_connected_iff_touch : forall p q,
  period_wf p = true -> period_wf q = true ->
  (periods_connected (Some p) (Some q) = true <-> exists x, in_closure p x /\ in_closure q x).
Proof.
  intros p q Hp Hq. rewrite (connected_is_ref p q Hp Hq).
  apply connected_ref_meaning; [apply (period_wf_spec p Hp)|apply (period_wf_spec q Hq)].
Qed.
Print Assumptions C18_connected_iff_touch.

Theorem C18_intersect_symmetric : forall p q, periods_intersect p q = periods_intersect q p.
Proof. exact intersect_sym. Qed.
Print Assumptions C18_intersect_symmetric.
Theorem C18_connected_symmetric : forall p q, periods_connected p q = periods_connected q p.
Proof. exact connected_sym. Qed.
Print Assumptions C18_connected_symmetric.

(* magnitude-at reads the step function; active-at locates the active segment *)
Theorem C18_magnitude_at : forall d l, magnitude_at d l = of_level (level d l).
Proof. exact magnitude_at_is_level. Qed.
Print Assumptions C18_magnitude_at.

Theorem C18_active_at : forall d l, 0 <= d ->
  let '(el, i) := active_at d l in
  0 <= i <= zlen l /\ el = prefix_len' i l /\ el <= d /\
  forallb (fun s => match len s with Some _ => true | None => false end) (firstn (Z.to_nat i) l) = true /\
  (i < zlen l -> match len (nth (Z.to_nat i) l (mkSeg 0 None)) with Some n => d < el + n | None => True end).
Proof. exact active_at_contract. Qed.
Print Assumptions C18_active_at.

Theorem C18_duration : forall l,
  duration l =
  if forallb (fun s => match len s with Some _ => true | None => false end) l
  then (0 + sumZ (map fin_len l), false) else (fst (duration l), true).
Proof. intros l. exact (duration_from_spec l 0). Qed.
Print Assumptions C18_duration.

Theorem C18_max : forall l,
  let i := max_index l in
  if i <? zlen l then
    0 <= i /\ counts (nth (Z.to_nat i) l (mkSeg 0 None)) = true /\
    forallb (fun s => negb (counts s) || (mag s <=? nth_mag i l)) l = true /\
    forallb (fun s => negb (counts s) || (mag s <? nth_mag i l)) (firstn (Z.to_nat i) l) = true
  else forallb (fun s => negb (counts s)) l = true.
Proof. exact max_index_contract. Qed.
Print Assumptions C18_max.

(* cut splits without changing the function *)
Theorem C18_cut_preserves : forall d s, 0 < d -> (match len s with Some n => d < n | None => True end) ->
  exists b a, cut_seg d s = (Some b, Some a, false) /\ len b = Some d /\ forall t, val [b; a] t = val [s] t.
Proof. exact cut_seg_preserves. Qed.
Print Assumptions C18_cut_preserves.

(* shift is translation *)
Theorem C18_shift_is_translation : forall d l t, segs_wf l = true ->
  val (shift d l) t = if t <? 0 then 0 else val l (t - d).
Proof. exact shift_is_translation. Qed.
Print Assumptions C18_shift_is_translation.

(* sum is pointwise addition (magnitudes >= 0; see C18_sum_negative_tail_refuted for the guard) *)
Theorem C18_sum_is_pointwise : forall ls t,
  forallb segs_wf ls = true -> forallb segs_nonneg ls = true ->
  val (sum ls) t = sumZ (map (fun l => val l t) ls).
Proof. exact sum_is_pointwise. Qed.
Print Assumptions C18_sum_is_pointwise.

Theorem C18_sum_negative_tail_refuted :
  exists ls t, forallb segs_wf ls = true /\ 0 <= t /\ val (sum ls) t <> sumZ (map (fun l => val l t) ls).
Proof. exact sum_negative_tail_refuted. Qed.
Print Assumptions C18_sum_negative_tail_refuted.

(* mode operations translate by the start time and delegate to segments *)
Theorem C18_mode_magnitude_at : forall t m,
  mode_magnitude_at t m = of_level (level (t - t_or_st t m) (msegs m)).
Proof. exact mode_magnitude_at_is_level. Qed.
Print Assumptions C18_mode_magnitude_at.

Theorem C18_mode_shift : forall d m s x, mstart m = Some s ->
  mode_val (mode_shift d m) x = mode_val m (x - d).
Proof. exact mode_shift_with_start. Qed.
Print Assumptions C18_mode_shift.

Theorem C18_mode_shift_no_start : forall d m t, mstart m = None -> segs_wf (msegs m) = true ->
  mstart (mode_shift d m) = None /\
  val (msegs (mode_shift d m)) t = if t <? 0 then 0 else val (msegs m) (t - d).
Proof. exact mode_shift_without_start. Qed.
Print Assumptions C18_mode_shift_no_start.

Theorem C18_mode_cut : forall t m s, mstart m = Some s -> segs_wf (msegs m) = true ->
  forall b a, mode_cut t m = (Some b, Some a, false) ->
  mstart a = Some (ts_of t) /\ mstart b = Some s /\
  (forall x, x < t -> mode_val b x = mode_val m x) /\
  (forall x, t <= x -> mode_val a x = mode_val m x).
Proof. exact mode_cut_preserves. Qed.
Print Assumptions C18_mode_cut.

Theorem C18_mode_sum : forall ms s0 rest,
  ms <> [] -> starts ms = s0 :: rest ->
  forallb (fun m => segs_wf (msegs m)) ms = true ->
  forallb (fun m => segs_nonneg (msegs m)) ms = true ->
  exists r, mode_sum ms = Some r /\
    mstart r = Some (ts_of (minZ rest s0)) /\
    forall x, minZ rest s0 <= x ->
      mode_val r x = sumZ (map (fun m => val (msegs m) (x - mode_st (maxZ rest s0) m)) ms).
Proof. exact mode_sum_is_pointwise. Qed.
Print Assumptions C18_mode_sum.

Theorem C18_mode_sum_no_start : forall ms t,
  ms <> [] -> starts ms = [] ->
  forallb (fun m => segs_wf (msegs m)) ms = true ->
  forallb (fun m => segs_nonneg (msegs m)) ms = true ->
  exists r, mode_sum ms = Some r /\ mstart r = None /\
            val (msegs r) t = sumZ (map (fun m => val (msegs m) t) ms).
Proof. exact mode_sum_no_start. Qed.
Print Assumptions C18_mode_sum_no_start.

(* the predicate the check evaluates on every observation is implied by the theorems above: on
   every input inside the guard, an observation equal to the model's output satisfies C18_ok, so
   a non-zero verdict always involves a disagreement between code and model *)
Theorem C18_judge_sound : forall c, C18_guard c = true -> agrees c = true -> C18_ok c = true.
Proof. exact judge_sound. Qed.
Print Assumptions C18_judge_sound.

(* ================= second wave ================= *)

(* ---- the cut order (cut.go) ---- *)
(* CompareTo is the order of the positions the cuts denote on the extended time line ... *)
Theorem C18_cut_compare_is_position_order : forall a b, cut_valid a = true -> cut_valid b = true ->
  cut_compare a b = lex3 (cut_rank a) (cut_rank b).
Proof. exact cut_compare_is_ref. Qed.
Print Assumptions C18_cut_compare_is_position_order.
(* ... hence a total order with results -1 / 0 / 1 *)
Theorem C18_cut_order : forall a b c, cut_valid a = true -> cut_valid b = true -> cut_valid c = true ->
  (cut_compare a b = -1 \/ cut_compare a b = 0 \/ cut_compare a b = 1) /\
  (cut_compare a b = 0 <-> a = b) /\
  cut_compare a b = - cut_compare b a /\
  (cut_compare a b <= 0 -> cut_compare b c <= 0 -> cut_compare a c <= 0).
Proof. exact cut_compare_total_order. Qed.
Print Assumptions C18_cut_order.
Theorem C18_cut_period : forall p,
  cut_rank (fst (cut_period p)) = end_rank (period_lo p) (-1) /\
  cut_rank (snd (cut_period p)) = end_rank (period_hi p) 1.
Proof. exact cut_period_ranks. Qed.
Print Assumptions C18_cut_period.

(* ---- the remaining exported functions ---- *)
Theorem C18_max_magnitude : forall l, max_magnitude l = max_mag_ref l.
Proof. exact max_magnitude_is_max. Qed.
Print Assumptions C18_max_magnitude.
Theorem C18_max_after : forall d l, max_after_ok d l (max_after d l) = true.
Proof. exact max_after_contract. Qed.
Print Assumptions C18_max_after.
(* MinAt ranges over a Go map: for EVERY iteration order the answer is a mode of the map whose
   magnitude at t is the least one *)
Theorem C18_min_at_any_order : forall t ms ms', Permutation ms ms' ->
  match min_at_loop t ms' None with
  | None => ms = []
  | Some (m, g) => In m ms /\ g = fst (mode_magnitude_at_w t m) /\
                   forall m', In m' ms -> g <= fst (mode_magnitude_at_w t m')
  end.
Proof. exact min_at_any_order. Qed.
Print Assumptions C18_min_at_any_order.

(* the boolean relation the judge evaluates for MinAt is the index form of that conclusion *)
Theorem C18_min_at_ok_of_loop : forall t ms ms', Permutation ms ms' ->
  match min_at_loop t ms' None with
  | None => min_at_ok t ms (None, 0) = true
  | Some (m, g) => exists i, nth_error ms i = Some m /\ min_at_ok t ms (Some (Z.of_nat i), g) = true
  end.
Proof. exact min_at_ok_of_loop. Qed.
Print Assumptions C18_min_at_ok_of_loop.

(* ---- Sum under its exact guard: magnitudes of either sign, only the open (infinite) tails must
        add up to >= 0 (C18_sum_negative_tail_refuted shows the law fails otherwise) ---- *)
Theorem C18_sum_is_pointwise_exact_guard : forall ls t,
  forallb segs_wf ls = true -> 0 <= sumZ (map tail_level ls) ->
  val (sum ls) t = sumZ (map (fun l => val l t) ls).
Proof. exact sum_is_pointwise_tail. Qed.
Print Assumptions C18_sum_is_pointwise_exact_guard.
(* mode Sum under the same exact guard (magnitudes of either sign) *)
Theorem C18_mode_sum_exact_guard : forall ms s0 rest,
  ms <> [] -> starts ms = s0 :: rest ->
  forallb (fun m => segs_wf (msegs m)) ms = true -> 0 <= modes_tail ms ->
  exists r, mode_sum ms = Some r /\
    mstart r = Some (ts_of (minZ rest s0)) /\
    forall x, minZ rest s0 <= x ->
      mode_val r x = sumZ (map (fun m => val (msegs m) (x - mode_st (maxZ rest s0) m)) ms).
Proof. exact mode_sum_is_pointwise_tail. Qed.
Print Assumptions C18_mode_sum_exact_guard.
Theorem C18_mode_sum_no_start_exact_guard : forall ms t,
  ms <> [] -> starts ms = [] ->
  forallb (fun m => segs_wf (msegs m)) ms = true -> 0 <= modes_tail ms ->
  exists r, mode_sum ms = Some r /\ mstart r = None /\
            val (msegs r) t = sumZ (map (fun m => val (msegs m) t) ms).
Proof. exact mode_sum_no_start_tail. Qed.
Print Assumptions C18_mode_sum_no_start_exact_guard.
(* the float32 guard: every magnitude Sum outputs is bounded by twice the sum of the |magnitudes| of
   its inputs; integer magnitudes with that bound below 2^24 keep float32 addition exact *)
Theorem C18_sum_magnitudes_bounded : forall ls,
  Forall (fun s => Z.abs (mag s) <= 2 * sumZ (map mag_budget ls)) (sum ls).
Proof. exact sum_magnitudes_bounded. Qed.
Print Assumptions C18_sum_magnitudes_bounded.

(* ---- machine arithmetic: inside the range guard the int64 / saturating model that is compared
        with the code IS the integer model of the theorems above ---- *)
Theorem C18_machine_arithmetic_segments : forall d l, dur_guard d l = true ->
  active_at_w d l = active_at d l /\ magnitude_at_w d l = magnitude_at d l /\ duration_w l = duration l /\
  max_after_w d l = max_after d l /\ shift_w d l = shift d l.
Proof.
  intros d l G. destruct (dur_guard_spec d l G) as (L & _).
  repeat split; [apply active_at_w_eq|apply magnitude_at_w_eq|apply duration_w_eq|apply max_after_w_eq|apply shift_w_eq]; assumption.
Qed.
Print Assumptions C18_machine_arithmetic_segments.
Theorem C18_machine_arithmetic_modes : forall t m, mode_dur_guard t m = true ->
  mode_active_at_w t m = mode_active_at t m /\ mode_magnitude_at_w t m = mode_magnitude_at t m /\
  mode_max_segment_after_w t m = mode_max_segment_after t m /\ mode_cut_w t m = mode_cut t m.
Proof.
  intros t m G. repeat split;
  [apply mode_active_at_w_eq|apply mode_magnitude_at_w_eq|apply mode_max_segment_after_w_eq|apply mode_cut_w_eq]; exact G.
Qed.
Print Assumptions C18_machine_arithmetic_modes.
Theorem C18_machine_arithmetic_mode_shift_sum :
  (forall d m, dur_guard d (msegs m) = true -> mode_shift_w d m = mode_shift d m) /\
  (forall ms, sum_small ms = true -> mode_sum_w ms = mode_sum ms).
Proof. split; [exact mode_shift_w_eq|exact mode_sum_w_eq]. Qed.
Print Assumptions C18_machine_arithmetic_mode_shift_sum.
Theorem C18_machine_arithmetic_sum : forall ls, forallb lens_ok_b ls = true -> sum_w ls = sum ls.
Proof. exact sum_w_eq. Qed.
Print Assumptions C18_machine_arithmetic_sum.
Theorem C18_sum_code_is_pointwise : forall ls t,
  forallb lens_ok_b ls = true -> 0 <= sumZ (map tail_level ls) ->
  val (sum_w ls) t = sumZ (map (fun l => val l t) ls).
Proof.
  intros ls t G1 G2. rewrite (sum_w_eq ls G1). apply sum_is_pointwise_tail; [|exact G2].
  apply forallb_forall. intros l Hl. rewrite forallb_forall in G1. apply (lens_ok_b_spec l (G1 l Hl)).
Qed.
Print Assumptions C18_sum_code_is_pointwise.
Theorem C18_sum_overflow_refuted :
  exists ls t, forallb segs_wf ls = true /\ forallb segs_nonneg ls = true /\ 0 <= t /\
               val (sum_w ls) t <> sumZ (map (fun l => val l t) ls).
Proof. exact sum_overflow_refuted. Qed.
(* headline for the code-level Shift: translation, for every list and offset inside the guard *)
Theorem C18_shift_code_is_translation : forall d l t, dur_guard d l = true ->
  val (shift_w d l) t = if t <? 0 then 0 else val l (t - d).
Proof.
  intros d l t G. rewrite (shift_w_eq d l G). apply shift_is_translation.
  destruct (dur_guard_spec d l G) as ([H _] & _). exact H.
Qed.
Print Assumptions C18_shift_code_is_translation.
Theorem C18_magnitude_at_code : forall d l, dur_guard d l = true -> magnitude_at_w d l = of_level (level d l).
Proof.
  intros d l G. destruct (dur_guard_spec d l G) as (L & _). rewrite (magnitude_at_w_eq d l L).
  apply magnitude_at_is_level.
Qed.
Print Assumptions C18_magnitude_at_code.
(* outside the guard the laws are false of the code *)
Theorem C18_shift_min_int64_refuted :
  exists l t, segs_wf l = true /\ val (shift_w min64 l) t <> (if t <? 0 then 0 else val l (t - min64)).
Proof. exact shift_min64_refuted. Qed.
Theorem C18_active_at_overflow_refuted :
  exists d l, segs_wf l = true /\ 0 <= d /\ snd (active_at_w d l) <> snd (active_at d l).
Proof. exact active_at_overflow_refuted. Qed.

(* ---- "never modify their arguments": for every heap, every capacity / offset / sharing of the
        argument slices and every growth policy of append, all locations that existed on entry are
        intact on exit ---- *)
Theorem C18_shift_never_writes_args : forall d s h, heap_ext h (snd (shift_own d s h)).
Proof. exact shift_never_writes_args. Qed.
Print Assumptions C18_shift_never_writes_args.
Theorem C18_seg_cut_never_writes_args : forall d p h, heap_ext h (snd (cut_own d p h)).
Proof. exact seg_cut_never_writes_args. Qed.
Theorem C18_sum_never_writes_args : forall g ss h, heap_ext h (snd (sum_own g ss h)).
Proof. exact sum_never_writes_args. Qed.
Print Assumptions C18_sum_never_writes_args.
Theorem C18_mode_cut_never_writes_args : forall g t m h, heap_ext h (snd (mode_cut_own g t m h)).
Proof. exact mode_cut_never_writes_args. Qed.
Print Assumptions C18_mode_cut_never_writes_args.
Theorem C18_mode_shift_never_writes_args : forall g d m h, heap_ext h (snd (mode_shift_own g d m h)).
Proof. exact mode_shift_never_writes_args. Qed.
Theorem C18_mode_sum_never_writes_args : forall g ms h, heap_ext h (snd (mode_sum_own g ms h)).
Proof. exact mode_sum_never_writes_args. Qed.
Print Assumptions C18_mode_sum_never_writes_args.
(* what that gives the caller: every slice / mode readable before reads the same afterwards *)
Theorem C18_args_read_the_same : forall h h', heap_ext h h' ->
  (forall s, slice_ok h s -> read_slice h' s = read_slice h s) /\
  (forall m, (m < List.length (mcells h))%nat -> slice_ok h (snd (mcell h m)) -> read_mode h' m = read_mode h m).
Proof. intros h h' E. split; [intros s; apply ext_read_slice; exact E|intros m; apply ext_read_mode; exact E]. Qed.
Print Assumptions C18_args_read_the_same.
(* the heap model computes the same lists as the value model (Shift) *)
Theorem C18_shift_own_refines : forall d s h, slice_ok h s ->
  read_slice (snd (shift_own d s h)) (fst (shift_own d s h)) = shift d (read_slice h s).
Proof. exact shift_own_refines. Qed.
Print Assumptions C18_shift_own_refines.

(* headline for Shift on the heap: the result reads as the translated step function AND every
   location of the entry heap (the argument's array, its spare capacity, its segment objects) is intact *)
Theorem C18_shift_on_heap : forall d s h t, slice_ok h s -> segs_wf (read_slice h s) = true ->
  let r := fst (shift_own d s h) in let h' := snd (shift_own d s h) in
  val (read_slice h' r) t = (if t <? 0 then 0 else val (read_slice h s) (t - d)) /\
  heap_ext h h' /\ read_slice h' s = read_slice h s.
Proof.
  intros d s h t Hok Hwf. cbv zeta. rewrite (shift_own_refines d s h Hok).
  split; [apply shift_is_translation; exact Hwf|].
  split; [apply shift_never_writes_args|]. apply ext_read_slice; [apply shift_never_writes_args|exact Hok].
Qed.
Print Assumptions C18_shift_on_heap.

(* ... and of modepb.Cut: the result modes read out of the final heap are those of the value model *)
Theorem C18_mode_cut_own_refines : forall g t m h b a o h',
  (m < List.length (mcells h))%nat -> slice_ok h (snd (mcell h m)) ->
  mode_cut_own g t m h = (b, a, o, h') ->
  (option_map (read_mode h') b, option_map (read_mode h') a, o) = mode_cut t (read_mode h m).
Proof. exact mode_cut_own_refines. Qed.
Print Assumptions C18_mode_cut_own_refines.
(* headline for modepb.Cut on the heap: inside a segment, with a start time, the two results read as the
   function before / from t, and every location of the entry heap is intact *)
Theorem C18_mode_cut_on_heap : forall g t m h s mb ma h',
  (m < List.length (mcells h))%nat -> slice_ok h (snd (mcell h m)) ->
  mstart (read_mode h m) = Some s -> segs_wf (msegs (read_mode h m)) = true ->
  mode_cut_own g t m h = (Some mb, Some ma, false, h') ->
  (forall x, x < t -> mode_val (read_mode h' mb) x = mode_val (read_mode h m) x) /\
  (forall x, t <= x -> mode_val (read_mode h' ma) x = mode_val (read_mode h m) x) /\
  heap_ext h h' /\ read_mode h' m = read_mode h m.
Proof.
  intros g t m h s mb ma h' Hm Hok Hs Hwf R.
  pose proof (mode_cut_own_refines g t m h _ _ _ _ Hm Hok R) as E. simpl in E. symmetry in E.
  destruct (mode_cut_preserves t (read_mode h m) s Hs Hwf _ _ E) as (_ & _ & H1 & H2).
  assert (X : heap_ext h h') by (pose proof (mode_cut_never_writes_args g t m h) as F; rewrite R in F; exact F).
  split; [exact H1|]. split; [exact H2|]. split; [exact X|]. apply ext_read_mode; assumption.
Qed.
Print Assumptions C18_mode_cut_on_heap.

(* ... and of modepb.Shift *)
Theorem C18_mode_shift_own_refines : forall g d m h,
  (m < List.length (mcells h))%nat -> slice_ok h (snd (mcell h m)) ->
  read_mode (snd (mode_shift_own g d m h)) (fst (mode_shift_own g d m h)) = mode_shift d (read_mode h m).
Proof. exact mode_shift_own_refines. Qed.
Print Assumptions C18_mode_shift_own_refines.

(* ---- tables generated from the tree under check (Gen/C18Funcs.v) ---- *)
Theorem C18_funcs_all_modelled :
  forallb (fun f => match row_for (fst (fst (fst f))) (snd (fst (fst f))) with Some _ => true | None => false end) c18_funcs = true.
Proof. exact funcs_all_in_table. Qed.
Theorem C18_cut_table_is_model_and_order :
  forallb (fun r => let '(a, b, obs) := r in obs =? cut_compare a b) c18_cut_rows = true /\
  forallb (fun r => let '(a, b, obs) := r in obs =? cut_ref_compare a b) c18_cut_rows = true.
Proof. split; [exact cut_table_is_model|exact cut_table_is_order]. Qed.

(* ================= headlines, one per clause of the property ================= *)

(* clause "operations commute with reading a segment list as a step function", over whole
   histories: every expression built from literal lists with Shift and Sum (any depth, any order),
   evaluated with the library's functions, denotes the function obtained by translating and adding *)
Theorem C18_timeline_expressions : forall e, twf e -> forall t, val (teval e) t = tden e t.
Proof. exact timeline_expressions. Qed.
Print Assumptions C18_timeline_expressions.
Example C18_nonvacuous_expression :
  let e := TSum (TShift (-2) (TLit [mkSeg 3 (Some 4); mkSeg (-1) None])) (TShift 3 (TSum (TLit [mkSeg 2 (Some 1)]) (TLit [mkSeg 5 None]))) in
  twf e /\ teval e = [mkSeg 3 (Some 2); mkSeg (-1) (Some 1); mkSeg 6 (Some 1); mkSeg 4 None].
Proof. vm_compute. repeat split; try reflexivity; intro H; discriminate H. Qed.

(* clause "... and never modify their arguments": all six list- / mode-returning operations *)
Theorem C18_never_modify_arguments : forall (g : nat -> nat) (h : heap),
  (forall d s, heap_ext h (snd (shift_own d s h))) /\
  (forall d p, heap_ext h (snd (cut_own d p h))) /\
  (forall ss, heap_ext h (snd (sum_own g ss h))) /\
  (forall t m, heap_ext h (snd (mode_cut_own g t m h))) /\
  (forall d m, heap_ext h (snd (mode_shift_own g d m h))) /\
  (forall ms, heap_ext h (snd (mode_sum_own g ms h))).
Proof.
  intros g h.
  split; [intros; apply shift_never_writes_args|].
  split; [intros; apply seg_cut_never_writes_args|].
  split; [intros; apply sum_never_writes_args|].
  split; [intros; apply mode_cut_never_writes_args|].
  split; [intros; apply mode_shift_never_writes_args|intros; apply mode_sum_never_writes_args].
Qed.
Print Assumptions C18_never_modify_arguments.

(* clause "period predicates decide exactly ... symmetrically": from the cut order to the intervals *)
Theorem C18_period_predicates : forall p q, period_wf p = true -> period_wf q = true ->
  (periods_intersect (Some p) (Some q) = true <-> exists x, in_period p x /\ in_period q x) /\
  (periods_connected (Some p) (Some q) = true <-> exists x, in_closure p x /\ in_closure q x) /\
  periods_intersect (Some p) (Some q) = periods_intersect (Some q) (Some p) /\
  periods_connected (Some p) (Some q) = periods_connected (Some q) (Some p).
Proof.
  intros p q Hp Hq. split; [apply C18_intersect_iff_common_point; assumption|].
  split; [apply C18_connected_iff_touch; assumption|]. split; [apply intersect_sym|apply connected_sym].
Qed.
Print Assumptions C18_period_predicates.

(* the defects of the pinned commit, kept as theorems about the old definitions *)
Theorem C18_compare_v0_refuted :
  exists a b, ts_valid a = true /\ ts_valid b = true /\
              compare_ascending_v0 a b <> -1 /\ compare_ascending_v0 a b <> 0 /\ compare_ascending_v0 a b <> 1.
Proof. exact compare_ascending_v0_not_sign. Qed.
Theorem C18_compare_v0_wrong_order :
  exists a b, ts_valid a = true /\ ts_valid b = true /\ ts_val a > ts_val b /\ compare_ascending_v0 a b < 0.
Proof. exact compare_ascending_v0_wrong_order. Qed.
Theorem C18_intersect_v0_refuted :
  exists p q, period_wf p = true /\ period_wf q = true /\
              periods_intersect_v0 (Some p) (Some q) = true /\ ~ exists x, in_period p x /\ in_period q x.
Proof. exact intersect_v0_empty_period_refuted. Qed.

Theorem C18_mode_sum_v0_refuted :
  exists ms x, forallb (fun m => segs_wf (msegs m)) ms = true /\ forallb (fun m => segs_nonneg (msegs m)) ms = true /\
    sum_small ms = true /\
    match mode_sum_v0 ms, mode_sum ms with
    | Some r0, Some r => mode_val r0 x <> mode_val r x /\ mstart r0 <> mstart r
    | _, _ => False
    end.
Proof. exact mode_sum_v0_refuted. Qed.

(* non-vacuity: the hypotheses are met by concrete non-trivial inputs *)
Example C18_nonvacuous_periods :
  period_wf (mkPeriod (Some (mkTs 1 999999999)) None) = true /\
  period_wf (mkPeriod None (Some (mkTs 2 0))) = true /\
  periods_intersect (Some (mkPeriod (Some (mkTs 1 999999999)) None)) (Some (mkPeriod None (Some (mkTs 2 0)))) = true.
Proof. vm_compute. auto. Qed.
Example C18_nonvacuous_sum :
  let ls := [[mkSeg 2 (Some 3); mkSeg 0 (Some 0); mkSeg 5 None]; [mkSeg 1 (Some 1); mkSeg 4 (Some 4)]] in
  forallb segs_wf ls = true /\ forallb segs_nonneg ls = true /\
  sum ls = [mkSeg 3 (Some 1); mkSeg 6 (Some 2); mkSeg 9 (Some 2); mkSeg 5 None].
Proof. vm_compute. auto. Qed.
Example C18_nonvacuous_cut :
  mode_cut 5000000003 (mkMode (Some (mkTs 5 0)) [mkSeg 2 (Some 2); mkSeg 7 (Some 4)]) =
  (Some (mkMode (Some (mkTs 5 0)) [mkSeg 2 (Some 2); mkSeg 7 (Some 1)]),
   Some (mkMode (Some (mkTs 5 3)) [mkSeg 7 (Some 3)]), false).
Proof. vm_compute. reflexivity. Qed.
Example C18_nonvacuous_dur_guard :
  dur_guard (-4) [mkSeg 2 (Some 3); mkSeg 0 (Some 0); mkSeg 5 (Some 9223372036854775800)] = true /\
  dur_guard 9223372036854775807 [mkSeg 1 None] = true /\
  mode_dur_guard 5 (mkMode (Some (mkTs (-3) 999999999)) [mkSeg 2 (Some 3); mkSeg 5 None]) = true.
Proof. vm_compute. auto. Qed.
Example C18_nonvacuous_signed_sum :
  let ls := [[mkSeg (-2) (Some 3); mkSeg 5 None]; [mkSeg 4 (Some 1); mkSeg (-1) None]] in
  forallb segs_wf ls = true /\ 0 <= sumZ (map tail_level ls) /\ forallb segs_nonneg ls = false /\
  sum ls = [mkSeg 2 (Some 1); mkSeg (-3) (Some 2); mkSeg 4 None].
Proof. vm_compute. repeat split; try reflexivity; intro H; discriminate H. Qed.
(* an argument with spare capacity, shifted: the result shares nothing writable with it *)
Example C18_nonvacuous_own :
  let '(h0, s) := arg_heap 1 2 [mkSeg 0 (Some 3); mkSeg 4 None] in
  let '(r, h) := shift_own 5 s h0 in
  slice_ok h0 s /\ view_slice h0 h r = (SFresh, [(PFresh, mkSeg 0 (Some 8)); (PArg 2, mkSeg 4 None)]) /\ heap_kept h0 h = true.
Proof. vm_compute. repeat split; repeat constructor. Qed.

(* ================= fourth wave: Go's time.Time (AsTime wraps at seconds + 62135596800) ================= *)

(* inside the band AsTime is exact and Sub / Before / After / timestamppb.New act on the denoted instants *)
Theorem C18_go_as_time_exact_in_band : forall s, ts_valid s = true -> in_band s = true ->
  ts_as_time s = (secs s + unix_to_internal, nanos s) /\ tval (ts_as_time s) = ts_val s.
Proof. intros s V B. split; [apply ts_as_time_in_band | apply tval_as_time_in_band]; assumption. Qed.
Print Assumptions C18_go_as_time_exact_in_band.

Theorem C18_go_time_on_instants : forall T U, wf_time T -> wf_time U ->
  go_sub T U = sat64 (tval T - tval U) /\ go_before T U = (tval T <? tval U) /\ go_after T U = (tval U <? tval T) /\
  (in64 (fst T - unix_to_internal) = true -> ts_new T = ts_of (tval T)).
Proof.
  intros T U WT WU. repeat split; [apply go_sub_tval | apply go_before_tval | apply go_after_tval | apply ts_new_tval]; assumption.
Qed.
Print Assumptions C18_go_time_on_instants.

(* hence the mode operations over Go's representation (what the code is compared with for EVERY int64 of seconds)
   are the functions of Wrap.v, which the theorems above are about *)
Theorem C18_go_time_mode_ops_in_band : forall t m, in64 t = true -> start_in_band m = true ->
  mode_active_at_g t m = mode_active_at_w t m /\
  mode_magnitude_at_g t m = mode_magnitude_at_w t m /\
  mode_max_segment_after_g t m = mode_max_segment_after_w t m /\
  mode_cut_g t m = mode_cut_w t m.
Proof.
  intros t m Ht B. destruct (mode_reads_g_in_band t m Ht B) as (E1 & E2 & E3).
  repeat split; try assumption. apply mode_cut_g_in_band; assumption.
Qed.
Print Assumptions C18_go_time_mode_ops_in_band.

Theorem C18_go_time_mode_shift_in_band : forall d m, in64 d = true -> start_in_band m = true ->
  mode_shift_in_band d m = true -> mode_shift_g d m = mode_shift_w d m.
Proof. exact mode_shift_g_in_band. Qed.
Print Assumptions C18_go_time_mode_shift_in_band.

(* past the band a start time in the far future looks long past: Sub saturates the wrong way *)
Theorem C18_go_time_mode_out_of_band_refuted :
  exists t m, in64 t = true /\ (match mstart m with Some s => ts_valid s | None => false end) = true /\
              mode_d t m = min64 /\ mode_d_g t m = max64.
Proof. exact mode_d_g_out_of_band_refuted. Qed.

(* CompareAscending cannot be written as t1.AsTime().Compare(t2.AsTime()): that is the chronological order exactly
   on the pairs on one side of the band limit, and the reverse order on every pair that straddles it *)
Theorem C18_compare_via_as_time_exact : forall a b, ts_valid a = true -> ts_valid b = true ->
  (compare_via_as_time a b = compare_ascending a b <-> in_band a = in_band b).
Proof. exact compare_via_as_time_exact. Qed.
Print Assumptions C18_compare_via_as_time_exact.

Theorem C18_compare_via_as_time_refuted : forall a b, ts_valid a = true -> ts_valid b = true ->
  in_band a = true -> in_band b = false ->
  compare_ascending a b = -1 /\ compare_via_as_time a b = 1 /\ compare_via_as_time b a = -1.
Proof. exact compare_via_as_time_reversed. Qed.
Print Assumptions C18_compare_via_as_time_refuted.

Example C18_nonvacuous_as_time_band :
  let a := mkTs 0 0 in let b := mkTs 9223372036854775807 0 in
  ts_valid a = true /\ ts_valid b = true /\ in_band a = true /\ in_band b = false.
Proof. exact compare_via_as_time_nonvacuous. Qed.
Example C18_nonvacuous_go_mode_band :
  let m := mkMode (Some (mkTs 5 0)) [mkSeg 3 (Some 5); mkSeg 1 None] in
  in64 5000000007 = true /\ start_in_band m = true /\ mode_shift_in_band (-9) m = true /\
  mode_magnitude_at_g 5000000007 m = (1, true) /\ mode_magnitude_at_g 5000000003 m = (3, true).
Proof. vm_compute. repeat split. Qed.

(* Print Assumptions for every theorem above that did not have its own line yet *)
Print Assumptions C18_sum_overflow_refuted.
Print Assumptions C18_shift_min_int64_refuted.
Print Assumptions C18_active_at_overflow_refuted.
Print Assumptions C18_seg_cut_never_writes_args.
Print Assumptions C18_mode_shift_never_writes_args.
Print Assumptions C18_funcs_all_modelled.
Print Assumptions C18_cut_table_is_model_and_order.
Print Assumptions C18_compare_v0_refuted.
Print Assumptions C18_compare_v0_wrong_order.
Print Assumptions C18_intersect_v0_refuted.
Print Assumptions C18_mode_sum_v0_refuted.
Print Assumptions C18_go_time_mode_out_of_band_refuted.

(* ================= final wave: modepb.Sum over Go's time.Time; the heap model of Sum ================= *)
From SC Require Import Timeline.GoTimeSumProofs.

(* the loop of modepb.Sum that tracks earliest / latest with Before / After on Go's (ext, nsec) representation leaves,
   for EVERY list of modes whose start times are valid and inside the band, a pair that denotes the minimum / maximum
   of the denoted start times (invariant of the loop, induction over the list) *)
Theorem C18_go_time_sum_starts_in_band : forall ms, forallb start_in_band ms = true ->
  match starts ms with
  | [] => sum_starts_g ms = None
  | s0 :: rest => exists E L, sum_starts_g ms = Some (E, L) /\ good_time E /\ good_time L /\
                              tval E = minZ rest s0 /\ tval L = maxZ rest s0
  end.
Proof. exact sum_starts_g_in_band. Qed.
Print Assumptions C18_go_time_sum_starts_in_band.

(* hence modepb.Sum over Go's representation (what KGoModeSum compares the code with) IS the function of Wrap.v that
   C18_mode_sum / C18_mode_sum_exact_guard are about (was: "model agreement only, not proved") *)
Theorem C18_go_time_mode_sum_in_band : forall ms, forallb start_in_band ms = true -> mode_sum_g ms = mode_sum_w ms.
Proof. exact mode_sum_g_in_band. Qed.
Print Assumptions C18_go_time_mode_sum_in_band.

(* soundness of the judge for the kind KGoModeSum (C18_guard answers false for it, so C18_judge_sound says nothing
   there): an observation that agrees with the Go-representation model, on modes inside the band and inside the guard
   of KModeSum, satisfies the pointwise oracle KModeSum is judged by *)
Theorem C18_go_mode_sum_judge_sound : forall ms obs,
  forallb start_in_band ms = true -> C18_guard (KModeSum ms obs) = true ->
  agrees (KGoModeSum ms obs) = true -> C18_ok (KModeSum ms obs) = true.
Proof.
  intros ms obs B G A. apply C18_judge_sound; [exact G|].
  change (option_eqb mode_eqb obs (mode_sum_g ms) = true) in A.
  change (option_eqb mode_eqb obs (mode_sum_w ms) = true).
  rewrite <- (mode_sum_g_in_band ms B). exact A.
Qed.
Print Assumptions C18_go_mode_sum_judge_sound.

(* outside the band it is false: a straddling pair of valid start times *)
Theorem C18_go_time_mode_sum_out_of_band_refuted :
  exists ms, forallb (fun m => match mstart m with Some s => ts_valid s | None => false end) ms = true /\
             forallb start_in_band ms = false /\
             option_eqb mode_eqb (mode_sum_g ms) (mode_sum_w ms) = false.
Proof. exact mode_sum_g_out_of_band_refuted. Qed.
Print Assumptions C18_go_time_mode_sum_out_of_band_refuted.

Example C18_nonvacuous_go_mode_sum :
  let ms := [mkMode (Some (mkTs 5 7)) [mkSeg 3 (Some 5); mkSeg 1 None]; mkMode None [mkSeg 2 (Some 4)];
             mkMode (Some (mkTs 5 2)) [mkSeg 4 (Some 9)]] in
  let r := Some (mkMode (Some (mkTs 5 2)) [mkSeg 4 (Some 5); mkSeg 9 (Some 4); mkSeg 3 (Some 1); mkSeg 1 None]) in
  forallb start_in_band ms = true /\ C18_guard (KModeSum ms r) = true /\ agrees (KGoModeSum ms r) = true /\
  mode_sum_g ms = r.
Proof. vm_compute. repeat split. Qed.

(* ---- the heap model of segmentpb.Sum computes the list of the value model (was: tied by the correspondence only) ---- *)
From SC Require Import Timeline.SumRefine.

(* append under ANY growth policy: the pointers of the result are those of the slice followed by the new one, whether
   the write went in place (len < cap) or into a new array; no segment object is touched *)
Theorem C18_append_on_heap : forall g s p h, slice_in h s ->
  slice_in (snd (append g s p h)) (fst (append g s p h)) /\
  slice_ptrs (snd (append g s p h)) (fst (append g s p h)) = slice_ptrs h s ++ [p] /\
  cells (snd (append g s p h)) = cells h.
Proof. exact append_spec. Qed.
Print Assumptions C18_append_on_heap.

(* for EVERY heap, every list of argument slices (any offsets, capacities, aliasing between them, even dangling ones)
   and every growth policy: the slice Sum returns, read out of the exit heap, is Segment.sum of the arguments read out
   of the entry heap.  Induction over the sorted edges with the invariant sum_res_inv (the in-place writes
   `result[len-1].Magnitude += delta` / `.Length = ...` only ever hit the segment appended last, which is newer than
   every finished one). *)
Theorem C18_sum_own_refines : forall g ss h,
  read_slice (snd (sum_own g ss h)) (fst (sum_own g ss h)) = sum (map (read_slice h) ss).
Proof. exact sum_own_refines. Qed.
Print Assumptions C18_sum_own_refines.

(* headline for Sum on the heap: the result reads as the pointwise sum of the step functions of the arguments AND every
   location of the entry heap is intact, so every readable argument reads the same afterwards *)
Theorem C18_sum_on_heap : forall g ss h t,
  forallb segs_wf (map (read_slice h) ss) = true -> (0 <= sumZ (map tail_level (map (read_slice h) ss)))%Z ->
  Forall (slice_ok h) ss ->
  let r := fst (sum_own g ss h) in let h' := snd (sum_own g ss h) in
  val (read_slice h' r) t = sumZ (map (fun l => val l t) (map (read_slice h) ss)) /\
  heap_ext h h' /\ Forall (fun s => read_slice h' s = read_slice h s) ss.
Proof.
  intros g ss h t Hwf Ht Hok. cbv zeta. rewrite (sum_own_refines g ss h).
  split; [apply C18_sum_is_pointwise_exact_guard; assumption|].
  split; [apply sum_never_writes_args|].
  eapply Forall_impl; [|exact Hok]. cbv beta. intros s Hs. apply ext_read_slice; [apply sum_never_writes_args|exact Hs].
Qed.
Print Assumptions C18_sum_on_heap.

Example C18_nonvacuous_sum_own :
  let '(h0, ss) := args_heap [(1%nat, 2%nat, [mkSeg 2 (Some 3); mkSeg 5 None]); (0%nat, 1%nat, [mkSeg 1 (Some 1); mkSeg 4 (Some 4)])] in
  Forall (slice_ok h0) ss /\
  read_slice (snd (sum_own no_growth ss h0)) (fst (sum_own no_growth ss h0)) =
    [mkSeg 3 (Some 1); mkSeg 6 (Some 2); mkSeg 9 (Some 2); mkSeg 5 None].
Proof. vm_compute. repeat split; repeat constructor. Qed.

(* ---- ... and of modepb.Sum (was: tied by the correspondence only) ---- *)
From SC Require Import Timeline.ModeSumRefine.

(* the slice Shift returns (the argument itself, a sub-slice of it, nil, or a new array) is a readable slice of the
   exit heap: what lets the results of earlier Shifts be read after later ones *)
Theorem C18_shift_result_readable : forall d s h, slice_ok h s ->
  slice_ok (snd (shift_own d s h)) (fst (shift_own d s h)).
Proof. exact shift_own_ok. Qed.
Print Assumptions C18_shift_result_readable.

(* for EVERY heap in which the argument modes' slices are readable, every list of argument modes (the same mode twice,
   modes sharing one backing array, any capacities) and every growth policy: the mode modepb.Sum returns, read out of
   the exit heap, is Mode.mode_sum of the arguments read out of the entry heap *)
Theorem C18_mode_sum_own_refines : forall g ms h, Forall (fun m => slice_ok h (snd (mcell h m))) ms ->
  option_map (read_mode (snd (mode_sum_own g ms h))) (fst (mode_sum_own g ms h)) = mode_sum (map (read_mode h) ms).
Proof. exact mode_sum_own_refines. Qed.
Print Assumptions C18_mode_sum_own_refines.

(* headline for modepb.Sum on the heap: value of the result, frame, and the arguments read the same afterwards *)
Theorem C18_mode_sum_on_heap : forall g ms h,
  Forall (fun m => (m < List.length (mcells h))%nat /\ slice_ok h (snd (mcell h m))) ms ->
  let r := fst (mode_sum_own g ms h) in let h' := snd (mode_sum_own g ms h) in
  option_map (read_mode h') r = mode_sum (map (read_mode h) ms) /\
  heap_ext h h' /\ Forall (fun m => read_mode h' m = read_mode h m) ms.
Proof.
  intros g ms h F. cbv zeta. split; [|split].
  - apply mode_sum_own_refines. eapply Forall_impl; [|exact F]. cbv beta. intros m [_ H]. exact H.
  - apply mode_sum_never_writes_args.
  - eapply Forall_impl; [|exact F]. cbv beta. intros m [Hm Hs].
    apply ext_read_mode; [apply mode_sum_never_writes_args|exact Hm|exact Hs].
Qed.
Print Assumptions C18_mode_sum_on_heap.

Example C18_nonvacuous_mode_sum_own :
  let '(h0, ms) := margs_heap [(1%nat, 2%nat, Some (mkTs 5 7), [mkSeg 3 (Some 5); mkSeg 1 None]);
                               (0%nat, 1%nat, None, [mkSeg 2 (Some 4)]);
                               (2%nat, 0%nat, Some (mkTs 5 2), [mkSeg 4 (Some 9)])] in
  Forall (fun m => (m < List.length (mcells h0))%nat /\ slice_ok h0 (snd (mcell h0 m))) ms /\
  option_map (read_mode (snd (mode_sum_own no_growth ms h0))) (fst (mode_sum_own no_growth ms h0)) =
    Some (mkMode (Some (mkTs 5 2)) [mkSeg 4 (Some 5); mkSeg 9 (Some 4); mkSeg 3 (Some 1); mkSeg 1 None]).
Proof. vm_compute. repeat split; repeat constructor. Qed.

(* ---- the int64 Sum inside modepb.Sum (was an assumption: "durations inside the segmentpb.Sum call made by
        modepb.Sum do not overflow int64") ---- *)
From SC Require Import Timeline.MachineModeSum.

(* a shifted list is at most |d| longer, for every list and every d of either sign *)
Theorem C18_shift_total_length : forall d l, segs_wf l = true -> total_len (shift d l) <= Z.abs d + total_len l.
Proof. exact total_len_shift. Qed.
Print Assumptions C18_shift_total_length.

(* hence modepb.Sum with the int64 Sum inside (mode_sum_ww: saturating Sub, wrapping Shift AND wrapping Sum) is the
   model the code is compared with (mode_sum_w) and the integer model the pointwise law is about (mode_sum), inside the
   guard of KModeSum plus "every list's total length fits an int64" (implied by sum_small when a start time exists) *)
Theorem C18_machine_arithmetic_mode_sum_inner : forall ms,
  forallb (fun m => lens_ok_b (msegs m)) ms = true -> sum_small ms = true ->
  mode_sum_ww ms = mode_sum_w ms /\ mode_sum_ww ms = mode_sum ms.
Proof.
  intros ms L G. pose proof (mode_sum_ww_eq ms L G) as E. split; [exact E|]. rewrite E. apply mode_sum_w_eq. exact G.
Qed.
Print Assumptions C18_machine_arithmetic_mode_sum_inner.

Theorem C18_mode_sum_inner_overflow_refuted :
  exists ms, forallb (fun m => segs_wf (msegs m)) ms = true /\ sum_small ms = true /\
             forallb (fun m => lens_ok_b (msegs m)) ms = false /\
             option_eqb mode_eqb (mode_sum_ww ms) (mode_sum_w ms) = false.
Proof. exact mode_sum_ww_overflow_refuted. Qed.
Print Assumptions C18_mode_sum_inner_overflow_refuted.

Example C18_nonvacuous_mode_sum_inner :
  let ms := [mkMode (Some (mkTs 5 7)) [mkSeg 3 (Some 5); mkSeg 1 None]; mkMode None [mkSeg 2 (Some 4)];
             mkMode (Some (mkTs 5 2)) [mkSeg 4 (Some 9223372036854775000)]] in
  forallb (fun m => lens_ok_b (msegs m)) ms = true /\ sum_small ms = true /\
  mode_sum_ww ms = Some (mkMode (Some (mkTs 5 2))
    [mkSeg 4 (Some 5); mkSeg 9 (Some 4); mkSeg 7 (Some 1); mkSeg 5 (Some 9223372036854774990); mkSeg 1 None]).
Proof. exact mode_sum_ww_nonvacuous. Qed.

(* ---- segmentpb.Cut on the heap, and the six operations together ---- *)
Theorem C18_seg_cut_own_refines : forall d p h, (p < List.length (cells h))%nat ->
  heap_ext h (snd (cut_own d p h)) /\
  (option_map (cell (snd (cut_own d p h))) (fst (fst (fst (cut_own d p h)))),
   option_map (cell (snd (cut_own d p h))) (snd (fst (fst (cut_own d p h)))),
   snd (fst (cut_own d p h))) = cut_seg d (cell h p).
Proof. exact cut_own_refines. Qed.
Print Assumptions C18_seg_cut_own_refines.

(* every list- or mode-returning operation of the heap model, read out of its exit heap, is the operation of the value
   model on the arguments read out of the entry heap (for every heap with readable arguments, every capacity /
   aliasing, every growth policy) *)
Theorem C18_heap_model_refines_value_model :
  (forall d s h, slice_ok h s -> read_slice (snd (shift_own d s h)) (fst (shift_own d s h)) = shift d (read_slice h s)) /\
  (forall d p h, (p < List.length (cells h))%nat ->
     (option_map (cell (snd (cut_own d p h))) (fst (fst (fst (cut_own d p h)))),
      option_map (cell (snd (cut_own d p h))) (snd (fst (fst (cut_own d p h)))),
      snd (fst (cut_own d p h))) = cut_seg d (cell h p)) /\
  (forall g ss h, read_slice (snd (sum_own g ss h)) (fst (sum_own g ss h)) = sum (map (read_slice h) ss)) /\
  (forall g t m h b a o h', (m < List.length (mcells h))%nat -> slice_ok h (snd (mcell h m)) ->
     mode_cut_own g t m h = (b, a, o, h') ->
     (option_map (read_mode h') b, option_map (read_mode h') a, o) = mode_cut t (read_mode h m)) /\
  (forall g d m h, (m < List.length (mcells h))%nat -> slice_ok h (snd (mcell h m)) ->
     read_mode (snd (mode_shift_own g d m h)) (fst (mode_shift_own g d m h)) = mode_shift d (read_mode h m)) /\
  (forall g ms h, Forall (fun m => slice_ok h (snd (mcell h m))) ms ->
     option_map (read_mode (snd (mode_sum_own g ms h))) (fst (mode_sum_own g ms h)) = mode_sum (map (read_mode h) ms)).
Proof.
  split; [exact shift_own_refines|]. split; [intros d p h Hp; exact (proj2 (cut_own_refines d p h Hp))|].
  split; [exact sum_own_refines|]. split; [exact mode_cut_own_refines|]. split; [exact mode_shift_own_refines|].
  exact mode_sum_own_refines.
Qed.
Print Assumptions C18_heap_model_refines_value_model.
