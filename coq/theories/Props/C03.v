(* C03 — A subscriber's folded view converges to the store's state.  Theorems only.

   Model: Conc/Lts.v extended with subscribers: Pull = snapshot + Listen as ONE step (both happen
   under the read lock); a publication delivers to the subscribers present when it starts; the
   subscribers are backpressured and keep receiving, so a subscriber's stream is
   Pull.pull_value / Pull.pull_collection applied to its snapshot and the events delivered since.
   Set and Update publish in a step of their own AFTER the lock is released (their thread is
   "pending" in between); Delete publishes inside the step that removes the item.

   Publication is TICKETED (the repair of known finding C03/1, pkg/resource/turnstile.go): every
   commit takes the next number of its resource under the write lock and its publication passes a
   turnstile in the order of the numbers.  In the model a publish step is enabled only when every
   earlier commit has left, and a committing Delete step only when no earlier commit is pending
   (in the code it waits under the lock; see the head of Conc/Lts.v).

   Proved for every message algebra, program and schedule, ANY number of overlapping writers:
   publications leave in commit order, every subscriber is delivered exactly the commits after
   its starting point, the folded view converges, the ticket discipline cannot deadlock.
   The code before the repair (v1 = true) is kept and refuted (C03_multi_writer_v1_refuted). *)
From SC Require Import Base.Prelude Resource.Impl Resource.Spec Resource.Pull Resource.ImplProofs Resource.PullProofs
  Resource.Flat Resource.FlatProofs Resource.Judge Excess.Change Excess.MergeExcess
  Conc.Lts Conc.LtsProofs Conc.SubProofs Conc.FlatInst Conc.Judge Conc.Lossy Conc.LossyPipe Conc.LossyProofs
  Conc.LossyLayerProofs Conc.LossyUoProofs Conc.C03VSubsInv Conc.C03JudgeSound Conc.C03JudgeSoundPid Conc.C03JudgeSoundColl.

Section C03.
  Variable M : Type.
  Variable m_eqb : M -> M -> bool.
  Variable m_empty : M.
  Variable writer : Type.
  Variable w_validate : writer -> option Z.
  Variable w_merge : writer -> M -> M -> M.
  Variable rmask : Type.
  Variable r_filter : rmask -> M -> M.
  Variable clock_at : Z -> Z.
  Variable str_ltb : string -> string -> bool.
  Variable idfun : option (string -> string).
  Hypothesis m_eqb_eq : forall a b, m_eqb a b = true -> a = b.
  Hypothesis ltb_irrefl : forall a, str_ltb a a = false.
  Hypothesis ltb_trans : forall a b c, str_ltb a b = true -> str_ltb b c = true -> str_ltb a c = true.
  Hypothesis ltb_total : forall a b, str_ltb a b = false -> str_ltb b a = false -> a = b.

  Variable prog : list (call M writer rmask).
  Hypothesis prog_ok : forall t c, nth_error prog t = Some c -> call_ok idfun c.
  Variable v0 : vstate M.
  Variable c0 : cstate M.
  Hypothesis c0_sorted : sorted str_ltb (c_items c0).

  Notation run := (run m_eqb m_empty w_validate w_merge clock_at str_ltb idfun false false prog).
  Notation step := (step m_eqb m_empty w_validate w_merge clock_at str_ltb idfun false false prog).
  Notation enabled := (enabled m_eqb m_empty w_validate w_merge clock_at str_ltb idfun false false prog).
  Notation s0 := (s0 prog v0 c0).
  Notation cview := (cview r_filter).
  Notation vstream := (vstream r_filter).

  (* Publications leave in commit order, in every reachable state of every program under every
     schedule.  Commit n of a resource is entry n-1 of its log (st_logv / st_logc, ghost); st_left* is
     the number of the last commit that has left the turnstile, st_cnt* the commit counter.  What a
     subscriber has been delivered is EXACTLY the commits numbered from+1 .. left in that order
     (seq is increasing): no event overtakes an earlier commit, none is missing, none comes twice.
     `from` is the last commit that had left when the subscription was registered (vs_left /
     cs_left); for a seeded Collection subscription it is the commit counter read with the snapshot
     (cs_cnt, the code's `seeded`), and the commits in between -- pending at that moment, shown by
     the snapshot -- are its skip set (last clause).  Hence every commit <= left has been delivered
     to every subscriber registered before its publication and not skipping it. *)
  Theorem C03_publications_in_commit_order : forall sched,
    let s := run sched s0 in
    (st_leftv s <= st_cntv s)%nat /\ List.length (st_logv s) = st_cntv s /\
    (st_leftc s <= st_cntc s)%nat /\ List.length (st_logc s) = st_cntc s /\
    (forall u, In u (st_vsubs s) ->
       (vs_left u <= st_leftv s)%nat /\
       map Some (vs_evs u) = map (fun n => nth_error (st_logv s) (n - 1)) (seq (S (vs_left u)) (st_leftv s - vs_left u))) /\
    (forall u, In u (st_csubs s) ->
       (cs_left u <= cs_cnt u <= st_cntc s)%nat /\ (cs_left u <= st_leftc s)%nat /\
       map Some (cs_evs u) = map (fun n => nth_error (st_logc s) (n - 1)) (seq (S (from_c u)) (st_leftc s - from_c u)) /\
       (ro_updates_only (cs_ro u) = false ->
        forall a, In a (st_pendc s) -> (In a (cs_skip u) <-> (st_tkt s a <= cs_cnt u)%nat))).
  Proof. apply publications_in_commit_order; assumption. Qed.

  (* the ghost that recorded "a publication overtook an earlier commit" (the class of the former
     known finding) is never set *)
  Theorem C03_no_publication_overtakes_a_commit : forall sched, st_reordered (run sched s0) = false.
  Proof. apply never_reordered; assumption. Qed.

  (* at EVERY moment a seeded subscriber's folded view is List (same mask and predicate) of the
     contents as of the last commit delivered to it, and the commits still to be delivered lead
     from there to the current contents *)
  Theorem C03_view_is_list_as_of_last_delivered : forall sched u,
    let s := run sched s0 in
    In u (st_csubs s) -> plain_sub u ->
    exists L, view_inv r_filter (cs_ro u) (cview u) L /\
              chain L (skipn (List.length (cs_evs u)) (skipn (cs_cnt u) (st_logc s))) (c_items (w_c (st_w s))).
  Proof. apply view_tracks_delivered; assumption. Qed.

  (* Collection.Pull, seeded, with any read mask and any include predicate, subscription opened at
     any schedule position, ANY number of concurrent writers: once every call has returned, the
     folded view is List with the same mask and predicate *)
  Theorem C03_collection_converges : forall sched u,
    let s := run sched s0 in
    all_done s = true -> In u (st_csubs s) -> plain_sub u ->
    forall id, vlookup id (cview u) =
               vlookup id (c_list r_filter (w_c (st_w s)) (ro_mask (cs_ro u)) (ro_include (cs_ro u))).
  Proof. apply converges_collection; assumption. Qed.

  (* Collection.Pull with updates-only (no seed, any read mask, no include predicate): the folded
     view agrees with List at every id that any delivered event mentioned *)
  Theorem C03_collection_updates_only_converges : forall sched u,
    let s := run sched s0 in
    all_done s = true -> In u (st_csubs s) -> uo_sub u ->
    forall id, touched u id ->
               vlookup id (cview u) = vlookup id (c_list r_filter (w_c (st_w s)) (ro_mask (cs_ro u)) None).
  Proof. apply converges_collection_updates_only; assumption. Qed.

  (* Collection.PullID (seeded; its inner Pull is opened by a goroutine of its own, i.e. at any later
     schedule position): unless the subscription has ended — which happens exactly when a change
     removes the item (Props/C04.v: C04_pull_id_closed_iff_removed) — the last value delivered is
     the item's value in List, and nothing is delivered for an item that is absent *)
  Theorem C03_pull_id_converges : forall sched u id vs,
    let s := run sched s0 in
    all_done s = true -> In u (st_csubs s) -> plain_sub u ->
    pull_id_from id (cstream r_filter u) = (vs, false) ->
    last_value vs = vlookup id (c_list r_filter (w_c (st_w s)) (ro_mask (cs_ro u)) (ro_include (cs_ro u))).
  Proof. apply converges_pull_id; assumption. Qed.

  (* Value.Pull with any read mask and updates-only setting: the last event delivered is the final
     value (for updates-only: provided anything was delivered) *)
  Theorem C03_value_converges : forall sched u,
    let s := run sched s0 in
    all_done s = true -> In u (st_vsubs s) ->
    (ro_updates_only (vs_ro u) = false \/ vs_evs u <> []) ->
    last_value (vstream u) = option_map (filt r_filter (vs_ro u)) (v_val (w_v (st_w s))).
  Proof. apply converges_value; assumption. Qed.

  (* what a seeded subscription was delivered is a chain of events, each describing one transition,
     from its snapshot to the final contents: the hypothesis of
     C03_lossy_any_pace_received_plus_pending below, now derived from the transition system *)
  Theorem C03_deliveries_lead_from_snapshot_to_contents : forall sched u,
    let s := run sched s0 in
    all_done s = true -> In u (st_csubs s) -> plain_sub u ->
    chain (c_items (cs_at u)) (cs_evs u) (c_items (w_c (st_w s))).
  Proof. apply deliveries_chain_done; assumption. Qed.

  (* ---- the earlier theorems, guarded by "no commit overlapped an unpublished one": corollaries ---- *)
  Corollary C03_collection_converges_without_overlap : forall sched u,
    let s := run sched s0 in
    st_overlap s = false -> all_done s = true -> In u (st_csubs s) -> plain_sub u ->
    forall id, vlookup id (cview u) =
               vlookup id (c_list r_filter (w_c (st_w s)) (ro_mask (cs_ro u)) (ro_include (cs_ro u))).
  Proof. intros sched u s _. apply C03_collection_converges. Qed.

  Corollary C03_collection_updates_only_converges_without_overlap : forall sched u,
    let s := run sched s0 in
    st_overlap s = false -> all_done s = true -> In u (st_csubs s) -> uo_sub u ->
    forall id, touched u id ->
               vlookup id (cview u) = vlookup id (c_list r_filter (w_c (st_w s)) (ro_mask (cs_ro u)) None).
  Proof. intros sched u s _. apply C03_collection_updates_only_converges. Qed.

  Corollary C03_pull_id_converges_without_overlap : forall sched u id vs,
    let s := run sched s0 in
    st_overlap s = false -> all_done s = true -> In u (st_csubs s) -> plain_sub u ->
    pull_id_from id (cstream r_filter u) = (vs, false) ->
    last_value vs = vlookup id (c_list r_filter (w_c (st_w s)) (ro_mask (cs_ro u)) (ro_include (cs_ro u))).
  Proof. intros sched u id vs s _. apply C03_pull_id_converges. Qed.

  Corollary C03_value_converges_without_overlap : forall sched u,
    let s := run sched s0 in
    st_overlap s = false -> all_done s = true -> In u (st_vsubs s) ->
    (ro_updates_only (vs_ro u) = false \/ vs_evs u <> []) ->
    last_value (vstream u) = option_map (filt r_filter (vs_ro u)) (v_val (w_v (st_w s))).
  Proof. intros sched u s _. apply C03_value_converges. Qed.

  (* ---- the ticket discipline cannot deadlock ---- *)
  (* In every reachable state: the publication at the head of either turnstile's queue is enabled
     (a Delete waiting for it -- in the code under the write lock, in the model disabled -- cannot
     keep it back: a publication needs no lock), and while some call has not returned some step is
     enabled.  Consumers keep receiving (a publication is one step).  An enabled step is not a
     stutter; a disabled one changes nothing but the schedule counters. *)
  Theorem C03_ticket_discipline_is_deadlock_free : forall sched,
    let s := run sched s0 in
    (forall t rest, st_pendv s = t :: rest -> enabled t s = true) /\
    (forall t rest, st_pendc s = t :: rest -> enabled t s = true) /\
    (all_done s = false -> exists t, enabled t s = true) /\
    (forall t, (enabled t s = true -> st_stutter (step t s) = st_stutter s) /\
               (enabled t s = false -> step t s = stutter s)).
  Proof.
    intros sched s.
    destruct (@ticket_progress _ m_eqb m_empty _ w_validate w_merge _ r_filter clock_at str_ltb idfun
                m_eqb_eq ltb_irrefl ltb_trans ltb_total prog prog_ok v0 c0 c0_sorted sched) as (A & B & C).
    split; [exact A|]. split; [exact B|]. split; [exact C|].
    intros t. apply enabled_step.
  Qed.

  (* ONE writer at a time (a single writer issuing its calls one after the other; every other
     writing thread has not started or has returned whenever a thread steps), subscribers stepping
     anywhere.  What remains of the former single-writer theorem (convergence no longer needs it):
     commits never overlap, and the turnstile never makes anyone wait -- every step of a call that
     has not returned is enabled when the schedule names it. *)
  Theorem C03_single_writer_never_overlaps_never_waits : forall sched,
    one_writer_at_a_time m_eqb m_empty w_validate w_merge clock_at str_ltb idfun prog v0 c0 sched ->
    st_overlap (run sched s0) = false /\
    forall k t p, nth_error sched k = Some t ->
                  nth_error (st_pcs (run (firstn k sched) s0)) t = Some p -> is_done p = false ->
                  enabled t (run (firstn k sched) s0) = true.
  Proof.
    intros sched H. split; [apply one_writer_no_overlap; assumption|].
    intros k t p N Q D. eapply one_writer_never_waits; eassumption.
  Qed.

  (* any number of concurrent Deletes never overlap: they publish under the lock *)
  Theorem C03_concurrent_deletes_never_overlap : forall sched,
    only_deletes_write prog -> st_overlap (run sched s0) = false.
  Proof. apply deletes_no_overlap; assumption. Qed.
End C03.

Print Assumptions C03_publications_in_commit_order.
Print Assumptions C03_no_publication_overtakes_a_commit.
Print Assumptions C03_view_is_list_as_of_last_delivered.
Print Assumptions C03_collection_converges.
Print Assumptions C03_value_converges.
Print Assumptions C03_pull_id_converges.
Print Assumptions C03_collection_updates_only_converges.
Print Assumptions C03_deliveries_lead_from_snapshot_to_contents.
Print Assumptions C03_collection_converges_without_overlap.
Print Assumptions C03_value_converges_without_overlap.
Print Assumptions C03_pull_id_converges_without_overlap.
Print Assumptions C03_collection_updates_only_converges_without_overlap.
Print Assumptions C03_ticket_discipline_is_deadlock_free.
Print Assumptions C03_single_writer_never_overlaps_never_waits.
Print Assumptions C03_concurrent_deletes_never_overlap.

(* ---------- the code before the turnstile (v1): two overlapping writers, refuted ---------- *)
Definition plain_wo := mkFWO None None None None false None false None false None None false false false false.
Definition two_sets : list fcall :=
  [FSet (mkF 1 0 0) plain_wo; FSet (mkF 2 0 0) plain_wo; FSubV (mkFRO None false None)].
Definition reordered_case :=
  CaseSched None None [] two_sets [2; 0; 0; 1; 1; 1; 0]%nat
            [mkFO (Some (mkF 1 0 0)) 0; mkFO (Some (mkF 2 0 0)) 0; mkFO None 0] (Some (mkF 2 0 0)) []
            [(2%nat, [mkOV (mkF 2 0 0) 1020 false false; mkOV (mkF 1 0 0) 1010 false false])] [] [].

(* pinned behaviour before the fix.  [sub; W0.read; W0.save; W1.read; W1.save; W1.publish; W0.publish]:
   the subscriber's last event is W0's value while Get returns W1's; the view stays stale for ever *)
Theorem C03_multi_writer_v1_refuted :
  let s := f_run_v1 None two_sets [2; 0; 0; 1; 1; 1; 0]%nat None [] in
  all_done s = true /\ st_stutter s = 0%nat /\ st_overlap s = true /\ st_reordered s = true /\
  v_val (w_v (st_w s)) = Some (mkF 2 0 0) /\
  map (fun u => last_value (vstream fr_filter u)) (st_vsubs s) = [Some (mkF 1 0 0)] /\
  C03_ok reordered_case = false.
Proof. vm_compute. repeat split; reflexivity. Qed.
Print Assumptions C03_multi_writer_v1_refuted.

(* with the turnstile that sequence is not a schedule: W1's publish (position 5) is disabled while
   W0's commit has not left, so the model does not follow it (one stutter) and W1 never publishes;
   an implementation observed to behave like `reordered_case` is judged a hard violation (3: it
   disagrees with the model AND the view is stale) -- no known-finding class any more *)
Example C03_reordered_observation_is_a_violation :
  let s := f_run false None two_sets [2; 0; 0; 1; 1; 1; 0]%nat None [] in
  st_stutter s = 1%nat /\ all_done s = false /\ st_reordered s = false /\
  f_enabled None two_sets 1 (f_run false None two_sets [2; 0; 0; 1; 1]%nat None []) = false /\
  f_enabled None two_sets 0 (f_run false None two_sets [2; 0; 0; 1; 1]%nat None []) = true /\
  judge03 reordered_case = 3.
Proof. vm_compute. repeat split; reflexivity. Qed.

(* the same for a collection, before the fix: an Update saved, a Delete committing and publishing
   before the Update's publication: the view shows the item, List does not *)
Definition upd_del : list fcall :=
  [FUpdate "a" (mkF 7 0 0) plain_wo; FDelete "a" plain_wo; FSubC (mkFRO None false None)].
Theorem C03_update_delete_v1_refuted :
  let s := f_run_v1 None upd_del [2; 0; 0; 1; 1; 0]%nat None [("a"%string, mkF 1 0 0, 300)] in
  all_done s = true /\ st_stutter s = 0%nat /\ st_overlap s = true /\
  final_list (w_c (st_w s)) = [] /\
  map (fun u => cview fr_filter u) (st_csubs s) = [[("a"%string, mkF 7 0 0)]].
Proof. vm_compute. repeat split; reflexivity. Qed.
Print Assumptions C03_update_delete_v1_refuted.

(* ---------- the pinned commit: a subscription receives again what its seed already shows ---------- *)
Definition add_del : list fcall := [FAdd "a" (mkF 10 0 0) plain_wo; FDelete "a" plain_wo; FSubC (mkFRO None false None)].

(* ONE writer at a time (Add returns before Delete starts; st_overlap = false), the Pull opened
   between Add's save and its publication.  Pinned commit (v0): the bus delivers [ADD a; REMOVE a]
   after a seed that already contains a.  With backpressure that is harmless (the fold ends
   without a); WITHOUT backpressure and a reader that is behind, mergeCollectionExcess (C09's
   model) merges the repeated ADD and the REMOVE into nothing: the subscriber receives the seed
   only and keeps a for ever while List is empty. *)
Theorem C03_lossy_duplicate_add_v0_refuted :
  let s := f_run true None add_del [0; 0; 2; 0; 1; 1]%nat None [] in
  all_done s = true /\ st_overlap s = false /\ final_list (w_c (st_w s)) = [] /\
  map (fun u => map (fun e => (ce_id e, kind_code (ce_kind e))) (cs_evs u)) (st_csubs s) = [[("a"%string, 1); ("a"%string, 3)]] /\
  map (fun u => cview fr_filter u) (st_csubs s) = [[]] /\
  map (fun u => List.length (lossy_stalled_stream u)) (st_csubs s) = [1%nat] /\
  map (fun u => lossy_view u (id_tok "a")) (st_csubs s) = [Some 10].
Proof. vm_compute. repeat split; reflexivity. Qed.
Print Assumptions C03_lossy_duplicate_add_v0_refuted.

(* the repaired code numbers the commits and drops the changes the snapshot already shows, before
   the merger: the bus delivers [REMOVE a] only and the lossy view converges as well *)
Example C03_lossy_duplicate_add_fixed :
  let s := f_run false None add_del [0; 0; 2; 0; 1; 1]%nat None [] in
  all_done s = true /\ final_list (w_c (st_w s)) = [] /\
  map (fun u => map (fun e => (ce_id e, kind_code (ce_kind e))) (cs_evs u)) (st_csubs s) = [[("a"%string, 3)]] /\
  map (fun u => cview fr_filter u) (st_csubs s) = [[]] /\
  map (fun u => lossy_view u (id_tok "a")) (st_csubs s) = [None].
Proof. vm_compute. repeat split; reflexivity. Qed.

(* ---------- subscribers WITHOUT backpressure, arbitrary reader pace (Conc/LossyPipe.v) ---------- *)
Section C03Lossy.
  Variable M : Type.
  Variable rmask : Type.
  Variable r_filter : rmask -> M -> M.
  Variable id_tok : string -> Z.
  Variable id_of : Z -> string.
  Variable val_tok : M -> Z.
  Variable val_of : Z -> option M.

  Notation pstep := (pstep r_filter id_tok id_of val_tok val_of).
  Notation open_sub := (open_sub r_filter None id_of val_of).
  Notation tokview := (tokview id_tok id_of val_tok).
  Notation ev_wf := (ev_wf id_tok id_of).

  (* The pipeline of a Collection.Pull without backpressure (changesAfter's output -> C09's merger
     model -> Pull's goroutine -> consumer), any read mask / include / updates-only setting, opened
     on any snapshot, driven by ANY interleaving [ops] of bus deliveries and consumer receives (=
     any reader pace, any stalls).  If the deliveries are a chain of events each describing one
     transition of the contents from the snapshot to X (which is what the transition system delivers
     while commits do not overlap), then at EVERY moment, in the merger's token domain,
         fold (pending in the merger) (fold (taken from the merger) snapshot) = X
     what was taken from the merger is itself a valid edit script on the snapshot, and what has been
     taken from Pull's channel ++ what its goroutine is holding ++ the seeds still to come is: all
     seeds, then the merger's output passed through include and the read mask.  Once nothing is
     offered (the reader has caught up) nothing is pending either: received = X. *)
  Theorem C03_lossy_any_pace_received_plus_pending : forall tid ro at_ ops X,
    let l := fold_left pstep ops (open_sub tid ro None at_) in
    chain (c_items at_) (delivered ops) X -> Forall ev_wf (delivered ops) ->
    (forall z, Change.fold_view (pending (ls_m l)) (Change.fold_view (ls_gotm l) (tokview (c_items at_))) z = tokview X z) /\
    valid_script (ls_gotm l) (tokview (c_items at_)) = true /\
    ls_gotc l ++ olist (ls_slot l) ++ ls_seeds l =
      allseeds r_filter ro (c_items at_) ++ fmap (post r_filter None ro) (map (dec id_of val_of) (ls_gotm l)) /\
    (ls_slot l = None ->
     (forall z, Change.fold_view (ls_gotm l) (tokview (c_items at_)) z = tokview X z) /\
     ls_gotc l = allseeds r_filter ro (c_items at_) ++ fmap (post r_filter None ro) (map (dec id_of val_of) (ls_gotm l)) /\
     queue (ls_m l) = []).
  Proof.
    intros tid ro at_ ops X l C W.
    pose proof (@PI_ops M rmask r_filter id_tok id_of val_tok val_of ops _ _ _ _ (@PI_open M rmask r_filter id_tok id_of val_tok val_of tid ro at_)) as P.
    simpl in P. fold l in P.
    destruct (lossy_received_plus_pending P C W) as (A & B & D).
    split; [exact A|]. split; [exact B|]. split; [exact D|].
    intros SL. exact (lossy_caught_up P C W SL).
  Qed.
End C03Lossy.
Print Assumptions C03_lossy_any_pace_received_plus_pending.

(* the hypotheses are satisfiable by a non-trivial input: a (the snapshot's item) is removed, added
   again and removed: three events, each describing its transition, well-formed for the table tokens
   the judge uses; with them the theorem speaks about every placement of the receives *)
Example C03_nonvacuous_lossy_chain :
  let it := ["a"%string] in
  let L0 := [("a"%string, mkItem (mkF 1 0 0) 300)] in
  let evs := [mkCE "a" 700 KRemove (Some (mkF 1 0 0)) None; mkCE "a" 1010 KAdd None (Some (mkF 7 0 0));
              mkCE "a" 701 KRemove (Some (mkF 7 0 0)) None] in
  chain L0 evs [] /\ Forall (ev_wf (tok_id it) (id_at it)) evs.
Proof.
  assert (Hf : forall (x : item fmsg) id', id' <> "a"%string -> lookup id' [("a"%string, x)] = lookup id' []).
  { intros x id' H. cbn [lookup]. destruct (String.eqb_spec "a" id') as [E|E]; [congruence|reflexivity]. }
  split.
  - apply chain_cons with (l1 := []).
    { constructor; simpl; try reflexivity; try exact I.
      - intros id' H. symmetry. apply Hf. exact H.
      - split; [reflexivity|intros C; exfalso; apply C; reflexivity]. }
    apply chain_cons with (l1 := [("a"%string, mkItem (mkF 7 0 0) 1010)]).
    { constructor; simpl; try reflexivity.
      - intros id' H. apply Hf. exact H.
      - split; [discriminate|intros _; discriminate]. }
    apply chain_cons with (l1 := []).
    { constructor; simpl; try reflexivity; try exact I.
      - intros id' H. symmetry. apply Hf. exact H.
      - split; [reflexivity|intros C; exfalso; apply C; reflexivity]. }
    apply chain_nil.
  - repeat constructor; simpl; discriminate.
Qed.

(* The reader pace cannot influence the store: the transition-system component of a run with
   consumer receives anywhere in the schedule is the run of the thread steps alone, so every theorem
   above about `run` holds under every reader pace. *)
Theorem C03_lossy_reader_pace_is_invisible_to_writers :
  forall (M rmask : Type) (r_filter : rmask -> M -> M) equiv id_tok id_of val_tok val_of (writer : Type)
         m_eqb m_empty (w_validate : writer -> option Z) w_merge clock_at str_ltb idfun v0 v1 prog lossy_of sched st,
    fst (lrun r_filter equiv id_tok id_of val_tok val_of m_eqb m_empty w_validate w_merge clock_at str_ltb idfun v0 v1 prog lossy_of sched st) =
    run m_eqb m_empty w_validate w_merge clock_at str_ltb idfun v0 v1 prog (threads_of sched) (fst st).
Proof. intros. apply lrun_projects. Qed.
Print Assumptions C03_lossy_reader_pace_is_invisible_to_writers.

(* The model on the delete / re-add sequences (these are what `agrees` compares the code with):
   ONE writer: Delete a; Add a; Delete a, the subscriber (seed holds a) receiving its two seeds and
   then being behind: REMOVE+ADD are merged into REPLACE, which it receives, then the REMOVE. *)
Definition del_add_del : list fcall :=
  [FDelete "a" plain_wo; FAdd "a" (mkF 7 0 0) plain_wo; FDelete "a" plain_wo; FSubL None (mkFRO None false None)].
Definition ab_init := [("a"%string, mkF 1 0 0, 300); ("b"%string, mkF 2 2 0, 310)].
Definition lshow (x : state fmsg (list fld) * list flsub) :=
  (st_stutter (fst x), all_done (fst x), st_overlap (fst x), final_list (w_c (st_w (fst x))),
   map (fun l => (map (fun c => (lc_id c, lc_kind c, lc_old c, lc_new c)) (ls_gotc l),
                  map (fun v => vc_value v) (ls_gotv l), ls_closed l)) (snd x)).

Example C03_lossy_delete_readd_delete_reader_behind :
  lshow (f_lrun false None del_add_del [3; 3; 0; 0; 1; 1; 1; 3; 2; 2]%nat None ab_init) =
  (0%nat, true, false, [("b"%string, mkF 2 2 0)],
   [([("a"%string, 1, None, Some (mkF 1 0 0)); ("b"%string, 1, None, Some (mkF 2 2 0));
      ("a"%string, 4, Some (mkF 1 0 0), Some (mkF 7 0 0)); ("a"%string, 3, Some (mkF 7 0 0), None)], [], false)]).
Proof. vm_compute. reflexivity. Qed.

(* the reader stalled from the start: REMOVE+ADD+REMOVE collapse to ONE REMOVE carrying the value
   the seed showed -- never to nothing (the view would keep a for ever) *)
Example C03_lossy_delete_readd_delete_reader_stalled :
  lshow (f_lrun false None del_add_del [3; 0; 0; 1; 1; 1; 2; 2]%nat None ab_init) =
  (0%nat, true, false, [("b"%string, mkF 2 2 0)],
   [([("a"%string, 1, None, Some (mkF 1 0 0)); ("b"%string, 1, None, Some (mkF 2 2 0));
      ("a"%string, 3, Some (mkF 1 0 0), None)], [], false)]).
Proof. vm_compute. reflexivity. Qed.

(* PullID over the same pipeline: ONE writer Update a; Delete a; Add a with the reader behind after
   the seed: UPDATE+REMOVE+ADD reach PullID as ONE REPLACE, whose value it must forward (the stream
   stays open and ends at the item's final value) *)
Definition upd_del_add : list fcall :=
  [FUpdate "a" (mkF 5 0 0) plain_wo; FDelete "a" plain_wo; FAdd "a" (mkF 7 0 0) plain_wo;
   FSubL (Some "a"%string) (mkFRO None false None)].
Example C03_lossy_pull_id_forwards_replace :
  lshow (f_lrun false None upd_del_add [3; 3; 0; 0; 0; 1; 1; 2; 2; 2]%nat None ab_init) =
  (0%nat, true, false, [("a"%string, mkF 7 0 0); ("b"%string, mkF 2 2 0)],
   [([("a"%string, 1, None, Some (mkF 1 0 0)); ("b"%string, 1, None, Some (mkF 2 2 0));
      ("a"%string, 4, Some (mkF 1 0 0), Some (mkF 7 0 0))], [mkF 1 0 0; mkF 7 0 0], false)]).
Proof. vm_compute. reflexivity. Qed.

(* ---------- non-vacuity: overlapping writers under the turnstile ---------- *)
(* one writer, subscription opened between its save and its publication: the seed already shows
   the new value, the publication is not delivered a second time *)
Example C03_nonvacuous_single_writer :
  let s := f_run false None [FUpdate "a" (mkF 7 0 0) plain_wo; FSubC (mkFRO (Some [Fa]) false None)]
                 [0; 0; 1; 0]%nat None [("a"%string, mkF 1 5 0, 300)] in
  all_done s = true /\ st_stutter s = 0%nat /\ st_overlap s = false /\
  map (fun u => List.length (cstream fr_filter u)) (st_csubs s) = [1%nat] /\
  map (fun u => cview fr_filter u) (st_csubs s) = [[("a"%string, mkF 7 0 0)]] /\
  c_list fr_filter (w_c (st_w s)) (Some [Fa]) None = [("a"%string, mkF 7 0 0)].
Proof. vm_compute. repeat split; reflexivity. Qed.

(* TWO overlapping Sets: both have saved before either publishes (st_overlap); the publications
   leave in commit order (the other order is not a schedule, see above), the last event is the
   final value *)
Example C03_nonvacuous_two_overlapping_writers :
  let s := f_run false None two_sets [2; 0; 0; 1; 1; 0; 1]%nat None [] in
  all_done s = true /\ st_stutter s = 0%nat /\ st_overlap s = true /\ st_reordered s = false /\
  v_val (w_v (st_w s)) = Some (mkF 2 0 0) /\
  map (fun u => map (@ve_value fmsg) (vs_evs u)) (st_vsubs s) = [[mkF 1 0 0; mkF 2 0 0]] /\
  map (fun u => last_value (vstream fr_filter u)) (st_vsubs s) = [Some (mkF 2 0 0)].
Proof. vm_compute. repeat split; reflexivity. Qed.

(* THREE overlapping Updates of one collection (two items), a seeded subscriber registered while
   commits 1 and 2 are pending (its skip set) and one registered first: all three have saved
   before any publishes; commit 3's publication is not enabled while 1 or 2 is pending *)
Definition three_updates : list fcall :=
  [FUpdate "a" (mkF 7 0 0) plain_wo; FUpdate "b" (mkF 8 0 0) plain_wo; FUpdate "a" (mkF 9 0 0) plain_wo;
   FSubC (mkFRO None false None); FSubC (mkFRO None false None)].
Definition ab_items := [("a"%string, mkF 1 0 0, 300); ("b"%string, mkF 2 2 0, 310)].
Example C03_nonvacuous_three_overlapping_writers :
  let mid := f_run false None three_updates [3; 0; 0; 1; 1; 4; 2; 2]%nat None ab_items in
  let s := f_run false None three_updates [3; 0; 0; 1; 1; 4; 2; 2; 0; 1; 2]%nat None ab_items in
  map (fun t => f_enabled None three_updates t mid) [0; 1; 2]%nat = [true; false; false] /\
  st_pendc mid = [0; 1; 2]%nat /\ map (st_tkt mid) [0; 1; 2]%nat = [1; 2; 3]%nat /\ st_leftc mid = 0%nat /\
  all_done s = true /\ st_stutter s = 0%nat /\ st_overlap s = true /\
  map (fun u => (cs_left u, cs_cnt u, cs_skip u, map (fun e => (ce_id e, ce_new e)) (cs_evs u))) (st_csubs s) =
    [(0, 0, [], [("a"%string, Some (mkF 7 0 0)); ("b"%string, Some (mkF 8 0 0)); ("a"%string, Some (mkF 9 0 0))]);
     (0, 2, [0; 1], [("a"%string, Some (mkF 9 0 0))])]%nat /\
  map (fun u => cview fr_filter u) (st_csubs s) =
    [[("a"%string, mkF 9 0 0); ("b"%string, mkF 8 0 0)]; [("a"%string, mkF 9 0 0); ("b"%string, mkF 8 0 0)]] /\
  final_list (w_c (st_w s)) = [("a"%string, mkF 9 0 0); ("b"%string, mkF 8 0 0)].
Proof. vm_compute. repeat split; reflexivity. Qed.

(* a Delete between two Updates: Update a saved (commit 1, pending), Delete b has read, Update a
   saved again (commit 2, pending).  The Delete's committing step is NOT enabled while a commit is
   pending (in the code it would wait under the lock); the two publications are (in order); then the
   Delete commits as number 3 and publishes.  Before the fix the Delete could publish first and
   the view ended with b (C03_update_delete_v1_refuted is the one-item version). *)
Definition upd_del_upd : list fcall :=
  [FUpdate "a" (mkF 7 0 0) plain_wo; FDelete "b" plain_wo; FUpdate "a" (mkF 9 0 0) plain_wo; FSubC (mkFRO None false None)].
Example C03_nonvacuous_delete_between_updates :
  let mid := f_run false None upd_del_upd [3; 0; 0; 1; 2; 2]%nat None ab_items in
  let s := f_run false None upd_del_upd [3; 0; 0; 1; 2; 2; 0; 2; 1]%nat None ab_items in
  map (fun t => f_enabled None upd_del_upd t mid) [0; 1; 2]%nat = [true; false; false] /\
  st_stutter (f_run false None upd_del_upd [3; 0; 0; 1; 2; 2; 1]%nat None ab_items) = 1%nat /\
  all_done s = true /\ st_stutter s = 0%nat /\ st_overlap s = true /\ st_cntc s = 3%nat /\ st_leftc s = 3%nat /\
  map (fun u => map (fun e => (ce_id e, kind_code (ce_kind e))) (cs_evs u)) (st_csubs s) =
    [[("a"%string, 2); ("a"%string, 2); ("b"%string, 3)]] /\
  map (fun u => cview fr_filter u) (st_csubs s) = [[("a"%string, mkF 9 0 0)]] /\
  final_list (w_c (st_w s)) = [("a"%string, mkF 9 0 0)].
Proof. vm_compute. repeat split; reflexivity. Qed.

(* a writer and a subscriber satisfy the one-writer-at-a-time hypothesis under every schedule *)
Example C03_nonvacuous_hypothesis : forall sched,
  one_writer_at_a_time fmsg_eqb fzero fw_validate fw_merge fclock str_ltb None
    (map to_call [FSet (mkF 1 0 0) plain_wo; FSubV (mkFRO None false None)]) (init_v None) (init_c []) sched.
Proof.
  intros sched k t c N P W t' c' p' Hne P' W' Q.
  assert (Ht : t = 0%nat).
  { destruct t as [|[|t]]; [reflexivity| |]; simpl in P.
    - inversion P. subst c. discriminate W.
    - destruct t; discriminate P. }
  assert (Ht' : t' = 0%nat).
  { destruct t' as [|[|t']]; [reflexivity| |]; simpl in P'.
    - inversion P'. subst c'. discriminate W'.
    - destruct t'; discriminate P'. }
  congruence.
Qed.

(* ---------- subscribers WITHOUT backpressure: the CLOSED composition (Conc/LossyLayerProofs.v) ---------- *)
Section C03LossyClosed.
  Variable M : Type.
  Variable m_eqb : M -> M -> bool.
  Variable m_empty : M.
  Variable writer : Type.
  Variable w_validate : writer -> option Z.
  Variable w_merge : writer -> M -> M -> M.
  Variable rmask : Type.
  Variable r_filter : rmask -> M -> M.
  Variable clock_at : Z -> Z.
  Variable str_ltb : string -> string -> bool.
  Variable idfun : option (string -> string).
  Hypothesis m_eqb_eq : forall a b, m_eqb a b = true -> a = b.
  Hypothesis ltb_irrefl : forall a, str_ltb a a = false.
  Hypothesis ltb_trans : forall a b c, str_ltb a b = true -> str_ltb b c = true -> str_ltb a c = true.
  Hypothesis ltb_total : forall a b, str_ltb a b = false -> str_ltb b a = false -> a = b.
  Variable prog : list (call M writer rmask).
  Hypothesis prog_ok : forall t c, nth_error prog t = Some c -> call_ok idfun c.
  Variable v0 : vstate M.
  Variable c0 : cstate M.
  Hypothesis c0_sorted : sorted str_ltb (c_items c0).
  Variable id_tok : string -> Z.
  Variable id_of : Z -> string.
  Variable val_tok : M -> Z.
  Variable val_of : Z -> option M.
  Variable lossy_of : nat -> option (option string).

  Notation run := (run m_eqb m_empty w_validate w_merge clock_at str_ltb idfun false false prog).
  Notation lrun := (lrun r_filter None id_tok id_of val_tok val_of m_eqb m_empty w_validate w_merge clock_at str_ltb idfun
                         false false prog lossy_of).
  Notation s0 := (s0 prog v0 c0).
  Notation tokview := (tokview id_tok id_of val_tok).

  (* Lossy convergence as ONE theorem over programs, schedules and reader paces, like the
     backpressured ones.  The transition system (any program, any number of overlapping writers,
     the turnstile) with the pipelines of the subscriptions without backpressure layered on top
     (Conc/LossyPipe.v: changesAfter's output -> C09's merger model -> Pull's goroutine -> consumer),
     run by ANY schedule of thread steps and single consumer receives.  Once all calls have
     returned, every pipeline of a Collection.Pull without backpressure (l) is the pipeline of
     exactly one subscriber (u) of the transition system, with its read options, and if it is seeded:
     in the merger's token domain
         fold (pending in the merger) (fold (taken from the merger) (snapshot)) = the final contents,
     what was taken from the merger is a valid edit script on the snapshot, what the consumer has
     received ++ what Pull's goroutine is holding ++ the seeds still to come is all seeds followed by
     the merger's output through include and the read mask; and once nothing is offered to the
     consumer nothing is pending: it has received the seeds and an edit script from the snapshot
     to the final contents.  Nothing is assumed about the deliveries any more: that they are a
     chain from the snapshot (C03_deliveries_lead_from_snapshot_to_contents), that their kinds say
     whether the item existed (C03_delivered_events_say_whether_the_item_existed), that the pipeline
     has been handed exactly the subscriber's deliveries and `find` by thread id finds THE
     subscriber (distinct thread ids) are invariants of the composition.  The one hypothesis about
     the token tables: the ids of the delivered events survive the round trip (true of the judge's
     tables: C03_judge_id_table_round_trip, C03_judge_id_table_has_the_delivered_ids). *)
  Theorem C03_lossy_converges_for_every_program_schedule_and_pace : forall sched l,
    let st := lrun sched (s0, []) in
    all_done (fst st) = true -> In l (snd st) -> lossy_of (ls_tid l) = Some None ->
    exists u, In u (st_csubs (fst st)) /\ cs_tid u = ls_tid l /\ ls_ro l = cs_ro u /\
      (ro_updates_only (cs_ro u) = false ->
       (forall e, In e (cs_evs u) -> id_of (id_tok (ce_id e)) = ce_id e) ->
       let L0 := c_items (cs_at u) in
       let X := c_items (w_c (st_w (fst st))) in
       (forall z, Change.fold_view (pending (ls_m l)) (Change.fold_view (ls_gotm l) (tokview L0)) z = tokview X z) /\
       valid_script (ls_gotm l) (tokview L0) = true /\
       ls_gotc l ++ olist (ls_slot l) ++ ls_seeds l =
         allseeds r_filter (cs_ro u) L0 ++ fmap (post r_filter None (cs_ro u)) (map (dec id_of val_of) (ls_gotm l)) /\
       (ls_slot l = None ->
        (forall z, Change.fold_view (ls_gotm l) (tokview L0) z = tokview X z) /\
        ls_gotc l = allseeds r_filter (cs_ro u) L0 ++ fmap (post r_filter None (cs_ro u)) (map (dec id_of val_of) (ls_gotm l)) /\
        queue (ls_m l) = [])).
  Proof.
    exact (lossy_layer_converges m_eqb m_empty w_validate w_merge r_filter clock_at str_ltb idfun m_eqb_eq ltb_irrefl
             ltb_trans ltb_total prog prog_ok v0 c0 c0_sorted id_tok id_of val_tok val_of lossy_of).
  Qed.

  (* ... and for "a reader that keeps receiving" (LossyPipe.drained = the judge's and the harness's
     "receive until nothing is offered"; finitely many receives): after it nothing is offered, nothing
     is pending in the merger, and what the consumer has received is all seeds followed by a valid
     edit script from the snapshot to the final contents, passed through include and the read mask *)
  Theorem C03_lossy_reader_that_keeps_receiving_converges : forall sched l,
    let st := lrun sched (s0, []) in
    all_done (fst st) = true -> In l (snd st) -> lossy_of (ls_tid l) = Some None ->
    exists u, In u (st_csubs (fst st)) /\ cs_tid u = ls_tid l /\
      (ro_updates_only (cs_ro u) = false ->
       (forall e, In e (cs_evs u) -> id_of (id_tok (ce_id e)) = ce_id e) ->
       let L0 := c_items (cs_at u) in
       let X := c_items (w_c (st_w (fst st))) in
       let l' := drained r_filter None id_of val_of l in
       ls_slot l' = None /\ queue (ls_m l') = [] /\
       (forall z, Change.fold_view (ls_gotm l') (tokview L0) z = tokview X z) /\
       valid_script (ls_gotm l') (tokview L0) = true /\
       ls_gotc l' = allseeds r_filter (cs_ro u) L0 ++ fmap (post r_filter None (cs_ro u)) (map (dec id_of val_of) (ls_gotm l'))).
  Proof.
    exact (lossy_layer_converges_reader_keeps_receiving m_eqb m_empty w_validate w_merge r_filter clock_at str_ltb idfun
             m_eqb_eq ltb_irrefl ltb_trans ltb_total prog prog_ok v0 c0 c0_sorted id_tok id_of val_tok val_of lossy_of).
  Qed.

  (* The same closed composition for an UPDATES-ONLY Collection.Pull without backpressure (any read
     mask, any include predicate): it takes no snapshot and receives no seeds, so there is no
     snapshot for the merger's edit script to be valid on; its place is taken by L = the contents
     the deliveries lead from (those as of the last commit that had left the turnstile when the
     subscription was registered): chain L (deliveries) (final contents).  For every program,
     schedule and reader pace, once all calls have returned: in the merger's token domain
         fold (pending in the merger) (fold (taken from the merger) L) = the final contents,
     what was taken from the merger is a valid edit script on L, received ++ held (++ seeds: none)
     = the merger's output through include and the read mask; once nothing is offered nothing is
     pending; and a reader that keeps receiving (drained) gets there.  (Was: compared by the
     harness only.) *)
  Theorem C03_lossy_updates_only_converges_for_every_program_schedule_and_pace : forall sched l,
    let st := lrun sched (s0, []) in
    all_done (fst st) = true -> In l (snd st) -> lossy_of (ls_tid l) = Some None ->
    exists u, In u (st_csubs (fst st)) /\ cs_tid u = ls_tid l /\ ls_ro l = cs_ro u /\
      (ro_updates_only (cs_ro u) = true ->
       (forall e, In e (cs_evs u) -> id_of (id_tok (ce_id e)) = ce_id e) ->
       let X := c_items (w_c (st_w (fst st))) in
       exists L, chain L (cs_evs u) X /\
       (forall z, Change.fold_view (pending (ls_m l)) (Change.fold_view (ls_gotm l) (tokview L)) z = tokview X z) /\
       valid_script (ls_gotm l) (tokview L) = true /\
       ls_gotc l ++ olist (ls_slot l) ++ ls_seeds l = fmap (post r_filter None (cs_ro u)) (map (dec id_of val_of) (ls_gotm l)) /\
       (ls_slot l = None ->
        (forall z, Change.fold_view (ls_gotm l) (tokview L) z = tokview X z) /\
        ls_gotc l = fmap (post r_filter None (cs_ro u)) (map (dec id_of val_of) (ls_gotm l)) /\
        queue (ls_m l) = []) /\
       (let l' := drained r_filter None id_of val_of l in
        ls_slot l' = None /\ queue (ls_m l') = [] /\
        (forall z, Change.fold_view (ls_gotm l') (tokview L) z = tokview X z) /\
        valid_script (ls_gotm l') (tokview L) = true /\
        ls_gotc l' = fmap (post r_filter None (cs_ro u)) (map (dec id_of val_of) (ls_gotm l')))).
  Proof.
    exact (lossy_layer_converges_updates_only m_eqb m_empty w_validate w_merge r_filter clock_at str_ltb idfun m_eqb_eq ltb_irrefl
             ltb_trans ltb_total prog prog_ok v0 c0 c0_sorted id_tok id_of val_tok val_of lossy_of).
  Qed.

  (* what an updates-only subscription (backpressured or not: these are the raw deliveries) has been
     delivered when all calls have returned leads, each event describing one transition, from some
     contents to the final contents *)
  Theorem C03_updates_only_deliveries_lead_to_contents : forall sched u,
    let s := run sched s0 in
    all_done s = true -> In u (st_csubs s) -> ro_updates_only (cs_ro u) = true ->
    exists L, chain L (cs_evs u) (c_items (w_c (st_w s))).
  Proof.
    exact (deliveries_chain_done_uo m_eqb m_empty w_validate w_merge r_filter clock_at str_ltb idfun m_eqb_eq ltb_irrefl
             ltb_trans ltb_total prog prog_ok v0 c0 c0_sorted).
  Qed.

  (* every event a subscriber is ever delivered says by its kind whether the item existed: an ADD
     carries no old value, an UPDATE / REMOVE carries one (what C09's merge algebra relies on) *)
  Theorem C03_delivered_events_say_whether_the_item_existed : forall sched u,
    In u (st_csubs (run sched s0)) ->
    Forall (fun e => match ce_kind e with KAdd => ce_old e = None | _ => ce_old e <> None end) (cs_evs u).
  Proof.
    exact (deliveries_kinds_wf m_eqb m_empty w_validate w_merge r_filter clock_at str_ltb idfun m_eqb_eq ltb_irrefl
             ltb_trans ltb_total prog prog_ok v0 c0 c0_sorted).
  Qed.
End C03LossyClosed.
Print Assumptions C03_lossy_converges_for_every_program_schedule_and_pace.
Print Assumptions C03_lossy_reader_that_keeps_receiving_converges.
Print Assumptions C03_delivered_events_say_whether_the_item_existed.
Print Assumptions C03_lossy_updates_only_converges_for_every_program_schedule_and_pace.
Print Assumptions C03_updates_only_deliveries_lead_to_contents.

(* the judge's id table (the ids the run's deliveries mention, by position) satisfies the hypothesis *)
Theorem C03_judge_id_table_round_trip : forall it id, In id it -> id_at it (tok_id it id) = id.
Proof. exact judge_ids_round_trip. Qed.
Theorem C03_judge_id_table_has_the_delivered_ids : forall (s : state fmsg (list fld)) u e,
  In u (st_csubs s) -> In e (cs_evs u) -> In (ce_id e) (tbl_ids s).
Proof. exact judge_table_has_delivered_ids. Qed.
Print Assumptions C03_judge_id_table_round_trip.
Print Assumptions C03_judge_id_table_has_the_delivered_ids.

(* the hypotheses are satisfiable by a non-trivial run: ONE writer Delete a; Add a; Delete a, a seeded
   Pull without backpressure whose consumer receives twice (the seeds) and is then behind; with the
   judge's tables: all calls returned, one pipeline, one subscriber, three deliveries whose ids
   survive the round trip, two changes received and one (the REPLACE) held by Pull's goroutine *)
Example C03_nonvacuous_lossy_closed_composition :
  let cprog := map to_call del_add_del in
  let ss := classify del_add_del (fun _ => O) [3; 3; 0; 0; 1; 1; 1; 3; 2; 2]%nat in
  let s00 := s0 cprog (init_v None) (init_c ab_init) in
  let splain := run fmsg_eqb fzero fw_validate fw_merge fclock str_ltb None false false cprog (threads_of ss) s00 in
  let it := tbl_ids splain in
  let vt := tbl_vals splain in
  let st := lrun fr_filter None (tok_id it) (id_at it) (tok_val vt) (val_at vt) fmsg_eqb fzero fw_validate fw_merge fclock
                 str_ltb None false false cprog (lossy_of_prog None del_add_del) ss (s00, []) in
  all_done (fst st) = true /\
  match snd st, st_csubs (fst st) with
  | [l], [u] =>
      lossy_of_prog None del_add_del (ls_tid l) = Some None /\ cs_tid u = ls_tid l /\
      ro_updates_only (cs_ro u) = false /\ List.length (cs_evs u) = 3%nat /\
      (forall e, In e (cs_evs u) -> id_at it (tok_id it (ce_id e)) = ce_id e) /\
      List.length (ls_gotc l) = 2%nat /\ ls_slot l <> None
  | _, _ => False
  end.
Proof.
  vm_compute. split; [reflexivity|]. repeat split; try discriminate.
  intros e [<-|[<-|[<-|[]]]]; reflexivity.
Qed.

(* the updates-only theorem's hypotheses are satisfiable: ONE writer Update a; Delete a, an updates-only Pull
   without backpressure opened first, its consumer receiving once (the UPDATE) and then being behind (the
   REMOVE held by Pull's goroutine); after draining it has received both *)
Definition upd_del_uo : list fcall :=
  [FUpdate "a" (mkF 7 0 0) plain_wo; FDelete "a" plain_wo; FSubL None (mkFRO None true None)].
Example C03_nonvacuous_lossy_updates_only :
  let cprog := map to_call upd_del_uo in
  let ss := classify upd_del_uo (fun _ => O) [2; 0; 0; 0; 2; 1; 1]%nat in
  let s00 := s0 cprog (init_v None) (init_c ab_init) in
  let splain := run fmsg_eqb fzero fw_validate fw_merge fclock str_ltb None false false cprog (threads_of ss) s00 in
  let it := tbl_ids splain in
  let vt := tbl_vals splain in
  let st := lrun fr_filter None (tok_id it) (id_at it) (tok_val vt) (val_at vt) fmsg_eqb fzero fw_validate fw_merge fclock
                 str_ltb None false false cprog (lossy_of_prog None upd_del_uo) ss (s00, []) in
  all_done (fst st) = true /\
  match snd st, st_csubs (fst st) with
  | [l], [u] =>
      lossy_of_prog None upd_del_uo (ls_tid l) = Some None /\ cs_tid u = ls_tid l /\
      ro_updates_only (cs_ro u) = true /\ List.length (cs_evs u) = 2%nat /\
      (forall e, In e (cs_evs u) -> id_at it (tok_id it (ce_id e)) = ce_id e) /\
      List.length (ls_gotc l) = 1%nat /\ ls_slot l <> None /\
      List.length (ls_gotc (drained fr_filter None (id_at it) (val_at vt) l)) = 2%nat
  | _, _ => False
  end.
Proof.
  vm_compute. split; [reflexivity|]. repeat split; try discriminate.
  intros e [<-|[<-|[]]]; reflexivity.
Qed.

(* ---------- soundness of the judge: cases whose subscribers are Value.Pull (Conc/C03JudgeSound.v) ---------- *)
(* every Value.Pull subscriber of a reachable state (any algebra, program, schedule) was registered by the
   thread whose call is that Value.Pull with those read options, that thread has returned, and no thread
   registered two: what lets the judge identify a subscriber by its thread id *)
Theorem C03_value_subscribers_are_their_threads :
  forall (M : Type) m_eqb m_empty (writer : Type) (w_validate : writer -> option Z) w_merge (rmask : Type) clock_at str_ltb idfun
         (prog : list (call M writer rmask)) v0 c0 sched,
    let s := run m_eqb m_empty w_validate w_merge clock_at str_ltb idfun false false prog sched (s0 prog v0 c0) in
    (forall u, In u (st_vsubs s) -> nth_error prog (vs_tid u) = Some (CSubV (vs_ro u))) /\
    (forall u, In u (st_vsubs s) -> exists r, nth_error (st_pcs s) (vs_tid u) = Some (PDone r)) /\
    NoDup (map (@vs_tid M rmask) (st_vsubs s)).
Proof.
  intros. destruct (vsubs_run m_eqb m_empty w_validate w_merge clock_at str_ltb idfun prog v0 c0 sched) as [A B C].
  split; [exact A|]. split; [exact B|exact C].
Qed.
Print Assumptions C03_value_subscribers_are_their_threads.

(* per subscriber, no side condition on the case: for every program over the flat algebra (no generating
   call), every schedule, every Value.Pull subscriber u of the model's run (any read mask, seeded or
   updates-only): an observed stream that matches the model's stream of u change by change and an observed
   final Get that matches the model's satisfy the oracle's clause vview_ok -- C03_value_converges carried
   through the judge's definitions *)
Theorem C03_judge_value_stream_oracle_sound : forall (i : option idf) (prog : list fcall) (sched : list nat) vinit cinit
        (u : vsub fmsg (list fld)) (ro : fro) obs fv,
  (forall t c, nth_error (map to_call prog) t = Some c -> call_ok (idfun_of i) c) ->
  sorted str_ltb (c_items (init_c cinit)) ->
  let s := f_run false i prog sched vinit cinit in
  all_done s = true -> In u (st_vsubs s) -> vs_ro u = to_ropts ro ->
  list_match vc_matches (vstream_of u) obs = true ->
  ofm_eqb (v_val (w_v (st_w s))) fv = true ->
  vview_ok ro obs fv = true.
Proof. exact judge_value_oracle_sound. Qed.
Print Assumptions C03_judge_value_stream_oracle_sound.

(* THE JUDGE, whole cases: on a forced-schedule case that passes c03_value_guard (computable from the case
   alone, nothing runs the model: no subscriber without backpressure, no PullID, no collection stream
   observed, initial contents sorted, no generating call, distinct thread ids on the observed value
   streams -- programs, schedules, numbers of writers and of Value.Pull subscribers of ANY size),
   `agrees` implies `C03_ok`.  The proof needs more than convergence: that EVERY observed stream is judged
   against the right subscriber (agrees only says every SUBSCRIBER has a matching stream; the numbers are
   equal and the thread ids distinct, so the streams are exactly the subscribers'), and that the read
   options the oracle takes from the program are those the model's subscriber carries. *)
Theorem C03_judge_sound_value_subscribers : forall c, c03_value_guard c = true -> agrees c = true -> C03_ok c = true.
Proof. exact agrees_implies_C03_ok_value. Qed.
Print Assumptions C03_judge_sound_value_subscribers.

(* hence verdict 2 ("agrees with the model but the oracle fails") cannot occur on such a case *)
Corollary C03_judge_never_verdict_2_value_subscribers : forall c, c03_value_guard c = true -> judge03 c <> 2.
Proof. exact judge03_never_2_value. Qed.
Print Assumptions C03_judge_never_verdict_2_value_subscribers.

(* non-vacuity: two overlapping Sets and a Value.Pull, publications in commit order: guard, agrees (and so
   C03_ok) hold; the guard does not exclude the violation either: the reordered observation passes the
   guard, disagrees with the model and is judged 3 *)
Definition inorder_case :=
  CaseSched None None [] two_sets [2; 0; 0; 1; 1; 0; 1]%nat
            [mkFO (Some (mkF 1 0 0)) 0; mkFO (Some (mkF 2 0 0)) 0; mkFO None 0] (Some (mkF 2 0 0)) []
            [(2%nat, [mkOV (mkF 1 0 0) 1010 false false; mkOV (mkF 2 0 0) 1020 false false])] [] [].
Example C03_nonvacuous_judge_sound_value_subscribers :
  c03_value_guard inorder_case = true /\ agrees inorder_case = true /\ C03_ok inorder_case = true /\
  c03_value_guard reordered_case = true /\ agrees reordered_case = false /\ judge03 reordered_case = 3.
Proof. vm_compute. repeat split; reflexivity. Qed.

(* ---------- soundness of the oracle for a PullID stream, per subscriber (Conc/C03JudgeSoundPid.v) ---------- *)
(* for every program over the flat algebra (no generating call), every schedule, every seeded Collection
   subscriber u of the model's run without include predicate (any read mask) and every id: a ValueChange
   stream and a closed flag that match the model's `pull_id_from id` of u's collection stream (the clause of
   `agrees` for a PullID thread), and a final List that matches the model's, satisfy the oracle's clause
   pid_ok -- C03_pull_id_converges carried through the judge's definitions (List with the mask = List
   without, masked afterwards: vlookup_c_list_mask) *)
Theorem C03_judge_pull_id_stream_oracle_sound : forall (i : option idf) (prog : list fcall) (sched : list nat) vinit cinit
        (u : csub fmsg (list fld)) (ro : fro) id vs b obs cl fc,
  (forall t c, nth_error (map to_call prog) t = Some c -> call_ok (idfun_of i) c) ->
  sorted str_ltb (c_items (init_c cinit)) ->
  let s := f_run false i prog sched vinit cinit in
  all_done s = true -> In u (st_csubs s) -> cs_ro u = to_ropts ro ->
  r_updates_only ro = false -> r_include ro = None ->
  pull_id_from id (cstream_of u) = (vs, b) ->
  list_match vc_matches vs obs = true -> Bool.eqb b cl = true ->
  list_eqb kv_eqb (final_list (w_c (st_w s))) fc = true ->
  pid_ok id ro obs cl fc = true.
Proof. exact judge_pull_id_oracle_sound. Qed.
Print Assumptions C03_judge_pull_id_stream_oracle_sound.

(* the hypotheses are satisfiable with an open stream: Update a and a masked PullID of a opened first: the
   model's stream is the seed and the update, not closed; the matching observation passes pid_ok *)
Definition upd_pid : list fcall := [FUpdate "a" (mkF 7 0 0) plain_wo; FSubID "a" (mkFRO (Some [Fa]) false None)].
Example C03_nonvacuous_judge_pull_id_oracle :
  let s := f_run false None upd_pid [1; 1; 0; 0; 0]%nat None ab_items in
  let obs := [mkOV (mkF 1 0 0) 300 true false; mkOV (mkF 7 0 0) 1000 false false] in
  all_done s = true /\ st_stutter s = 0%nat /\
  map (fun u => (let '(vs, b) := pull_id_from "a" (cstream_of u) in (list_match vc_matches vs obs, b),
                 ro_updates_only (cs_ro u))) (st_csubs s) = [((true, false), false)] /\
  pid_ok "a" (mkFRO (Some [Fa]) false None) obs false (final_list (w_c (st_w s))) = true.
Proof. vm_compute. repeat split; reflexivity. Qed.

(* ---------- soundness of the oracle for a Collection.Pull stream, per subscriber (Conc/C03JudgeSoundColl.v) ---------- *)
(* for every program over the flat algebra (no generating call), every schedule, every seeded Collection.Pull
   subscriber u of the model's run without include predicate (any read mask): an observed stream that
   matches the model's stream of u change by change (then it IS the model's stream: to_cc_of_match) and an
   observed final List that matches the model's satisfy the oracle's clause cview_ok: the fold of the observed
   changes and the observed List, masked, are the same map (both have distinct keys: the view by
   C03_view_is_list_as_of_last_delivered's invariant, List because the contents stay sorted) --
   C03_collection_converges carried through the judge's definitions *)
Theorem C03_judge_collection_stream_oracle_sound : forall (i : option idf) (prog : list fcall) (sched : list nat) vinit cinit
        (u : csub fmsg (list fld)) (ro : fro) obs fc,
  (forall t c, nth_error (map to_call prog) t = Some c -> call_ok (idfun_of i) c) ->
  sorted str_ltb (c_items (init_c cinit)) ->
  let s := f_run false i prog sched vinit cinit in
  all_done s = true -> In u (st_csubs s) -> cs_ro u = to_ropts ro ->
  r_updates_only ro = false -> r_include ro = None ->
  list_match cc_matches (cstream_of u) obs = true ->
  list_eqb kv_eqb (final_list (w_c (st_w s))) fc = true ->
  cview_ok ro obs fc = true.
Proof. exact judge_collection_oracle_sound. Qed.
Print Assumptions C03_judge_collection_stream_oracle_sound.

(* the hypotheses are satisfiable by a non-trivial stream: two seeds through the mask [a], then the UPDATE *)
Example C03_nonvacuous_judge_collection_oracle :
  let ro := mkFRO (Some [Fa]) false None in
  let s := f_run false None [FUpdate "a" (mkF 7 0 0) plain_wo; FSubC ro] [1; 0; 0; 0]%nat None
                 [("a"%string, mkF 1 5 0, 300); ("b"%string, mkF 2 2 0, 310)] in
  let obs := [mkOC "a" 300 1 None (Some (mkF 1 0 0)) true false; mkOC "b" 310 1 None (Some (mkF 2 0 0)) true true;
              mkOC "a" 1000 2 (Some (mkF 1 0 0)) (Some (mkF 7 0 0)) false false] in
  all_done s = true /\ st_stutter s = 0%nat /\
  map (fun u => (list_match cc_matches (cstream_of u) obs, ro_updates_only (cs_ro u))) (st_csubs s) = [(true, false)] /\
  final_list (w_c (st_w s)) = [("a"%string, mkF 7 0 0); ("b"%string, mkF 2 2 0)] /\
  cview_ok ro obs (final_list (w_c (st_w s))) = true.
Proof. vm_compute. repeat split; reflexivity. Qed.

(* ... and the updates-only clause of cview_ok (no seed: the fold of the observed changes is right at every id
   the stream mentions): every id of the stream is the id of a delivered event (no include predicate), so
   C03_collection_updates_only_converges applies at it *)
Theorem C03_judge_collection_updates_only_stream_oracle_sound : forall (i : option idf) (prog : list fcall) (sched : list nat)
        vinit cinit (u : csub fmsg (list fld)) (ro : fro) obs fc,
  (forall t c, nth_error (map to_call prog) t = Some c -> call_ok (idfun_of i) c) ->
  sorted str_ltb (c_items (init_c cinit)) ->
  let s := f_run false i prog sched vinit cinit in
  all_done s = true -> In u (st_csubs s) -> cs_ro u = to_ropts ro ->
  r_updates_only ro = true -> r_include ro = None ->
  list_match cc_matches (cstream_of u) obs = true ->
  list_eqb kv_eqb (final_list (w_c (st_w s))) fc = true ->
  cview_ok ro obs fc = true.
Proof. exact judge_collection_uo_oracle_sound. Qed.
Print Assumptions C03_judge_collection_updates_only_stream_oracle_sound.

Example C03_nonvacuous_judge_collection_updates_only_oracle :
  let ro := mkFRO (Some [Fa]) true None in
  let s := f_run false None [FUpdate "a" (mkF 7 0 0) plain_wo; FSubC ro] [1; 0; 0; 0]%nat None
                 [("a"%string, mkF 1 5 0, 300); ("b"%string, mkF 2 2 0, 310)] in
  let obs := [mkOC "a" 1000 2 (Some (mkF 1 0 0)) (Some (mkF 7 0 0)) false false] in
  all_done s = true /\ st_stutter s = 0%nat /\
  map (fun u => (list_match cc_matches (cstream_of u) obs, ro_updates_only (cs_ro u))) (st_csubs s) = [(true, true)] /\
  cview_ok ro obs (final_list (w_c (st_w s))) = true.
Proof. vm_compute. repeat split; reflexivity. Qed.

