(* C03 — A subscriber's folded view converges to the store's state.  Theorems only.

   Model: Conc/Lts.v extended with subscribers: Pull = snapshot + Listen as ONE step (both happen
   under the read lock); a publication delivers to the subscribers present when it starts; the
   subscribers are backpressured and keep receiving, so a subscriber's stream is
   Pull.pull_value / Pull.pull_collection applied to its snapshot and the events delivered since.
   Set and Update publish in a step of their own AFTER the lock is released (their thread is
   "pending" in between); Delete publishes inside the step that removes the item.
   The ghost st_overlap records whether some commit (save or delete) happened while another
   thread's publication on the same resource was pending.

   Proved for every message algebra, program and schedule: WITHOUT such an overlap the view
   converges (so: one writer at a time with subscriptions opened anywhere, and any number of
   concurrent Deletes).  Refuted with two overlapping writers (C03_multi_writer_refuted): that is
   known finding C03/1 — publication is not ordered with commits. *)
From SC Require Import Base.Prelude Resource.Impl Resource.Spec Resource.Pull Resource.ImplProofs Resource.PullProofs
  Resource.Flat Resource.FlatProofs Resource.Judge Excess.Change Excess.MergeExcess
  Conc.Lts Conc.LtsProofs Conc.SubProofs Conc.FlatInst Conc.Judge Conc.Lossy.

Section C03.
  Variable M : Type.
  Variable m_eqb : M -> M -> bool.
  Variable m_empty : M.
  Variable writer : Type.
  Variable w_validate : writer -> option Z.
  Variable w_merge : writer -> M -> M -> M.
  Variable rmask : Type.
  Variable r_filter : rmask -> M -> M.
  Variable clock_at : Z -> Z.
  Variable str_ltb : string -> string -> bool.
  Variable idfun : option (string -> string).
  Hypothesis m_eqb_eq : forall a b, m_eqb a b = true -> a = b.
  Hypothesis ltb_irrefl : forall a, str_ltb a a = false.
  Hypothesis ltb_trans : forall a b c, str_ltb a b = true -> str_ltb b c = true -> str_ltb a c = true.
  Hypothesis ltb_total : forall a b, str_ltb a b = false -> str_ltb b a = false -> a = b.

  Variable prog : list (call M writer rmask).
  Hypothesis prog_ok : forall t c, nth_error prog t = Some c -> call_ok idfun c.
  Variable v0 : vstate M.
  Variable c0 : cstate M.
  Hypothesis c0_sorted : sorted str_ltb (c_items c0).

  Notation run := (run m_eqb m_empty w_validate w_merge clock_at str_ltb idfun false prog).
  Notation s0 := (s0 prog v0 c0).
  Notation cview := (cview r_filter).
  Notation vstream := (vstream r_filter).

  (* Collection.Pull, seeded, with any read mask and any include predicate, subscription opened at
     any schedule position: once every call has returned, the folded view is List with the same
     mask and predicate — nothing missed, nothing duplicated into a wrong state *)
  Theorem C03_collection_converges_without_overlap : forall sched u,
    let s := run sched s0 in
    st_overlap s = false -> all_done s = true -> In u (st_csubs s) -> plain_sub u ->
    forall id, vlookup id (cview u) =
               vlookup id (c_list r_filter (w_c (st_w s)) (ro_mask (cs_ro u)) (ro_include (cs_ro u))).
  Proof. apply converges_collection; assumption. Qed.

  (* Collection.Pull with updates-only (no seed, any read mask, no include predicate): the folded
     view agrees with List at every id that any delivered event mentioned *)
  Theorem C03_collection_updates_only_converges_without_overlap : forall sched u,
    let s := run sched s0 in
    st_overlap s = false -> all_done s = true -> In u (st_csubs s) -> uo_sub u ->
    forall id, touched u id ->
               vlookup id (cview u) = vlookup id (c_list r_filter (w_c (st_w s)) (ro_mask (cs_ro u)) None).
  Proof. apply converges_collection_updates_only; assumption. Qed.

  (* Collection.PullID (seeded; its inner Pull is opened by a goroutine of its own, i.e. at any later
     schedule position): unless the subscription has ended — which happens exactly when a change
     removes the item (Props/C04.v: C04_pull_id_closed_iff_removed) — the last value delivered is
     the item's value in List, and nothing is delivered for an item that is absent *)
  Theorem C03_pull_id_converges_without_overlap : forall sched u id vs,
    let s := run sched s0 in
    st_overlap s = false -> all_done s = true -> In u (st_csubs s) -> plain_sub u ->
    pull_id_from id (cstream r_filter u) = (vs, false) ->
    last_value vs = vlookup id (c_list r_filter (w_c (st_w s)) (ro_mask (cs_ro u)) (ro_include (cs_ro u))).
  Proof. apply converges_pull_id; assumption. Qed.

  (* Value.Pull with any read mask and updates-only setting: the last event delivered is the final
     value (for updates-only: provided anything was delivered) *)
  Theorem C03_value_converges_without_overlap : forall sched u,
    let s := run sched s0 in
    st_overlap s = false -> all_done s = true -> In u (st_vsubs s) ->
    (ro_updates_only (vs_ro u) = false \/ vs_evs u <> []) ->
    last_value (vstream u) = option_map (filt r_filter (vs_ro u)) (v_val (w_v (st_w s))).
  Proof. apply converges_value; assumption. Qed.

  (* ONE writer at a time (a single writer issuing its calls one after the other; every other
     writing thread has not started or has returned whenever a thread steps), subscribers stepping
     anywhere: commits never overlap, for every schedule.
     _partial: together with the two theorems above this is the single-writer clause of C03; not
     covered by the theorems (covered by the correspondence oracle only): Collection subscribers
     with updates-only or include, PullID, a configured equivalence. *)
  Theorem C03_single_writer_converges_partial : forall sched,
    one_writer_at_a_time m_eqb m_empty w_validate w_merge clock_at str_ltb idfun prog v0 c0 sched ->
    st_overlap (run sched s0) = false.
  Proof. apply one_writer_no_overlap; assumption. Qed.

  (* any number of concurrent Deletes converge: they publish under the lock *)
  Theorem C03_concurrent_deletes_converge : forall sched,
    only_deletes_write prog -> st_overlap (run sched s0) = false.
  Proof. apply deletes_no_overlap; assumption. Qed.
End C03.

Print Assumptions C03_collection_converges_without_overlap.
Print Assumptions C03_value_converges_without_overlap.
Print Assumptions C03_pull_id_converges_without_overlap.
Print Assumptions C03_collection_updates_only_converges_without_overlap.
Print Assumptions C03_single_writer_converges_partial.
Print Assumptions C03_concurrent_deletes_converge.

(* ---------- two overlapping writers: refuted on the faithful model ---------- *)
Definition plain_wo := mkFWO None None None None false None false None false None None false false false false.
Definition two_sets : list fcall :=
  [FSet (mkF 1 0 0) plain_wo; FSet (mkF 2 0 0) plain_wo; FSubV (mkFRO None false None)].

(* [sub; W0.read; W0.save; W1.read; W1.save; W1.publish; W0.publish]: the subscriber's last event
   is W0's value while Get returns W1's; the view stays stale for ever *)
Theorem C03_multi_writer_refuted :
  let s := f_run false None two_sets [2; 0; 0; 1; 1; 1; 0]%nat None [] in
  all_done s = true /\ st_overlap s = true /\ st_reordered s = true /\
  v_val (w_v (st_w s)) = Some (mkF 2 0 0) /\
  map (fun u => last_value (vstream fr_filter u)) (st_vsubs s) = [Some (mkF 1 0 0)] /\
  C03_ok (CaseSched None None [] two_sets [2; 0; 0; 1; 1; 1; 0]%nat
            [mkFO (Some (mkF 1 0 0)) 0; mkFO (Some (mkF 2 0 0)) 0; mkFO None 0] (Some (mkF 2 0 0)) []
            [(2%nat, [mkOV (mkF 2 0 0) 1020 false false; mkOV (mkF 1 0 0) 1010 false false])] [] []) = false.
Proof. vm_compute. repeat split; reflexivity. Qed.
Print Assumptions C03_multi_writer_refuted.

(* the same for a collection: an Update saved, a Delete committing and publishing before the
   Update's publication: the view shows the item, List does not *)
Definition upd_del : list fcall :=
  [FUpdate "a" (mkF 7 0 0) plain_wo; FDelete "a" plain_wo; FSubC (mkFRO None false None)].
Theorem C03_update_delete_refuted :
  let s := f_run false None upd_del [2; 0; 0; 1; 1; 0]%nat None [("a"%string, mkF 1 0 0, 300)] in
  all_done s = true /\ st_overlap s = true /\
  final_list (w_c (st_w s)) = [] /\
  map (fun u => cview fr_filter u) (st_csubs s) = [[("a"%string, mkF 7 0 0)]].
Proof. vm_compute. repeat split; reflexivity. Qed.
Print Assumptions C03_update_delete_refuted.

(* ---------- the pinned commit: a subscription receives again what its seed already shows ---------- *)
Definition add_del : list fcall := [FAdd "a" (mkF 10 0 0) plain_wo; FDelete "a" plain_wo; FSubC (mkFRO None false None)].

(* ONE writer at a time (Add returns before Delete starts; st_overlap = false), the Pull opened
   between Add's save and its publication.  Pinned commit (v0): the bus delivers [ADD a; REMOVE a]
   after a seed that already contains a.  With backpressure that is harmless (the fold ends
   without a); WITHOUT backpressure and a reader that is behind, mergeCollectionExcess (C09's
   model) merges the repeated ADD and the REMOVE into nothing: the subscriber receives the seed
   only and keeps a for ever while List is empty. *)
Theorem C03_lossy_duplicate_add_v0_refuted :
  let s := f_run true None add_del [0; 0; 2; 0; 1; 1]%nat None [] in
  all_done s = true /\ st_overlap s = false /\ final_list (w_c (st_w s)) = [] /\
  map (fun u => map (fun e => (ce_id e, kind_code (ce_kind e))) (cs_evs u)) (st_csubs s) = [[("a"%string, 1); ("a"%string, 3)]] /\
  map (fun u => cview fr_filter u) (st_csubs s) = [[]] /\
  map (fun u => List.length (lossy_stalled_stream u)) (st_csubs s) = [1%nat] /\
  map (fun u => lossy_view u (id_tok "a")) (st_csubs s) = [Some 10].
Proof. vm_compute. repeat split; reflexivity. Qed.
Print Assumptions C03_lossy_duplicate_add_v0_refuted.

(* the repaired code numbers the commits and drops the changes the snapshot already shows, before
   the merger: the bus delivers [REMOVE a] only and the lossy view converges as well *)
Example C03_lossy_duplicate_add_fixed :
  let s := f_run false None add_del [0; 0; 2; 0; 1; 1]%nat None [] in
  all_done s = true /\ final_list (w_c (st_w s)) = [] /\
  map (fun u => map (fun e => (ce_id e, kind_code (ce_kind e))) (cs_evs u)) (st_csubs s) = [[("a"%string, 3)]] /\
  map (fun u => cview fr_filter u) (st_csubs s) = [[]] /\
  map (fun u => lossy_view u (id_tok "a")) (st_csubs s) = [None].
Proof. vm_compute. repeat split; reflexivity. Qed.

(* ---------- non-vacuity ---------- *)
(* one writer, subscription opened between its save and its publication: the seed already shows
   the new value, the publication is not delivered a second time, nothing overlaps *)
Example C03_nonvacuous_single_writer :
  let s := f_run false None [FUpdate "a" (mkF 7 0 0) plain_wo; FSubC (mkFRO (Some [Fa]) false None)]
                 [0; 0; 1; 0]%nat None [("a"%string, mkF 1 5 0, 300)] in
  all_done s = true /\ st_overlap s = false /\
  map (fun u => List.length (cstream fr_filter u)) (st_csubs s) = [1%nat] /\
  map (fun u => cview fr_filter u) (st_csubs s) = [[("a"%string, mkF 7 0 0)]] /\
  c_list fr_filter (w_c (st_w s)) (Some [Fa]) None = [("a"%string, mkF 7 0 0)].
Proof. vm_compute. repeat split; reflexivity. Qed.

(* a writer and a subscriber satisfy the one-writer-at-a-time hypothesis under every schedule *)
Example C03_nonvacuous_hypothesis : forall sched,
  one_writer_at_a_time fmsg_eqb fzero fw_validate fw_merge fclock str_ltb None
    (map to_call [FSet (mkF 1 0 0) plain_wo; FSubV (mkFRO None false None)]) (init_v None) (init_c []) sched.
Proof.
  intros sched k t c N P W t' c' p' Hne P' W' Q.
  assert (Ht : t = 0%nat).
  { destruct t as [|[|t]]; [reflexivity| |]; simpl in P.
    - inversion P. subst c. discriminate W.
    - destruct t; discriminate P. }
  assert (Ht' : t' = 0%nat).
  { destruct t' as [|[|t']]; [reflexivity| |]; simpl in P'.
    - inversion P'. subst c'. discriminate W'.
    - destruct t'; discriminate P'. }
  congruence.
Qed.
