(* C17 — Group execution honours each strategy's contract (first cut; extended below). *)
From SC Require Import Base.Prelude Group.Exec Group.C17Judge.

Theorem C17_never_panics_v0_refuted :
  x_ret (exec_v0 (AExecute 4) [] []) = RPanic /\ x_ret (exec_v0 (AExecute 5) [] []) = RPanic /\
  x_ret (exec_v0 (AExecute 6) [] []) = RPanic.
Proof. vm_compute. auto. Qed.
Print Assumptions C17_never_panics_v0_refuted.
