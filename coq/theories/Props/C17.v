(* C17 — Group execution honours each strategy's contract.
   Theorems only; proofs live in Group/*Proofs.v.

   Vocabulary (Group/Exec.v, Group/C17Judge.v, Group/ContractProofs.v):
     ms            the members: outcome (Ok | Fail | FailMsg) and whether the member watches its context
     order         the completion order, a permutation of the member indices (is_perm)
     exec a ms order   the step-by-step model of exec.go for the API entered (AExecute strategy |
                   AUpTo budget | AOne | AFast | ARace): what is returned, who was invoked, at which
                   step the context was cancelled, at which step the call returned, what each
                   cancellation-aware member saw, goroutines left behind
     contract      the closed-form contract the judge evaluates on observations (never runs exec)
     failed / succeeded ms i, nfails ms l (number of failing members among l), first_in f order i
                   (i is the first element of order with f), zi i = i+1 (member i's error / message),
                   plain_results (every member's message at its own index), single_at (one message
                   at its index), all_plain ms (no member watches its context). *)
From Coq Require Import QArith.
From SC Require Import Base.Prelude Group.Exec Group.C17Judge Group.ExecLemmas Group.ExecProofs
  Group.ExecAwareProofs Group.ContractProofs
  Group.ExecPc Group.C17PJudge Group.ExecPcProofs Group.ExecPcClosed Group.ExecPcOneProofs Group.ExecShape
  Group.TraitGroup Group.TraitGroupJudge Group.TraitGroupProofs Group.TraitGroupPullProofs
  Group.TraitGroupPullReduce Group.TraitGroupPullJudge Group.TraitGroupPullRet Group.TraitGroupPullFail
  Group.TraitGroupPullRace.
(* imported last: its pstate / pstep (the process model of executeEach) are the ones meant by the unqualified
   names below; the Pull model's are written TraitGroup.pstate / TraitGroup.pstep *)
From SC Require Import Group.ExecProc Group.ExecProcProofs.
Open Scope Z_scope.

(* The model equals the contract for EVERY API, member count, outcome vector, awareness (members that
   ignore their context and members that return a context error as soon as it is cancelled, in any
   mix) and completion order. *)
Theorem C17_model_meets_contract : forall a ms order,
  is_perm order (List.length ms) -> exec a ms order = contract a ms order.
Proof. exact exec_meets_contract_full. Qed.
Print Assumptions C17_model_meets_contract.

(* ExecuteUpTo (hence All / Most / Any) with cancellation-aware members, spelled out.
   The outcome is decided by the members' OWN outcomes: the call fails exactly when more than
   max(k,0) members fail by themselves, and the error returned is the first failure observed in
   completion order — never a context error, because the context is only cancelled after that
   failure.  decision_step c: c is the first step at which the failures so far exceed the budget.
   At step c the context is cancelled; every aware member that had not finished by then (position
   >= c in the order) sees ctx.Done at step c and returns its context error: its result slot is nil,
   it counts as one more failure but changes neither the outcome nor the returned error.  Every other
   member's message is at its own index — those that finished before c and the context-ignoring
   ones that finish after c.  Without a decision step nothing is cancelled before the return. *)
Theorem C17_upto_contract_aware : forall k ms order, is_perm order (List.length ms) ->
  let x := exec (AUpTo k) ms order in
  let n := List.length ms in
  exists res err,
    x_ret x = RSlice res err /\ List.length res = n /\
    (err <> 0 <-> Z.max k 0 < nfails ms (members ms)) /\
    (err <> 0 -> exists i, first_in (failed ms) order i /\ err = zi i) /\
    x_calls x = all_calls ms /\ x_leak x = 0 /\
    (forall c, decision_step k ms order c ->
       x_cancel x = Z.of_nat c /\
       forall j, (j < n)%nat ->
         if aware_at ms j && (c <=? pos j order)%nat
         then nth j res 0 = 0 /\ nth j (x_saw x) 0 = Z.of_nat c
         else nth j res 0 = msg_of j (out_at ms j) /\ nth j (x_saw x) 0 = -1) /\
    ((forall c, (1 <= c <= n)%nat -> ~ Z.max k 0 < nfails ms (firstn c order)) ->
       res = plain_results ms /\ (ms <> [] -> x_cancel x = Z.of_nat n) /\ x_retstep x = Z.of_nat n /\
       forall j, (j < n)%nat -> nth j (x_saw x) 0 = -1).
Proof. exact upto_props_aware. Qed.
Print Assumptions C17_upto_contract_aware.

(* ExecuteUpTo with members that ignore their context, any budget k: results at the members' own indices; fails exactly when more than
   max(k,0) members fail; the error is that of the first failing member in completion order; does not
   return before every member has (step n); every member is invoked; the context is cancelled at the
   first step at which the failures so far exceed the budget — i.e. as soon as the outcome is
   decided — and otherwise only when the call returns. *)
Theorem C17_upto_contract : forall k ms order, all_plain ms -> is_perm order (List.length ms) ->
  let x := exec (AUpTo k) ms order in
  exists err,
    x_ret x = RSlice (plain_results ms) err /\
    (err <> 0 <-> Z.max k 0 < nfails ms (members ms)) /\
    (err <> 0 -> exists i, first_in (failed ms) order i /\ err = zi i) /\
    x_retstep x = Z.of_nat (List.length ms) /\ x_calls x = all_calls ms /\ x_leak x = 0 /\
    (ms <> [] ->
     (exists c, decision_step k ms order c /\ x_cancel x = Z.of_nat c) \/
     ((forall c, (1 <= c <= List.length ms)%nat -> ~ Z.max k 0 < nfails ms (firstn c order)) /\
      x_cancel x = Z.of_nat (List.length ms))).
Proof. exact upto_props. Qed.
Print Assumptions C17_upto_contract.

(* All (also Unspecified and every unknown strategy number) fails exactly when some member fails *)
Theorem C17_all_fails_iff_some_member_fails : forall s ms order,
  all_plain ms -> is_perm order (List.length ms) -> (s <> 2 /\ s <> 3 /\ s <> 4 /\ s <> 5 /\ s <> 6) ->
  exists err, x_ret (exec (AExecute s) ms order) = RSlice (plain_results ms) err /\
    (err <> 0 <-> exists i, (i < List.length ms)%nat /\ failed ms i = true).
Proof. exact all_fails_iff. Qed.
Print Assumptions C17_all_fails_iff_some_member_fails.

(* Most fails exactly when more than half fail *)
Theorem C17_most_fails_iff_more_than_half_fail : forall ms order,
  all_plain ms -> is_perm order (List.length ms) ->
  exists err, x_ret (exec (AExecute 2) ms order) = RSlice (plain_results ms) err /\
    (err <> 0 <-> Z.of_nat (List.length ms) < 2 * nfails ms (members ms)).
Proof. exact most_fails_iff. Qed.
Print Assumptions C17_most_fails_iff_more_than_half_fail.

(* Any fails exactly when all (of at least one) fail *)
Theorem C17_any_fails_iff_all_fail : forall ms order,
  all_plain ms -> is_perm order (List.length ms) ->
  exists err, x_ret (exec (AExecute 3) ms order) = RSlice (plain_results ms) err /\
    (err <> 0 <-> (ms <> [] /\ forall i, (i < List.length ms)%nat -> failed ms i = true)).
Proof. exact any_fails_iff. Qed.
Print Assumptions C17_any_fails_iff_all_fail.

(* One: members are called in index order up to the first success; its result and index are
   returned; if all fail every member was called and the first error recorded (member 0's) is
   returned; no context is cancelled *)
Theorem C17_one_contract : forall ms order, is_perm order (List.length ms) ->
  let x := exec AOne ms order in
  (forall k, first_in (succeeded ms) (members ms) k ->
     x_ret x = RSingle (zi k) (Z.of_nat k) 0 /\ x_calls x = map Z.of_nat (seq 0 (S k))) /\
  ((forall i, (i < List.length ms)%nat -> succeeded ms i = false) ->
     x_calls x = all_calls ms /\ x_ret x = RSingle 0 0 (match ms with [] => 0 | _ => zi 0 end)) /\
  x_cancel x = -1 /\ x_leak x = 0.
Proof. exact one_props. Qed.
Print Assumptions C17_one_contract.

(* Fast: the first success in completion order is returned at the step it happens, the context is
   cancelled at that step and every cancellation-aware member still running sees it; if all fail the
   first error observed is returned after the last member; nothing is left running *)
Theorem C17_fast_contract : forall ms order, is_perm order (List.length ms) ->
  let x := exec AFast ms order in
  (forall i, first_in (succeeded ms) order i ->
     x_ret x = RSingle (zi i) (Z.of_nat i) 0 /\
     x_retstep x = Z.of_nat (S (pos i order)) /\ x_cancel x = Z.of_nat (S (pos i order)) /\
     (forall j, (j < List.length ms)%nat -> aware_at ms j = true -> (pos i order < pos j order)%nat ->
                nth j (x_saw x) 0 = Z.of_nat (S (pos i order)))) /\
  ((forall i, (i < List.length ms)%nat -> succeeded ms i = false) ->
     x_retstep x = Z.of_nat (List.length ms) /\
     match order with
     | [] => x_ret x = RSingle 0 0 no_members_err
     | i :: _ => x_ret x = RSingle 0 (Z.of_nat i) (zi i)
     end) /\
  x_leak x = 0 /\ x_calls x = all_calls ms.
Proof. exact fast_props. Qed.
Print Assumptions C17_fast_contract.

Theorem C17_fast_errs_iff_every_member_fails : forall ms order, is_perm order (List.length ms) ->
  forall msg idx err, x_ret (exec AFast ms order) = RSingle msg idx err ->
  (err <> 0 <-> forall i, (i < List.length ms)%nat -> succeeded ms i = false).
Proof. exact fast_errs_iff. Qed.
Print Assumptions C17_fast_errs_iff_every_member_fails.

(* Race: the first response, success or not, at step 1; the others are cancelled at step 1 *)
Theorem C17_race_contract : forall ms i q, is_perm (i :: q) (List.length ms) ->
  let x := exec ARace ms (i :: q) in
  x_ret x = RSingle (msg_of i (out_at ms i)) (Z.of_nat i) (err_of i (out_at ms i)) /\
  x_retstep x = 1 /\ x_cancel x = 1 /\
  (forall j, (j < List.length ms)%nat -> aware_at ms j = true -> j <> i -> nth j (x_saw x) 0 = 1) /\
  x_leak x = 0 /\ x_calls x = all_calls ms.
Proof. exact race_props. Qed.
Print Assumptions C17_race_contract.

(* Execute(One|Fast|Race): the single result sits at the member's own index of a slice as long as
   the group (an empty slice for an empty group) *)
Theorem C17_execute_places_single_result : forall s ms order, is_perm order (List.length ms) ->
  (s = 4 \/ s = 5 \/ s = 6) ->
  let a := if s =? 4 then AOne else if s =? 5 then AFast else ARace in
  exists msg idx err, x_ret (exec a ms order) = RSingle msg idx err /\
    x_ret (exec (AExecute s) ms order) = RSlice (single_at ms idx msg) err.
Proof. exact execute_single_placement. Qed.
Print Assumptions C17_execute_places_single_result.

(* never panics: any API, any members (aware or not), any release sequence whatever *)
Theorem C17_never_panics : forall a ms order, x_ret (exec a ms order) <> RPanic.
Proof. exact exec_never_panics. Qed.
Print Assumptions C17_never_panics.

(* every goroutine executeEach starts ends once the members have returned, on every schedule:
   the channel has room for every member (cap = n, the code after the fix), whatever the caller's
   early-return rule; also for any capacity when the caller never leaves its loop (ExecuteUpTo) *)
Theorem C17_goroutines_end : forall cap stop n s,
  (n <= cap \/ forall l, stop l = false)%nat ->
  reachable cap stop n s -> members_returned s -> inevitably cap stop ended s.
Proof. exact goroutines_end. Qed.
Print Assumptions C17_goroutines_end.

(* in the process model the caller receives each member's response at most once, and only from
   members that have finished: the sequences of received responses are duplicate-free lists of
   member indices, which is what the decision theorems above quantify over *)
Theorem C17_received_once : forall cap stop n s, reachable cap stop n s ->
  NoDup (p_recvd s) /\ forall i, In i (p_recvd s) -> (i < n)%nat /\ nth_error (p_ms s) i = Some MDone.
Proof. exact received_once. Qed.
Print Assumptions C17_received_once.

(* the step discipline of the harness (one member returns at a time, and only when no other step is
   enabled) makes the order of receipt equal the order of release: what the caller has received is a
   prefix of the release order, and whenever the process is quiescent again with the caller still in
   its loop it has received exactly the members released so far, in that order *)
Theorem C17_release_order_is_receive_order : forall cap stop n l s, hrun cap stop n l s ->
  (exists rest, l = p_recvd s ++ rest) /\
  (quiescent cap stop s -> p_listening s = true -> p_recvd s = l).
Proof. exact release_order_is_receive_order. Qed.
Print Assumptions C17_release_order_is_receive_order.

(* the model satisfies the property predicate on every guarded input, and so does every
   observation that agrees with the model *)
Theorem C17_model_ok : forall a ms order,
  perm_b order (List.length ms) = true -> C17_ok (KRun a ms order (exec a ms order)) = true.
Proof. exact model_ok. Qed.
Print Assumptions C17_model_ok.

Theorem C17_judge_sound : forall a ms order obs,
  C17_guard (KRun a ms order obs) = true ->
  agrees (KRun a ms order obs) = true -> C17_ok (KRun a ms order obs) = true.
Proof. exact judge_sound. Qed.
Print Assumptions C17_judge_sound.

(* ---- the code before the two fix commits ---- *)
(* Execute(One|Fast|Race, no members) indexed an empty slice *)
Theorem C17_never_panics_v0_refuted :
  x_ret (exec_v0 (AExecute 4) [] []) = RPanic /\ x_ret (exec_v0 (AExecute 5) [] []) = RPanic /\
  x_ret (exec_v0 (AExecute 6) [] []) = RPanic.
Proof. exact exec_v0_panics_on_empty. Qed.

(* unbuffered channel: ExecuteFast with three successes leaves two senders and the closer behind,
   ExecuteRace with two members one sender and the closer *)
Theorem C17_goroutines_end_v0_refuted :
  (exists s, reachable 0 race_stop 2 s /\ members_returned s /\ ~ ended s /\
             (forall s', ~ pstep 0 race_stop s s') /\ ~ inevitably 0 race_stop ended s) /\
  x_leak (exec_v0 AFast [mkM Ok false; mkM Ok false; mkM Ok false] [0; 1; 2]%nat) = 3 /\
  x_leak (exec_v0 ARace [mkM Fail false; mkM Ok false] [0; 1]%nat) = 2.
Proof. split; [exact goroutines_end_v0_refuted|exact exec_v0_leaks]. Qed.

(* ---- non-vacuity ---- *)
Example C17_nonvacuous_most :
  let ms := [mkM Fail false; mkM Ok false; mkM FailMsg false; mkM Fail false; mkM Ok false] in
  let order := [4; 2; 0; 3; 1]%nat in
  all_plain ms /\ is_perm order (List.length ms) /\
  exec (AExecute 2) ms order = mkRes (RSlice [0; 2; -3; 0; 5] 3) [0; 1; 2; 3; 4] 4 5 [-1; -1; -1; -1; -1] 0 /\
  decision_step 2 ms order 4.
Proof.
  cbv zeta. split; [|split; [|split]].
  - apply plain_b_sound. reflexivity.
  - apply perm_b_sound. reflexivity.
  - reflexivity.
  - split; [simpl; lia|]. split; [reflexivity|].
    intros [|[|[|[|c']]]] Hc; try lia; vm_compute; discriminate.
Qed.

Example C17_nonvacuous_fast_aware :
  let ms := [mkM Fail true; mkM Ok true; mkM Ok false; mkM Fail true] in
  is_perm [0; 2; 3; 1]%nat (List.length ms) /\ first_in (succeeded ms) [0; 2; 3; 1]%nat 2%nat /\
  exec (AExecute 5) ms [0; 2; 3; 1]%nat = mkRes (RSlice [0; 0; 3; 0] 0) [0; 1; 2; 3] 2 2 [-1; 2; -1; 2] 0.
Proof.
  cbv zeta. split; [apply perm_b_sound; reflexivity|]. split; [|reflexivity].
  exists [0%nat], [3; 1]%nat. split; [reflexivity|]. split; [|reflexivity].
  intros j [<-|[]]. reflexivity.
Qed.

Example C17_nonvacuous_upto_aware :
  let ms := [mkM Ok true; mkM Fail false; mkM Ok false; mkM Fail true; mkM Ok true] in
  let order := [2; 1; 4; 0; 3]%nat in
  is_perm order (List.length ms) /\ decision_step 0 ms order 2 /\
  exec (AExecute 1) ms order = mkRes (RSlice [0; 0; 3; 0; 0] 2) [0; 1; 2; 3; 4] 2 2 [2; -1; -1; 2; 2] 0.
Proof.
  cbv zeta. split; [apply perm_b_sound; reflexivity|]. split; [|reflexivity].
  split; [simpl; lia|]. split; [reflexivity|].
  intros [|[|c']] Hc; try lia. vm_compute. discriminate.
Qed.

Example C17_nonvacuous_goroutines :
  exists s, reachable 2 race_stop 2 s /\ members_returned s /\ ~ ended s.
Proof.
  exists (mkP [MSend; MSend] [] [] true false). split; [|split].
  - eapply reach_step; [eapply reach_step; [apply reach_init|]|].
    + apply (PRet 2 race_stop (proc_init 2) 0). reflexivity.
    + apply (PRet 2 race_stop (mkP [MSend; MRun] [] [] true false) 1). reflexivity.
  - reflexivity.
  - intros [E _]. discriminate.
Qed.

(* ================= executeEach as processes: the call itself comes back ================= *)

(* not only do the goroutines executeEach starts end: the caller's range loop ends too (early return,
   or channel closed and drained), on every schedule, for every member count, under the same
   hypothesis (room for every member, or a caller that never leaves early) *)
Theorem C17_call_returns : forall cap stop n s,
  (n <= cap \/ forall l, stop l = false)%nat ->
  reachable cap stop n s -> members_returned s -> inevitably cap stop returned s.
Proof. exact call_returns. Qed.
Print Assumptions C17_call_returns.

(* the empty group: every strategy's loop ends and nothing is left, whatever the capacity; the only
   goroutine that can move is the closer (without it nothing ever closes the channel) *)
Theorem C17_empty_group_returns : forall cap stop,
  inevitably cap stop returned (proc_init 0) /\
  forall s', pstep cap stop (proc_init 0) s' -> s' = mkP [] [] [] true true.
Proof. intros. split; [apply empty_group_returns|apply empty_group_only_closer_moves]. Qed.
Print Assumptions C17_empty_group_returns.

(* the closer closes the channel only after every member goroutine has completed its send: no send
   on a closed channel (a panic in Go) on any schedule *)
Theorem C17_never_sends_on_closed_channel : forall cap stop n s i,
  reachable cap stop n s -> p_closed s = true ->
  nth_error (p_ms s) i <> Some MSend /\ nth_error (p_ms s) i <> Some MRun.
Proof. exact never_sends_on_closed_channel. Qed.
Print Assumptions C17_never_sends_on_closed_channel.

(* a caller that never leaves early (ExecuteUpTo, hence All / Most / Any) has received every
   member's response exactly once when its loop has ended: "waits for all" *)
Theorem C17_never_stopping_caller_receives_all : forall cap stop n s,
  (forall l, stop l = false) -> reachable cap stop n s -> p_listening s = false ->
  Permutation.Permutation (p_recvd s) (seq 0 n).
Proof. exact never_stopping_caller_receives_all. Qed.
Print Assumptions C17_never_stopping_caller_receives_all.

(* ================= the parent context cancelled from outside ================= *)
(* Vocabulary (Group/ExecPc.v): an event list (ERel i: member i is allowed to finish; EPar: the
   parent context is cancelled), pre = the parent context was already cancelled when the call was
   made; exec_ev a ms pre evs = the event model; its trace = the responses that reached the
   receiving loop, in order.  trace_wf ms tr: every element of tr is some member's own response or
   the context error of a cancellation-aware member, each member at most once.
   upto_law / fast_law / race_law: the three loops in closed form over a received sequence. *)

(* an event list without a parent cancellation is exactly the model the theorems above are about *)
Theorem C17_event_model_extends_model : forall a ms order c0,
  loop_of a (List.length ms) = Some c0 ->
  exec_ev a ms false (map ERel order) = exec a ms order.
Proof. exact exec_ev_conservative. Qed.
Print Assumptions C17_event_model_extends_model.

(* "the error returned is the first one observed", for ANY members, ANY event list (releases in any
   order, repeated, missing; the parent cancelled at any moment, several times, or before the call):
   there is a well-formed received sequence tr such that the call, if it has returned, returned its
   loop's law applied to tr. *)
Theorem C17_first_error_observed : forall a ms pre evs c0,
  loop_of a (List.length ms) = Some c0 ->
  exists tr, trace_wf ms tr /\
    (x_ret (exec_ev a ms pre evs) = wrap_of a (List.length ms) RHang \/
     x_ret (exec_ev a ms pre evs) = wrap_of a (List.length ms) (law_of c0 (List.length ms) tr)).
Proof. exact first_error_observed. Qed.
Print Assumptions C17_first_error_observed.

(* ExecuteUpTo spelled out: slot j holds the message of the response received from member j; the call
   fails exactly when more than k of the received responses carry an error, and then returns the
   FIRST error of the received sequence — a member's own error or, when the parent context was
   cancelled first, a cancellation-aware member's context error *)
Theorem C17_upto_error_is_first_observed : forall k ms pre evs,
  exists tr, trace_wf ms tr /\
    (x_ret (exec_ev (AUpTo k) ms pre evs) = RHang \/
     x_ret (exec_ev (AUpTo k) ms pre evs) =
       RSlice (ExecPc.slots (List.length ms) tr) (if k <? count_err tr then first_err_of tr else 0)).
Proof. exact upto_error_first_observed. Qed.
Print Assumptions C17_upto_error_is_first_observed.

Theorem C17_fast_returns_first_success_else_first_error_observed : forall ms pre evs,
  exists tr, trace_wf ms tr /\
    (x_ret (exec_ev AFast ms pre evs) = RHang \/ x_ret (exec_ev AFast ms pre evs) = fast_law tr).
Proof. exact fast_first_observed. Qed.
Print Assumptions C17_fast_returns_first_success_else_first_error_observed.

Theorem C17_race_returns_first_observed : forall ms pre evs,
  exists tr, trace_wf ms tr /\
    (x_ret (exec_ev ARace ms pre evs) = RHang \/ x_ret (exec_ev ARace ms pre evs) = race_law tr).
Proof. exact race_first_observed. Qed.
Print Assumptions C17_race_returns_first_observed.

(* ---- third wave: the received sequence is EXPLICIT under the guard of generator C17P (every member
   released exactly once, the parent context cancelled exactly once — before the call or at some step),
   for EVERY member count, outcome vector, awareness mix, release order and cancellation point.
   seq_at ms evs q (Group/C17PJudge.v) =
        own responses of the members released up to step q, in release order
     ++ context errors of the cancellation-aware members not yet released at q, in index order
     ++ own responses of the context-ignoring members released after q, in release order,
   q_of = the earlier of the parent cancellation and the call's own decision step (ExecuteUpTo: first
   step at which more than max(k,0) released members have failed; ExecuteFast: the release of the
   first member that succeeds; ExecuteRace: the first release).  The call returns its loop's law on
   exactly that sequence, and that is the x_ret of the closed-form contract contract_ev. *)
Theorem C17_received_sequence_closed_form : forall a ms (pre : bool) evs c0,
  loop_of a (List.length ms) = Some c0 ->
  perm_b (rel_order evs) (List.length ms) = true ->
  (npar evs + (if pre then 1 else 0) = 1)%nat ->
  x_ret (exec_ev a ms pre evs) =
  wrap_of a (List.length ms) (law_of c0 (List.length ms) (seq_at ms evs (q_of c0 ms pre evs))).
Proof. exact par_ret_closed_form. Qed.
Print Assumptions C17_received_sequence_closed_form.

(* the state of the receiving loop once every member has returned is the fold of recv over seq_at,
   closed by the channel's close if the loop had not returned *)
Theorem C17_offered_sequence_closed_form : forall c0 ms (pre : bool) evs,
  shape c0 (List.length ms) ->
  perm_b (rel_order evs) (List.length ms) = true ->
  (npar evs + (if pre then 1 else 0) = 1)%nat ->
  let W := t_w (run_par_t c0 ms pre evs) in
  w_cons W = fin (consume c0 (seq_at ms evs (q_of c0 ms pre evs))) /\ (forall j, lv W j = false).
Proof.
  intros c0 ms pre evs SH PB NP. cbv zeta. rewrite run_par_t_world.
  destruct (par_offered_closed_form c0 ms pre evs SH PB NP) as [[I _] AD]. split; auto.
Qed.
Print Assumptions C17_offered_sequence_closed_form.

(* ExecuteOne (and Execute with strategy One) under a parent cancellation: the event model, run step
   by step, IS the closed-form recursion one_spec over the members with the time each is invoked —
   every field of the result, every member count *)
Theorem C17_one_under_parent_cancel_meets_contract : forall a ms (pre : bool) evs,
  a = AOne \/ a = AExecute 4 ->
  perm_b (rel_order evs) (List.length ms) = true ->
  Nat.eqb (npar evs + (if pre then 1 else 0)) 1 = true ->
  exec_ev a ms pre evs = contract_ev a ms pre evs.
Proof. exact exec_ev_one_meets_contract. Qed.
Print Assumptions C17_one_under_parent_cancel_meets_contract.

(* THE closed-form contract for parent cancellation IS the event model: every API (ExecuteUpTo with
   any budget, All/Most/Any, ExecuteOne, ExecuteFast, ExecuteRace, Execute with any strategy number),
   every member count, outcome vector, awareness mix, release order, cancellation point (before the
   call or at any step) — every field of the result: what is returned (the loop's law on seq_at),
   who was invoked, the step at which the members' context is cancelled (the earlier of q and the
   return step), the step at which the call returns (the step of the first response that ends the
   loop, else the latest return of a member: a flushed member returns at q, any other at its release),
   which members saw ctx.Done and when (the flushed ones, at q), nothing left running.  Under the
   guard of generator C17P: every member released exactly once, the parent cancelled exactly once. *)
Theorem C17_event_model_meets_contract_ev : forall a ms (pre : bool) evs,
  perm_b (rel_order evs) (List.length ms) = true ->
  Nat.eqb (npar evs + (if pre then 1 else 0)) 1 = true ->
  exec_ev a ms pre evs = contract_ev a ms pre evs.
Proof. exact exec_ev_meets_contract_ev. Qed.
Print Assumptions C17_event_model_meets_contract_ev.

(* hence an observation that agrees with the event model satisfies the closed-form contract *)
Theorem C17_parent_cancel_judge_sound : forall a ms pre evs obs,
  C17P_guard (KEv a ms pre evs obs) = true ->
  pagrees (KEv a ms pre evs obs) = true -> C17P_ok (KEv a ms pre evs obs) = true.
Proof. exact pjudge_sound. Qed.
Print Assumptions C17_parent_cancel_judge_sound.

(* the return step and the cancellation step spelled out on the world of the event model *)
Theorem C17_return_and_cancel_step_closed_form : forall c0 ms (pre : bool) evs,
  shape c0 (List.length ms) ->
  perm_b (rel_order evs) (List.length ms) = true ->
  (npar evs + (if pre then 1 else 0) = 1)%nat ->
  let q := q_of c0 ms pre evs in
  let W := t_w (run_par_t c0 ms pre evs) in
  exists t, w_ret W = Some t /\
    match flip (ret_step ms evs q) c0 (seq_at ms evs q) with
    | Some t' => t = t'
    | None => all_ret_step ms evs q = t
    end /\
    ((0 < List.length ms)%nat -> w_cancel W = Some (Nat.min q t)) /\
    w_saw W = saw_at ms evs q.
Proof.
  intros c0 ms pre evs SH PB NP. cbv zeta. rewrite run_par_t_world.
  destruct (par_time_closed_form c0 ms pre evs SH PB NP) as [t [RT [M KC]]].
  exists t. repeat split; auto. apply par_saw_closed_form; auto.
Qed.
Print Assumptions C17_return_and_cancel_step_closed_form.

(* once every member has been allowed to finish the call has returned — never RHang, never a panic,
   nothing left behind — whatever else happened (parent cancelled or not, at any point) *)
Theorem C17_call_returns_under_events : forall a ms pre evs c0,
  loop_of a (List.length ms) = Some c0 ->
  (forall i, (i < List.length ms)%nat -> In (ERel i) evs) ->
  x_ret (exec_ev a ms pre evs) <> wrap_of a (List.length ms) RHang /\
  x_ret (exec_ev a ms pre evs) <> RPanic /\ x_leak (exec_ev a ms pre evs) = 0.
Proof. exact call_returns_ev. Qed.
Print Assumptions C17_call_returns_under_events.

(* scripted response sequences (cases KSeq: arbitrary messages and errors, the same error value from
   several members, nil messages): the fold of the model's recv over the sequence is the closed-form
   law, so an observation that agrees with the model satisfies the predicate *)
Theorem C17_scripted_sequence_law : forall a n rs, seq_model a n rs = seq_law a n rs.
Proof. exact seq_model_is_law. Qed.
Print Assumptions C17_scripted_sequence_law.

Theorem C17_scripted_judge_sound : forall a n rs obs,
  pagrees (KSeq a n rs obs) = true -> C17P_ok (KSeq a n rs obs) = true.
Proof. exact seq_judge_sound. Qed.
Print Assumptions C17_scripted_judge_sound.

(* never panics under events either: any API (ExecuteOne included), any members, any event list *)
Theorem C17_never_panics_under_events : forall a ms pre evs, x_ret (exec_ev a ms pre evs) <> RPanic.
Proof. exact exec_ev_never_panics. Qed.
Print Assumptions C17_never_panics_under_events.

(* non-vacuity: Most, 4 members; member 3 succeeds, then the parent context is cancelled: the two
   cancellation-aware members return context errors (within the budget of 2), then member 1 fails:
   the error returned is the first one observed, member 0's context error *)
Example C17_nonvacuous_parent_cancel :
  let ms := [mkM Ok true; mkM Fail false; mkM Ok true; mkM Ok false] in
  let evs := [ERel 3; EPar; ERel 1; ERel 0; ERel 2]%nat in
  exec_ev (AExecute 2) ms false evs = mkRes (RSlice [0; 0; 0; 4] 1001) [0; 1; 2; 3] 2 3 [2; -1; 2; -1] 0 /\
  t_tr (run_par_t (CUpTo 2 (empty_upto 4)) ms false evs) = [mkR 3 4 0; mkR 0 0 1001; mkR 2 0 1003; mkR 1 0 2] /\
  contract_ev (AExecute 2) ms false evs = exec_ev (AExecute 2) ms false evs.
Proof. cbv zeta. repeat split; reflexivity. Qed.

(* ================= obligations over the source (Gen/GroupExec.v, regenerated on every run) ================= *)

(* Execute's switch as read from pkg/group/exec.go is the model's dispatch for every integer *)
Theorem C17_execute_dispatch_from_source : forall s ms order,
  exec (AExecute s) ms order = run_target (code_target s) ms order.
Proof. exact execute_dispatch_from_source. Qed.
Print Assumptions C17_execute_dispatch_from_source.

(* executeEach as read from the source has the shape the process model was written from:
   capacity len(members) (the hypothesis n <= cap of C17_goroutines_end / C17_call_returns),
   all.Add(len(members)), member goroutines that send before reporting Done, one closer goroutine *)
Theorem C17_execute_each_shape_from_source :
  Gen.GroupExec.each_chan_cap = "len(members)"%string /\
  Gen.GroupExec.each_wg_add = "all.Add(len(members))"%string /\
  Gen.GroupExec.each_go_statements = 2.
Proof. destruct execute_each_shape as [A [B [C _]]]. auto. Qed.
Print Assumptions C17_execute_each_shape_from_source.

(* ================================================================================================
   The callers of group.Execute: pkg/trait/onoffpb/group.go and pkg/trait/lightpb/group.go
   (Group/TraitGroup.v, Group/TraitGroupJudge.v; second generator "C17T" of the harness).

   Vocabulary:
     unary s ms vals order   a Get/Update call of a trait group with execution strategy s: Execute's part is
                   [exec (AExecute s) ms order]; vals (VOnOff states | VLight levels, exact rationals) are the
                   values the members report; the result is what the harness observes (uobs): value or nil,
                   error, and Execute's observables
     slots d res vals   the result slice as the reducers see it: slot j holds vals[j] iff Execute's slot j is
                   populated
     onoff_reduce / light_reduce   the reducers of the code (light: (acc*i + v)/(i+1) with i the member INDEX)
     onoff_spec / light_spec       closed forms used by the judge (TraitGroupJudge.v)
   ================================================================================================ *)

(* error mapping: the call returns an error iff Execute does, the same one, and then no value;
   otherwise the reduction of Execute's result slots *)
Theorem C17_trait_unary_error_mapping : forall s ms vals order res err,
  x_ret (exec (AExecute s) ms order) = RSlice res err ->
  let u := unary s ms vals order in
  uo_kind u = 0 /\ uo_err u = err /\ (err <> 0 -> uo_val u = None) /\
  (err = 0 -> uo_val u = Some (reduce_vals res vals)).
Proof. exact unary_error_mapping. Qed.
Print Assumptions C17_trait_unary_error_mapping.

(* the Execute part of every unary call equals the closed-form contract *)
Theorem C17_trait_unary_meets_contract : forall s ms vals order, is_perm order (List.length ms) ->
  unary s ms vals order = unary_of (contract (AExecute s) ms order) vals.
Proof. exact unary_meets_contract. Qed.
Print Assumptions C17_trait_unary_meets_contract.

(* onoff reducer, closed form: ON if some populated slot is ON, else the first populated value that is not
   UNSPECIFIED (index order), else UNSPECIFIED *)
Theorem C17_onoff_reduce_closed_form : forall sl,
  ((exists j, nth_error sl j = Some (Some 1)) -> onoff_reduce sl = 1) /\
  ((forall j, nth_error sl j <> Some (Some 1)) ->
     forall j v, nth_error sl j = Some (Some v) -> v <> 0 ->
     (forall k w, (k < j)%nat -> nth_error sl k = Some (Some w) -> w = 0) -> onoff_reduce sl = v) /\
  ((forall j v, nth_error sl j = Some (Some v) -> v = 0) -> onoff_reduce sl = 0).
Proof. exact onoff_reduce_cases. Qed.
Print Assumptions C17_onoff_reduce_closed_form.

(* level reducer: with every slot populated the result is the arithmetic mean (over Q) *)
Theorem C17_light_reduce_is_mean_without_holes : forall vs, vs <> [] ->
  (light_reduce (map Some vs) == fold_right Qplus 0 vs / qi (List.length vs))%Q.
Proof. exact light_reduce_mean. Qed.
Print Assumptions C17_light_reduce_is_mean_without_holes.

(* level reducer in general: the weighted sum  sum_j v_j/(j+1) * prod_{k>j populated} k/(k+1) *)
Theorem C17_light_reduce_closed_form : forall sl, (light_reduce sl == light_spec sl)%Q.
Proof. exact light_reduce_closed_form. Qed.
Print Assumptions C17_light_reduce_closed_form.

(* OBSERVATION about lightpb (outside the property text, not a finding): the reducer weights by the member's
   index, so with an unpopulated slot (a failed member tolerated by Most/Any, or One/Fast/Race where a single
   slot is populated) the result is NOT the mean of the values present: a single level 60 at index 1 gives 30;
   levels 100 and 40 at indices 0 and 2 give 80, not 70 *)
Theorem C17_light_reduce_with_holes_is_not_mean_witness :
  (light_reduce [None; Some (60#1)] == 30#1)%Q /\ ~ ((30#1) == (60#1))%Q /\
  (light_reduce [Some (100#1); None; Some (40#1)] == 80#1)%Q /\
  ~ (80#1 == ((100#1) + (40#1)) / (2#1))%Q.
Proof. exact light_holes_not_mean_witness. Qed.
Print Assumptions C17_light_reduce_with_holes_is_not_mean_witness.

(* headline, onoff: for every strategy, members, values and completion order the call is determined by the
   closed-form contract of Execute: same error (and then no value), otherwise the closed-form reduction of
   the values of exactly the members whose slot the contract populates, each at its own index; invoked
   members, cancellation step, return step, what aware members saw are the contract's; nothing is left *)
Theorem C17_onoff_unary_contract : forall s ms vals order, is_perm order (List.length ms) ->
  exists res err, x_ret (contract (AExecute s) ms order) = RSlice res err /\ List.length res = List.length ms /\
    let c := contract (AExecute s) ms order in
    let u := unary s ms (VOnOff vals) order in
    uo_kind u = 0 /\ uo_err u = err /\ (err <> 0 -> uo_val u = None) /\
    (err = 0 -> uo_val u = Some (XOnOff (onoff_spec (slots 0 res vals)))) /\
    uo_calls u = x_calls c /\ uo_cancel u = x_cancel c /\ uo_retstep u = x_retstep c /\
    uo_saw u = x_saw c /\ uo_leak u = 0.
Proof. exact onoff_unary_contract. Qed.
Print Assumptions C17_onoff_unary_contract.

(* headline, light *)
Theorem C17_light_unary_contract : forall s ms vals order, is_perm order (List.length ms) ->
  exists res err, x_ret (contract (AExecute s) ms order) = RSlice res err /\ List.length res = List.length ms /\
    let c := contract (AExecute s) ms order in
    let u := unary s ms (VLight vals) order in
    uo_kind u = 0 /\ uo_err u = err /\ (err <> 0 -> uo_val u = None) /\
    (err = 0 -> exists q, uo_val u = Some (XLight q) /\ (q == light_spec (slots 0%Q res vals))%Q) /\
    uo_calls u = x_calls c /\ uo_cancel u = x_cancel c /\ uo_retstep u = x_retstep c /\
    uo_saw u = x_saw c /\ uo_leak u = 0.
Proof. exact light_unary_contract. Qed.
Print Assumptions C17_light_unary_contract.

(* strategy All (also Unspecified / unknown numbers), context-ignoring members, no failure: the value is the
   reduction of ALL members' values; for levels, their arithmetic mean *)
Theorem C17_onoff_all_reduces_every_member : forall s ms vals order, all_plain ms -> is_perm order (List.length ms) ->
  (s <> 2 /\ s <> 3 /\ s <> 4 /\ s <> 5 /\ s <> 6) -> List.length vals = List.length ms ->
  (forall i, (i < List.length ms)%nat -> failed ms i = false) ->
  let u := unary s ms (VOnOff vals) order in
  uo_err u = 0 /\ uo_val u = Some (XOnOff (onoff_spec (map Some vals))).
Proof. exact onoff_all_reduces_every_member. Qed.
Print Assumptions C17_onoff_all_reduces_every_member.

Theorem C17_light_all_is_mean : forall s ms vals order, all_plain ms -> is_perm order (List.length ms) ->
  (s <> 2 /\ s <> 3 /\ s <> 4 /\ s <> 5 /\ s <> 6) -> List.length vals = List.length ms ->
  (forall i, (i < List.length ms)%nat -> failed ms i = false) -> vals <> [] ->
  let u := unary s ms (VLight vals) order in
  uo_err u = 0 /\ exists q, uo_val u = Some (XLight q) /\ (q == fold_right Qplus 0 vals / qi (List.length vals))%Q.
Proof. exact light_all_is_mean. Qed.
Print Assumptions C17_light_all_is_mean.

(* Fast / Race with a winner i that returns a message: only slot i is populated, at the winner's own index;
   the onoff value is vals[i]; the level is vals[i]/(i+1) (the index-weighted reducer again) *)
Theorem C17_trait_single_strategy_uses_own_index : forall s ms order i, is_perm order (List.length ms) ->
  (s = 5 \/ s = 6) ->
  (s = 5 -> first_in (succeeded ms) order i) ->
  (s = 6 -> succeeded ms i = true /\ exists q, order = i :: q) ->
  (i < List.length ms)%nat /\
  x_ret (exec (AExecute s) ms order) = RSlice (single_at ms (Z.of_nat i) (zi i)) 0 /\
  (forall vals, let u := unary s ms (VOnOff vals) order in
     uo_err u = 0 /\ uo_val u = Some (XOnOff (nth i vals 0))) /\
  (forall vals, let u := unary s ms (VLight vals) order in
     uo_err u = 0 /\ exists q, uo_val u = Some (XLight q) /\ (q == nth i vals 0 / (qi i + 1))%Q).
Proof. exact single_strategy_uses_own_index. Qed.
Print Assumptions C17_trait_single_strategy_uses_own_index.

(* the judge of the second generator is sound for unary calls: on guarded inputs the model satisfies the
   closed-form predicate, and so does every observation that agrees with the model *)
Theorem C17_trait_unary_model_ok : forall tk w s ms vals order,
  C17T_guard (KUnary tk w s ms vals order (unary s ms vals order)) = true ->
  C17T_ok (KUnary tk w s ms vals order (unary s ms vals order)) = true.
Proof. exact unary_model_ok. Qed.
Print Assumptions C17_trait_unary_model_ok.

Theorem C17_trait_unary_judge_sound : forall tk w s ms vals order obs,
  C17T_guard (KUnary tk w s ms vals order obs) = true -> tagrees (KUnary tk w s ms vals order obs) = true ->
  C17T_ok (KUnary tk w s ms vals order obs) = true.
Proof. exact unary_judge_sound. Qed.
Print Assumptions C17_trait_unary_judge_sound.

(* ================================================================================================
   PullOnOff / PullBrightness (Group/TraitGroup.v part B).
     pull reduce veqb ms fail_at strategy evs   the state after the events evs (one per harness step, numbered
                   from 1): EMsg i chs = member i's stream delivers a message, EEnd i = member i's stream ends
                   with its error, EParent = the server context is cancelled.  p_w = the world of Exec.v in which
                   group.Execute runs on its own goroutine; p_hist = (member, end change) of every message the
                   main loop processed; p_sent = the messages passed to server.Send (s_at m = number of messages
                   processed when m was sent); p_failed = the error of the Send that failed; p_ret = step and
                   error of Pull's return.  fail_at = which Send fails (0: none).
     changes_of n hist   the latest change of each of the n members, at the member's own index
     pull_onoff / pull_light   the two instances (reducers onoff_reduce_p / light_reduce_p, proto.Equal on the
                   value = Z.eqb / Qeq_bool)
   All statements are for EVERY event list.  What is NOT proved: anything about the Go runtime - that the
   goroutine running Execute ends after `returnErr <- err` (the channel has capacity 1, and both return paths
   of the loop receive from it) is part of the model and is observed by the harness (goroutine dump after
   the last step), not a theorem.
   ================================================================================================ *)

(* every message sent is the reduction of the latest change of each member at its own index at that moment;
   it differs from the previous one sent (for a reducer that can fall back to "nothing" the same value may be
   sent again after such a fallback: the disjunct; the two real reducers cannot, see the next two theorems) *)
Theorem C17_pull_sent_are_reductions : forall V (reduce : list (option V) -> option V) veqb ms fail_at strategy evs,
  let st := pull reduce veqb ms fail_at strategy evs in
  let n := List.length ms in
  p_changes st = changes_of n (p_hist st) /\
  (forall k m, nth_error (p_sent st) k = Some m ->
     (1 <= s_at m <= List.length (p_hist st))%nat /\
     reduce (changes_of n (firstn (s_at m) (p_hist st))) = Some (s_val m) /\
     match k with
     | O => True
     | S k' => forall m', nth_error (p_sent st) k' = Some m' ->
                 (s_at m' < s_at m)%nat /\
                 (veqb (s_val m') (s_val m) = false \/
                  exists j, (s_at m' < j < s_at m)%nat /\
                            reduce (changes_of n (firstn j (p_hist st))) = None)
     end).
Proof. exact pull_sent_are_reductions. Qed.
Print Assumptions C17_pull_sent_are_reductions.

Theorem C17_pull_onoff_sent_are_reductions : forall ms fail_at strategy evs,
  let st := pull_onoff ms fail_at strategy evs in
  let n := List.length ms in
  p_changes st = changes_of n (p_hist st) /\
  (forall k m, nth_error (p_sent st) k = Some m ->
     (1 <= s_at m <= List.length (p_hist st))%nat /\
     onoff_reduce_p (changes_of n (firstn (s_at m) (p_hist st))) = Some (s_val m) /\
     match k with
     | O => True
     | S k' => forall m', nth_error (p_sent st) k' = Some m' ->
                 (s_at m' < s_at m)%nat /\ (s_val m' =? s_val m) = false
     end).
Proof.
  intros ms fail_at strategy evs.
  exact (pull_sent_are_reductions_exact Z onoff_reduce_p Z.eqb ms fail_at strategy evs onoff_none_only).
Qed.
Print Assumptions C17_pull_onoff_sent_are_reductions.

Theorem C17_pull_light_sent_are_reductions : forall ms fail_at strategy evs,
  let st := pull_light ms fail_at strategy evs in
  let n := List.length ms in
  p_changes st = changes_of n (p_hist st) /\
  (forall k m, nth_error (p_sent st) k = Some m ->
     (1 <= s_at m <= List.length (p_hist st))%nat /\
     light_reduce_p (changes_of n (firstn (s_at m) (p_hist st))) = Some (s_val m) /\
     match k with
     | O => True
     | S k' => forall m', nth_error (p_sent st) k' = Some m' ->
                 (s_at m' < s_at m)%nat /\ Qeq_bool (s_val m') (s_val m) = false
     end).
Proof.
  intros ms fail_at strategy evs.
  exact (pull_sent_are_reductions_exact Q light_reduce_p Qeq_bool ms fail_at strategy evs light_none_only).
Qed.
Print Assumptions C17_pull_light_sent_are_reductions.

(* nothing is withheld: after every processed message the last value sent (lastChange) equals the reduction of
   the members' latest changes *)
Theorem C17_pull_stream_up_to_date : forall V reduce veqb ms fail_at strategy evs, (forall v : V, veqb v v = true) ->
  let st := pull reduce veqb ms fail_at strategy evs in
  p_hist st <> [] -> option_eqb veqb (p_last st) (reduce (changes_of (List.length ms) (p_hist st))) = true.
Proof. exact pull_stream_up_to_date. Qed.
Print Assumptions C17_pull_stream_up_to_date.

(* the reducers of the Pull loops in closed form *)
Theorem C17_pull_onoff_reduce_closed_form : forall sl, onoff_reduce_p sl = onoff_spec_p sl.
Proof. exact onoff_reduce_p_closed_form. Qed.
Print Assumptions C17_pull_onoff_reduce_closed_form.

Theorem C17_pull_light_reduce_closed_form : forall sl, oq_eq (light_reduce_p sl) (light_spec_p sl).
Proof. exact light_reduce_p_closed_form. Qed.
Print Assumptions C17_pull_light_reduce_closed_form.

(* Pull returns exactly when, and at the very step at which, Execute has returned; its error is Execute's, or
   the error of the Send that failed *)
Theorem C17_pull_returns_with_execute : forall V (reduce : list (option V) -> option V) veqb ms fail_at strategy evs,
  let st := pull reduce veqb ms fail_at strategy evs in
  match p_ret st with
  | None => w_ret (p_w st) = None
  | Some (s, e) => w_ret (p_w st) = Some s /\
                   e = match p_failed st with Some e' => e' | None => exec_err (p_w st) end
  end.
Proof. exact pull_returns_with_execute. Qed.
Print Assumptions C17_pull_returns_with_execute.

(* once every member has returned, Pull has returned (also after a failed Send) *)
Theorem C17_pull_returns_once_members_returned : forall V reduce veqb ms fail_at strategy evs,
  let st := pull (V:=V) reduce veqb ms fail_at strategy evs in
  forallb negb (w_live (p_w st)) = true -> p_ret st <> None.
Proof. exact pull_returns_once_members_returned. Qed.
Print Assumptions C17_pull_returns_once_members_returned.

(* after a failed Send: Pull waits for Execute and then returns that Send's error, nothing else *)
Theorem C17_pull_failed_send_waits : forall V reduce veqb ms fail_at strategy evs e,
  let st := pull (V:=V) reduce veqb ms fail_at strategy evs in
  p_failed st = Some e ->
  (p_ret st = None <-> w_ret (p_w st) = None) /\ forall s e', p_ret st = Some (s, e') -> e' = e.
Proof. exact pull_failed_send_waits. Qed.
Print Assumptions C17_pull_failed_send_waits.

(* strategy All (and Unspecified / unknown numbers): after any events that left the context uncancelled, the
   first member whose stream ends cancels every other cancellation-aware member's stream at that very step *)
Theorem C17_pull_all_first_error_cancels_everyone : forall V reduce veqb ms fail_at strategy evs i s,
  let st := pull (V:=V) reduce veqb ms fail_at strategy evs in
  members_ok ms = true -> strategy <> 2 -> strategy <> 3 -> strategy <> 5 -> strategy <> 6 ->
  w_cancel (p_w st) = None -> nth i (w_live (p_w st)) false = true ->
  let st' := TraitGroup.pstep reduce veqb ms fail_at s st (EEnd i) in
  w_cancel (p_w st') = Some s /\
  forall j, (j < List.length ms)%nat -> aware_at ms j = true ->
    nth j (w_live (p_w st')) false = false /\
    (nth j (w_live (p_w st)) false = true -> j <> i -> nth j (w_saw (p_w st')) (-1) = Z.of_nat s).
Proof. exact pull_all_first_error_cancels_everyone_at. Qed.
Print Assumptions C17_pull_all_first_error_cancels_everyone.

Example C17_nonvacuous_pull :
  let st := pull onoff_reduce_p Z.eqb [mkM Fail true; mkM Fail true] 0 1
                 [EMsg 0 [(2, 7)]; EMsg 1 [(1, 0)]; EMsg 1 [(1, 9)]; EEnd 0] in
  map s_val (p_sent st) = [2; 1] /\ map s_at (p_sent st) = [1%nat; 2%nat] /\
  p_ret st = Some (4%nat, 1) /\ w_saw (p_w st) = [-1; 4] /\ w_cancel (p_w st) = Some 4%nat /\
  w_live (p_w st) = [false; false].
Proof. exact pull_onoff_example. Qed.

(* ---- third wave, trait groups: the Pull judge's closed form is sound w.r.t. the Pull model ---- *)
(* every case kind (unary, PullOnOff, PullBrightness): an observation that agrees with the model and
   passes the guard satisfies the judge's closed-form predicate — messages sent, return step and error,
   including after a failed Send and under Race.  The guard bounds the group at 3000 members (a failed
   Send's canonical error 3000+k must not collide with a member's own error i+1). *)
Theorem C17_trait_judge_sound : forall c,
  tagrees c = true -> C17T_guard c = true -> C17T_ok c = true.
Proof. exact trait_judge_sound. Qed.
Print Assumptions C17_trait_judge_sound.

Theorem C17_pull_judge_sends_sound : forall c,
  tagrees c = true -> C17T_guard c = true -> C17T_ok_sends c = true.
Proof. exact trait_judge_sound_partial. Qed.
Print Assumptions C17_pull_judge_sends_sound.

Theorem C17_pull_ok_split : forall c, C17T_ok c = C17T_ok_sends c && C17T_ok_ret c.
Proof. exact C17T_ok_split. Qed.
Print Assumptions C17_pull_ok_split.

Theorem C17_pull_returns_by_contract : forall V reduce veqb ms eofs fail_at strategy (evs : list (pevent V)),
  let st := pull reduce veqb ms fail_at strategy evs in
  strategy <> 4 -> p_nondet st = false -> p_failed st = None -> has_parent evs = false ->
  ret_by_contract ms eofs strategy evs =
  (retZ V st, match p_ret st with Some (_, e) => perr eofs e | None => 0 end).
Proof. exact pull_ret_by_contract. Qed.
Print Assumptions C17_pull_returns_by_contract.

Theorem C17_pull_returns_after_failed_send : forall V reduce veqb ms fail_at strategy,
  members_ok ms = true -> strategy <> 6 -> forall evs : list (pevent V),
  let st := pull reduce veqb ms fail_at strategy evs in
  p_nondet st = false -> p_failed st <> None ->
  exists f : nat,
    fstep V fail_at (map (tr V) (p_sent st)) = Z.of_nat f /\
    ret_after_failed_send ms fail_at strategy evs (Z.of_nat f) =
      (retZ V st, match p_ret st with Some (_, e) => e | None => 0 end).
Proof. exact pull_ret_after_failed_send. Qed.
Print Assumptions C17_pull_returns_after_failed_send.

Theorem C17_pull_returns_after_failed_send_race : forall V reduce veqb ms fail_at strategy,
  strategy = 6 -> forall evs : list (pevent V),
  let st := pull reduce veqb ms fail_at strategy evs in
  p_nondet st = false -> p_failed st <> None ->
  exists f : nat,
    fstep V fail_at (map (tr V) (p_sent st)) = Z.of_nat f /\
    ret_after_failed_send ms fail_at strategy evs (Z.of_nat f) =
      (retZ V st, match p_ret st with Some (_, e) => e | None => 0 end).
Proof. exact pull_ret_after_failed_send_race. Qed.
Print Assumptions C17_pull_returns_after_failed_send_race.

(* Print Assumptions for every theorem above that did not have its own line yet *)
Print Assumptions C17_never_panics_v0_refuted.
Print Assumptions C17_goroutines_end_v0_refuted.
