(* C19 - The electric model keeps its documented mode invariants.
   Theorems only; proofs live in Electric/ModelProofs.v.  Model: Electric/Model.v.
     - a history is a list of timed operations (clock reading, operation); [run] folds [step] over it;
     - [wf_initial initial]: the modes given to NewModel (WithInitialMode) have distinct ids and at
       most one of them is normal;
     - [changed s]: some SetActiveMode / ChangeActiveMode / ChangeToNormalMode (or the rpcs
       UpdateActiveMode / ClearActiveMode) has succeeded (lemma C19_changed_meaning);
     - every operation is one atomic step (the model mutex), so a concurrent execution is a
       schedule over whole operations (theorems C19_concurrent_is_sequential, C19_concurrent_invariants). *)
From SC Require Import Base.Prelude Electric.Model Electric.ModelProofs Electric.C19Judge Electric.JudgeProofs
  Electric.ConcStreamProofs Electric.Config Electric.ConfigProofs Electric.UpdateOpts Electric.UpdateOptsProofs Electric.LockDefs Electric.Fine Gen.ElectricLocks Electric.FineProofs
  Electric.RefineProofs Electric.FineResults Electric.StreamConfigProofs.

(* 1. at most one mode is marked normal, after any sequence of operations *)
Theorem C19_at_most_one_normal : forall initial ops, wf_initial initial ->
  normal_count (modes (run (init_state initial) ops)) <= 1.
Proof. exact at_most_one_normal. Qed.
Print Assumptions C19_at_most_one_normal.

Theorem C19_at_most_one_normal_members : forall initial ops, wf_initial initial ->
  forall a b, let l := modes (run (init_state initial) ops) in
  In a l -> In b l -> mnormal a = true -> mnormal b = true -> a = b.
Proof. exact at_most_one_normal_members. Qed.
Print Assumptions C19_at_most_one_normal_members.

(* the whole invariant is preserved by every operation from any state satisfying it *)
Theorem C19_invariant_preserved : forall ops s, Inv s -> Inv (run s ops).
Proof. exact inv_run. Qed.
Print Assumptions C19_invariant_preserved.

(* 2. the active mode is never deleted: in any reachable state, whatever the next operation is,
   the mode that is active before it is still stored after it; a delete naming it is refused *)
Theorem C19_active_never_deleted : forall initial ops now o, wf_initial initial ->
  let s := run (init_state initial) ops in
  has (mid (active s)) (modes s) = true ->
  has (mid (active s)) (modes (fst (step s now o))) = true.
Proof. exact active_never_deleted. Qed.
Print Assumptions C19_active_never_deleted.

Theorem C19_delete_active_refused : forall s now allow,
  step s now (ODelete (mid (active s)) allow) = (s, err_ cFailedPrecondition) /\
  (is_empty (mid (active s)) = false ->
   step s now (SDelete (mid (active s)) allow) = (s, err_ cFailedPrecondition)).
Proof. exact delete_active_refused. Qed.
Print Assumptions C19_delete_active_refused.

(* 3. once changed, the active mode always refers to a mode that exists *)
Theorem C19_active_exists_once_changed : forall initial ops, wf_initial initial ->
  let s := run (init_state initial) ops in
  changed s = true -> has (mid (active s)) (modes s) = true.
Proof. exact active_exists_once_changed. Qed.
Print Assumptions C19_active_exists_once_changed.

Theorem C19_changed_meaning : forall s now o,
  changed (fst (step s now o)) = changed s || (activates o && (rcode (snd (step s now o)) =? 0)).
Proof. intros. apply step_changed. Qed.
Print Assumptions C19_changed_meaning.

(* 4. clearing the active mode selects the normal mode (the only one), or reports NotFound and
   changes nothing when there is none *)
Theorem C19_clear_selects_normal : forall s now, Inv s ->
  match normal_of (modes s) with
  | Some n =>
      In n (modes s) /\ mnormal n = true /\
      (forall m, In m (modes s) -> mnormal m = true -> m = n) /\
      exists a', step s now OClear = (set_active s a', ok_ (Some a')) /\
                 mid a' = mid n /\ mtitle a' = mtitle n /\ mnormal a' = true /\
                 mstart a' = (if String.eqb (mid (active s)) (mid n) then mstart n else Some now)
  | None =>
      (forall m, In m (modes s) -> mnormal m = false) /\ step s now OClear = (s, err_ cNotFound)
  end.
Proof. exact clear_selects_normal. Qed.
Print Assumptions C19_clear_selects_normal.

Theorem C19_clear_rpc_is_clear : forall s now, step s now SClear = step s now OClear.
Proof. exact sclear_is_clear. Qed.

(* 5. switching (ChangeActiveMode, ChangeToNormalMode, UpdateActiveMode, ClearActiveMode) makes a
   stored mode the active value, returns it, leaves the modes alone and stamps its start time
   with the clock reading exactly when the id differs from the previously active id *)
Theorem C19_switch_stamps_clock : forall s now o s' r,
  switches o = true -> step s now o = (s', r) -> rcode r = 0 ->
  switched_to s now s' r /\
  (mid (active s') <> mid (active s) -> mstart (active s') = Some now).
Proof. intros s now o s' r. apply switch_stamps_clock. Qed.
Print Assumptions C19_switch_stamps_clock.

Theorem C19_change_targets_id : forall s now id,
  (has id (modes s) = true ->
     exists a', step s now (OChange id) = (set_active s a', ok_ (Some a')) /\ mid a' = id) /\
  (has id (modes s) = false -> step s now (OChange id) = (s, err_ cNotFound)).
Proof. exact change_targets_id. Qed.
Print Assumptions C19_change_targets_id.

(* 6. deleting an absent mode reports NotFound unless allow-missing is set, in which case it
   succeeds; either way nothing changes.  (Ids are non-empty: see notes/C19.md.) *)
Theorem C19_delete_absent : forall s now id allow, Inv s ->
  id <> EmptyString -> has id (modes s) = false ->
  step s now (ODelete id allow) = (s, if allow then ok_ None else err_ cNotFound) /\
  step s now (SDelete id allow) = (s, if allow then ok_ None else err_ cNotFound).
Proof. exact delete_absent. Qed.
Print Assumptions C19_delete_absent.

Theorem C19_delete_present : forall s now id allow, Inv s ->
  has id (modes s) = true -> id <> mid (active s) ->
  let s' := fst (step s now (ODelete id allow)) in
  snd (step s now (ODelete id allow)) = ok_ None /\ has id (modes s') = false /\
  (forall k, k <> id -> has k (modes s') = has k (modes s)) /\ active s' = active s.
Proof. exact delete_present. Qed.
Print Assumptions C19_delete_present.

(* what must not change: a failed call leaves the state alone *)
Theorem C19_failed_is_noop : forall s now o,
  rcode (snd (step s now o)) <> 0 -> fst (step s now o) = s.
Proof. intros s now o. apply failed_is_noop. Qed.
Print Assumptions C19_failed_is_noop.

(* concurrent mixes: every schedule of threads of operations is the sequential run of an
   interleaving of the threads, hence the invariants hold at quiescence (and at every point) *)
Theorem C19_concurrent_is_sequential : forall sched threads s,
  run_sched sched threads s = run s (linearize sched threads) /\
  interleaves threads (linearize sched threads).
Proof. exact concurrent_is_sequential. Qed.
Print Assumptions C19_concurrent_is_sequential.

Theorem C19_concurrent_invariants : forall initial sched threads, wf_initial initial ->
  let s := run_sched sched threads (init_state initial) in
  normal_count (modes s) <= 1 /\ (changed s = true -> has (mid (active s)) (modes s) = true).
Proof. exact concurrent_invariants. Qed.
Print Assumptions C19_concurrent_invariants.

(* the predicate the check evaluates on observations (C19Judge.step_ok, eleven clauses) holds of
   every model step from every state satisfying the invariant ... *)
Theorem C19_step_ok_model : forall s now o, Inv s ->
  step_ok (modes s) (active s) (changed s) now o (obs_of (step s now o)) = true.
Proof. exact step_ok_model. Qed.
Print Assumptions C19_step_ok_model.

(* ... hence every guarded history that the model reproduces satisfies C19_ok, for every kind of
   case: sequential histories (replay), concurrent histories (the linearization search: every
   configuration it visits is a model state reached by an interleaving that respects the observed
   results, so the quiescent state it accepts satisfies the invariants, and a successful activating
   call forces [changed]), and stream histories (the events the model predicts rebuild exactly the
   model's listing after every write, so a subscriber never sees two normal modes and the last
   active value it was sent names a mode it knows).  Within the guard a predicate failure always
   comes with a model mismatch (verdict 3, never 2). *)
Theorem C19_judge_sound : forall c, C19_guard c = true -> agrees c = true -> C19_ok c = true.
Proof. exact judge_sound. Qed.
Print Assumptions C19_judge_sound.

Theorem C19_judge_never_2 : forall c, judge c <> 2.
Proof. exact judge_never_2. Qed.

(* the stream replay, for all histories: the events predicted for a history rebuild the model's
   final listing, every intermediate view has at most one normal mode, and the last active value
   sent is the final active value *)
Theorem C19_streams_follow_model : forall steps s, Inv s ->
  let me := fst (predict s (active s) steps) in
  let ae := snd (predict s (active s) steps) in
  views_ok (modes s) me = true /\
  fold_left apply_event me (modes s) = modes (run s steps) /\
  lastd ae (active s) = active (run s steps) /\
  (ae <> [] -> changed (run s steps) = true).
Proof. intros steps s I. apply (predict_sound steps s (active s) I eq_refl). Qed.
Print Assumptions C19_streams_follow_model.

(* ---- atomicity of the Model methods, from the source ----
   Gen/ElectricLocks.v is generated on every run from model.go / model_server.go /
   memory_settings.go / model_opts.go.  Over the whole generated table: every exported method that
   writes modes/activeMode makes all of its resource calls with Model.mu write-locked, read-only
   methods make a single resource call or hold the read lock; every rpc is one call of one Model
   method; WithClock is the only option that sets the clock that stamps StartTime. *)
Theorem C19_lock_table : 
  forallb atomic_ok (filter mexported model_methods) = true /\
  list_eqb meth_eqb (filter mexported model_methods) expected_exported = true /\
  list_eqb srv_eqb server_methods expected_servers = true /\
  forallb (fun s => Nat.leb (List.length (scalls s)) 1) server_methods = true /\
  map oname (filter (fun r => str_in "clock" (owrites r)) model_options) = ["WithClock"%string] /\
  list_eqb optrow_eqb model_options expected_options = true.
Proof.
  split; [exact table_atomic|]. split; [exact table_exported|]. split; [exact table_servers|].
  split; [exact servers_one_call|]. split; [exact only_withclock_sets_clock|]. exact (proj1 table_options).
Qed.
Print Assumptions C19_lock_table.

(* every operation of the model runs an exported method of the table that holds the write lock
   around all of its calls; its program of resource calls (Electric/Fine.v) ends in the state and
   with the result of the atomic step, making only calls the source of that method makes, in order *)
Theorem C19_op_locked : forall o,
  match find_meth (op_method o) model_methods with
  | Some m => mexported m = true /\ atomic_ok m = true /\ forallb (fun c => lk_eqb (clk c) LX) (mcalls m) = true
  | None => False
  end.
Proof. exact op_method_locked. Qed.
Theorem C19_programs_are_steps : forall now o s, exists tr,
  runs (prog_of now o) s tr (fst (step s now o)) (snd (step s now o)) /\
  subseq tr (method_calls (op_method o)) = true.
Proof. exact prog_correct. Qed.
Print Assumptions C19_programs_are_steps.

(* threads interleaving at the granularity of single resource calls, with Model.mu as a mutex:
   every such schedule is a schedule of whole operations (the atomic-step assumption of
   C19_concurrent_is_sequential, proved from the lock discipline) ... *)
Theorem C19_fine_grained_is_atomic : forall fsched threads s0,
  let c := frun fsched (finit threads s0) in
  exists sched,
    map pending (fths c) = fst (crun sched (threads, s0)) /\
    match fowner c with
    | None => fstate c = run_sched sched threads s0
    | Some i => exists p r tr rs, nth_error (fths c) i = Some (TIn p r) /\
                                  runs p (fstate c) tr (run_sched sched threads s0) rs
    end.
Proof. exact fine_is_coarse. Qed.
Print Assumptions C19_fine_grained_is_atomic.

(* ... so the invariants hold whenever no call is in progress, whatever the interleaving *)
Theorem C19_fine_grained_invariants : forall initial fsched threads, wf_initial initial ->
  let c := frun fsched (finit threads (init_state initial)) in
  fowner c = None -> Inv (fstate c).
Proof. exact fine_invariants. Qed.
Print Assumptions C19_fine_grained_invariants.

(* non-vacuity of the lock: the same two threads without the mutex delete the active mode *)
Example C19_mutex_needed :
  let c := frun_gen false [0; 1; 0; 1; 0; 1; 0; 1]%nat (finit race_threads (init_state race_initial)) in
  changed (fstate c) = true /\ has (mid (active (fstate c))) (modes (fstate c)) = false /\
  let c' := frun [0; 1; 0; 1; 0; 1; 0; 1; 1; 1; 1]%nat (finit race_threads (init_state race_initial)) in
  fowner c' = None /\ has (mid (active (fstate c'))) (modes (fstate c')) = true.
Proof. exact mutex_needed. Qed.

(* the defects of the pinned commit, kept as theorems about the old definitions *)
Theorem C19_at_most_one_normal_v0_refuted :
  wf_initial [] /\ normal_count (modes (run_v0 (init_state []) two_normal_ops)) = 2.
Proof. exact at_most_one_normal_v0_refuted. Qed.
Theorem C19_delete_absent_v0_refuted :
  exists s id, Inv s /\ id <> EmptyString /\ has id (modes s) = false /\
               step_v0 s 1 (ODelete id true) = (s, err_ cNotFound).
Proof. exact delete_absent_v0_refuted. Qed.

(* non-vacuity: a concrete history that exercises every clause *)
Local Open Scope string_scope.
Example C19_nonvacuous_history :
  let ops := [(10, OAdd (mkM "a" "A" true None)); (20, SCreate (mkM "" "B" false None) "Zx3");
              (30, OChange "Zx3"); (40, SUpdate (mkM "Zx3" "" true None) (Some ["normal"]));
              (50, ODelete "Zx3" false); (60, SClear); (70, SDelete "Zx3" false);
              (80, ODelete "nope" true)] in
  wf_initial [] /\
  map (fun p => rcode (snd p)) (trace_gen step (init_state []) ops) = [0; 0; 0; 6; 9; 0; 0; 0] /\
  run (init_state []) ops = mkState [mkM "a" "A" true None] (mkM "a" "A" true (Some 60)) true.
Proof. split; [split; [constructor|cbn; lia]|]. vm_compute. split; reflexivity. Qed.
Example C19_nonvacuous_concurrent :
  let t1 := [(5, OAdd (mkM "a" "" true None)); (5, OClear)] in
  let t2 := [(5, OAdd (mkM "b" "" true None)); (5, ODelete "a" false)] in
  run_sched [1; 0; 1; 0]%nat [t1; t2] (init_state []) =
    mkState [mkM "b" "" true None] (mkM "b" "" true (Some 5)) true /\
  run_sched [0; 1; 0; 1]%nat [t1; t2] (init_state []) =
    mkState [mkM "a" "" true None] (mkM "a" "" true (Some 5)) true.
Proof. vm_compute. split; reflexivity. Qed.

(* ------------------------------------------------------------------ construction: NewModel(opts...) *)
(* Electric/Config.v models calcModelArgs / the option constructors of model_opts.go: an option list
   (WithInitialMode any number of times and anywhere, WithModeOption(WithInitialRecord), a plain
   resource.WithInitialRecord, WithInitialActiveMode / WithActiveModeOption(WithInitialValue),
   WithClock, resource.WithClock, WithRNG) is data.  [new_model opts] = None: NewModel panics. *)

(* the state NewModel returns satisfies the invariant - for every option list in which at most one
   configured mode is normal; [InvG a0] is [Inv] with "not changed -> active = a0" *)
Theorem C19_config_establishes_invariant : forall opts s, new_model opts = Some s ->
  normal_count (cfg_records opts) <= 1 -> InvG (cfg_active opts) s.
Proof. exact new_model_inv. Qed.
Print Assumptions C19_config_establishes_invariant.

(* headline, from any configuration and after any history: at most one normal mode, two normal
   members are equal, once changed the active id is stored, until then the active value is the
   configured one *)
Theorem C19_config_invariants : forall opts s0 ops, new_model opts = Some s0 ->
  normal_count (cfg_records opts) <= 1 ->
  let s := run s0 ops in
  normal_count (modes s) <= 1 /\
  (forall a b, In a (modes s) -> In b (modes s) -> mnormal a = true -> mnormal b = true -> a = b) /\
  (changed s = true -> has (mid (active s)) (modes s) = true) /\
  (changed s = false -> active s = cfg_active opts).
Proof. exact config_invariants. Qed.
Print Assumptions C19_config_invariants.

(* clearing selects the normal mode, wherever in the option list it was configured or however it
   became normal later *)
Theorem C19_config_clear_selects_normal : forall opts s0 ops now n, new_model opts = Some s0 ->
  normal_count (cfg_records opts) <= 1 ->
  let s := run s0 ops in
  In n (modes s) -> mnormal n = true ->
  rcode (snd (step s now OClear)) = 0 /\ mid (active (fst (step s now OClear))) = mid n.
Proof. exact config_clear_selects_normal. Qed.
Print Assumptions C19_config_clear_selects_normal.

(* what the option list amounts to: stored modes = all configured records; WithInitialMode is
   additive; the last WithInitialActiveMode / electricpb.WithClock wins, nothing else touches them;
   NewModel panics exactly on an empty id given to WithInitialMode or a repeated id *)
Theorem C19_config_state : forall opts s, new_model opts = Some s ->
  (forall m, In m (modes s) <-> In m (cfg_records opts)) /\
  (forall id, has id (modes s) = has id (cfg_records opts)) /\
  active s = cfg_active opts /\ changed s = false.
Proof. exact new_model_state. Qed.
Print Assumptions C19_config_state.

Theorem C19_config_initial_mode_additive : forall pre l1 l2 post,
  new_model (pre ++ CInitial (l1 ++ l2) :: post) = new_model (pre ++ CInitial l1 :: CInitial l2 :: post).
Proof. exact initial_mode_additive. Qed.
Print Assumptions C19_config_initial_mode_additive.

Theorem C19_config_last_wins : forall opts o,
  cfg_active (opts ++ [o]) = match o with CActive _ m => m | _ => cfg_active opts end /\
  cfg_clock (opts ++ [o]) = match o with CClock k => k | _ => cfg_clock opts end.
Proof. intros opts o. split; [apply cfg_active_last|apply cfg_clock_last]. Qed.
Print Assumptions C19_config_last_wins.

Theorem C19_config_event_clocks : forall opts o,
  cfg_mclock (opts ++ [o]) = match o with CClock k | CResClock k | CModeClock k => k | _ => cfg_mclock opts end /\
  cfg_aclock (opts ++ [o]) = match o with CClock k | CResClock k | CActiveClock k => k | _ => cfg_aclock opts end.
Proof. exact cfg_event_clocks_last. Qed.

Theorem C19_config_panics_iff : forall opts,
  new_model opts = None <->
  (exists ms m, In (CInitial ms) opts /\ In m ms /\ mid m = EmptyString) \/ ~ NoDup (keys (cfg_records opts)).
Proof. exact new_model_panics_iff. Qed.
Print Assumptions C19_config_panics_iff.

(* deleting an absent mode on a model constructed with the active value a0: as C19_delete_absent,
   the excluded id is that of a0 (DeleteMode refuses the id of the active value, stored or not) *)
Theorem C19_delete_absent_config : forall a0 s now id allow, InvG a0 s ->
  id <> EmptyString -> id <> mid a0 -> has id (modes s) = false ->
  step s now (ODelete id allow) = (s, if allow then ok_ None else err_ cNotFound) /\
  step s now (SDelete id allow) = (s, if allow then ok_ None else err_ cNotFound).
Proof. intros a0. exact (@delete_absent_gen a0). Qed.
Print Assumptions C19_delete_absent_config.

(* non-vacuity: WithInitialMode twice, the normal mode in the first use and none in the last *)
Example C19_config_nonvacuous :
  exists s0, new_model [CClock 1; CInitial [ma]; CInitial [mc; mb]; CRng] = Some s0 /\
  modes s0 = [ma; mb; mc] /\ normal_count (cfg_records [CClock 1; CInitial [ma]; CInitial [mc; mb]; CRng]) <= 1 /\
  rcode (snd (step s0 10 (OAdd md))) = cAlreadyExists /\
  rcode (snd (step s0 10 (OUpdate (mkM "b" "boost" true None) None))) = cAlreadyExists /\
  mid (active (fst (step s0 10 SClear))) = "a"%string.
Proof. exact config_nonvacuous. Qed.

(* ------------------------------------------------------------------ UpdateMode with write options *)
(* Electric/UpdateOpts.v: Model.UpdateMode with update mask x WithCreateIfAbsent x reset mask on a
   store whose keys are kept apart from the bodies (updateMode + Collection.Update + FieldUpdater.Merge).
   [wf_store]: every body is stored under its own id, keys are distinct, at most one body is normal. *)
Theorem C19_update_options_keep_store : forall us l, wf_store l ->
  wf_store (fold_left (fun l u => fst (fst (update_w true l (fst u) (snd u)))) us l).
Proof. exact updates_w_wf. Qed.
Print Assumptions C19_update_options_keep_store.

Theorem C19_update_options_step : forall l m w, wf_store l -> wf_store (fst (fst (update_w true l m w))).
Proof. exact update_w_wf. Qed.
Print Assumptions C19_update_options_step.

Theorem C19_update_returns_id : forall l m w l' b, update_w true l m w = (l', 0, Some b) -> mid b = mid m.
Proof. exact update_w_returns_id. Qed.
Print Assumptions C19_update_returns_id.

(* the code before repair 76cf766 (no id-restoring interceptor): refuted for create-if-absent
   without a reset mask and for a reset mask without create-if-absent *)
Theorem C19_update_options_v0_refuted :
  (exists l m w, keyed l /\ ~ keyed (fst (fst (update_w false l m w))) /\ w_reset w = None) /\
  (exists l m w, keyed l /\ ~ keyed (fst (fst (update_w false l m w))) /\ w_create w = false).
Proof. exact keyed_v0_refuted. Qed.

Example C19_update_options_nonvacuous :
  update_w true [] (mkM "x" "T" false None) (mkW (Some ["title"%string]) true None)
    = ([("x"%string, mkM "x" "T" false None)], 0, Some (mkM "x" "T" false None)) /\
  update_w true [("b"%string, mkM "b" "" false None)] (mkM "b" "z" false None) (mkW None false (Some ["id"%string]))
    = ([("b"%string, mkM "b" "z" false None)], 0, Some (mkM "b" "z" false None)) /\
  snd (fst (update_w true [] (mkM "x" "T" false None) (mkW (Some ["title"%string]) false None))) = cNotFound /\
  snd (fst (update_w true [] (mkM "x" "T" false None) (mkW None true (Some ["bogus"%string])))) = cInternal.
Proof. exact update_w_nonvacuous. Qed.

(* ------------------------------------------------------------------ final wave: gaps of notes/C19.md closed *)
(* (a) ONE model of the update path: [do_update] - what [step] runs for OUpdate/SUpdate, on the list
   of bodies - is [update_w] of Electric/UpdateOpts.v (keys apart from the bodies) restricted to a plain
   mask, under the abstraction [kstore_of] = every body under its own id; for every state, message
   and mask, and for all sequences; every keyed store is such an abstraction. *)
Theorem C19_update_refines_options : forall s m mask,
  update_w true (kstore_of (modes s)) m (plain mask) =
    (kstore_of (modes (fst (do_update true s m mask))),
     rcode (snd (do_update true s m mask)), rret (snd (do_update true s m mask))) /\
  step s 0 (OUpdate m mask) = do_update true s m mask.
Proof. intros s m mask. split; [apply update_w_plain_is_do_update|reflexivity]. Qed.
Print Assumptions C19_update_refines_options.

Theorem C19_update_refines_options_keyed : forall l a ch m mask, keyed l ->
  let sr := do_update true (mkState (bodies l) a ch) m mask in
  update_w true l m (plain mask) = (kstore_of (modes (fst sr)), rcode (snd sr), rret (snd sr)).
Proof. exact update_w_plain_on_keyed. Qed.
Print Assumptions C19_update_refines_options_keyed.

Theorem C19_update_refines_options_run : forall us now s,
  fold_left (fun l u => fst (fst (update_w true l (fst u) (plain (snd u))))) us (kstore_of (modes s)) =
  kstore_of (modes (run s (map (upd_op now) us))).
Proof. exact updates_plain_refine. Qed.
Print Assumptions C19_update_refines_options_run.

Example C19_update_refines_nonvacuous :
  let s := mkState [mkM "a" "A" true None; mkM "b" "B" false None] blank false in
  update_w true (kstore_of (modes s)) (mkM "b" "Z" false None) (plain (Some ["title"%string]))
    = ([("a"%string, mkM "a" "A" true None); ("b"%string, mkM "b" "Z" false None)], 0, Some (mkM "b" "Z" false None)) /\
  do_update true s (mkM "b" "Z" false None) (Some ["title"%string])
    = (mkState [mkM "a" "A" true None; mkM "b" "Z" false None] blank false, ok_ (Some (mkM "b" "Z" false None))) /\
  snd (fst (update_w true (kstore_of (modes s)) (mkM "b" "" true None) (plain None))) = cAlreadyExists /\
  rcode (snd (do_update true s (mkM "b" "" true None) None)) = cAlreadyExists.
Proof. exact update_refine_nonvacuous. Qed.

(* (b) clause 6 without the "id is non-empty" guard of C19_delete_absent: deleting an absent id never
   changes the state and its result is decided completely - FailedPrecondition exactly when no
   activating call has succeeded yet AND the id is that of the configured active value (the empty id
   for a default model), else NotFound / success with allow-missing; the rpc rejects the empty id first. *)
Theorem C19_delete_absent_exact : forall a0 s now id allow, InvG a0 s -> has id (modes s) = false ->
  step s now (ODelete id allow) =
    (s, if String.eqb id (mid (active s)) then err_ cFailedPrecondition
        else if allow then ok_ None else err_ cNotFound) /\
  step s now (SDelete id allow) =
    (s, if is_empty id then err_ cInvalidArgument
        else if String.eqb id (mid (active s)) then err_ cFailedPrecondition
        else if allow then ok_ None else err_ cNotFound) /\
  (String.eqb id (mid (active s)) = true <-> changed s = false /\ id = mid a0).
Proof. intros a0. exact (@delete_absent_exact a0). Qed.
Print Assumptions C19_delete_absent_exact.

Theorem C19_delete_absent_once_changed : forall a0 s now id allow, InvG a0 s ->
  changed s = true -> has id (modes s) = false ->
  step s now (ODelete id allow) = (s, if allow then ok_ None else err_ cNotFound).
Proof. intros a0. exact (@delete_absent_once_changed a0). Qed.
Print Assumptions C19_delete_absent_once_changed.

Example C19_delete_absent_exact_nonvacuous :
  Inv (init_state []) /\ has EmptyString (modes (init_state [])) = false /\
  step (init_state []) 1 (ODelete EmptyString true) = (init_state [], err_ cFailedPrecondition) /\
  step (init_state []) 1 (ODelete "x"%string true) = (init_state [], ok_ None) /\
  step (init_state []) 1 (ODelete "x"%string false) = (init_state [], err_ cNotFound).
Proof. exact delete_absent_exact_nonvacuous. Qed.

(* (c) the RESULTS of the calls are part of the atomicity theorem (Electric/FineResults.v): the fine
   execution logs (thread, result) when a call reaches its return and releases Model.mu, the coarse
   schedule logs the results of [step].  Any number of threads, ANY interleaving of single resource
   calls: same pending operations, same state, same log; while a call is in progress the coarse log
   is one entry ahead - the result that call returns when run alone. *)
Theorem C19_fine_grained_results : forall fsched threads s0,
  let c := frun fsched (finit threads s0) in
  let l := snd (frun_log fsched (finit threads s0, [])) in
  exists sched,
    let cl := snd (crun_log sched ((threads, s0), [])) in
    map pending (fths c) = fst (crun sched (threads, s0)) /\
    match fowner c with
    | None => fstate c = run_sched sched threads s0 /\ l = cl
    | Some i => exists p r tr rs, nth_error (fths c) i = Some (TIn p r) /\
                                  runs p (fstate c) tr (run_sched sched threads s0) rs /\
                                  cl = (l ++ [(i, rs)])%list
    end.
Proof. exact fine_results_are_coarse. Qed.
Print Assumptions C19_fine_grained_results.

(* ... at quiescence: what the calls returned, in the order they returned, is what the sequential
   run of an interleaving of the threads returns, and the state is its final state *)
Theorem C19_fine_grained_results_sequential : forall fsched threads s0,
  let c := frun fsched (finit threads s0) in
  let l := snd (frun_log fsched (finit threads s0, [])) in
  fowner c = None ->
  exists ops, interleaves threads ops /\ fstate c = run s0 ops /\
              map snd l = map snd (trace_gen step s0 ops).
Proof. exact fine_results_sequential. Qed.
Print Assumptions C19_fine_grained_results_sequential.

(* ... with the thread of every entry: at quiescence the log IS the list of (thread that took the turn,
   result of [step] at that place of the linearization) of some coarse schedule *)
Theorem C19_fine_grained_results_tagged : forall fsched threads s0,
  let c := frun fsched (finit threads s0) in
  let l := snd (frun_log fsched (finit threads s0, [])) in
  fowner c = None ->
  exists sched,
    fstate c = run s0 (linearize sched threads) /\
    map pending (fths c) = fst (crun sched (threads, s0)) /\
    l = combine (sched_tids sched threads) (map snd (trace_gen step s0 (linearize sched threads))).
Proof. exact fine_results_tagged. Qed.
Print Assumptions C19_fine_grained_results_tagged.

(* ... and per thread: thread j's entries of the tagged linearization, in order, followed by what is
   still pending in thread j, are thread j's program - the k-th result thread j received is the result
   [step] gives for ITS k-th operation at that operation's place in the sequential order *)
Theorem C19_fine_grained_results_per_thread : forall fsched threads s0,
  let c := frun fsched (finit threads s0) in
  let l := snd (frun_log fsched (finit threads s0, [])) in
  fowner c = None ->
  exists lt : list (nat * top),
    fstate c = run s0 (map snd lt) /\
    l = combine (map fst lt) (map snd (trace_gen step s0 (map snd lt))) /\
    forall j, (map snd (filter (fun p => Nat.eqb (fst p) j) lt) ++ nth j (map pending (fths c)) [])%list
              = nth j threads [].
Proof. exact fine_results_per_thread. Qed.
Print Assumptions C19_fine_grained_results_per_thread.

(* a program run alone has one outcome, and it is the atomic step's: strengthens
   C19_programs_are_steps from "there is a run ending in step's state and result" to "every run does" *)
Theorem C19_program_runs_only_step : forall now o s tr s' r,
  runs (prog_of now o) s tr s' r -> s' = fst (step s now o) /\ r = snd (step s now o).
Proof. exact prog_runs_only_step. Qed.
Print Assumptions C19_program_runs_only_step.

Theorem C19_fine_log_is_fine_run : forall sched c l, fst (frun_log sched (c, l)) = frun sched c.
Proof. exact frun_log_fst. Qed.
Print Assumptions C19_fine_log_is_fine_run.

Example C19_fine_grained_results_nonvacuous :
  let cl := frun_log [0; 1; 0; 1; 0; 1; 0; 1; 1; 1; 1]%nat (finit race_threads (init_state race_initial), []) in
  fowner (fst cl) = None /\
  map (fun p => (fst p, rcode (snd p))) (snd cl) = [(0%nat, 0); (1%nat, cFailedPrecondition)] /\
  let cl' := frun_log [1; 0; 1; 0; 1; 0; 1; 0; 0; 0; 0]%nat (finit race_threads (init_state race_initial), []) in
  fowner (fst cl') = None /\
  map (fun p => (fst p, rcode (snd p))) (snd cl') = [(1%nat, 0); (0%nat, cNotFound)].
Proof. exact fine_results_nonvacuous. Qed.

(* (d) configurations x concurrency x streams: from EVERY option list NewModel accepts, the invariant
   (and the well-formedness of the keyed store) holds under any fine-grained schedule whenever no call
   is in progress; and the stream theorem holds for every history from every configuration. *)
Theorem C19_config_fine_grained_invariants : forall opts s0 fsched threads, new_model opts = Some s0 ->
  normal_count (cfg_records opts) <= 1 ->
  let c := frun fsched (finit threads s0) in
  fowner c = None ->
  InvG (cfg_active opts) (fstate c) /\ wf_store (kstore_of (modes (fstate c))).
Proof. exact config_fine_invariants. Qed.
Print Assumptions C19_config_fine_grained_invariants.

Theorem C19_config_streams_follow_model : forall opts s0 steps, new_model opts = Some s0 ->
  normal_count (cfg_records opts) <= 1 ->
  let me := fst (predict s0 (active s0) steps) in
  let ae := snd (predict s0 (active s0) steps) in
  views_ok (modes s0) me = true /\
  fold_left apply_event me (modes s0) = modes (run s0 steps) /\
  lastd ae (cfg_active opts) = active (run s0 steps) /\
  (ae <> [] -> changed (run s0 steps) = true /\ has (mid (active (run s0 steps))) (modes (run s0 steps)) = true).
Proof. exact config_streams_follow_model. Qed.
Print Assumptions C19_config_streams_follow_model.

Example C19_config_streams_nonvacuous :
  let opts := [CClock 1; CInitial [ma]; CActive false mb; CInitial [mc; mb]; CRng] in
  exists s0, new_model opts = Some s0 /\ normal_count (cfg_records opts) <= 1 /\ active s0 = mb /\
  let steps := [(10, OAdd (mkM "x" "X" false None)); (20, SClear); (30, ODelete "x"%string false)] in
  fst (predict s0 (active s0) steps) =
    [MAdd (mkM "x" "X" false None); MRemove (mkM "x" "X" false None)] /\
  snd (predict s0 (active s0) steps) = [mkM "a" "normal" true (Some 20)].
Proof. exact config_streams_nonvacuous. Qed.

(* Print Assumptions for every theorem above that did not have its own line yet *)
Print Assumptions C19_clear_rpc_is_clear.
Print Assumptions C19_judge_never_2.
Print Assumptions C19_op_locked.
Print Assumptions C19_at_most_one_normal_v0_refuted.
Print Assumptions C19_delete_absent_v0_refuted.
Print Assumptions C19_config_event_clocks.
Print Assumptions C19_update_options_v0_refuted.
