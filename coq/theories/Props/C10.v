(* C10 - Subscriptions and the event bus shut down cleanly under any timing.
   Theorems only.  Models: Bus/Bus.v (internal/minibus/bus.go as a transition system over the
   atomic steps of its goroutines) and Bus/Pipe.v (the goroutines between a listener channel and
   the consumer: DropExcess, mergeCollectionExcess, the forwarders of Value.Pull, Collection.Pull
   and Collection.PullID).  Proofs: Bus/BusProofs.v, Bus/PipeProofs.v.

   Every theorem quantifies over ALL schedules: [run (init n) tr = Some c] says that tr is an
   arbitrary executable sequence of atomic steps - any interleaving of any number of listeners,
   n sender threads, cancels of listen and send contexts, consumers that receive or do not - from
   the empty bus.  Fairness is never assumed silently: the liveness statements are given as a
   measure that every step of a named set of goroutines decreases, that no step increases, and
   that is positive only while one of those goroutines is enabled. *)
From SC Require Import Resource.Pull.
From SC Require Import Base.Prelude Bus.Bus Bus.Pipe Bus.BusProofs Bus.PipeProofs Bus.BusHist Bus.PipeStages Bus.Res Bus.ResProofs Bus.PipeHeld Bus.PipeHeldProofs Bus.PipeHeldWf Bus.PipeHeldTerm Bus.ResTurnstile.

(* ---- no send on a closed channel ---- *)
(* no goroutine is ever blocked sending on a closed channel (which would panic at the close)
   and no rendezvous ever targets a closed channel *)
Theorem C10_no_send_on_closed : forall n tr c,
  run (init n) tr = Some c ->
  panics c = false /\
  (forall s c' X l o r g sn L, step c (LDeliver s) = Some c' ->
     nth_error (ss c) s = Some X -> s_pc X = SSel l o r g sn -> nth_error (ls c) l = Some L ->
     l_closed L = false).
Proof. exact no_send_on_closed. Qed.
Print Assumptions C10_no_send_on_closed.

(* a channel is closed only by its own cancel *)
Theorem C10_closed_only_after_cancel : forall n tr c k K,
  run (init n) tr = Some c -> nth_error (ls c) k = Some K -> l_closed K = true -> l_cancel K = true.
Proof. exact closed_only_after_cancel. Qed.
Print Assumptions C10_closed_only_after_cancel.

(* ---- cancel closes the listener channel, whatever everybody else does ----
   mu k: 2N+3 / 2N+2 while the watcher has not yet asked for the lock, 1 + (senders inside the
   select of k) while it waits for it, 0 when it has closed the channel and ended.
   (1) no step of anybody increases mu k and every helper step (the watcher of k; a sender
       leaving the select of k while the watcher waits) decreases it;
   (2) while mu k > 0 a helper step is enabled - nothing other goroutines do or fail to do
       (consumers that stopped receiving, blocked or cancelled senders) can block the shutdown;
   (3) mu k = 0 iff the watcher has ended and the channel is closed;
   (4) along any continuation, after mu k helper steps the channel is closed.
   Weak fairness (an enabled goroutine is eventually scheduled) turns (1)-(4) into "eventually
   closed"; the Go scheduler itself is outside the model. *)
Theorem C10_cancel_closes : forall n tr c k K,
  run (init n) tr = Some c -> nth_error (ls c) k = Some K -> l_cancel K = true ->
  (forall a c', step c a = Some c' ->
     (mu k c' <= mu k c)%nat /\ (helper k c a = true -> (mu k c' < mu k c)%nat)) /\
  ((mu k c > 0)%nat -> exists a c', helper k c a = true /\ step c a = Some c') /\
  (mu k c = 0%nat <-> (l_w K = WDone /\ l_closed K = true)) /\
  (forall tr' c', run c tr' = Some c' -> (helper_steps k c tr' >= mu k c)%nat ->
     exists K', nth_error (ls c') k = Some K' /\ l_w K' = WDone /\ l_closed K' = true).
Proof. exact cancel_closes. Qed.
Print Assumptions C10_cancel_closes.

(* ---- an event reaches every listener that is live for the whole send, exactly once, in order ----
   C10_delivered_when_live:
   (1) the snapshot of a Send contains every listener whose Listen has returned and that is not
       cancelled when the Send starts;
   (2) when the Send is about to return true, every listener of its snapshot that is still not
       cancelled has received the event (s, n) of this call.
   C10_exactly_once_in_order: in every listener's log (newest first) the call numbers of one
   sender strictly decrease towards the past - per-sender order, no event twice - and only
   events of calls that were made appear. *)
Theorem C10_delivered_when_live : forall n tr c s X,
  run (init n) tr = Some c -> nth_error (ss c) s = Some X ->
  (forall c' X', step c (LCall s) = Some c' -> nth_error (ss c') s = Some X' ->
     forall k K, nth_error (ls c) k = Some K -> l_reg K = true -> l_cancel K = false ->
       In k (snap_of (s_pc X'))) /\
  (forall g sn, s_pc X = SLoop [] g sn ->
     forall l, In l sn -> exists L, nth_error (ls c) l = Some L /\
       (l_cancel L = true \/ In (s, s_calls X) (l_log L))).
Proof. exact delivered_when_live. Qed.
Print Assumptions C10_delivered_when_live.

Theorem C10_exactly_once_in_order : forall n tr c l L,
  run (init n) tr = Some c -> nth_error (ls c) l = Some L ->
  sorted_log (l_log L) /\ NoDup (l_log L) /\
  (forall s X m, nth_error (ss c) s = Some X -> In (s, m) (l_log L) -> (m <= s_calls X)%nat).
Proof. exact exactly_once_in_order. Qed.
Print Assumptions C10_exactly_once_in_order.

(* two senders, two deliveries to one listener: the log is non-trivial *)
Example C10_nonvacuous_log : exists c L,
  run (init 2) [LListen; LRegister 0; LCall 0; LCall 1; LRLock 1; LRecvStart 0; LDeliver 1;
                LRLock 0; LRecvStart 0; LDeliver 0; LFinish 0; LFinish 1]%nat = Some c /\
  nth_error (ls c) 0 = Some L /\ l_log L = [(0, 1); (1, 1)]%nat.
Proof. eexists. eexists. split; [reflexivity|]. split; reflexivity. Qed.

(* ---- other senders and subscribers are not affected by a cancelled or abandoned one ----
   a sender that cannot move is either waiting for the read lock of a CANCELLED listener whose
   stop has asked for the lock (bounded by C10_cancel_closes: mu helper steps, all enabled), or
   it is in the select of a listener that is NOT cancelled, with its own context alive and that
   listener's consumer not receiving (the backpressure of a live subscription).  Nothing else
   ever blocks a sender; in particular no cancelled listener holds one in its select. *)
Theorem C10_others_unaffected : forall n tr c s X,
  run (init n) tr = Some c -> nth_error (ss c) s = Some X -> blocked_sender c s ->
  (exists l r g sn L, s_pc X = SLoop (l :: r) g sn /\ nth_error (ls c) l = Some L /\
                      l_w L = WPending /\ l_cancel L = true)
  \/ (exists l o r g sn L, s_pc X = SSel l o r g sn /\ nth_error (ls c) l = Some L /\
                      l_cancel L = false /\ s_cancel X = false /\ (l_rcv L = false \/ o = false)).
Proof. exact others_unaffected. Qed.
Print Assumptions C10_others_unaffected.

(* a sender blocked by the backpressure of a live listener exists (the clause is not vacuous) *)
Example C10_nonvacuous_backpressure :
  exists c X, run (init 1) [LListen; LRegister 0; LCall 0; LRLock 0]%nat = Some c /\
    nth_error (ss c) 0 = Some X /\ blocked_sender c 0%nat.
Proof. eexists. eexists. split; [reflexivity|]. split; [reflexivity|]. repeat split; reflexivity. Qed.

(* ---- the goroutines behind a subscription all end once the listener channel is closed ----
   every schedule of the chain after the close is at most pmeasure long (so no fairness is
   needed at all: whatever runs, runs out) ... *)
Theorem C10_pipe_terminates : forall tr p p',
  p_src_closed p = true -> p_cancel p = true -> prun p tr = Some p' ->
  (List.length tr + pmeasure p' <= pmeasure p)%nat.
Proof. exact (pipe_terminates true). Qed.
Print Assumptions C10_pipe_terminates.

(* ... and it cannot stop early: while a stage is left, the first stage that has not ended can
   move - it returns (closing its output) or, for changesAfter holding a change (it has no ctx
   case), hands the change to mergeCollectionExcess behind it, which always receives.  So the
   maximal schedules end with every goroutine gone and the consumer's channel closed.
   [after_ok]: every changesAfter stage is directly followed by an always-receiving stage; it
   holds for the chains the code builds and C10_pipe_shape_invariant shows every step keeps it. *)
Theorem C10_pipe_progress : forall p,
  p_src_closed p = true -> p_cancel p = true -> after_ok (p_stages p) = true -> all_stages_done p = false ->
  exists i p', pstep p (PExit i) = Some p' \/ pstep p (PXfer i) = Some p'.
Proof. exact (pipe_progress true). Qed.
Print Assumptions C10_pipe_progress.

Theorem C10_pipe_shape_invariant : forall p a p',
  after_ok (p_stages p) = true -> pstep p a = Some p' -> after_ok (p_stages p') = true.
Proof. exact (after_ok_step true). Qed.
Print Assumptions C10_pipe_shape_invariant.

Example C10_nonvacuous_chains :
  after_ok [StAfter None; StMerge []; StFwd [mkM 1 1 5] None; StPullID 1 None] = true /\
  after_ok [StDrop None; StFwd [] None] = true /\ after_ok [StFwd [] None] = true.
Proof. repeat split; reflexivity. Qed.

Theorem C10_pipe_close_needs_cancel : forall tr stages p,
  prun (init_pipe stages) tr = Some p -> p_src_closed p = true -> p_cancel p = true.
Proof. exact src_closed_cancelled. Qed.
Print Assumptions C10_pipe_close_needs_cancel.

(* ---- a single-item subscription ends when the item is removed ----
   the REMOVE of its id makes PullID return (its channel is closed) and cancels the context of
   the inner Pull, after which C10_cancel_closes and C10_pipe_terminates apply to it *)
Theorem C10_pullid_ends_on_remove : forall p i st m id,
  stage_at p i = Some st -> offer st = Some m ->
  stage_at p (S i) = Some (StPullID id None) -> m_id m = id -> m_kind m = 3 ->
  exists p', pstep p (PXfer i) = Some p' /\ stage_at p' (S i) = Some StDone /\ p_cancel p' = true.
Proof. exact pullid_ends_on_remove. Qed.
Print Assumptions C10_pullid_ends_on_remove.

(* before /repo 728882a (model pstep_v0): after the REMOVE the consumer's channel is closed,
   nobody has cancelled, the inner forwarder holds the next change for ever, and no step but a
   cancel is possible - in particular the bus can never deliver to this listener again, so with
   backpressure every later Bus.Send(context.TODO()) blocks *)
Theorem C10_pullid_v0_refuted : exists p,
  prun_v0 (init_pipe [StFwd [] None; StPullID 3 None]) v0_witness_trace = Some p /\
  p_cancel p = false /\ input_closed p 2 = true /\ stage_at p 0 = Some (StFwd [] (Some (mkM 3 1 6))) /\
  (forall a, a <> PCancel -> pstep_v0 p a = None).
Proof. exact pullid_v0_stuck. Qed.
Print Assumptions C10_pullid_v0_refuted.

(* ---- non-vacuity ---- *)
Example C10_nonvacuous_window :
  exists c, run (init 1) [LListen; LRegister 0; LCall 0; LRLock 0; LCancel 0; LWake 0; LLockReq 0]%nat = Some c
            /\ step c (LStop 0%nat) = None /\ step c (LSelListenCtx 0%nat) <> None.
Proof. exact window_reachable. Qed.

Example C10_nonvacuous_lock_matters :
  exists c L, run (init 1) [LListen; LRegister 0; LCall 0; LRLock 0; LCancel 0; LWake 0; LLockReq 0]%nat = Some c
    /\ nth_error (ls c) 0 = Some L
    /\ panics (set_l c 0%nat (mkL (l_cancel L) true WDone (l_reg L) (l_rcv L) (l_sawclose L) (l_log L))) = true.
Proof. exact unlocked_stop_panics. Qed.

Example C10_nonvacuous_pullid_fixed : exists p,
  prun (init_pipe [StFwd [] None; StPullID 3 None]) [PSrc (mkM 3 1 5); PXfer 0; PXfer 1; PSrc (mkM 3 3 0); PXfer 0] = Some p /\
  p_cancel p = true /\ input_closed p 2 = true /\
  exists p', prun p [PSrcClose; PExit 0%nat] = Some p' /\ all_stages_done p' = true.
Proof. exact pullid_fixed_same_schedule. Qed.

(* ======================================================================================
   Whole histories of the bus: listeners added / cancelled / collected while Sends overlap
   ====================================================================================== *)

(* ONE statement for "an event reaches every listener that is live for the whole send exactly
   once": whatever happens between the start of a Send (LCall) and its `return true` (LFinish) -
   other Sends overlapping, listeners registering, cancels, collects by other senders - every
   listener registered before the call and not cancelled at the return has the event, and has
   no event twice. *)
Theorem C10_send_history : forall n tr1 c1 s c2 tr2 c3 c4 X2 X3,
  run (init n) tr1 = Some c1 -> step c1 (LCall s) = Some c2 -> run c2 tr2 = Some c3 ->
  step c3 (LFinish s) = Some c4 ->
  nth_error (ss c2) s = Some X2 -> nth_error (ss c3) s = Some X3 -> s_calls X3 = s_calls X2 ->
  forall k K1 K4, nth_error (ls c1) k = Some K1 -> l_reg K1 = true ->
    nth_error (ls c4) k = Some K4 -> l_cancel K4 = false ->
    In (s, s_calls X2) (l_log K4) /\ NoDup (l_log K4).
Proof. exact send_history. Qed.
Print Assumptions C10_send_history.

(* Bus.listeners under any interleaving of Listen, collect and Send: never a listener twice (so a
   Send never serves one twice), always every registered listener that is not cancelled (collect
   never drops a live one, a registration is never overwritten), only registered listeners *)
Theorem C10_collect_keeps_live : forall n tr c, run (init n) tr = Some c ->
  NoDup (blist c) /\
  (forall k K, nth_error (ls c) k = Some K -> l_reg K = true -> l_cancel K = false -> In k (blist c)) /\
  (forall k, In k (blist c) -> exists K, nth_error (ls c) k = Some K /\ l_reg K = true).
Proof. exact collect_keeps_live. Qed.
Print Assumptions C10_collect_keeps_live.

(* "never reaches a channel after it was closed", as a statement about the rest of the history *)
Theorem C10_log_frozen_after_close : forall n tr c tr' c' k K,
  run (init n) tr = Some c -> nth_error (ls c) k = Some K -> l_closed K = true -> run c tr' = Some c' ->
  exists K', nth_error (ls c') k = Some K' /\ l_log K' = l_log K /\ l_closed K' = true.
Proof. exact log_frozen_after_close. Qed.
Print Assumptions C10_log_frozen_after_close.

(* ======================================================================================
   One theorem per forwarding goroutine: input closed or context cancelled => it returns
   (closing its output); no goroutine sends on a closed channel; composition
   ====================================================================================== *)
(* DropExcess (internal/minibus/util.go): returns as soon as its input is closed, whatever it holds *)
Theorem C10_stage_drop_exits : forall p i h, stage_at p i = Some (StDrop h) -> input_closed p i = true ->
  pstep p (PExit i) = Some (set_stage p i StDone).
Proof. exact stage_drop_exits. Qed.
(* mergeCollectionExcess (pkg/resource/backpressure.go): the same, the queue is dropped *)
Theorem C10_stage_merge_exits : forall p i q, stage_at p i = Some (StMerge q) -> input_closed p i = true ->
  pstep p (PExit i) = Some (set_stage p i StDone).
Proof. exact stage_merge_exits. Qed.
(* changesAfter (pkg/resource/collection.go): no ctx case; holding a change it first hands it to the
   always-receiving stage behind it, then returns *)
Theorem C10_stage_after_exits : forall p i c, stage_at p i = Some (StAfter c) -> input_closed p i = true ->
  after_ok (p_stages p) = true ->
  match c with
  | None => pstep p (PExit i) = Some (set_stage p i StDone)
  | Some m => exists p', pstep p (PXfer i) = Some p' /\ stage_at p' i = Some (StAfter None) /\
                         input_closed p' i = true
  end.
Proof. exact stage_after_exits. Qed.
(* the forwarders of Value.Pull / Collection.Pull: waiting for input they return when it is closed;
   holding a seed or a change they return when the context is done *)
Theorem C10_stage_fwd_exits : forall p i sd c, stage_at p i = Some (StFwd sd c) ->
  (accepting (StFwd sd c) = true -> input_closed p i = true ->
     pstep p (PExit i) = Some (set_stage p i StDone)) /\
  (accepting (StFwd sd c) = false -> p_cancel p = true ->
     pstep p (PExit i) = Some (set_stage p i StDone)).
Proof. exact stage_fwd_exits. Qed.
(* the forwarder of Collection.PullID *)
Theorem C10_stage_pullid_exits : forall p i id c, stage_at p i = Some (StPullID id c) ->
  (accepting (StPullID id c) = true -> input_closed p i = true ->
     pstep p (PExit i) = Some (set_stage p i StDone)) /\
  (accepting (StPullID id c) = false -> p_cancel p = true ->
     pstep p (PExit i) = Some (set_stage p i StDone)).
Proof. exact stage_pullid_exits. Qed.
Print Assumptions C10_stage_after_exits.

(* a transfer never uses a closed channel: the channel between stage i and i+1 is closed exactly
   when stage i has returned, and the source channel takes no event once closed *)
Theorem C10_pipe_no_send_on_closed : forall p,
  (forall i p', pstep p (PXfer i) = Some p' -> input_closed p (S i) = false) /\
  (forall m p', pstep p (PSrc m) = Some p' -> p_src_closed p = false).
Proof. intros p. split; [exact (xfer_channel_open p) | exact (src_channel_open p)]. Qed.
Print Assumptions C10_pipe_no_send_on_closed.

(* a channel of the chain closes only after the cancel - or, for PullID, the REMOVE of its id,
   which cancels (PullID is never the first stage: it wraps an inner Pull) *)
Theorem C10_pipe_done_needs_cancel : forall tr stages p i,
  forallb fresh_stage stages = true -> head_not_pullid stages = true ->
  prun (init_pipe stages) tr = Some p -> stage_at p i = Some StDone -> p_cancel p = true.
Proof. exact done_needs_cancel. Qed.
Print Assumptions C10_pipe_done_needs_cancel.

(* composition: after the close a complete schedule exists, is at most pmeasure long, and any
   schedule that cannot be continued has ended every goroutine *)
Theorem C10_pipe_all_end : forall p, p_src_closed p = true -> p_cancel p = true -> after_ok (p_stages p) = true ->
  ((forall i, pstep p (PExit i) = None /\ pstep p (PXfer i) = None) -> all_stages_done p = true) /\
  (exists tr p', prun p tr = Some p' /\ all_stages_done p' = true /\ (List.length tr <= pmeasure p)%nat).
Proof. intros p H1 H2 H3. split; [exact (pipe_maximal_ends p H1 H2 H3) | exact (pipe_drains p H1 H2 H3)]. Qed.
Print Assumptions C10_pipe_all_end.

(* a subscription WITHOUT backpressure never makes the bus wait for its consumer *)
Theorem C10_nobp_never_blocks_bus :
  (forall p h r m, p_stages p = StDrop h :: r -> p_src_closed p = false -> exists p', pstep p (PSrc m) = Some p') /\
  (forall p c q r m, p_stages p = StAfter c :: StMerge q :: r -> p_src_closed p = false ->
     (exists p', pstep p (PSrc m) = Some p') \/
     (exists p1 p2, pstep p (PXfer 0) = Some p1 /\ pstep p1 (PSrc m) = Some p2)).
Proof. split; [exact nobp_drop_accepts | exact nobp_after_accepts]. Qed.
Print Assumptions C10_nobp_never_blocks_bus.

(* ======================================================================================
   The writers, readers and subscribers of a resource over the bus (Bus/Res.v): what
   "stalls writers or other subscribers" can and cannot mean.  [ts]: with / without the
   publishing turnstile - every statement holds for both.
   ====================================================================================== *)
(* the bus part of the composed system is a reachable bus configuration: all theorems above apply *)
Theorem C10_res_projects_to_bus : forall ts n tr C, rrun ts (rinit n) tr = Some C ->
  exists btr, run (init n) btr = Some (rb C).
Proof. exact projects_to_bus. Qed.
Print Assumptions C10_res_projects_to_bus.

(* c.mu is held across a blocking operation by at most ONE goroutine: a Delete between its commit
   and the return of its bus.Send (collection.go: Send is called before c.mu.Unlock) *)
Theorem C10_res_lock_holder : forall ts n tr C, rrun ts (rinit n) tr = Some C -> wfree C = false ->
  exists d m, (nth_error (rw C) d = Some (RDelHold m) \/ nth_error (rw C) d = Some (RDelSend m)) /\
    (forall d' p', nth_error (rw C) d' = Some p' -> holds_w p' = true -> d' = d) /\
    rfree C = true.
Proof. intros ts n tr C H. eapply lock_holder. eapply rrun_rreach. eauto. Qed.
Print Assumptions C10_res_lock_holder.

(* a writer that waits for c.mu waits for that Delete, or for a registration whose last step is enabled *)
Theorem C10_res_lock_wait : forall ts n tr C w p, rrun ts (rinit n) tr = Some C -> nth_error (rw C) w = Some p ->
  (p = RUpdLock \/ exists att, p = RDelLock att) ->
  rstep ts C (RUpdSave w) = None -> rstep ts C (RDelGiveUp w) = None ->
  wfree C = false \/
  (exists k, In (k, true) (rpend C) /\ exists C', rstep ts C (RSubEnd k) = Some C').
Proof. intros ts n tr C w p H. eapply lock_wait. eapply rrun_rreach. eauto. Qed.
Print Assumptions C10_res_lock_wait.

(* a committed writer that cannot publish waits - only with the turnstile - for the writer of the
   oldest unpublished commit, which is EARLIER, is past every acquisition of c.mu, and does not hold
   c.mu if the waiter does: the waits-for relation descends along commit numbers, no cycle *)
Theorem C10_res_turnstile_wait : forall ts n tr C w p m, rrun ts (rinit n) tr = Some C ->
  nth_error (rw C) w = Some p -> commit_of p = Some m -> in_send p = false ->
  rstep ts C (RPublish w) = None ->
  ts = true /\ (S (rdone C) < m)%nat /\
  exists u q, u <> w /\ nth_error (rw C) u = Some q /\ commit_of q = Some (S (rdone C)) /\
    (forall a, acquires_mu a u -> rstep ts C a = None) /\
    (holds_w p = true -> holds_w q = false).
Proof. intros ts n tr C w p m H. eapply turnstile_wait. eapply rrun_rreach. eauto. Qed.
Print Assumptions C10_res_turnstile_wait.

(* THE guarantee.  If no goroutine of the library can take a step while a call is in progress or a
   registration is pending, then some writer is inside bus.Send in the select of a listener that is
   NOT cancelled, whose consumer is not receiving, with its own context alive: the backpressure of
   a live subscriber is the only thing that ever holds the system - never a cancelled or abandoned
   subscriber, never c.mu by itself, never the turnstile. *)
Theorem C10_res_stuck_only_backpressure : forall ts n tr C,
  rrun ts (rinit n) tr = Some C -> stuck ts C -> busy C = true -> backpressured C.
Proof. intros ts n tr C H. eapply stuck_only_backpressure. eapply rrun_rreach. eauto. Qed.
Print Assumptions C10_res_stuck_only_backpressure.

(* no livelock: every step of a goroutine of the library decreases rmeasure *)
Theorem C10_res_steps_decrease : forall ts n tr C a C', rrun ts (rinit n) tr = Some C ->
  autonomous a = true -> rstep ts C a = Some C' -> (rmeasure C' < rmeasure C)%nat.
Proof. intros ts n tr C a C' H. eapply auto_decreases. eapply rrun_rreach. eauto. Qed.
Print Assumptions C10_res_steps_decrease.

(* after ITS cancel everything proceeds: once the subscribers of the resource are cancelled, every
   schedule of the library's goroutines is bounded by rmeasure, and where it ends every call has
   returned, c.mu is free, every watcher has ended and every listener channel is closed *)
Theorem C10_res_after_cancel_all_proceeds : forall ts n tr0 C tr C', rrun ts (rinit n) tr0 = Some C ->
  all_cancelled C = true -> forallb autonomous tr = true -> rrun ts C tr = Some C' ->
  (List.length tr + rmeasure C' <= rmeasure C)%nat /\
  (stuck ts C' ->
     busy C' = false /\ wfree C' = true /\ rpend C' = [] /\
     (forall w p, nth_error (rw C') w = Some p -> p = RIdle) /\
     (forall k L, nth_error (ls (rb C')) k = Some L -> l_w L = WDone /\ l_closed L = true)).
Proof. intros ts n tr0 C tr C' H. eapply after_cancel_all_proceeds. eapply rrun_rreach. eauto. Qed.
Print Assumptions C10_res_after_cancel_all_proceeds.

(* a Delete blocked in bus.Send under c.mu stalls Get, another writer's Update and a new Pull; the
   subscriber's cancel alone lets every goroutine run to the end (with and without the turnstile) *)
Example C10_nonvacuous_delete_blocks_everyone : forall ts, exists C,
  rrun ts (rinit 2) delete_blocked_trace = Some C /\
  rstep ts C RRead = None /\ rstep ts C (RUpdSave 1) = None /\ rstep ts C (RSubBegin false) = None /\
  rstep ts C (RUpdStart 1) = None /\
  (forall a, In a [RBus (LSelSendCtx 0); RBus (LSelListenCtx 0); RBus (LDeliver 0); RBus (LFinish 0); RReturn 0] ->
     rstep ts C a = None) /\
  exists C1 C2, rstep ts C (RBus (LCancel 0)) = Some C1 /\ rrun ts C1 after_cancel_trace = Some C2 /\
    forallb autonomous after_cancel_trace = true /\ busy C2 = false /\ wfree C2 = true /\
    rstep ts C2 RRead = Some C2.
Proof. exact delete_blocks_everyone. Qed.

Example C10_nonvacuous_turnstile_wait : exists C,
  rrun true (rinit 2) [RSubBegin false; RSubEnd 0; RUpdStart 1; RUpdSave 1; RDelStart 0; RDelTake 0;
                       RPublish 1; RBus (LRLock 1)]%nat = Some C /\
  nth_error (rw C) 0 = Some (RDelHold 2) /\ nth_error (rw C) 1 = Some (RUpdSend 1) /\
  rstep true C (RPublish 0) = None /\ rdone C = 0%nat /\ rstep true C RRead = None.
Proof. exact turnstile_wait_witness. Qed.

(* ==== round 4: the filters of the Collection.Pull forwarder; the turnstile ==== *)

(* ---- "a single-item subscription also ends when the item is removed", through the filters ----
   The forwarder of Collection.Pull does not hand on every change: include, then - for a collection
   with an equivalence - the comparison with the held map (Bus/PipeHeld.v = the loop body of the
   shared model Resource/Pull.v: include_gen, held_step).  A subscription can only end without a cancel
   through PullID seeing the REMOVE of its item, so the clause needs: a REMOVE of an item the
   subscription can see is ALWAYS sent on.
   C10_fwd_remove_forwarded: for every equivalence and include filter of the harness' families, every
   held map that holds values only, and the REMOVE of an item whose old value passes the filter: the
   forwarder sends exactly this REMOVE on (in particular when held has nothing for the id: updates-only
   subscription, item never written since).
   C10_fwd_keeps_held_some: that condition on held is an invariant of the loop over well-formed changes
   (it holds after the seed loop: held_init_some), also along every schedule of the chain (fstep).
   C10_fwd_history_remove_forwarded: over ANY history - any seeds, any number of well-formed changes
   before, delivered or suppressed - the REMOVE comes out, right after what the earlier changes
   produced. *)
Theorem C10_fwd_remove_forwarded : forall cfg h m,
  held_some h = true ->
  m_kind m = 3 /\ m_val m = 0 /\ m_old m <> 0 /\ visible cfg (m_id m) (m_old m) = true ->
  fst (fwd_in cfg h m) = Some m.
Proof. exact fwd_remove_forwarded. Qed.
Print Assumptions C10_fwd_remove_forwarded.

Theorem C10_fwd_keeps_held_some :
  (forall cfg seeds, forallb (fun m => negb (m_val m =? 0)) seeds = true -> held_some (held_init cfg seeds) = true) /\
  (forall cfg h m, held_some h = true -> wf_msg m = true -> held_some (snd (fwd_in cfg h m)) = true) /\
  (forall cfg F a F', held_some (fh F) = true -> inputs_wf F a -> fstep cfg F a = Some F' -> held_some (fh F') = true).
Proof. split; [exact held_init_some|]. split; [exact fwd_in_keeps_held_some | exact fstep_keeps_held_some]. Qed.
Print Assumptions C10_fwd_keeps_held_some.

Theorem C10_fwd_history_remove_forwarded : forall cfg seeds pre m post,
  forallb (fun s => negb (m_val s =? 0)) seeds = true ->
  forallb wf_msg pre = true ->
  m_kind m = 3 /\ m_val m = 0 /\ m_old m <> 0 /\ visible cfg (m_id m) (m_old m) = true ->
  exists out1 out2,
    fst (fwd_run cfg (held_init cfg seeds) (pre ++ m :: post)) = out1 ++ m :: out2 /\
    out1 = fst (fwd_run cfg (held_init cfg seeds) pre).
Proof. exact fwd_run_remove_forwarded. Qed.
Print Assumptions C10_fwd_history_remove_forwarded.

(* in the chain: the hand-over of such a REMOVE into an accepting forwarder (from the stage before
   it, or from the bus) leaves the forwarder offering it, and the PullID behind it then returns and
   cancels the whole chain, whose goroutines all end (C10_pipe_all_end) *)
Theorem C10_pullid_ends_on_remove_filtered : forall cfg F m,
  held_some (fh F) = true ->
  m_kind m = 3 /\ m_val m = 0 /\ m_old m <> 0 /\ visible cfg (m_id m) (m_old m) = true ->
  (forall i st, stage_at (fp F) i = Some st -> offer st = Some m -> stage_at (fp F) (S i) = Some (StFwd [] None) ->
     exists F', fstep cfg F (PXfer i) = Some F' /\ stage_at (fp F') (S i) = Some (StFwd [] (Some m)) /\
                held_some (fh F') = true) /\
  (stage_at (fp F) 0 = Some (StFwd [] None) -> p_src_closed (fp F) = false ->
     exists F', fstep cfg F (PSrc m) = Some F' /\ stage_at (fp F') 0 = Some (StFwd [] (Some m)) /\
                held_some (fh F') = true) /\
  (forall G i, stage_at (fp G) i = Some (StFwd [] (Some m)) -> stage_at (fp G) (S i) = Some (StPullID (m_id m) None) ->
     exists G', fstep cfg G (PXfer i) = Some G' /\ stage_at (fp G') (S i) = Some StDone /\ p_cancel (fp G') = true).
Proof.
  intros cfg F m Hh Hm. split; [|split].
  - intros i st H1 H2 H3. eapply fstep_remove_enters; eauto.
  - intros H1 H2. eapply fstep_remove_enters_src; eauto.
  - intros G i H1 H2. destruct Hm as (Hk & _). eapply fstep_pullid_ends_on_remove; eauto.
Qed.
Print Assumptions C10_pullid_ends_on_remove_filtered.

(* ---- the same along EVERY schedule, with no hypothesis on the state ----
   C10_filtered_chain_wf: from a fresh chain (stages as Pull / PullID start them, seeds carrying
   values), along any schedule whose bus deliveries are well-formed changes (ADD without old value,
   REMOVE without new one, everything else with both - what Collection's writes publish), every change
   held anywhere in the chain is well-formed (mergeChanges keeps them so: merge_wf) and held holds
   values only.
   C10_remove_ends_pullid_on_every_schedule: hence, in any state such a schedule reaches, the REMOVE of
   an item the subscription can see that is handed to the accepting forwarder (by the stage before it,
   or by the bus) is offered on by the forwarder, and a PullID of that item behind it returns and
   cancels the chain. *)
Theorem C10_filtered_chain_wf : forall cfg stages seeds tr F,
  forallb stage_wf stages = true -> forallb (fun s => negb (m_val s =? 0)) seeds = true ->
  srcs_wf tr -> frun cfg (init_fpipe cfg stages seeds) tr = Some F -> chain_wf F = true.
Proof.
  intros cfg stages seeds tr F H1 H2 H3 H4.
  exact (frun_chain_wf cfg tr _ F (init_chain_wf cfg stages seeds H1 H2) H3 H4).
Qed.
Print Assumptions C10_filtered_chain_wf.

Theorem C10_remove_ends_pullid_on_every_schedule : forall cfg stages seeds tr F m,
  forallb stage_wf stages = true -> forallb (fun s => negb (m_val s =? 0)) seeds = true ->
  srcs_wf tr -> frun cfg (init_fpipe cfg stages seeds) tr = Some F ->
  m_kind m = 3 /\ m_val m = 0 /\ m_old m <> 0 /\ visible cfg (m_id m) (m_old m) = true ->
  (forall i st, stage_at (fp F) i = Some st -> offer st = Some m -> stage_at (fp F) (S i) = Some (StFwd [] None) ->
     exists F', fstep cfg F (PXfer i) = Some F' /\ stage_at (fp F') (S i) = Some (StFwd [] (Some m)) /\
       forall id, stage_at (fp F') (S (S i)) = Some (StPullID id None) -> m_id m = id ->
         exists F'', fstep cfg F' (PXfer (S i)) = Some F'' /\
                     stage_at (fp F'') (S (S i)) = Some StDone /\ p_cancel (fp F'') = true) /\
  (stage_at (fp F) 0 = Some (StFwd [] None) -> p_src_closed (fp F) = false ->
     exists F', fstep cfg F (PSrc m) = Some F' /\ stage_at (fp F') 0 = Some (StFwd [] (Some m)) /\
       forall id, stage_at (fp F') 1 = Some (StPullID id None) -> m_id m = id ->
         exists F'', fstep cfg F' (PXfer 0) = Some F'' /\
                     stage_at (fp F'') 1 = Some StDone /\ p_cancel (fp F'') = true).
Proof. exact remove_ends_pullid_on_every_schedule. Qed.
Print Assumptions C10_remove_ends_pullid_on_every_schedule.

(* the whole schedule of the nonvacuity example below satisfies the hypotheses *)
Example C10_nonvacuous_schedule_hyps :
  forallb stage_wf [StFwd [] None; StPullID 1 None] = true /\
  srcs_wf [PSrc (mkMo 1 2 5 5); PSrc (mkMo 1 3 0 5); PXfer 0].
Proof. split; [reflexivity|]. simpl. repeat split; reflexivity. Qed.

(* ---- the filtered chain shuts down like the plain one ----
   after the listener channel is closed: a complete schedule exists, every schedule is at most pmeasure
   long (whatever the filters deliver, rewrite or suppress), and a schedule that cannot be continued has
   ended every goroutine; the shape changesAfter needs is kept by every step *)
Theorem C10_filtered_pipe_all_end : forall cfg F,
  p_src_closed (fp F) = true -> p_cancel (fp F) = true -> after_ok (p_stages (fp F)) = true ->
  (exists tr F', frun cfg F tr = Some F' /\ all_stages_done (fp F') = true /\ (List.length tr <= pmeasure (fp F))%nat) /\
  (forall tr F', frun cfg F tr = Some F' -> (List.length tr + pmeasure (fp F') <= pmeasure (fp F))%nat) /\
  ((forall i, fstep cfg F (PExit i) = None /\ fstep cfg F (PXfer i) = None) -> all_stages_done (fp F) = true).
Proof. exact fpipe_all_end. Qed.
Print Assumptions C10_filtered_pipe_all_end.

Theorem C10_filtered_shape_invariant : forall cfg F a F',
  after_ok (p_stages (fp F)) = true -> fstep cfg F a = Some F' -> after_ok (p_stages (fp F')) = true.
Proof. exact fstep_after_ok. Qed.
Print Assumptions C10_filtered_shape_invariant.

(* without an equivalence and an include filter the forwarder hands on every change unchanged: the
   filtered chain is the chain of Pipe.v *)
Theorem C10_fwd_plain : forall h m, (m_kind m = 1 \/ m_kind m = 2 \/ m_kind m = 3 \/ m_kind m = 4) ->
  fwd_in (mkFC EqNone IncNone) h m = (Some m, h).
Proof. exact fwd_in_plain. Qed.
Print Assumptions C10_fwd_plain.

(* not vacuous, and the equivalence does suppress things: WithNoDuplicates, updates-only, PullID of the
   existing item 1 (value 5): an UPDATE to the same value is suppressed, then the REMOVE goes through
   and ends the PullID and the chain *)
Example C10_nonvacuous_filtered_remove : exists F,
  frun (mkFC EqExact IncNone) (mkFP (init_pipe [StFwd [] None; StPullID 1 None]) (held_init (mkFC EqExact IncNone) []))
       [PSrc (mkMo 1 2 5 5); PSrc (mkMo 1 3 0 5); PXfer 0] = Some F /\
  stage_at (fp F) 1 = Some StDone /\ p_cancel (fp F) = true /\ p_out (fp F) = [] /\ fh F = [].
Proof. eexists. split; [vm_compute; reflexivity|]. repeat split; reflexivity. Qed.

(* the variant "a REMOVE is skipped when nothing was sent for the id" loses exactly that REMOVE *)
Theorem C10_held_step_skip_unsent_refuted :
  fst (held_step cmp_exact [] (to_cc (mkMo 1 3 0 5))) = true /\
  fst (held_step_skip_unsent cmp_exact [] (to_cc (mkMo 1 3 0 5))) = false.
Proof. exact held_step_skip_unsent_refuted. Qed.
Print Assumptions C10_held_step_skip_unsent_refuted.

(* ---- the publishing turnstile is left on every way out of Set / Update / Delete ----
   For every reachable configuration of the composed model WITH the turnstile: the commits in
   (rdone, rcommits] are exactly those some writer still carries; the writer inside bus.Send is the
   one commit rdone+1; and a writer whose Send has returned - delivered, listener cancelled, or given
   up on its own send context (Value.Set's 5 s budget) - returns, the counter moves to its commit and
   the writer of the next commit, if it waits at the turnstile, can publish at once. *)
Theorem C10_res_turnstile_pairing : forall n C, rreach true n C ->
  (rdone C <= rcommits C)%nat /\
  (forall m, (rdone C < m)%nat -> (m <= rcommits C)%nat ->
     exists w p, nth_error (rw C) w = Some p /\ commit_of p = Some m) /\
  (forall w p m, nth_error (rw C) w = Some p -> commit_of p = Some m -> (rdone C < m)%nat /\ (m <= rcommits C)%nat) /\
  (forall w p m, nth_error (rw C) w = Some p -> in_send p = true -> commit_of p = Some m -> m = S (rdone C)) /\
  (forall w p, nth_error (rw C) w = Some p -> in_send p = true -> sender_idle (rb C) w = true ->
     exists C' m, rstep true C (RReturn w) = Some C' /\ commit_of p = Some m /\ rdone C' = m /\
       forall u q, nth_error (rw C') u = Some q -> commit_of q = Some (S m) -> in_send q = false ->
         rstep true C' (RPublish u) <> None).
Proof. exact turnstile_pairing. Qed.
Print Assumptions C10_res_turnstile_pairing.

(* the leave placed after the give-up return (rstep_leaky): every subscriber cancelled, a call in
   progress, and no goroutine of the library can ever step again - against
   C10_res_stuck_only_backpressure / C10_res_after_cancel_all_proceeds, which hold of the real model *)
Theorem C10_res_leave_skipped_on_giveup_refuted : exists C,
  rrun_leaky (rinit 2) giveup_trace = Some C /\
  all_cancelled C = true /\ busy C = true /\
  (forall a, autonomous a = true -> rstep_leaky C a = None).
Proof. exact leave_skipped_on_giveup_refuted. Qed.
Print Assumptions C10_res_leave_skipped_on_giveup_refuted.

Example C10_nonvacuous_giveup_then_publish : exists C C',
  rrun true (rinit 2) giveup_trace = Some C /\ all_cancelled C = true /\
  rstep true C (RPublish 1) = Some C'.
Proof. exact giveup_then_next_writer_publishes. Qed.

(* Print Assumptions for every theorem above that did not have its own line yet *)
Print Assumptions C10_stage_drop_exits.
Print Assumptions C10_stage_merge_exits.
Print Assumptions C10_stage_fwd_exits.
Print Assumptions C10_stage_pullid_exits.
