(* C10 - Subscriptions and the event bus shut down cleanly under any timing.
   Theorems only; the models are Bus/Bus.v (internal/minibus/bus.go as a transition system over
   atomic steps of goroutines) and Bus/Pipe.v (the goroutines between a listener channel and
   the consumer); proofs live in Bus/BusProofs.v and Bus/PipeProofs.v.
   Every theorem quantifies over all schedules: [run (init n) tr = Some c] says that tr is an
   arbitrary sequence of atomic steps (any interleaving of any number of senders, listeners,
   cancels and consumers) executable from the empty bus with n sender threads. *)
From SC Require Import Base.Prelude Bus.Bus Bus.BusProofs.

(* no goroutine is ever blocked sending on a closed channel (which would panic when it is
   closed) and no rendezvous ever targets a closed channel *)
Theorem C10_no_send_on_closed : forall n tr c,
  run (init n) tr = Some c ->
  panics c = false /\
  (forall s c' X l o r g sn L, step c (LDeliver s) = Some c' ->
     nth_error (ss c) s = Some X -> s_pc X = SSel l o r g sn -> nth_error (ls c) l = Some L ->
     l_closed L = false).
Proof. exact no_send_on_closed. Qed.
Print Assumptions C10_no_send_on_closed.

Example C10_nonvacuous_window :
  exists c, run (init 1) [LListen; LRegister 0; LCall 0; LRLock 0; LCancel 0; LWake 0; LLockReq 0]%nat = Some c
            /\ step c (LStop 0%nat) = None /\ step c (LSelListenCtx 0%nat) <> None.
Proof. exact window_reachable. Qed.
