(* C10 - Subscriptions and the event bus shut down cleanly under any timing.
   Theorems only.  Models: Bus/Bus.v (internal/minibus/bus.go as a transition system over the
   atomic steps of its goroutines) and Bus/Pipe.v (the goroutines between a listener channel and
   the consumer: DropExcess, mergeCollectionExcess, the forwarders of Value.Pull, Collection.Pull
   and Collection.PullID).  Proofs: Bus/BusProofs.v, Bus/PipeProofs.v.

   Every theorem quantifies over ALL schedules: [run (init n) tr = Some c] says that tr is an
   arbitrary executable sequence of atomic steps - any interleaving of any number of listeners,
   n sender threads, cancels of listen and send contexts, consumers that receive or do not - from
   the empty bus.  Fairness is never assumed silently: the liveness statements are given as a
   measure that every step of a named set of goroutines decreases, that no step increases, and
   that is positive only while one of those goroutines is enabled. *)
From SC Require Import Base.Prelude Bus.Bus Bus.Pipe Bus.BusProofs Bus.PipeProofs.

(* ---- no send on a closed channel ---- *)
(* no goroutine is ever blocked sending on a closed channel (which would panic at the close)
   and no rendezvous ever targets a closed channel *)
Theorem C10_no_send_on_closed : forall n tr c,
  run (init n) tr = Some c ->
  panics c = false /\
  (forall s c' X l o r g sn L, step c (LDeliver s) = Some c' ->
     nth_error (ss c) s = Some X -> s_pc X = SSel l o r g sn -> nth_error (ls c) l = Some L ->
     l_closed L = false).
Proof. exact no_send_on_closed. Qed.
Print Assumptions C10_no_send_on_closed.

(* a channel is closed only by its own cancel *)
Theorem C10_closed_only_after_cancel : forall n tr c k K,
  run (init n) tr = Some c -> nth_error (ls c) k = Some K -> l_closed K = true -> l_cancel K = true.
Proof. exact closed_only_after_cancel. Qed.
Print Assumptions C10_closed_only_after_cancel.

(* ---- cancel closes the listener channel, whatever everybody else does ----
   mu k: 2N+3 / 2N+2 while the watcher has not yet asked for the lock, 1 + (senders inside the
   select of k) while it waits for it, 0 when it has closed the channel and ended.
   (1) no step of anybody increases mu k and every helper step (the watcher of k; a sender
       leaving the select of k while the watcher waits) decreases it;
   (2) while mu k > 0 a helper step is enabled - nothing other goroutines do or fail to do
       (consumers that stopped receiving, blocked or cancelled senders) can block the shutdown;
   (3) mu k = 0 iff the watcher has ended and the channel is closed;
   (4) along any continuation, after mu k helper steps the channel is closed.
   Weak fairness (an enabled goroutine is eventually scheduled) turns (1)-(4) into "eventually
   closed"; the Go scheduler itself is outside the model. *)
Theorem C10_cancel_closes : forall n tr c k K,
  run (init n) tr = Some c -> nth_error (ls c) k = Some K -> l_cancel K = true ->
  (forall a c', step c a = Some c' ->
     (mu k c' <= mu k c)%nat /\ (helper k c a = true -> (mu k c' < mu k c)%nat)) /\
  ((mu k c > 0)%nat -> exists a c', helper k c a = true /\ step c a = Some c') /\
  (mu k c = 0%nat <-> (l_w K = WDone /\ l_closed K = true)) /\
  (forall tr' c', run c tr' = Some c' -> (helper_steps k c tr' >= mu k c)%nat ->
     exists K', nth_error (ls c') k = Some K' /\ l_w K' = WDone /\ l_closed K' = true).
Proof. exact cancel_closes. Qed.
Print Assumptions C10_cancel_closes.

(* ---- an event reaches every listener that is live for the whole send, exactly once, in order ----
   C10_delivered_when_live:
   (1) the snapshot of a Send contains every listener whose Listen has returned and that is not
       cancelled when the Send starts;
   (2) when the Send is about to return true, every listener of its snapshot that is still not
       cancelled has received the event (s, n) of this call.
   C10_exactly_once_in_order: in every listener's log (newest first) the call numbers of one
   sender strictly decrease towards the past - per-sender order, no event twice - and only
   events of calls that were made appear. *)
Theorem C10_delivered_when_live : forall n tr c s X,
  run (init n) tr = Some c -> nth_error (ss c) s = Some X ->
  (forall c' X', step c (LCall s) = Some c' -> nth_error (ss c') s = Some X' ->
     forall k K, nth_error (ls c) k = Some K -> l_reg K = true -> l_cancel K = false ->
       In k (snap_of (s_pc X'))) /\
  (forall g sn, s_pc X = SLoop [] g sn ->
     forall l, In l sn -> exists L, nth_error (ls c) l = Some L /\
       (l_cancel L = true \/ In (s, s_calls X) (l_log L))).
Proof. exact delivered_when_live. Qed.
Print Assumptions C10_delivered_when_live.

Theorem C10_exactly_once_in_order : forall n tr c l L,
  run (init n) tr = Some c -> nth_error (ls c) l = Some L ->
  sorted_log (l_log L) /\ NoDup (l_log L) /\
  (forall s X m, nth_error (ss c) s = Some X -> In (s, m) (l_log L) -> (m <= s_calls X)%nat).
Proof. exact exactly_once_in_order. Qed.
Print Assumptions C10_exactly_once_in_order.

(* two senders, two deliveries to one listener: the log is non-trivial *)
Example C10_nonvacuous_log : exists c L,
  run (init 2) [LListen; LRegister 0; LCall 0; LCall 1; LRLock 1; LRecvStart 0; LDeliver 1;
                LRLock 0; LRecvStart 0; LDeliver 0; LFinish 0; LFinish 1]%nat = Some c /\
  nth_error (ls c) 0 = Some L /\ l_log L = [(0, 1); (1, 1)]%nat.
Proof. eexists. eexists. split; [reflexivity|]. split; reflexivity. Qed.

(* ---- other senders and subscribers are not affected by a cancelled or abandoned one ----
   a sender that cannot move is either waiting for the read lock of a CANCELLED listener whose
   stop has asked for the lock (bounded by C10_cancel_closes: mu helper steps, all enabled), or
   it is in the select of a listener that is NOT cancelled, with its own context alive and that
   listener's consumer not receiving (the backpressure of a live subscription).  Nothing else
   ever blocks a sender; in particular no cancelled listener holds one in its select. *)
Theorem C10_others_unaffected : forall n tr c s X,
  run (init n) tr = Some c -> nth_error (ss c) s = Some X -> blocked_sender c s ->
  (exists l r g sn L, s_pc X = SLoop (l :: r) g sn /\ nth_error (ls c) l = Some L /\
                      l_w L = WPending /\ l_cancel L = true)
  \/ (exists l o r g sn L, s_pc X = SSel l o r g sn /\ nth_error (ls c) l = Some L /\
                      l_cancel L = false /\ s_cancel X = false /\ (l_rcv L = false \/ o = false)).
Proof. exact others_unaffected. Qed.
Print Assumptions C10_others_unaffected.

(* a sender blocked by the backpressure of a live listener exists (the clause is not vacuous) *)
Example C10_nonvacuous_backpressure :
  exists c X, run (init 1) [LListen; LRegister 0; LCall 0; LRLock 0]%nat = Some c /\
    nth_error (ss c) 0 = Some X /\ blocked_sender c 0%nat.
Proof. eexists. eexists. split; [reflexivity|]. split; [reflexivity|]. repeat split; reflexivity. Qed.

(* ---- the goroutines behind a subscription all end once the listener channel is closed ----
   every schedule of the chain after the close is at most pmeasure long (so no fairness is
   needed at all: whatever runs, runs out) ... *)
Theorem C10_pipe_terminates : forall tr p p',
  p_src_closed p = true -> p_cancel p = true -> prun p tr = Some p' ->
  (List.length tr + pmeasure p' <= pmeasure p)%nat.
Proof. exact (pipe_terminates true). Qed.
Print Assumptions C10_pipe_terminates.

(* ... and it cannot stop early: while a stage is left, the first stage that has not ended can
   move - it returns (closing its output) or, for changesAfter holding a change (it has no ctx
   case), hands the change to mergeCollectionExcess behind it, which always receives.  So the
   maximal schedules end with every goroutine gone and the consumer's channel closed.
   [after_ok]: every changesAfter stage is directly followed by an always-receiving stage; it
   holds for the chains the code builds and C10_pipe_shape_invariant shows every step keeps it. *)
Theorem C10_pipe_progress : forall p,
  p_src_closed p = true -> p_cancel p = true -> after_ok (p_stages p) = true -> all_stages_done p = false ->
  exists i p', pstep p (PExit i) = Some p' \/ pstep p (PXfer i) = Some p'.
Proof. exact (pipe_progress true). Qed.
Print Assumptions C10_pipe_progress.

Theorem C10_pipe_shape_invariant : forall p a p',
  after_ok (p_stages p) = true -> pstep p a = Some p' -> after_ok (p_stages p') = true.
Proof. exact (after_ok_step true). Qed.
Print Assumptions C10_pipe_shape_invariant.

Example C10_nonvacuous_chains :
  after_ok [StAfter None; StMerge []; StFwd [mkM 1 1 5] None; StPullID 1 None] = true /\
  after_ok [StDrop None; StFwd [] None] = true /\ after_ok [StFwd [] None] = true.
Proof. repeat split; reflexivity. Qed.

Theorem C10_pipe_close_needs_cancel : forall tr stages p,
  prun (init_pipe stages) tr = Some p -> p_src_closed p = true -> p_cancel p = true.
Proof. exact src_closed_cancelled. Qed.
Print Assumptions C10_pipe_close_needs_cancel.

(* ---- a single-item subscription ends when the item is removed ----
   the REMOVE of its id makes PullID return (its channel is closed) and cancels the context of
   the inner Pull, after which C10_cancel_closes and C10_pipe_terminates apply to it *)
Theorem C10_pullid_ends_on_remove : forall p i st m id,
  stage_at p i = Some st -> offer st = Some m ->
  stage_at p (S i) = Some (StPullID id None) -> m_id m = id -> m_kind m = 3 ->
  exists p', pstep p (PXfer i) = Some p' /\ stage_at p' (S i) = Some StDone /\ p_cancel p' = true.
Proof. exact pullid_ends_on_remove. Qed.
Print Assumptions C10_pullid_ends_on_remove.

(* before /repo 728882a (model pstep_v0): after the REMOVE the consumer's channel is closed,
   nobody has cancelled, the inner forwarder holds the next change for ever, and no step but a
   cancel is possible - in particular the bus can never deliver to this listener again, so with
   backpressure every later Bus.Send(context.TODO()) blocks *)
Theorem C10_pullid_v0_refuted : exists p,
  prun_v0 (init_pipe [StFwd [] None; StPullID 3 None]) v0_witness_trace = Some p /\
  p_cancel p = false /\ input_closed p 2 = true /\ stage_at p 0 = Some (StFwd [] (Some (mkM 3 1 6))) /\
  (forall a, a <> PCancel -> pstep_v0 p a = None).
Proof. exact pullid_v0_stuck. Qed.
Print Assumptions C10_pullid_v0_refuted.

(* ---- non-vacuity ---- *)
Example C10_nonvacuous_window :
  exists c, run (init 1) [LListen; LRegister 0; LCall 0; LRLock 0; LCancel 0; LWake 0; LLockReq 0]%nat = Some c
            /\ step c (LStop 0%nat) = None /\ step c (LSelListenCtx 0%nat) <> None.
Proof. exact window_reachable. Qed.

Example C10_nonvacuous_lock_matters :
  exists c L, run (init 1) [LListen; LRegister 0; LCall 0; LRLock 0; LCancel 0; LWake 0; LLockReq 0]%nat = Some c
    /\ nth_error (ls c) 0 = Some L
    /\ panics (set_l c 0%nat (mkL (l_cancel L) true WDone (l_reg L) (l_rcv L) (l_sawclose L) (l_log L))) = true.
Proof. exact unlocked_stop_panics. Qed.

Example C10_nonvacuous_pullid_fixed : exists p,
  prun (init_pipe [StFwd [] None; StPullID 3 None]) [PSrc (mkM 3 1 5); PXfer 0; PXfer 1; PSrc (mkM 3 3 0); PXfer 0] = Some p /\
  p_cancel p = true /\ input_closed p 2 = true /\
  exists p', prun p [PSrcClose; PExit 0%nat] = Some p' /\ all_stages_done p' = true.
Proof. exact pullid_fixed_same_schedule. Qed.
