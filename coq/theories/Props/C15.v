(* C15 — Paged List RPCs enumerate every item exactly once.
   Theorems only; proofs live in Pages/*Proofs.v.  Reading guide:
     - [listing] the id fields (ElectricMode.Id, Hail.Id, Child.Name, Publication.Id, Consumable.Name,
                Stock.Consumable) of the items in the order the MODEL-LEVEL listing returns them: pairwise
                different, none empty, valid UTF-8 ([ids_wf]) - in ANY order: resource.Collection.List
                sorts by the key an item is stored under, which an id interceptor (constructor option
                resource.WithIDInterceptor) can order differently from the ids ([coll_listing f ids]);
                the handler re-sorts by the id field ([sort_keys], read from the tree: [resorts_of s]) and
                pages over that: [list_chain (resorts_of s) (cfg_of s) listing ...] is the handler,
                [key_chain cfg keys ...] the pager proper on an ascending listing ([keys_wf]);
                for waste [ids] is the log in insertion order, listed newest first;
     - [sizes]  the page_size of EACH request of a chain (request i sends sizes[i]; they may all differ);
                the client makes at most [length sizes] calls;
     - [cfg_of s] the configuration of RPC [s] as READ FROM THE TREE on every run (Gen/Pagers.v: default
                and max page size, base64 alphabets of encodePageToken / decodePageToken, search
                operator, validatePageSize called, listing read through the read mask or not);
     - [key_chain cfg keys dropkey sizes (WFirst tok)] the answers a client sees when it starts with
                token [tok] and follows next_page_token; next tokens travel as the raw base64 text the
                server minted and are decoded by the model's decoder; [dropkey]: the read mask of the
                requests leaves the key field out;
     - [chain_shape_ok obs]  every answer is a page, every page but the last carries a token, the
                last one carries none (the chain ended by itself);
     - [concat_keys obs]     the items of all pages, in the order received;
     - [pages_within_sizes n sizes obs] answer i has at most spec_cap sizes[i] items (default 50, cap
                1000) and reports total_size n;
     - [calls_key r sizes]   the number of calls it takes to list r items with those page sizes.
   All statements are for every listing / log, every page-size sequence and every token (induction on
   the number of calls); the six key-token RPCs are instances of ONE generic pager. *)
From SC Require Import Base.Prelude Pages.Codec Pages.CodecProofs Pages.PagerCfg Gen.Pagers Pages.Pager
  Pages.Listing Pages.C15Judge Pages.PagerProofs Pages.ListingProofs Pages.WasteProofs Pages.PagerTable
  Pages.C15JudgeProofs Pages.ListingHeadline.
From Coq Require Import Sorted Permutation.

(* page size: default 50, cap 1000 *)
Theorem C15_cap_page_size : forall size, 0 <= size ->
  cap_page_size size = (if size =? 0 then 50 else Z.min size 1000).
Proof. exact cap_page_size_spec. Qed.
Print Assumptions C15_cap_page_size.

(* ---- the tie to the source: tables generated from the tree on every run ---- *)

(* every pages.go is the modelled text with default 50 / max 1000 and one base64 alphabet for both
   directions; every List handler is the modelled text; all six RPCs have a row; the waste handler
   and Model.ListWasteRecords are the modelled text *)
Theorem C15_source_tables_ok :
  forallb pages_go_ok pages_go_table = true
  /\ forallb handler_ok handler_table = true
  /\ map h_server handler_table = all_servers
  /\ w_handler_shape waste_source && w_model_shape waste_source = true.
Proof. exact (conj pages_go_table_ok (conj handler_table_ok (conj handler_table_covers waste_source_ok))). Qed.
Print Assumptions C15_source_tables_ok.

(* the configuration read from the tree is, for every RPC, the hand model and satisfies [cfg_ok] *)
Theorem C15_cfg_is_model : forall s,
  cfg_eqb (cfg_of s) (std_cfg (variant_of s)) = true /\ cfg_ok (cfg_of s) = true /\ resorts_of s = true.
Proof. intros s. exact (conj (cfg_of_is_model s) (conj (all_cfg_ok s) (all_resort s))). Qed.
Print Assumptions C15_cfg_is_model.

(* page-token codec: decodePageToken (encodePageToken k) = k for EVERY key (valid UTF-8, any length),
   for either base64 alphabet, as long as both directions use the same one ... *)
Theorem C15_token_codec_roundtrip : forall a k, key_utf8 k = true ->
  decode_token a (encode_token a k) = DKey k.
Proof. exact token_roundtrip. Qed.
Print Assumptions C15_token_codec_roundtrip.

(* ... which every package does (read from the source) *)
Theorem C15_codec_symmetric_per_package :
  forall p, In p pages_go_table -> pg_enc p = pg_dec p /\ pg_enc p <> B64Other.
Proof. exact codec_symmetric_per_package. Qed.
Print Assumptions C15_codec_symmetric_per_package.

(* ... and it is needed: URL-safe encode + standard decode (seeded change C15-r3-3) loses "~" *)
Theorem C15_codec_mixed_alphabets_refuted :
  decode_token B64Std (encode_token B64Url "~"%string) = DBad
  /\ decode_token B64Url (encode_token B64Std "~"%string) = DBad.
Proof. vm_compute. split; reflexivity. Qed.
Print Assumptions C15_codec_mixed_alphabets_refuted.

(* ---- HEADLINE: the six key-token RPCs ---- *)

(* For every RPC, ids in ANY order the collection may list them in (pairwise different, non-empty,
   UTF-8), every first token that decodes (empty, present key, absent/deleted key, a token minted by
   another RPC, carrying whatever unknown fields [extra] - the server hands those on in its own
   tokens), EVERY sequence of non-negative page sizes, one per request, with or without a read mask
   that leaves the key out: following next_page_token terminates by itself (within |rest| + 1
   calls, exactly calls_key of them), the pages are exactly the remaining items in ascending order
   of their ids, each once, page i within the cap of the size request i asked for, total_size = n. *)
Theorem C15_pages_enumerate : forall (s : server) listing dropkey sizes tok extra,
  ids_wf listing = true -> in32 (zlen listing) = true ->
  Forall (fun z => 0 <= z) sizes -> tok <> TokMalformed -> Forall is_byte extra ->
  let rest := expected_after (sort_keys listing) tok in
  zlen rest < zlen sizes ->
  let obs := list_chain (resorts_of s) (cfg_of s) listing dropkey sizes (WFirst tok extra) in
  chain_shape_ok obs = true
  /\ concat_keys obs = rest
  /\ NoDup (concat_keys obs)
  /\ pages_within_sizes (zlen listing) sizes obs
  /\ zlen obs = calls_key (zlen rest) sizes
  /\ zlen obs <= zlen rest + 1.
Proof. exact list_pages_enumerate. Qed.
Print Assumptions C15_pages_enumerate.

(* ... in particular under EVERY id interceptor [f] (resource.WithIDInterceptor, e.g.
   strings.ToLower): the collection lists by the keys [f id], the pages are the ids in ascending
   order all the same.  Nothing is asked of [f]: the ids of a collection are pairwise different
   because the keys they are stored under are ([C15_ids_distinct_by_keys]). *)
Theorem C15_pages_enumerate_any_interceptor : forall (s : server) (f : string -> string) ids dropkey sizes tok extra,
  ids_wf ids = true -> in32 (zlen ids) = true ->
  Forall (fun z => 0 <= z) sizes -> tok <> TokMalformed -> Forall is_byte extra ->
  let rest := expected_after (sort_keys ids) tok in
  zlen rest < zlen sizes ->
  let obs := list_chain (resorts_of s) (cfg_of s) (coll_listing f ids) dropkey sizes (WFirst tok extra) in
  chain_shape_ok obs = true
  /\ concat_keys obs = rest
  /\ NoDup (concat_keys obs)
  /\ pages_within_sizes (zlen ids) sizes obs
  /\ zlen obs = calls_key (zlen rest) sizes
  /\ zlen obs <= zlen rest + 1.
Proof. exact list_pages_enumerate_any_interceptor. Qed.
Print Assumptions C15_pages_enumerate_any_interceptor.

Theorem C15_ids_distinct_by_keys : forall (f : string -> string) ids, NoDup (map f ids) -> nodupb ids = true.
Proof. exact ids_distinct_by_keys. Qed.
Print Assumptions C15_ids_distinct_by_keys.

(* the two sorts: Collection.List (by key) and the handler's re-sort (by id) return permutations;
   the re-sorted listing is ascending; and it depends on the SET of ids only, not on the order
   the collection listed them in *)
Theorem C15_listing_sorts : forall (f : string -> string) ids,
  Permutation (coll_listing f ids) ids
  /\ Permutation (sort_keys ids) ids
  /\ (nodupb ids = true -> strictly_sorted (sort_keys ids) = true
                           /\ sort_keys (coll_listing f ids) = sort_keys ids).
Proof.
  intros f ids. split; [apply coll_listing_perm|]. split; [apply sort_keys_perm|].
  intros H. apply nodupb_spec in H. split.
  - apply SS_strictly_sorted, sort_keys_sorted. exact H.
  - apply sort_keys_of_perm; [|apply coll_listing_perm].
    eapply Permutation_NoDup; [symmetry; apply coll_listing_perm|exact H].
Qed.
Print Assumptions C15_listing_sorts.

(* resource.Collection.List under an interceptor: the ids come in strictly ascending order of the
   keys they are stored under (the keys of a map are pairwise different), each once *)
Theorem C15_collection_listing_by_key : forall (f : string -> string) ids, NoDup (map f ids) ->
  strictly_sorted (map f (coll_listing f ids)) = true /\ Permutation (coll_listing f ids) ids.
Proof.
  intros f ids H. split; [|apply coll_listing_perm].
  apply SS_strictly_sorted, SS_klt_map, coll_listing_sorted. exact H.
Qed.
Print Assumptions C15_collection_listing_by_key.

(* the pager's search key must be the listing's sort key.  When the interceptor keeps the order
   of the ids (no interceptor: f = id) the collection's listing is ascending by id, and a handler
   WITHOUT the re-sort (the five Collection handlers before this round's fix) is the same function ... *)
Theorem C15_search_key_is_sort_key : forall c (f : string -> string) ids dropkey sizes w,
  (forall a b, String.ltb (f a) (f b) = String.ltb a b) -> nodupb ids = true ->
  coll_listing f ids = sort_keys ids
  /\ list_chain false c (coll_listing f ids) dropkey sizes w = key_chain c (sort_keys ids) dropkey sizes w.
Proof.
  intros c f ids dropkey sizes w H Hn. split; [apply coll_listing_monotone; exact H|].
  apply list_chain_no_resort_monotone; assumption.
Qed.
Print Assumptions C15_search_key_is_sort_key.

(* ... and when it does not (strings.ToLower and ids of mixed case) the handlers without the
   re-sort binary-search a slice that is not ascending by the searched field: with modes a, b, c, D
   and page size 4 EVERY answer, however many calls the client makes, is the same page with the same
   token (all six RPCs; for parentpb this is seeded change C15-r4-2); with the eight names of that
   seed's demonstration and page size 2 four of the eight are never listed, where the current
   handlers list all eight *)
Theorem C15_id_interceptor_v0_refuted :
  (forall s fuel,
     list_chain false (cfg_of s) (coll_listing ascii_lower abcD) false (const_sizes 4 fuel) (WFirst TokEmpty [])
     = repeat (OPage abcD (Some "EgFE"%string) 4) fuel)
  /\ coll_listing ascii_lower greek = ["Alpha"; "beta"; "delta"; "Epsilon"; "Eta"; "Gamma"; "theta"; "zeta"]%string
  /\ concat_keys (list_chain false (cfg_of SPublication) (coll_listing ascii_lower greek) false (const_sizes 2 11) (WFirst TokEmpty []))
     = ["Alpha"; "beta"; "theta"; "zeta"]%string
  /\ concat_keys (list_chain true (cfg_of SPublication) (coll_listing ascii_lower greek) false (const_sizes 2 11) (WFirst TokEmpty []))
     = ["Alpha"; "Epsilon"; "Eta"; "Gamma"; "beta"; "delta"; "theta"; "zeta"]%string.
Proof. exact (conj no_resort_interceptor_endless no_resort_interceptor_skips). Qed.
Print Assumptions C15_id_interceptor_v0_refuted.

(* ... with the same page size on every request: exactly |rest| / cap + 1 calls (the trailing empty
   page when |rest| is a multiple of the cap is what the code does) *)
Theorem C15_pages_enumerate_same_size : forall (s : server) listing dropkey size tok extra fuel,
  ids_wf listing = true -> in32 (zlen listing) = true -> 0 <= size -> tok <> TokMalformed -> Forall is_byte extra ->
  let rest := expected_after (sort_keys listing) tok in
  let c := cap_page_size size in
  zlen rest / c + 1 <= Z.of_nat fuel -> zlen rest < Z.of_nat fuel ->
  let obs := list_chain (resorts_of s) (cfg_of s) listing dropkey (const_sizes size fuel) (WFirst tok extra) in
  zlen obs = zlen rest / c + 1
  /\ chain_shape_ok obs = true
  /\ concat_keys obs = rest
  /\ NoDup (concat_keys obs)
  /\ pages_within c (zlen listing) obs.
Proof. exact list_pages_enumerate_const. Qed.
Print Assumptions C15_pages_enumerate_same_size.

(* the pager proper, on a listing that is ascending (what the handler hands it): same statement *)
Theorem C15_pager_enumerates : forall (s : server) keys dropkey sizes tok extra,
  keys_wf keys = true -> in32 (zlen keys) = true ->
  Forall (fun z => 0 <= z) sizes -> tok <> TokMalformed -> Forall is_byte extra ->
  let rest := expected_after keys tok in
  zlen rest < zlen sizes ->
  let obs := key_chain (cfg_of s) keys dropkey sizes (WFirst tok extra) in
  chain_shape_ok obs = true
  /\ concat_keys obs = rest
  /\ NoDup (concat_keys obs)
  /\ pages_within_sizes (zlen keys) sizes obs
  /\ zlen obs = calls_key (zlen rest) sizes
  /\ zlen obs <= zlen rest + 1.
Proof. exact key_pages_enumerate. Qed.
Print Assumptions C15_pager_enumerates.

(* ... in particular from the first page: everything *)
Theorem C15_first_token_lists_everything : forall keys, expected_after keys TokEmpty = keys.
Proof. reflexivity. Qed.
Print Assumptions C15_first_token_lists_everything.

(* ListChildren's search-then-skip computes the same page as the other five handlers *)
Theorem C15_parent_variant_same : forall c keys w size,
  strictly_sorted keys = true ->
  key_page (with_variant c VGeSkip) keys false w size = key_page (with_variant c VGreater) keys false w size.
Proof. exact key_page_variants_agree. Qed.
Print Assumptions C15_parent_variant_same.

(* malformed token or negative page size: one InvalidArgument, for every collection *)
Theorem C15_bad_input_is_error : forall s listing dropkey size sizes tok extra,
  tok = TokMalformed \/ size < 0 ->
  list_chain (resorts_of s) (cfg_of s) listing dropkey (size :: sizes) (WFirst tok extra) = [OErr InvalidArgument].
Proof. exact list_bad_input_rejected. Qed.
Print Assumptions C15_bad_input_is_error.

(* never a panic, whatever the client sends (token, page sizes - negative ones too) and however
   long it goes on *)
Theorem C15_never_panics : forall s listing dropkey sizes tok extra,
  ids_wf listing = true -> Forall is_byte extra ->
  ~ In OPanic (list_chain (resorts_of s) (cfg_of s) listing dropkey sizes (WFirst tok extra)).
Proof. exact list_never_panics. Qed.
Print Assumptions C15_never_panics.

(* total_size is int32(len(items)): right as long as the collection has at most 2^31 - 1 items
   (hypothesis [in32] above); a listing of exactly 2^31 items would report -2^31 *)
Theorem C15_total_size_beyond_int32_refuted : forall c keys,
  cfg_ok c = true -> zlen keys = 2147483648 ->
  exists ks nx, key_page c keys false (WFirst TokEmpty []) 0 = OPage ks nx (-2147483648).
Proof. exact total_size_wraps. Qed.
Print Assumptions C15_total_size_beyond_int32_refuted.

(* ---- HEADLINE: waste ---- *)

(* Any log, any sequence of non-negative page sizes: from the first page the log is listed newest
   first, each record once, page i within the cap of sizes[i], total_size = n, exactly
   calls_waste n sizes <= max n 1 calls and no empty page unless the log is empty. *)
Theorem C15_waste_pages_enumerate : forall ids sizes,
  in32 (zlen ids) = true -> Forall (fun z => 0 <= z) sizes ->
  Z.max (zlen ids) 1 <= zlen sizes ->
  let obs := waste_chain ids sizes WEmpty in
  chain_shape_ok obs = true
  /\ concat_keys obs = rev ids
  /\ pages_within_sizes (zlen ids) sizes obs
  /\ zlen obs = calls_waste (zlen ids) sizes
  /\ zlen obs <= Z.max (zlen ids) 1
  /\ (ids <> [] -> Forall (fun o => page_keys o <> []) obs).
Proof. exact waste_pages_enumerate. Qed.
Print Assumptions C15_waste_pages_enumerate.

Theorem C15_waste_pages_enumerate_same_size : forall ids size fuel,
  in32 (zlen ids) = true -> 0 <= size ->
  let c := waste_count size in
  let calls := (Z.max (zlen ids) 1 - 1) / c + 1 in
  Z.max (zlen ids) 1 <= Z.of_nat fuel ->
  let obs := waste_chain ids (const_sizes size fuel) WEmpty in
  zlen obs = calls
  /\ chain_shape_ok obs = true
  /\ concat_keys obs = rev ids
  /\ pages_within c (zlen ids) obs
  /\ (ids <> [] -> Forall (fun o => page_keys o <> []) obs).
Proof. exact waste_pages_enumerate_const. Qed.
Print Assumptions C15_waste_pages_enumerate_same_size.

Theorem C15_waste_bad_input_is_error : forall ids size sizes tok,
  tok = WMalformed \/ (exists z, tok = WNum z /\ (z < 0 \/ zlen ids < z)) \/ size < 0 ->
  waste_chain ids (size :: sizes) tok = [OErr InvalidArgument].
Proof. exact waste_bad_input_rejected. Qed.
Print Assumptions C15_waste_bad_input_is_error.

(* ---- the judge ---- *)

(* The predicate the harness evaluates on every observed chain holds of the model for every
   input, all seven RPCs, every first token (empty, well-formed, malformed, out of range) and
   every page-size sequence including negative sizes anywhere in the chain ... *)
Theorem C15_model_satisfies_property_keys : forall s keys dropkey sizes raw0 tok extra,
  ids_wf keys = true -> in32 (zlen keys) = true -> zlen keys < zlen sizes -> Forall is_byte extra ->
  C15_ok (KKeys s keys dropkey sizes raw0 tok extra
            (list_chain (resorts_of s) (cfg_of s) keys dropkey sizes (WFirst tok extra))) = true.
Proof. intros s keys dropkey sizes raw0 tok extra. rewrite all_resort. apply list_model_ok. apply all_cfg_ok. Qed.
Print Assumptions C15_model_satisfies_property_keys.

Theorem C15_model_satisfies_property_waste : forall ids sizes tok,
  in32 (zlen ids) = true -> zlen ids < zlen sizes ->
  C15_ok (KWaste ids sizes tok (waste_chain ids sizes tok)) = true.
Proof. exact waste_model_ok. Qed.
Print Assumptions C15_model_satisfies_property_waste.

Theorem C15_model_satisfies_property_listing : forall kv,
  nodupb (map (assoc_key kv) (map fst kv)) = true ->
  C15_ok (KListing kv (coll_listing (assoc_key kv) (map fst kv))) = true.
Proof. exact listing_model_ok. Qed.
Print Assumptions C15_model_satisfies_property_listing.

(* ... hence an observation that agrees with the model satisfies the property *)
Theorem C15_judge_sound : forall c, C15_guard c = true -> agrees c = true -> C15_ok c = true.
Proof. exact judge_sound. Qed.
Print Assumptions C15_judge_sound.

(* ---- the handlers before the fix commits: the property was false ---- *)

(* before 97d7676 (no validatePageSize): negative page size, key-token servers: a panic for EVERY
   collection (index before the slice) *)
Theorem C15_negative_page_size_v0_refuted : forall s keys dropkey size,
  size < 0 -> key_page (cfg_no_validate (cfg_of s)) keys dropkey (WFirst TokEmpty []) size = OPanic.
Proof.
  intros s keys dropkey size. destruct (cfg_ok_spec _ (all_cfg_ok s)) as [Hd [Hm _]].
  apply key_page_no_validate_negative_panics; assumption.
Qed.
Print Assumptions C15_negative_page_size_v0_refuted.

(* before the read-mask fix (the five resource.Collection handlers paged model.List(WithReadMask)):
   with a read mask that leaves the key field out, whenever one full page fits (cap <= n) the
   chain NEVER ends: however many calls the client makes, every answer is the first page again
   with a token naming "" *)
Theorem C15_read_mask_without_key_v0_refuted : forall s keys size fuel,
  0 <= size -> cap_page_size size <= zlen keys ->
  key_chain (cfg_mask_before (cfg_of s)) keys true (const_sizes size fuel) (WFirst TokEmpty [])
  = repeat (OPage (firstn (Z.to_nat (cap_page_size size)) keys)
                  (Some (encode_token (pc_enc (cfg_of s)) EmptyString)) (wrap32 (zlen keys))) fuel.
Proof.
  intros s keys size fuel Hs Hfit.
  rewrite (key_chain_mask_before_endless (cfg_of s) keys size (all_cfg_ok s) Hs Hfit (const_sizes size fuel)).
  - unfold const_sizes. induction fuel; simpl; congruence.
  - apply Forall_forall. intros z Hz. apply repeat_spec in Hz. exact Hz.
  - repeat split. discriminate.
Qed.
Print Assumptions C15_read_mask_without_key_v0_refuted.

(* waste, negative page size: the newest record and no error *)
Theorem C15_waste_negative_page_size_v0_refuted :
  waste_page_v0 ["b"%string; "~-"%string] WEmpty (-4) = OPage ["~-"%string] None 2.
Proof. vm_compute. reflexivity. Qed.
Print Assumptions C15_waste_negative_page_size_v0_refuted.

(* waste, token above the record count: panic; negative token: empty page, no error;
   non-numeric token: the raw strconv error (status Unknown) *)
Theorem C15_waste_token_range_v0_refuted :
  waste_page_v0 [" A"%string; " A-"%string; " A- "%string] (WNum 4) 5000 = OPanic
  /\ waste_page_v0 [" A"%string; " A-"%string; " A- "%string] (WNum (-1)) 1 = OPage [] None 3
  /\ waste_page_v0 [" A"%string] WMalformed 1 = OErr 2.
Proof. vm_compute. repeat split. Qed.
Print Assumptions C15_waste_token_range_v0_refuted.

(* ---- non-vacuity ---- *)

(* a well-formed listing with ids that are prefixes of each other and a two-byte UTF-8 id; page
   sizes 2 then 1 then 5000: the raw tokens are what the server mints ("EgJhIA==" names "a ") *)
Example C15_nonvacuous_keys :
  let keys := ["a"; "a "; "a b"; "ab"; bstr [195; 169]]%string in
  keys_wf keys = true
  /\ key_chain (cfg_of SParent) keys false [2; 1; 5000; 0] (WFirst TokEmpty [])
     = [OPage ["a"; "a "]%string (Some "EgJhIA=="%string) 5; OPage ["a b"]%string (Some "EgNhIGI="%string) 5;
        OPage ["ab"%string; bstr [195; 169]] None 5]
  /\ (* same page size throughout, 4 items after "a", 2 divides 4: the (allowed) trailing empty page *)
     List.length (key_chain (cfg_of SHail) keys true (const_sizes 2 9) (WFirst (TokKey "a"%string) [])) = 3%nat
  /\ (* a token naming an absent key between "a b" and "ab" and carrying unknown field 3 = 1 (bytes
        24 1): the server's own token hands the unknown field on *)
     key_chain (cfg_of SElectric) keys false [2; 2] (WFirst (TokKey "a!"%string) [24; 1])
     = [OPage ["ab"%string; bstr [195; 169]] (Some "EgLDqRgB"%string) 5; OPage [] None 5].
Proof. vm_compute. repeat split. Qed.

(* ids in the order of their lower-cased keys (not ascending): the hypotheses hold, the guard of
   the judge holds, the handler lists them in ascending order; an interceptor that is not even
   injective on strings in general (ASCII lower case) *)
(* the judge's guard is the hypothesis of the theorems *)
Theorem C15_guard_is_ids_wf : forall ids, ids_wf_fast ids = ids_wf ids.
Proof. exact ids_wf_fast_spec. Qed.
Print Assumptions C15_guard_is_ids_wf.

Example C15_nonvacuous_interceptor :
  let ids := ["b"; "A"; "c"; "D"; bstr [195; 169]]%string in
  let listing := coll_listing ascii_lower ids in
  listing = ["A"; "b"; "c"; "D"; bstr [195; 169]]%string
  /\ ids_wf listing = true /\ strictly_sorted listing = false
  /\ NoDup (map ascii_lower ids)
  /\ concat_keys (list_chain (resorts_of SHail) (cfg_of SHail) listing false [2; 1; 5000; 0] (WFirst TokEmpty []))
     = ["A"; "D"; "b"; "c"; bstr [195; 169]]%string
  /\ C15_guard (KKeys SHail listing false [2; 1; 5000; 0; 0; 0] EmptyString TokEmpty [] []) = true.
Proof. vm_compute. repeat split; repeat constructor; simpl; intuition discriminate. Qed.

(* waste: five records, page sizes 2, 1, 7: tokens 3 and 2, no trailing empty page *)
Example C15_nonvacuous_waste :
  waste_chain ["r0"; "r1"; "r2"; "r3"; "r4"]%string [2; 1; 7; 7; 7] WEmpty
  = [OPage ["r4"; "r3"]%string (Some 3) 5; OPage ["r2"]%string (Some 2) 5; OPage ["r1"; "r0"]%string None 5].
Proof. vm_compute. reflexivity. Qed.

(* the judge really distinguishes: a chain that skips an item, one that repeats a page after the
   page size changed (seeded change C15-r3-2), one that never ends; ids listed in the order of their
   lower-cased keys: a chain without a first token may follow that order or the ascending one, but
   not skip (seeded change C15-r4-2) *)
Example C15_judge_rejects :
  C15_ok (KKeys SHail ["a"; "b"; "c"]%string false [2; 2; 2; 2; 2; 2] EmptyString TokEmpty []
            [OPage ["a"; "b"]%string (Some "EgFj"%string) 3; OPage [] None 3]) = false
  /\ C15_ok (KKeys SInventory ["a"; "b"; "c"]%string false [2; 50; 2; 2; 2; 2] EmptyString TokEmpty []
            [OPage ["a"; "b"]%string (Some "EgFi"%string) 3; OPage ["a"; "b"; "c"]%string None 3]) = false
  /\ C15_ok (KKeys SElectric ["a"; "b"; "c"]%string true [2; 2; 2; 2; 2; 2] EmptyString TokEmpty []
            (repeat (OPage ["a"; "b"]%string (Some "EgA="%string) 3) 6)) = false
  /\ C15_ok (KKeys SParent ["a"; "B"; "c"]%string false [5; 5; 5; 5; 5] EmptyString TokEmpty []
            [OPage ["a"; "B"; "c"]%string None 3]) = true
  /\ C15_ok (KKeys SParent ["a"; "B"; "c"]%string false [5; 5; 5; 5; 5] EmptyString TokEmpty []
            [OPage ["B"; "a"; "c"]%string None 3]) = true
  /\ C15_ok (KKeys SParent ["a"; "B"; "c"]%string false [1; 1; 1; 1; 1] EmptyString TokEmpty []
            [OPage ["a"]%string (Some "EgFh"%string) 3; OPage [] None 3]) = false.
Proof. vm_compute. repeat split. Qed.
