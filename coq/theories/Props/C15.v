(* C15 — Paged List RPCs enumerate every item exactly once.
   Theorems only; proofs live in Pages/*Proofs.v.  Reading guide:
     - [keys]   the listing the handler pages over: strictly ascending (Go string order), no empty key
                ([keys_wf]); for waste [ids] is the log in insertion order, listed newest first;
     - [size]   the request's page_size; [cap_page_size] / [waste_count] what the handler makes of it;
     - [key_chain v keys size fuel tok] the answers a client sees when it starts with token [tok]
                and follows next_page_token, making at most [fuel] calls;
     - [chain_shape_ok obs]  every answer is a page, every page but the last carries a token, the
                last one carries none (the chain ended by itself);
     - [concat_keys obs]     the items of all pages, in the order received;
     - [pages_within c n obs] every page has at most c items and reports total_size n.
   All statements are for every listing / log, every size and every token (induction on the
   listing and on the number of calls). *)
From SC Require Import Base.Prelude Pages.Pager Pages.C15Judge
  Pages.PagerProofs Pages.WasteProofs Pages.C15JudgeProofs.

(* page size: default 50, cap 1000 *)
Theorem C15_cap_page_size : forall size, 0 <= size ->
  cap_page_size size = (if size =? 0 then 50 else Z.min size 1000).
Proof. exact cap_page_size_spec. Qed.
Print Assumptions C15_cap_page_size.

(* The six key-token RPCs.  From the empty token (tok = TokEmpty, expected_after keys tok = keys)
   or from any well-formed token (the items after the named key, whether or not that key still
   exists): the chain ends by itself after exactly |rest| / cap + 1 calls, and the pages are
   exactly the remaining items, in order, each once, each page within the cap, total_size = n. *)
Theorem C15_pages_enumerate : forall (s : server) keys size tok fuel,
  keys_wf keys = true -> 0 <= size -> tok <> TokMalformed ->
  let rest := expected_after keys tok in
  let c := cap_page_size size in
  zlen rest / c + 1 <= Z.of_nat fuel ->
  let obs := key_chain (variant_of s) keys size fuel tok in
  zlen obs = zlen rest / c + 1
  /\ chain_shape_ok obs = true
  /\ concat_keys obs = rest
  /\ NoDup (concat_keys obs)
  /\ pages_within c (zlen keys) obs.
Proof. exact key_pages_enumerate. Qed.
Print Assumptions C15_pages_enumerate.

(* ... in particular from the first page: everything *)
Theorem C15_first_token_lists_everything : forall keys, expected_after keys TokEmpty = keys.
Proof. reflexivity. Qed.
Print Assumptions C15_first_token_lists_everything.

(* ListChildren's search-then-skip computes the same page as the other five handlers *)
Theorem C15_parent_variant_same : forall keys tok size,
  strictly_sorted keys = true -> key_page VGeSkip keys tok size = key_page VGreater keys tok size.
Proof. exact key_page_variants_agree. Qed.
Print Assumptions C15_parent_variant_same.

(* malformed token or negative page size: one InvalidArgument, for every collection *)
Theorem C15_bad_input_is_error : forall v keys size tok fuel,
  tok = TokMalformed \/ size < 0 ->
  key_chain v keys size (S fuel) tok = [OErr InvalidArgument].
Proof. exact key_bad_input_rejected. Qed.
Print Assumptions C15_bad_input_is_error.

(* never a panic, whatever the client sends and however long it goes on *)
Theorem C15_never_panics : forall s keys size tok fuel,
  keys_wf keys = true -> ~ In OPanic (key_chain (variant_of s) keys size fuel tok).
Proof. exact key_never_panics. Qed.
Print Assumptions C15_never_panics.

(* Waste: from the first page the log is listed newest first, each record once, pages within the
   cap, total_size = n, ceil(n / cap) calls (one for an empty log) and no empty page otherwise. *)
Theorem C15_waste_pages_enumerate : forall ids size fuel,
  0 <= size ->
  let c := waste_count size in
  let calls := (Z.max (zlen ids) 1 - 1) / c + 1 in
  calls <= Z.of_nat fuel ->
  let obs := waste_chain ids size fuel WEmpty in
  zlen obs = calls
  /\ chain_shape_ok obs = true
  /\ concat_keys obs = rev ids
  /\ pages_within c (zlen ids) obs
  /\ (ids <> [] -> Forall (fun o => page_keys o <> []) obs).
Proof. exact waste_pages_enumerate. Qed.
Print Assumptions C15_waste_pages_enumerate.

Theorem C15_waste_bad_input_is_error : forall ids size tok fuel,
  tok = WMalformed \/ (exists z, tok = WNum z /\ (z < 0 \/ zlen ids < z)) \/ size < 0 ->
  waste_chain ids size (S fuel) tok = [OErr InvalidArgument].
Proof. exact waste_bad_input_rejected. Qed.
Print Assumptions C15_waste_bad_input_is_error.

(* The predicate the harness evaluates on every observed chain holds of the model for every
   input, all seven RPCs, every first token (empty, well-formed, malformed, out of range) and
   every page size including negative ones ... *)
Theorem C15_model_satisfies_property_keys : forall s keys size tok,
  keys_wf keys = true ->
  C15_ok (KKeys s keys size tok (key_chain (variant_of s) keys size (harness_fuel keys) tok)) = true.
Proof. exact key_model_ok. Qed.
Print Assumptions C15_model_satisfies_property_keys.

Theorem C15_model_satisfies_property_waste : forall ids size tok,
  C15_ok (KWaste ids size tok (waste_chain ids size (harness_fuel ids) tok)) = true.
Proof. exact waste_model_ok. Qed.
Print Assumptions C15_model_satisfies_property_waste.

(* ... hence an observation that agrees with the model satisfies the property *)
Theorem C15_judge_sound : forall c, C15_guard c = true -> agrees c = true -> C15_ok c = true.
Proof. exact judge_sound. Qed.
Print Assumptions C15_judge_sound.

(* ---- the handlers before the fix commits: the property's last clause was false ---- *)

(* negative page size, key-token servers: a panic for EVERY collection (index before the slice) *)
Theorem C15_negative_page_size_v0_refuted : forall v keys size,
  size < 0 -> key_page_v0 v keys TokEmpty size = OPanic.
Proof. exact key_page_v0_negative_panics. Qed.
Print Assumptions C15_negative_page_size_v0_refuted.

(* waste, negative page size: the newest record and no error *)
Theorem C15_waste_negative_page_size_v0_refuted :
  waste_page_v0 ["b"%string; "~-"%string] WEmpty (-4) = OPage ["~-"%string] None 2.
Proof. vm_compute. reflexivity. Qed.
Print Assumptions C15_waste_negative_page_size_v0_refuted.

(* waste, token above the record count: panic; negative token: empty page, no error;
   non-numeric token: the raw strconv error (status Unknown) *)
Theorem C15_waste_token_range_v0_refuted :
  waste_page_v0 [" A"%string; " A-"%string; " A- "%string] (WNum 4) 5000 = OPanic
  /\ waste_page_v0 [" A"%string; " A-"%string; " A- "%string] (WNum (-1)) 1 = OPage [] None 3
  /\ waste_page_v0 [" A"%string] WMalformed 1 = OErr 2.
Proof. vm_compute. repeat split. Qed.
Print Assumptions C15_waste_token_range_v0_refuted.

(* ---- non-vacuity ---- *)

(* a well-formed listing with ids that are prefixes of each other; page size 2 divides n = 4:
   two full pages and the (allowed) trailing empty page, 4/2 + 1 = 3 calls *)
Example C15_nonvacuous_keys :
  let keys := ["a"; "a "; "a b"; "ab"]%string in
  keys_wf keys = true
  /\ key_chain VGeSkip keys 2 10 TokEmpty
     = [OPage ["a"; "a "]%string (Some "a "%string) 4; OPage ["a b"; "ab"]%string (Some "ab"%string) 4; OPage [] None 4]
  /\ (* a token naming an absent key between "a b" and "ab" *)
     key_chain VGreater keys 2 10 (TokKey "a!"%string) = [OPage ["ab"%string] None 4].
Proof. vm_compute. repeat split. Qed.

(* waste: five records, page size 2: 2 + 2 + 1, tokens 3 and 1, no trailing empty page *)
Example C15_nonvacuous_waste :
  waste_chain ["r0"; "r1"; "r2"; "r3"; "r4"]%string 2 10 WEmpty
  = [OPage ["r4"; "r3"]%string (Some 3) 5; OPage ["r2"; "r1"]%string (Some 1) 5; OPage ["r0"%string] None 5].
Proof. vm_compute. reflexivity. Qed.

(* the judge really distinguishes: a chain that skips an item is rejected *)
Example C15_judge_rejects_skip :
  C15_ok (KKeys SHail ["a"; "b"; "c"]%string 2 TokEmpty
            [OPage ["a"; "b"]%string (Some "c"%string) 3; OPage [] None 3]) = false.
Proof. vm_compute. reflexivity. Qed.
