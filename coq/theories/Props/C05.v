(* C05 — Writes respect update, writable-field and reset masks.
   Theorems only; proofs live in Masks/UpdateProofs.v.

   [validate_update], [merge], [write] model FieldUpdater.Validate / Merge in /repo/pkg/masks/update.go
   and the mask plumbing of resource.Value.Set as they are now (after the fix commits); [_v0] is the
   pinned code.  A mask is [None] (nil) or a list of paths; messages are canonical populated-field
   trees; [conforms sch ty v]: v is a tree of message type ty; [good_path]: the declarative reading of
   a valid path (Msg/PathProofs.v); [get_at q v]: the sub-tree of v at position q (a chain of singular
   message fields). *)
From SC Require Import Base.Prelude Msg.Msg Msg.Schema Msg.Path Msg.PathProofs Msg.PathAlgebra Msg.FmUtils Msg.ProtoOps
  Masks.Get Masks.GetProofs Masks.Update Masks.UpdateProofs Masks.Options Masks.OptionsProofs
  Masks.C05Judge Masks.C05JudgeProofs Gen.Schema.
Local Open Scope string_scope.

(* Validate accepts exactly: update mask valid, every update path equal to or nested inside some
   writable path (nil writable mask: every field), reset mask valid *)
Theorem C05_validate_ok_iff : forall sch ty um wm rm,
  validate_update sch ty um wm rm = code_ok <->
  all_good sch ty um /\ all_within um wm /\ all_good sch ty rm.
Proof. exact validate_update_ok_iff. Qed.
Print Assumptions C05_validate_ok_iff.

(* unknown fields or fields outside the writable fields: InvalidArgument; bad reset mask: Internal *)
Theorem C05_validate_codes : forall sch ty um wm rm,
  (all_good sch ty um -> all_within um wm -> ~ all_good sch ty rm ->
   validate_update sch ty um wm rm = code_internal) /\
  (~ (all_good sch ty um /\ all_within um wm) ->
   validate_update sch ty um wm rm = code_invalid_argument).
Proof. exact validate_update_codes. Qed.
Print Assumptions C05_validate_codes.

(* a rejected write answers the code and yields no new stored value *)
Theorem C05_invalid_rejected_noop : forall sch ty allw resw more um rm stored written,
  validate_update sch ty um (effective_writable allw resw more) rm <> code_ok ->
  write sch ty allw resw more um rm stored written =
  WErr (validate_update sch ty um (effective_writable allw resw more) rm).
Proof. exact invalid_rejected_noop. Qed.
Print Assumptions C05_invalid_rejected_noop.

(* WithMoreUpdateMask / WithMoreUpdatePaths: a nil update mask (= all writable fields) stays nil, a
   non-nil one gets exactly the extra paths added (up to normalization) *)
Theorem C05_more_update_spec : forall um moreu,
  effective_update None moreu = None /\
  effective_update um None = um /\
  (forall ps extra p, um = Some ps -> moreu = Some extra ->
     exists qs, effective_update um moreu = Some qs /\
                (In p (ps ++ extra)%list -> exists q, In q qs /\ is_prefix q p = true) /\
                (In p qs -> In p (ps ++ extra)%list)).
Proof. exact more_update_spec. Qed.
Print Assumptions C05_more_update_spec.

(* ... and every one of those paths is validated (fix 3a4e7e7): one path of the update mask or of the extra
   update paths that is not a valid path of the type, or lies outside every writable path, and the write
   is rejected with InvalidArgument whatever the other paths are *)
Theorem C05_more_update_all_validated : forall sch ty ps extra wm rm p,
  In p (ps ++ extra)%list ->
  (~ good_path sch ty p \/ (exists ws, wm = Some ws /\ forall w, In w ws -> is_prefix w p = false)) ->
  validate_update sch ty (effective_update (Some ps) (Some extra)) wm rm = code_invalid_argument.
Proof. exact more_update_all_validated. Qed.
Print Assumptions C05_more_update_all_validated.

(* defect (fixed, 3a4e7e7): WithMoreUpdateMask merged with fieldmaskpb.Union, which normalizes: the unknown
   path ambient_humidity.value (ambient_humidity is a scalar) next to the extra path ambient_humidity
   disappeared before Validate and the write was accepted (and cleared ambient_humidity) *)
Theorem C05_more_update_v0_refuted :
  let ty := "smartcore.traits.AirTemperature" in
  let um := Some [["ambient_humidity"; "value"]] in let moreu := Some [["ambient_humidity"]] in
  let stored := VM [("ambient_humidity", VS (SF32 1075838976))] in
  conforms the_schema ty stored = true /\
  fm_valid the_schema ty (mask_paths um) = false /\
  effective_update_v0 um moreu = moreu /\
  write the_schema ty false None None (effective_update_v0 um moreu) None stored (VM []) = WOk (VM []) /\
  write the_schema ty false None None (effective_update um moreu) None stored (VM []) = WErr code_invalid_argument.
Proof. vm_compute. repeat split; reflexivity. Qed.

(* an empty non-nil update mask changes nothing *)
Theorem C05_empty_mask_noop : forall sch ty wm rm dst src,
  schema_names_ok sch = true -> valid_or sch ty wm = true -> conforms sch ty src = true ->
  exists src', merge sch ty (Some []) wm rm dst src = MOk dst src'.
Proof. exact empty_mask_noop. Qed.
Print Assumptions C05_empty_mask_noop.

(* an empty non-nil writable mask: nothing is writable, nothing changes *)
Theorem C05_nothing_writable_noop : forall sch ty um rm dst src,
  merge sch ty um (Some []) rm dst src = MOk dst src.
Proof. exact nothing_writable_noop. Qed.
Print Assumptions C05_nothing_writable_noop.

(* FRAME.  An accepted write with a non-empty update mask: every position q that the update mask does
   not reach ([outside_t]: walking q down the nested mask of the normalized update paths leaves the
   mask before one of its paths ends, and no field on the way is a member of a oneof another member of
   which the mask passes through) and that the reset mask does not reach ([outside_p]) holds exactly
   what it held before — for every schema, conformant stored and written messages, any writable mask.
   (Validate guarantees the update paths lie inside the writable paths, so M ∩ W = M.) *)
Theorem C05_frame : forall sch ty ups wm rm dst src post src',
  schema_names_ok sch = true ->
  conforms sch ty dst = true -> conforms sch ty src = true ->
  fm_valid sch ty ups = true -> ups <> [] ->
  merge sch ty (Some ups) wm rm dst src = MOk post src' ->
  forall q, outside_t sch ty (trie ups) q -> outside_p (trie (mask_paths rm)) q ->
  get_at q post = get_at q dst.
Proof. exact frame. Qed.
Print Assumptions C05_frame.

(* INSIDE.  At every path p of the normalized update mask that the reset mask does not reach, the
   result holds [expect_at]: nothing if the written message has nothing at p (parents included),
   otherwise the written value put onto the old one by protobuf FieldMask update semantics. *)
Theorem C05_inside : forall sch ty ups wm rm dst src post src' p,
  schema_names_ok sch = true ->
  conforms sch ty dst = true -> conforms sch ty src = true ->
  fm_valid sch ty ups = true -> ups <> [] ->
  valid_or sch ty wm = true -> all_within (Some ups) wm -> wm <> Some [] ->
  merge sch ty (Some ups) wm rm dst src = MOk post src' ->
  In p (normalize_paths ups) -> outside_p (trie (mask_paths rm)) p ->
  get_at p post = expect_at sch ty p dst src.
Proof. exact inside. Qed.
Print Assumptions C05_inside.

(* ... which reads: absent in the written message => cleared; a scalar => exactly the written scalar *)
Theorem C05_scalar_in_mask : forall sch ty p dst src,
  p <> [] ->
  (get_at p src = None -> expect_at sch ty p dst src = None) /\
  (forall s, get_at p src = Some (VS s) -> expect_at sch ty p dst src = Some (VS s)).
Proof. intros. split; [apply inside_absent_cleared|intros; apply inside_scalar]; auto. Qed.
Print Assumptions C05_scalar_in_mask.

(* ... repeated fields are appended, map entries overwritten per key, sub-messages merged *)
Theorem C05_message_and_list_semantics : forall sch ty p dst src,
  p <> [] ->
  (forall l, get_at p src = Some (VL l) ->
     expect_at sch ty p dst src = Some (match get_at p dst with Some (VL dl) => VL (dl ++ l) | _ => VL l end)) /\
  (forall kv, get_at p src = Some (VMap kv) ->
     expect_at sch ty p dst src = Some (match get_at p dst with Some (VMap dkv) => VMap (merge_map dkv kv) | _ => VMap kv end)) /\
  (forall f, get_at p src = Some (VM f) ->
     expect_at sch ty p dst src =
     Some (match get_at p dst with
           | Some (VM fd) => proto_merge sch (sub_type sch (parent_type sch ty p) (last_seg p)) (VM fd) (VM f)
           | Some _ => proto_merge sch (sub_type sch (parent_type sch ty p) (last_seg p)) (VM []) (VM f)
           | None => VM f
           end)).
Proof.
  intros. split; [|split]; intros.
  - apply inside_list_appended; auto.
  - apply inside_map_overlaid; auto.
  - apply inside_message_merged; auto.
Qed.
Print Assumptions C05_message_and_list_semantics.

(* nil update mask where every field is writable: the result is the written message *)
Theorem C05_nil_masks_replace : forall sch ty dst sf,
  merge sch ty None None None dst (VM sf) = MOk (VM sf) (VM sf).
Proof. exact nil_masks_replace. Qed.
Print Assumptions C05_nil_masks_replace.

(* RESET.  Whenever Merge runs (update mask not empty-non-nil, something writable), every position at
   or below a reset path is cleared — whatever the update and writable masks say *)
Theorem C05_reset_cleared : forall sch ty um wm rs dst src post src' p r,
  schema_names_ok sch = true -> fm_valid sch ty rs = true ->
  is_msg dst = true -> is_msg src = true ->
  merge sch ty um wm (Some rs) dst src = MOk post src' ->
  um <> Some [] -> wm <> Some [] ->
  In p rs -> get_at (p ++ r)%list post = None.
Proof. exact reset_cleared. Qed.
Print Assumptions C05_reset_cleared.

(* FRAME and INSIDE for a NIL update mask on a resource with writable fields W (Merge prunes the
   writable paths from dst, then merges the W-filtered written message): everything W and the reset
   mask do not reach is unchanged; every (normalized) writable path ends exactly as the written message
   has it — nothing there means cleared *)
Theorem C05_frame_nil_update : forall sch ty ws rm dst src post src',
  schema_names_ok sch = true ->
  conforms sch ty dst = true -> conforms sch ty src = true ->
  fm_valid sch ty ws = true -> ws <> [] ->
  merge sch ty None (Some ws) rm dst src = MOk post src' ->
  forall q, outside_t sch ty (trie ws) q -> outside_p (trie (mask_paths rm)) q ->
  get_at q post = get_at q dst.
Proof. exact frame_nil_update. Qed.
Print Assumptions C05_frame_nil_update.

Theorem C05_inside_nil_update : forall sch ty ws rm dst src post src' p,
  schema_names_ok sch = true ->
  conforms sch ty dst = true -> conforms sch ty src = true ->
  fm_valid sch ty ws = true ->
  merge sch ty None (Some ws) rm dst src = MOk post src' ->
  In p (normalize_paths ws) -> outside_p (trie (mask_paths rm)) p ->
  get_at p post = get_at p src.
Proof. exact inside_nil_update. Qed.
Print Assumptions C05_inside_nil_update.

(* FRAME, EXACT about oneofs.  [outside_p] only: q is not reached by the update mask nor by the reset
   mask.  Then q holds what it held — unless, somewhere on its way, a field that the (writable-filtered)
   written message does not itself set is a member of a oneof another member of which the update mask
   names and the written message sets ([cleared_along]): then q is cleared.  That is protobuf's "setting
   a oneof member clears the others", and nothing else happens outside the masks. *)
Theorem C05_frame_exact : forall sch ty ups wm rm dst src post src',
  schema_names_ok sch = true ->
  conforms sch ty dst = true -> conforms sch ty src = true ->
  fm_valid sch ty ups = true -> ups <> [] -> wm <> Some [] ->
  merge sch ty (Some ups) wm rm dst src = MOk post src' ->
  exists src1, writable_filtered wm src src1 /\
    forall q, outside_p (trie ups) q -> outside_p (trie (mask_paths rm)) q ->
              get_at q post = if cleared_along sch ty (trie ups) src1 q then None else get_at q dst.
Proof. exact frame_exact. Qed.
Print Assumptions C05_frame_exact.

(* NO PANIC.  Conformant stored and written messages, update / writable / reset masks each valid for
   the type (Validate checks the first and the last; the writable mask is the developer's), in ANY
   mutual relation: Merge returns.  Hence Value.Set never panics in Merge when the resource's writable
   fields and the extra writable fields are valid masks. *)
Theorem C05_merge_never_panics : forall sch ty um wm rm dst src,
  schema_names_ok sch = true ->
  conforms sch ty dst = true -> conforms sch ty src = true ->
  valid_or sch ty um = true -> valid_or sch ty wm = true -> valid_or sch ty rm = true ->
  merge sch ty um wm rm dst src <> MPanic.
Proof. exact merge_never_panics. Qed.
Print Assumptions C05_merge_never_panics.

Theorem C05_write_never_panics : forall sch ty allw resw more um rm stored written,
  schema_names_ok sch = true ->
  conforms sch ty stored = true -> conforms sch ty written = true ->
  valid_or sch ty resw = true -> valid_or sch ty more = true ->
  write sch ty allw resw more um rm stored written <> WPanic.
Proof. exact write_never_panics. Qed.
Print Assumptions C05_write_never_panics.

(* ... but NOT for all masks: a writable mask that is not valid for the type (WithWritableFields does
   not validate it, unlike WithWritablePaths) passes Validate and makes Merge panic in fmutils.
   Confirmed on the real code: Value.Set panics "type mismatch: cannot convert map to message". *)
Theorem C05_invalid_writable_panics :
  let wm := Some [["map_string_string"; "a"]] in
  let written := VM [("map_string_string", VMap [(SStr "a", VS (SStr "x"))])] in
  conforms the_schema "sc.go.test.TestAllTypes" written = true /\
  valid_or the_schema "sc.go.test.TestAllTypes" wm = false /\
  validate_update the_schema "sc.go.test.TestAllTypes" None wm None = code_ok /\
  merge the_schema "sc.go.test.TestAllTypes" None wm None (VM []) written = MPanic.
Proof. vm_compute. repeat split; reflexivity. Qed.

(* ---- the pinned code ---- *)
Definition tat := "sc.go.test.TestAllTypes".
Definition dfm := "default_foreign_message".
Definition st0 : value :=
  VM [("default_int32", VS (SInt 7)); (dfm, VM [("c", VS (SInt 1)); ("d", VS (SInt 2))])].
Definition wr0 : value :=
  VM [("default_int32", VS (SInt 100)); (dfm, VM [("c", VS (SInt 5)); ("d", VS (SInt 6))])].

(* defect (fixed, 7179c40): the same writable path twice in the update mask was "read-only" *)
Theorem C05_duplicate_v0_refuted :
  let um := Some [["default_int32"]; ["default_int32"]] in let wm := Some [["default_int32"]] in
  validate_update_v0 the_schema tat um wm None = code_invalid_argument /\
  validate_update the_schema tat um wm None = code_ok /\
  merge the_schema tat um wm None st0 wr0 =
  MOk (VM [("default_int32", VS (SInt 100)); (dfm, VM [("c", VS (SInt 1)); ("d", VS (SInt 2))])])
      (VM [("default_int32", VS (SInt 100))]).
Proof. vm_compute. repeat split; reflexivity. Qed.

(* defect (fixed, 7179c40): an update path that is a PARENT of a narrower writable path was accepted and
   the merge cleared the non-writable d: a frame violation *)
Theorem C05_parent_of_writable_v0_refuted :
  let um := Some [[dfm]] in let wm := Some [[dfm; "c"]] in
  validate_update_v0 the_schema tat um wm None = code_ok /\
  (exists s', merge_v0 the_schema tat um wm None st0 (VM []) = MOk (VM [("default_int32", VS (SInt 7))]) s') /\
  get_at [dfm; "d"] st0 = Some (VS (SInt 2)) /\
  validate_update the_schema tat um wm None = code_invalid_argument.
Proof. vm_compute. repeat split; try reflexivity. eexists. reflexivity. Qed.

(* defect (fixed, 7179c40): counts that merely coincide let a non-writable field through, which the
   merge then cleared *)
Theorem C05_count_coincidence_v0_refuted :
  let um := Some [[dfm]; ["default_int32"]] in let wm := Some [[dfm; "c"]; [dfm; "d"]] in
  validate_update_v0 the_schema tat um wm None = code_ok /\
  (exists s', merge_v0 the_schema tat um wm None st0 wr0 = MOk (VM [(dfm, VM [("c", VS (SInt 5)); ("d", VS (SInt 6))])]) s') /\
  validate_update the_schema tat um wm None = code_invalid_argument.
Proof. vm_compute. repeat split; try reflexivity. eexists. reflexivity. Qed.

(* defect (fixed, fccf288): with update mask [a.c] and a written message without a, all of a was
   cleared, including a.d which the mask does not name *)
Theorem C05_prune_empty_v0_refuted :
  let um := Some [[dfm; "c"]] in
  validate_update the_schema tat um None None = code_ok /\
  (exists s', merge_gen false normalize_paths the_schema tat um None None st0 (VM []) =
              MOk (VM [("default_int32", VS (SInt 7))]) s') /\
  (exists s', merge the_schema tat um None None st0 (VM []) =
              MOk (VM [("default_int32", VS (SInt 7)); (dfm, VM [("d", VS (SInt 2))])]) s').
Proof. vm_compute. repeat split; try reflexivity; eexists; reflexivity. Qed.

(* defect (fixed, be0c3fd): a parent path next to one of its child paths meant the child only, in the
   update mask (a.d not written), the writable mask (a.d cleared instead of written) and the reset mask
   (a.d not reset) *)
Theorem C05_parent_and_child_v0_refuted :
  (exists s', merge_gen true (fun ps => ps) the_schema tat (Some [[dfm]; [dfm; "c"]]) None None st0 wr0 =
              MOk (VM [("default_int32", VS (SInt 7)); (dfm, VM [("c", VS (SInt 5)); ("d", VS (SInt 2))])]) s') /\
  (exists s', merge the_schema tat (Some [[dfm]; [dfm; "c"]]) None None st0 wr0 =
              MOk (VM [("default_int32", VS (SInt 7)); (dfm, VM [("c", VS (SInt 5)); ("d", VS (SInt 6))])]) s') /\
  (exists s', merge_gen true (fun ps => ps) the_schema tat (Some [[dfm; "d"]]) (Some [[dfm]; [dfm; "c"]]) None st0 wr0 =
              MOk (VM [("default_int32", VS (SInt 7)); (dfm, VM [("c", VS (SInt 1))])]) s') /\
  (exists s', merge the_schema tat (Some [[dfm; "d"]]) (Some [[dfm]; [dfm; "c"]]) None st0 wr0 =
              MOk (VM [("default_int32", VS (SInt 7)); (dfm, VM [("c", VS (SInt 1)); ("d", VS (SInt 6))])]) s') /\
  (exists s', merge_gen true (fun ps => ps) the_schema tat (Some [["default_int32"]]) None (Some [[dfm]; [dfm; "c"]]) st0 wr0 =
              MOk (VM [("default_int32", VS (SInt 100)); (dfm, VM [("d", VS (SInt 2))])]) s') /\
  (exists s', merge the_schema tat (Some [["default_int32"]]) None (Some [[dfm]; [dfm; "c"]]) st0 wr0 =
              MOk (VM [("default_int32", VS (SInt 100))]) s').
Proof. vm_compute. repeat split; eexists; reflexivity. Qed.

(* ---------------------------------------------------------------------------------------------------- *)
(* THE OPTION PLUMBING of pkg/resource/opt.go as mask algebra (Masks/Options.v): the write options are    *)
(* folded over the request record in the order given, exactly as ComputeWriteConfig does.                 *)

(* UPDATE MASK in force: no WithUpdateMask: nil, whatever WithMoreUpdateMask says; otherwise the LAST
   WithUpdateMask decides - nil stays nil, a non-nil mask gets exactly the paths of the WithMoreUpdateMask
   options that FOLLOW it appended, in order, as given *)
Theorem C05_update_mask_of_opts :
  (forall opts, forallb (fun o => negb (is_update_opt o)) opts = true ->
     w_update (compute_wreq opts) = None) /\
  (forall pre m post, forallb (fun o => negb (is_update_opt o)) post = true ->
     w_update (compute_wreq (pre ++ OUpdateMask m :: post)%list) =
     match m with None => None | Some ps => Some (ps ++ flat_map more_update_paths post)%list end).
Proof. exact update_mask_of_opts. Qed.
Print Assumptions C05_update_mask_of_opts.

(* RESET MASK in force: the last WithResetMask; none: nil *)
Theorem C05_reset_mask_of_opts :
  (forall opts, forallb (fun o => negb (is_reset_opt o)) opts = true -> w_reset (compute_wreq opts) = None) /\
  (forall pre m post, forallb (fun o => negb (is_reset_opt o)) post = true ->
     w_reset (compute_wreq (pre ++ OResetMask m :: post)%list) = m).
Proof. exact reset_mask_of_opts. Qed.
Print Assumptions C05_reset_mask_of_opts.

(* WRITABLE MASK handed to the FieldUpdater: nil (every field) when WithAllFieldsWritable occurs anywhere or
   the resource has no writable mask - extra writable paths can never RESTRICT; otherwise a normalized
   list that selects exactly the resource's writable paths and every extra writable path, in whatever
   order and however many options they were given *)
Theorem C05_writable_of_opts : forall resw opts,
  (existsb is_allw_opt opts = true -> wreq_writable resw (compute_wreq opts) = None) /\
  (resw = None -> wreq_writable resw (compute_wreq opts) = None) /\
  (forall w, resw = Some w -> existsb is_allw_opt opts = false ->
     exists l, wreq_writable resw (compute_wreq opts) = Some l /\ normal l /\
               forall p, covers l p <-> covers w p \/ covers (flat_map more_writable_paths opts) p).
Proof. exact writable_of_opts. Qed.
Print Assumptions C05_writable_of_opts.

(* more writable paths never turn an accepted write into a rejected one, and Validate depends on the
   writable mask only through what it selects *)
Theorem C05_writable_monotone : forall sch ty um ws ws' rm,
  (forall p, covers ws p -> covers ws' p) ->
  validate_update sch ty um (Some ws) rm = code_ok ->
  validate_update sch ty um (Some ws') rm = code_ok.
Proof. exact validate_writable_monotone. Qed.
Print Assumptions C05_writable_monotone.

(* EVERY UPDATE PATH IS VALIDATED, for option lists: a path of the last WithUpdateMask or of a later
   WithMoreUpdateMask that is not a valid path of the type, or that no writable path in force covers,
   and Value.Set answers InvalidArgument and stores nothing *)
Theorem C05_opts_every_update_path_validated : forall sch ty resw pre ps post stored written p,
  forallb (fun o => negb (is_update_opt o)) post = true ->
  In p (ps ++ flat_map more_update_paths post)%list ->
  (~ good_path sch ty p \/
   (exists ws, wreq_writable resw (compute_wreq (pre ++ OUpdateMask (Some ps) :: post)%list) = Some ws /\
               ~ covers ws p)) ->
  write_opts sch ty resw (pre ++ OUpdateMask (Some ps) :: post)%list stored written = WErr code_invalid_argument.
Proof. exact opts_every_update_path_validated. Qed.
Print Assumptions C05_opts_every_update_path_validated.

(* the single-option plumbing used by the other theorems is this fold on one-option lists *)
Theorem C05_single_options_are_folds : forall allw resw more um moreu,
  effective_writable allw resw more =
  wreq_writable resw (compute_wreq ((if allw then [OAllWritable] else []) ++
                                    match more with Some x => [OMoreWritable (Some x)] | None => [] end)%list) /\
  effective_update um moreu =
  w_update (compute_wreq (OUpdateMask um :: match moreu with Some x => [OMoreUpdateMask (Some x)] | None => [] end)).
Proof. intros. split; [apply effective_writable_is_fold|apply effective_update_is_fold]. Qed.
Print Assumptions C05_single_options_are_folds.

(* Merge only ever looks at normalized copies of its masks, so un-normalized masks (duplicates, a path
   below another path - valid or not) mean their normalization; in particular the repair 3a4e7e7 changed
   what Validate sees, not what an accepted write does *)
Theorem C05_merge_normalizes : forall sch ty um wm rm dst src,
  merge sch ty (norm_mask um) wm rm dst src = merge sch ty um wm rm dst src /\
  merge sch ty um (norm_mask wm) rm dst src = merge sch ty um wm rm dst src /\
  merge sch ty um wm (norm_mask rm) dst src = merge sch ty um wm rm dst src /\
  (forall moreu, merge sch ty (effective_update um moreu) wm rm dst src =
                 merge sch ty (effective_update_v0 um moreu) wm rm dst src).
Proof.
  intros. split; [apply merge_norm_update|]. split; [apply merge_norm_writable|].
  split; [apply merge_norm_reset|]. intros. apply more_update_merge_same.
Qed.
Print Assumptions C05_merge_normalizes.

(* the mask algebra: Union selects what either mask selects (hence commutative, associative, idempotent
   on selections), Normalize is idempotent and yields a strictly sorted list without nested paths *)
Theorem C05_mask_algebra : forall a b c p,
  (covers (fm_union a b) p <-> covers a p \/ covers b p) /\
  (covers (fm_union a b) p <-> covers (fm_union b a) p) /\
  (covers (fm_union (fm_union a b) c) p <-> covers (fm_union a (fm_union b c)) p) /\
  normalize_paths (fm_union a b) = fm_union a b /\ normal (fm_union a b) /\
  (fm_union a b = [] <-> (a ++ b)%list = []).
Proof.
  intros. split; [apply union_covers_iff|]. split; [apply union_covers_comm|].
  split; [apply union_covers_assoc|]. split; [apply union_normalized_arg|].
  split; [apply normalize_is_normal|apply normalize_nil_iff].
Qed.
Print Assumptions C05_mask_algebra.

(* the judge's independent right-to-left reading of an option list is the model's in-order fold, and the
   code it expects is the code Validate answers on the folded request whenever the generator's validity
   tags are right about the masks in force *)
Theorem C05_judge_opts_sound : forall (ty : string) (resw : mask) (opts : list wopt) (mtag rtag : Z),
  spec_um_opts opts = w_update (compute_wreq opts) /\
  spec_rm_opts opts = w_reset (compute_wreq opts) /\
  (((mtag =? 0)%Z = valid_or the_schema ty (spec_um_opts opts)) ->
   ((rtag =? 0)%Z = valid_or the_schema ty (spec_rm_opts opts)) ->
   expected_code (spec_um_opts opts) (spec_weff_opts resw opts) mtag rtag (spec_rm_opts opts) =
   validate_update the_schema ty (w_update (compute_wreq opts)) (wreq_writable resw (compute_wreq opts))
                   (w_reset (compute_wreq opts))).
Proof.
  intros. split; [apply spec_um_opts_is_fold|]. split; [apply spec_rm_opts_is_fold|].
  apply expected_code_opts_sound.
Qed.
Print Assumptions C05_judge_opts_sound.

Example C05_nonvacuous_opts :
  let opts := [OMoreUpdateMask (Some [["zzz"]]); OUpdateMask (Some [[dfm; "c"]]); OMoreWritable (Some [[dfm; "c"]]);
               OResetMask (Some [["default_int32"]]); OMoreUpdateMask (Some [["default_int32"]]);
               OMoreWritable (Some [["default_int32"]; [dfm; "c"; "x"]]); OResetMask None] in
  w_update (compute_wreq opts) = Some [[dfm; "c"]; ["default_int32"]] /\
  w_reset (compute_wreq opts) = None /\
  wreq_writable (Some [["default_string"]]) (compute_wreq opts) =
    Some [[dfm; "c"]; ["default_int32"]; ["default_string"]] /\
  write_opts the_schema tat (Some [["default_string"]]) opts st0 wr0 =
    WOk (VM [("default_int32", VS (SInt 100)); (dfm, VM [("c", VS (SInt 5)); ("d", VS (SInt 2))])]) /\
  write_opts the_schema tat (Some [["default_string"]]) (opts ++ [OMoreUpdateMask (Some [[dfm; "c"; "x"]])])%list st0 wr0 =
    WErr code_invalid_argument.
Proof. vm_compute. repeat split; reflexivity. Qed.

(* ---- non-vacuity ---- *)
Example C05_nonvacuous_write :
  let stored := VM [("default_int32", VS (SInt 7)); ("oneof_default_int32", VS (SInt 0));
                    (dfm, VM [("c", VS (SInt 1)); ("d", VS (SInt 2))]);
                    ("repeated_int32", VL [VS (SInt 1)]);
                    ("map_string_string", VMap [(SStr "a", VS (SStr "x"))])] in
  let written := VM [("oneof_default_nested_message", VM [("a", VS (SInt 3))]);
                     (dfm, VM [("c", VS (SInt 5))]);
                     ("repeated_int32", VL [VS (SInt 2)]);
                     ("map_string_string", VMap [(SStr "b", VS (SStr "y"))]);
                     ("default_string", VS (SStr "not writable"))] in
  let um := Some [[dfm; "c"]; ["repeated_int32"]; ["map_string_string"]; ["oneof_default_nested_message"; "a"]; ["default_int32"]] in
  conforms the_schema tat stored = true /\ conforms the_schema tat written = true /\
  write the_schema tat false (Some [[dfm]; ["repeated_int32"]; ["default_int32"]])
        (Some [["map_string_string"]; ["oneof_default_nested_message"]]) um (Some [[dfm; "d"]]) stored written =
  WOk (VM [(dfm, VM [("c", VS (SInt 5))]);
           ("repeated_int32", VL [VS (SInt 1); VS (SInt 2)]);
           ("map_string_string", VMap [(SStr "a", VS (SStr "x")); (SStr "b", VS (SStr "y"))]);
           ("oneof_default_nested_message", VM [("a", VS (SInt 3))])]).
Proof. vm_compute. repeat split; reflexivity. Qed.

(* the hypotheses of C05_frame / C05_inside are satisfiable and the conclusions non-trivial *)
Definition ups0 : list path := [[dfm; "c"]; ["default_int32"]].

Example C05_nonvacuous_frame_hyps :
  schema_names_ok the_schema = true /\ conforms the_schema tat st0 = true /\ conforms the_schema tat wr0 = true /\
  fm_valid the_schema tat ups0 = true /\
  (exists s', merge the_schema tat (Some ups0) None None st0 wr0 =
              MOk (VM [("default_int32", VS (SInt 100)); (dfm, VM [("c", VS (SInt 5)); ("d", VS (SInt 2))])]) s') /\
  In [dfm; "c"] (normalize_paths ups0) /\
  expect_at the_schema tat [dfm; "c"] st0 wr0 = Some (VS (SInt 5)).
Proof.
  vm_compute. repeat split; try reflexivity; auto. eexists. reflexivity.
Qed.

Example C05_nonvacuous_frame_position :
  outside_t the_schema tat (trie ups0) [dfm; "d"] /\ outside_p (trie []) [dfm; "d"].
Proof.
  assert (trie ups0 = NM [(dfm, NM [("c", NM [])]); ("default_int32", NM [])]) as Ht by (vm_compute; reflexivity).
  rewrite Ht. split; [|vm_compute; exact I].
  split.
  - intros k' Hk. unfold nm_lookup in Hk. cbn [alookup nm_children] in Hk.
    destruct (String.eqb k' dfm) eqn:E1; [apply String.eqb_eq in E1; subst; vm_compute; tauto|].
    destruct (String.eqb k' "default_int32") eqn:E2; [apply String.eqb_eq in E2; subst; vm_compute; tauto|].
    congruence.
  - change (nm_lookup dfm (NM [(dfm, NM [("c", NM [])]); ("default_int32", NM [])])) with (Some (NM [("c", NM [])])).
    split; [reflexivity|]. split; [|vm_compute; exact I].
    intros k' Hk. unfold nm_lookup in Hk. cbn [alookup nm_children] in Hk.
    destruct (String.eqb k' "c") eqn:E1; [apply String.eqb_eq in E1; subst; vm_compute; tauto|]. congruence.
Qed.

(* the oneof clause of C05_frame_exact fires: writing oneof_default_nested_message.a clears the stored
   oneof_default_int32, a position no mask reaches *)
Example C05_nonvacuous_oneof :
  let ups := [["oneof_default_nested_message"; "a"]] in
  let stored := VM [("default_int32", VS (SInt 7)); ("oneof_default_int32", VS (SInt 0))] in
  let written := VM [("oneof_default_nested_message", VM [("a", VS (SInt 3))])] in
  conforms the_schema tat stored = true /\ conforms the_schema tat written = true /\
  (exists s', merge the_schema tat (Some ups) None None stored written =
              MOk (VM [("default_int32", VS (SInt 7)); ("oneof_default_nested_message", VM [("a", VS (SInt 3))])]) s') /\
  cleared_along the_schema tat (trie ups) written ["oneof_default_int32"] = true /\
  cleared_along the_schema tat (trie ups) written ["default_int32"] = false.
Proof. vm_compute. repeat split; try reflexivity. eexists. reflexivity. Qed.

Example C05_nonvacuous_rejected :
  write the_schema tat false (Some [[dfm; "c"]]) None (Some [[dfm]]) None st0 wr0 = WErr code_invalid_argument /\
  write the_schema tat false (Some [[dfm; "c"]]) (Some [[dfm]]) (Some [[dfm]]) None st0 wr0 =
    WOk (VM [("default_int32", VS (SInt 7)); (dfm, VM [("c", VS (SInt 5)); ("d", VS (SInt 6))])]) /\
  write the_schema tat true (Some [[dfm; "c"]]) None (Some [["default_int32"; "x"]]) None st0 wr0 = WErr code_invalid_argument /\
  write the_schema tat false None None (Some [["default_int32"]]) (Some [["zzz"]]) st0 wr0 = WErr code_internal.
Proof. vm_compute. repeat split; reflexivity. Qed.

(* Print Assumptions for every theorem above that did not have its own line yet *)
Print Assumptions C05_more_update_v0_refuted.
Print Assumptions C05_invalid_writable_panics.
Print Assumptions C05_duplicate_v0_refuted.
Print Assumptions C05_parent_of_writable_v0_refuted.
Print Assumptions C05_count_coincidence_v0_refuted.
Print Assumptions C05_prune_empty_v0_refuted.
Print Assumptions C05_parent_and_child_v0_refuted.
