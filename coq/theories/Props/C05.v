(* C05 — Writes respect update, writable-field and reset masks.
   Theorems only; proofs live in Masks/UpdateProofs.v.

   [validate_update], [merge], [write] model FieldUpdater.Validate / Merge in /repo/pkg/masks/update.go
   and the mask plumbing of resource.Value.Set as they are now (after the fix commits); [_v0] is the
   pinned code.  A mask is [None] (nil) or a list of paths; messages are canonical populated-field
   trees; [conforms sch ty v]: v is a tree of message type ty; [good_path]: the declarative reading of
   a valid path (Msg/PathProofs.v); [get_at q v]: the sub-tree of v at position q (a chain of singular
   message fields). *)
From SC Require Import Base.Prelude Msg.Msg Msg.Schema Msg.Path Msg.PathProofs Msg.FmUtils Msg.ProtoOps
  Masks.Get Masks.GetProofs Masks.Update Masks.UpdateProofs Masks.C05Judge Gen.Schema.
Local Open Scope string_scope.

(* Validate accepts exactly: update mask valid, every update path equal to or nested inside some
   writable path (nil writable mask: every field), reset mask valid *)
Theorem C05_validate_ok_iff : forall sch ty um wm rm,
  validate_update sch ty um wm rm = code_ok <->
  all_good sch ty um /\ all_within um wm /\ all_good sch ty rm.
Proof. exact validate_update_ok_iff. Qed.
Print Assumptions C05_validate_ok_iff.

(* unknown fields or fields outside the writable fields: InvalidArgument; bad reset mask: Internal *)
Theorem C05_validate_codes : forall sch ty um wm rm,
  (all_good sch ty um -> all_within um wm -> ~ all_good sch ty rm ->
   validate_update sch ty um wm rm = code_internal) /\
  (~ (all_good sch ty um /\ all_within um wm) ->
   validate_update sch ty um wm rm = code_invalid_argument).
Proof. exact validate_update_codes. Qed.
Print Assumptions C05_validate_codes.

(* a rejected write answers the code and yields no new stored value *)
Theorem C05_invalid_rejected_noop : forall sch ty allw resw more um rm stored written,
  validate_update sch ty um (effective_writable allw resw more) rm <> code_ok ->
  write sch ty allw resw more um rm stored written =
  WErr (validate_update sch ty um (effective_writable allw resw more) rm).
Proof. exact invalid_rejected_noop. Qed.
Print Assumptions C05_invalid_rejected_noop.

(* an empty non-nil update mask changes nothing *)
Theorem C05_empty_mask_noop : forall sch ty wm rm dst src,
  schema_names_ok sch = true -> valid_or sch ty wm = true -> conforms sch ty src = true ->
  exists src', merge sch ty (Some []) wm rm dst src = MOk dst src'.
Proof. exact empty_mask_noop. Qed.
Print Assumptions C05_empty_mask_noop.

(* an empty non-nil writable mask: nothing is writable, nothing changes *)
Theorem C05_nothing_writable_noop : forall sch ty um rm dst src,
  merge sch ty um (Some []) rm dst src = MOk dst src.
Proof. exact nothing_writable_noop. Qed.
Print Assumptions C05_nothing_writable_noop.

(* ---- the pinned code ---- *)
Definition tat := "sc.go.test.TestAllTypes".
Definition dfm := "default_foreign_message".
Definition st0 : value :=
  VM [("default_int32", VS (SInt 7)); (dfm, VM [("c", VS (SInt 1)); ("d", VS (SInt 2))])].
Definition wr0 : value :=
  VM [("default_int32", VS (SInt 100)); (dfm, VM [("c", VS (SInt 5)); ("d", VS (SInt 6))])].

(* defect (fixed, 7179c40): the same writable path twice in the update mask was "read-only" *)
Theorem C05_duplicate_v0_refuted :
  let um := Some [["default_int32"]; ["default_int32"]] in let wm := Some [["default_int32"]] in
  validate_update_v0 the_schema tat um wm None = code_invalid_argument /\
  validate_update the_schema tat um wm None = code_ok /\
  merge the_schema tat um wm None st0 wr0 =
  MOk (VM [("default_int32", VS (SInt 100)); (dfm, VM [("c", VS (SInt 1)); ("d", VS (SInt 2))])])
      (VM [("default_int32", VS (SInt 100))]).
Proof. vm_compute. repeat split; reflexivity. Qed.

(* defect (fixed, 7179c40): an update path that is a PARENT of a narrower writable path was accepted and
   the merge cleared the non-writable d: a frame violation *)
Theorem C05_parent_of_writable_v0_refuted :
  let um := Some [[dfm]] in let wm := Some [[dfm; "c"]] in
  validate_update_v0 the_schema tat um wm None = code_ok /\
  (exists s', merge_v0 the_schema tat um wm None st0 (VM []) = MOk (VM [("default_int32", VS (SInt 7))]) s') /\
  get_at [dfm; "d"] st0 = Some (VS (SInt 2)) /\
  validate_update the_schema tat um wm None = code_invalid_argument.
Proof. vm_compute. repeat split; try reflexivity. eexists. reflexivity. Qed.

(* defect (fixed, 7179c40): counts that merely coincide let a non-writable field through, which the
   merge then cleared *)
Theorem C05_count_coincidence_v0_refuted :
  let um := Some [[dfm]; ["default_int32"]] in let wm := Some [[dfm; "c"]; [dfm; "d"]] in
  validate_update_v0 the_schema tat um wm None = code_ok /\
  (exists s', merge_v0 the_schema tat um wm None st0 wr0 = MOk (VM [(dfm, VM [("c", VS (SInt 5)); ("d", VS (SInt 6))])]) s') /\
  validate_update the_schema tat um wm None = code_invalid_argument.
Proof. vm_compute. repeat split; try reflexivity. eexists. reflexivity. Qed.

(* defect (fixed, fccf288): with update mask [a.c] and a written message without a, all of a was
   cleared, including a.d which the mask does not name *)
Theorem C05_prune_empty_v0_refuted :
  let um := Some [[dfm; "c"]] in
  validate_update the_schema tat um None None = code_ok /\
  (exists s', merge_gen false normalize_paths the_schema tat um None None st0 (VM []) =
              MOk (VM [("default_int32", VS (SInt 7))]) s') /\
  (exists s', merge the_schema tat um None None st0 (VM []) =
              MOk (VM [("default_int32", VS (SInt 7)); (dfm, VM [("d", VS (SInt 2))])]) s').
Proof. vm_compute. repeat split; try reflexivity; eexists; reflexivity. Qed.

(* defect (fixed, be0c3fd): a parent path next to one of its child paths meant the child only, in the
   update mask (a.d not written), the writable mask (a.d cleared instead of written) and the reset mask
   (a.d not reset) *)
Theorem C05_parent_and_child_v0_refuted :
  (exists s', merge_gen true (fun ps => ps) the_schema tat (Some [[dfm]; [dfm; "c"]]) None None st0 wr0 =
              MOk (VM [("default_int32", VS (SInt 7)); (dfm, VM [("c", VS (SInt 5)); ("d", VS (SInt 2))])]) s') /\
  (exists s', merge the_schema tat (Some [[dfm]; [dfm; "c"]]) None None st0 wr0 =
              MOk (VM [("default_int32", VS (SInt 7)); (dfm, VM [("c", VS (SInt 5)); ("d", VS (SInt 6))])]) s') /\
  (exists s', merge_gen true (fun ps => ps) the_schema tat (Some [[dfm; "d"]]) (Some [[dfm]; [dfm; "c"]]) None st0 wr0 =
              MOk (VM [("default_int32", VS (SInt 7)); (dfm, VM [("c", VS (SInt 1))])]) s') /\
  (exists s', merge the_schema tat (Some [[dfm; "d"]]) (Some [[dfm]; [dfm; "c"]]) None st0 wr0 =
              MOk (VM [("default_int32", VS (SInt 7)); (dfm, VM [("c", VS (SInt 1)); ("d", VS (SInt 6))])]) s') /\
  (exists s', merge_gen true (fun ps => ps) the_schema tat (Some [["default_int32"]]) None (Some [[dfm]; [dfm; "c"]]) st0 wr0 =
              MOk (VM [("default_int32", VS (SInt 100)); (dfm, VM [("d", VS (SInt 2))])]) s') /\
  (exists s', merge the_schema tat (Some [["default_int32"]]) None (Some [[dfm]; [dfm; "c"]]) st0 wr0 =
              MOk (VM [("default_int32", VS (SInt 100))]) s').
Proof. vm_compute. repeat split; eexists; reflexivity. Qed.

(* ---- non-vacuity ---- *)
Example C05_nonvacuous_write :
  let stored := VM [("default_int32", VS (SInt 7)); ("oneof_default_int32", VS (SInt 0));
                    (dfm, VM [("c", VS (SInt 1)); ("d", VS (SInt 2))]);
                    ("repeated_int32", VL [VS (SInt 1)]);
                    ("map_string_string", VMap [(SStr "a", VS (SStr "x"))])] in
  let written := VM [("oneof_default_nested_message", VM [("a", VS (SInt 3))]);
                     (dfm, VM [("c", VS (SInt 5))]);
                     ("repeated_int32", VL [VS (SInt 2)]);
                     ("map_string_string", VMap [(SStr "b", VS (SStr "y"))]);
                     ("default_string", VS (SStr "not writable"))] in
  let um := Some [[dfm; "c"]; ["repeated_int32"]; ["map_string_string"]; ["oneof_default_nested_message"; "a"]; ["default_int32"]] in
  conforms the_schema tat stored = true /\ conforms the_schema tat written = true /\
  write the_schema tat false (Some [[dfm]; ["repeated_int32"]; ["default_int32"]])
        (Some [["map_string_string"]; ["oneof_default_nested_message"]]) um (Some [[dfm; "d"]]) stored written =
  WOk (VM [(dfm, VM [("c", VS (SInt 5))]);
           ("repeated_int32", VL [VS (SInt 1); VS (SInt 2)]);
           ("map_string_string", VMap [(SStr "a", VS (SStr "x")); (SStr "b", VS (SStr "y"))]);
           ("oneof_default_nested_message", VM [("a", VS (SInt 3))])]).
Proof. vm_compute. repeat split; reflexivity. Qed.

Example C05_nonvacuous_rejected :
  write the_schema tat false (Some [[dfm; "c"]]) None (Some [[dfm]]) None st0 wr0 = WErr code_invalid_argument /\
  write the_schema tat false (Some [[dfm; "c"]]) (Some [[dfm]]) (Some [[dfm]]) None st0 wr0 =
    WOk (VM [("default_int32", VS (SInt 7)); (dfm, VM [("c", VS (SInt 5)); ("d", VS (SInt 6))])]) /\
  write the_schema tat true (Some [[dfm; "c"]]) None (Some [["default_int32"; "x"]]) None st0 wr0 = WErr code_invalid_argument /\
  write the_schema tat false None None (Some [["default_int32"]]) (Some [["zzz"]]) st0 wr0 = WErr code_internal.
Proof. vm_compute. repeat split; reflexivity. Qed.
