(* C13: the in-process wrapper (pkg/wrap) is indistinguishable from a real gRPC connection.

   Scenarios (Wrap/Stream.v) are global sequences of joint and local steps of a client program and a
   handler: they range over all script pairs and all schedules of the rendezvous fragment [wf]
   (every send meets a ready receiver, nothing is in flight when the client cancels).
   [wrap_run fx_now] is the model of pkg/wrap as it is now, [grpc_run] the reference behaviour of a
   real connection (validated against bufconn on every run; the behaviours it assumes are the named
   facts of Wrap/GrpcFacts.v).  Two classes of scenarios on which the two differ are recorded as known
   findings ([known_class] 1 and 2); on everything else they are equal. *)
From SC Require Import Base.Prelude Wrap.Stream Wrap.GrpcSpec Wrap.C13Judge Wrap.Copy Wrap.StreamProofs.
From SC Require Import Wrap.Sites Gen.WrapSites Wrap.SitesProofs.
From SC Require Import Wrap.GrpcFacts Gen.GrpcFacts Wrap.GrpcFactsProofs.

(* Same client transcript (messages in order, terminal outcome with status code and message,
   header and trailer metadata, results of sends) and same handler-side transcript, for every
   call shape, every scenario of the fragment outside the two recorded classes. *)
Theorem C13_wrapper_equals_grpc : forall sc,
  wf sc = true -> no_known sc = true -> wrap_run fx_now sc = grpc_run sc.
Proof. exact wrapper_equals_grpc. Qed.
Print Assumptions C13_wrapper_equals_grpc.

(* Every call of the fragment (the recorded classes included) runs to completion: no client
   operation blocks, and the handler goroutine has ended (Close was called). *)
Theorem C13_no_goroutine_left : forall sc,
  wf sc = true ->
  handler_finished (fst (wrap_exec fx_now sc)) = true /\ never_blocked (wrap_run fx_now sc) = true.
Proof. exact no_goroutine_left. Qed.
Print Assumptions C13_no_goroutine_left.

Theorem C13_unknown_method_unimplemented :
  forall m, lookup m method_table = None ->
    invoke_lookup m = Some 12 /\ forall a b, newstream_lookup m a b = Some 12.
Proof. exact unknown_method_unimplemented. Qed.
Print Assumptions C13_unknown_method_unimplemented.

(* NewStream succeeds exactly when the stream description has the method's shape (a unary method
   counting as (false, false)); any other description gives Internal (13). *)
Theorem C13_shape_mismatch_internal :
  forall m k a b, lookup m method_table = Some k ->
    newstream_lookup m a b =
    (if Bool.eqb (fst (kind_shape k)) a && Bool.eqb (snd (kind_shape k)) b then None else Some 13).
Proof. exact shape_mismatch_internal. Qed.
Print Assumptions C13_shape_mismatch_internal.

(* A message is copied when it crosses: whatever is written afterwards to any object other than
   the receiver's copy leaves the copy equal to what was sent, and whatever is written to any object
   other than the sender's leaves the sender's object unchanged. *)
Theorem C13_copies_isolated : forall h src dst ws,
  src <> dst ->
  let '(h1, r) := transfer false src dst h in
  ((forall p, In p ws -> fst p <> r) -> hread r (apply_writes ws h1) = hread src h) /\
  ((forall p, In p ws -> fst p <> src) -> hread src (apply_writes ws h1) = hread src h).
Proof. exact copies_isolated. Qed.
Print Assumptions C13_copies_isolated.

Theorem C13_alias_variant_refuted : exists h src dst ws,
  src <> dst /\ (forall p, In p ws -> fst p <> dst) /\
  let '(h1, r) := transfer true src dst h in hread r (apply_writes ws h1) <> hread src h.
Proof. exact alias_not_isolated. Qed.

(* Metadata is copied when it is set (metadata.Join): later writes by the handler to the map it
   passed to SetHeader / SendHeader / SetTrailer do not change what the stream holds.  (In the
   scenario model metadata are values: a step carries the map's contents at call time.) *)
Theorem C13_metadata_copied_at_set_time : forall cur a h ws,
  (cur = None \/ exists v, cur = Some (MVal v)) ->
  mget (md_set false cur a h) (apply_mwrites ws h) =
  (match cur with None => [] | Some t => mget t h end) ++ mread a h.
Proof. exact md_copied_at_set_time. Qed.
Print Assumptions C13_metadata_copied_at_set_time.

Theorem C13_metadata_alias_variant_refuted : exists a h ws,
  mget (md_set true None a h) (apply_mwrites ws h) <> mread a h.
Proof. exact md_alias_not_copied. Qed.

(* A message is copied BEFORE SendMsg returns (80ea756): whatever the sender, or anybody, writes
   between the return of SendMsg and the moment the receiver's RecvMsg copies what it was handed --
   to any object other than the private snapshot -- the receiver gets the content the message had
   when SendMsg was called, and the transfer leaves the sender's object alone. *)
Theorem C13_send_copied_before_return : forall h src tmp dst between,
  (forall p, In p between -> fst p <> tmp) ->
  hread dst (send_recv true src tmp dst between h) = hread src h.
Proof. exact send_snapshot_isolated. Qed.
Print Assumptions C13_send_copied_before_return.

Theorem C13_send_leaves_sender_object : forall h src tmp dst,
  src <> tmp -> src <> dst -> hread src (send_recv true src tmp dst [] h) = hread src h.
Proof. exact send_snapshot_sender_untouched. Qed.

(* before 80ea756 the sender's own object crossed the channel and was copied by the receiver after
   SendMsg had returned: a handler reusing its message for the next Send altered what the client got *)
Theorem C13_copy_on_receive_v0_refuted : exists h src tmp dst between,
  (forall p, In p between -> fst p <> tmp /\ fst p <> dst) /\
  hread dst (send_recv false src tmp dst between h) <> hread src h.
Proof. exact send_no_snapshot_refuted. Qed.

(* Tie of the two heap models to the source: the table of boundary sites of stream.go (Gen/WrapSites.v,
   regenerated from the tree under check on every run: channel sends, stores into header / trailer,
   what Header() / Trailer() return, what RecvMsg returns after a receive) -- every site goes through
   the copying function of its kind, and all the sites the model speaks about are present. *)
Theorem C13_every_boundary_site_copies :
  forallb ws_copies wrap_sites = true /\
  (1 <=? count_kind KChanSend wrap_sites) && (3 <=? count_kind KMdStore wrap_sites)
  && (2 <=? count_kind KMdHandout wrap_sites) && (2 <=? count_kind KRecvCopy wrap_sites) = true.
Proof. split; [exact every_site_copies | exact sites_present]. Qed.
Print Assumptions C13_every_boundary_site_copies.

(* the switchable repairs of the model are set as the source has them: Close latches pending headers
   under a test of the context, SetHeader tests the latch before joining, doneErr can return ctx.Err(),
   the server's SendMsg and SendHeader leave on a finished context before latching, the client's CloseSend
   closes clientSend under a flag its SendMsg tests first; Close assigns closeErr before closing
   anything (facts regenerated from stream.go on every run) *)
Theorem C13_model_repairs_match_source :
  fx_now = wrap_fixes /\ wrap_close_err_first = true /\ wrap_order_problems = [].
Proof. exact fixes_generated. Qed.

(* the method table of the model is the one generated from testproto.TestApi_ServiceDesc *)
Theorem C13_method_table_is_service_desc : method_table = wrap_methods.
Proof. exact method_table_generated. Qed.

(* startStream: the handler's incoming metadata is a copy (cloneMD) of the client's outgoing map;
   later writes by the client to its map do not show.  (In the scenario model the handler-side
   transcript carries the incoming metadata, and C13_wrapper_equals_grpc covers it.) *)
Theorem C13_incoming_metadata_cloned : forall a h ws,
  mget (clone_md a h) (apply_mwrites ws h) = mread a h.
Proof. exact incoming_md_cloned. Qed.

(* unwrap.go: UnwrapFully returns the innermost object of any finite chain of Unwrappers; its result
   never is an Unwrapper again *)
Theorem C13_unwrap_fully_innermost : forall ids leaf, unwrap_fully (mk_chain ids leaf) = Plain leaf.
Proof. exact unwrap_chain. Qed.
Theorem C13_unwrap_fully_is_plain : forall o, exists i, unwrap_fully o = Plain i.
Proof. exact unwrap_is_plain. Qed.
Theorem C13_unwrap_fully_idempotent : forall o, unwrap_fully (unwrap_fully o) = unwrap_fully o.
Proof. exact unwrap_idempotent. Qed.
Print Assumptions C13_unwrap_fully_innermost.

(* the judge is complete w.r.t. the models: an observation (of any case kind) that agrees with the
   models, lies in the fragment and in no recorded class satisfies the property predicate -- so a
   verdict 2 always is a recorded class, and every other alarm involves a disagreement with a model *)
Theorem C13_judge_complete : forall c,
  agrees c = true -> C13_guard c = true -> C13_known c = None -> C13_ok c = true /\ judge c = 0.
Proof. intros c Ha Hg Hk. split; [exact (judge_complete c Ha Hg Hk) | exact (judge_zero c Ha Hg Hk)]. Qed.
Print Assumptions C13_judge_complete.

(* what the judge computes on the models' own output is verdict 0 *)
Theorem C13_judge_sound : forall sc,
  wf sc = true -> no_known sc = true ->
  judge (KCall sc (wrap_run fx_now sc) (grpc_run sc)) = 0.
Proof. exact judge_sound. Qed.
Print Assumptions C13_judge_sound.

(* ---- the reference model: what it assumes about a real connection, by name ---- *)

(* Tie of GrpcSpec to grpc-go (not a proof about grpc-go: an obligation over a generated table plus an
   observation on every run).  For every named assumption of GrpcSpec (GrpcFacts.grpc_assumed) the table of
   directed scenarios (Gen/GrpcFacts.v, regenerated from harness/c13/facts.go on every run) has an entry;
   for every entry GrpcSpec computes exactly the transcript written down by hand as what a real connection
   gives; every entry lies in the fragment [wf].  Each entry is run against a grpc.Server on bufconn on
   every run (case KFact: observed = expected). *)
Theorem C13_grpc_fact_table_matches_spec :
  forallb (fun f => transcript_eqb (grpc_run (gf_scn f)) (gf_expect f)) grpc_fact_table = true /\
  forallb (fun f => wf (gf_scn f)) grpc_fact_table = true /\
  forallb (has_fact grpc_fact_table) grpc_assumed = true /\
  map gf_id grpc_fact_table = map Z.of_nat (seq 1 (List.length grpc_fact_table)).
Proof.
  split; [exact fact_table_matches_spec | split; [exact fact_table_in_fragment | exact fact_table_complete]].
Qed.
Print Assumptions C13_grpc_fact_table_matches_spec.

(* The general form of the assumptions about the header block and about the end of the client's context, for
   every state of the reference model (the remaining ones are the lemmas of the same names in
   Wrap/GrpcFactsProofs.v): once the block has left SetHeader with metadata fails and changes nothing; once the
   call is over for the client no handler action changes what the client sees; the final Header() of a stream
   client then shows the block that had left, the trailer is empty. *)
Theorem C13_grpc_assumptions_general :
  (forall sh g h, g_over g = false -> g_sent g = true -> md_empty h = false ->
     g_step sh g (SetH h) = (g, ([], [SSetH false]))) /\
  (forall sh g st, g_over g = true ->
     match st with SetH _ | SendH _ | SetT _ | S2C _ | RecvEOF => True | _ => False end ->
     fst (g_step sh g st) = g /\ fst (snd (g_step sh g st)) = []) /\
  (forall sh g rt, g_over g = true -> is_invoke sh = false ->
     fst (snd (g_step sh g (Ret rt))) = [CHdr (canon_md (if g_sent g then g_chdr g else [])); CTrl []]).
Proof.
  split; [exact setheader_after_block_fails_and_is_dropped |
  split; [exact handler_actions_after_the_end_reach_nobody | exact headers_received_before_the_end_stay_visible]].
Qed.

(* ---- the code as it was: each repair is needed ---- *)

Definition differs (fx : fixes) (sc : scenario) : Prop :=
  wf sc = true /\ no_known sc = true /\ wrap_run fx sc <> grpc_run sc.

(* before 265f37f: a header set but not sent is lost when the handler returns *)
Theorem C13_header_on_return_v0_refuted :
  differs (mkFx false true true true true true) (mkScn Unary 5 [] CtxLive [SetH [(0, 1)]; Ret (RetStatus 5 3)]).
Proof. repeat split; try reflexivity. vm_compute. discriminate. Qed.

(* before c5fbe0f: SetHeader after the first message is accepted and shown to the client *)
Theorem C13_late_set_header_v0_refuted :
  differs (mkFx true false true true true true)
          (mkScn ServerStream 2 [] CtxLive [S2C 1; SetH [(0, 1)]; CHeader; Ret (RetOk 0)]).
Proof. repeat split; try reflexivity. vm_compute. discriminate. Qed.

(* before 7bd1900: Invoke on a cancelled context returns io.EOF *)
Theorem C13_context_error_v0_refuted :
  differs (mkFx true true false true true true) (mkScn Unary 5 [] CtxCanceled []).
Proof. repeat split; try reflexivity. vm_compute. discriminate. Qed.

(* before 4e39ea2: a unary handler answering after the cancel publishes its pending headers (SendMsg
   latched them through SendHeader, which did not look at the context either) *)
Theorem C13_send_after_cancel_v0_refuted :
  differs (mkFx true true true false false true) (mkScn UnaryAsStream 56 [] CtxLive [SetH [(0, 1)]; Cancel false]).
Proof. repeat split; try reflexivity. vm_compute. discriminate. Qed.

Theorem C13_wrapper_equals_grpc_v0_refuted : exists sc, differs fx_v0 sc.
Proof.
  exists (mkScn Unary 5 [] CtxLive [SetH [(0, 1)]; Ret (RetStatus 5 3)]).
  repeat split; try reflexivity. vm_compute. discriminate.
Qed.

(* ---- recorded findings: the current code differs from gRPC on these classes ---- *)

Theorem C13_trailer_after_cancel_refuted : exists sc,
  wf sc = true /\ known_class sc = Some 1 /\ wrap_run fx_now sc <> grpc_run sc.
Proof.
  exists (mkScn ServerStream 2 [] CtxLive [SetT [(0, 4)]; S2C 1; Cancel false]).
  repeat split; try reflexivity. vm_compute. discriminate.
Qed.

Theorem C13_response_then_error_refuted : exists sc,
  wf sc = true /\ known_class sc = Some 2 /\ wrap_run fx_now sc <> grpc_run sc.
Proof.
  exists (mkScn ClientStream 0 [] CtxLive [C2S 1; S2C 3; Ret (RetStatus 9 1)]).
  repeat split; try reflexivity. vm_compute. discriminate.
Qed.

(* ---- the two classes repaired last ---- *)

(* former class 4, before the SendHeader repair: the handler sends headers after the client's context has
   ended (none sent before): the wrapper's Header() showed them afterwards, a real connection delivers
   nothing to a finished call.  Now covered by C13_wrapper_equals_grpc (no guard excludes it). *)
Theorem C13_header_after_context_end_v0_refuted :
  differs (mkFx true true true true false true)
          (mkScn Bidi 0 [] CtxLive [CtxEnd false; SendH [(0, 7)]; Ret (RetOk 0)]).
Proof. repeat split; try reflexivity. vm_compute. discriminate. Qed.

(* whatever a handler sets or sends as headers after the client's context has ended (any mix of SetHeader /
   SendHeader / SetTrailer-with-nothing / failing sends and receives, any return), the client's view is the
   one of a real connection: an instance of the main theorem, stated for the scenarios of former class 4 *)
Theorem C13_header_after_context_end_equal : forall sc,
  wf sc = true -> no_known sc = true -> k4_steps false (steps sc) = true ->
  wrap_run fx_now sc = grpc_run sc.
Proof. intros sc Hwf Hnk _. exact (wrapper_equals_grpc sc Hwf Hnk). Qed.

Example C13_nonvacuous_header_after_context_end :
  let sc := mkScn Bidi 0 [] CtxLive [SetH [(1, 2)]; CtxEnd true; SendH [(0, 7)]; SetH [(2, 3)]; Ret (RetStatus 5 1)] in
  wf sc = true /\ no_known sc = true /\ k4_steps false (steps sc) = true /\
  fst (wrap_run fx_now sc) = [CEnd ODeadline; CHdr []; CTrl []].
Proof. repeat split; reflexivity. Qed.

(* former class 3 (client misuse, outside every scenario): SendMsg after CloseSend and a second CloseSend
   panicked in the wrapper; a real connection answers with an Internal error and with nil -- and so does the
   wrapper now (the call is not aborted as grpc-go's finish does: what follows the misuse is not judged) *)
Theorem C13_client_misuse_equal : forall k, w_misuse fx_now k = g_misuse k.
Proof. destruct k; reflexivity. Qed.
Theorem C13_client_misuse_v0_refuted : forall k, w_misuse (mkFx true true true true true false) k <> g_misuse k.
Proof. destruct k; discriminate. Qed.

(* ---- non-vacuity ---- *)

(* a deadline that expires while the client waits for the next message, request metadata attached *)
Example C13_nonvacuous_deadline :
  let sc := mkScn ServerStream 3 [(1, 7); (0, 2)] CtxLive [SetH [(0, 1)]; S2C 8; Cancel true] in
  wf sc = true /\ no_known sc = true /\
  wrap_run fx_now sc =
  ([CSent true; CClosed; CGot 8; CEnd ODeadline; CHdr [(0, 1)]; CTrl []],
   [SEntered 3; SIncoming [(0, 2); (1, 7)]; SSetH true; SSent true; SDone true]).
Proof. repeat split; reflexivity. Qed.

(* the handler goes on after the client's deadline has expired: sets headers and an empty trailer, tries
   to send, fails to receive, returns an error -- none of it reaches the client *)
Example C13_nonvacuous_after_context_end :
  let sc := mkScn Bidi 0 [] CtxLive
              [C2S 4; SetH [(0, 1)]; CtxEnd true; SetH [(1, 2)]; S2C 9; SetT []; RecvEOF; Ret (RetStatus 5 4)] in
  wf sc = true /\ no_known sc = true /\
  wrap_run fx_now sc =
  ([CSent true; CEnd ODeadline; CHdr []; CTrl []],
   [SEntered (-1); SIncoming []; SGot 4; SSetH true; SDone true; SSent false; SRecvErr]).
Proof. repeat split; reflexivity. Qed.

(* a call made on a context whose deadline has already passed *)
Example C13_nonvacuous_expired :
  let sc := mkScn Unary 5 [] CtxExpired [] in
  wf sc = true /\ no_known sc = true /\ fst (wrap_run fx_now sc) = [CEnd ODeadline; CHdr []; CTrl []].
Proof. repeat split; reflexivity. Qed.


Example C13_nonvacuous_bidi :
  let sc := mkScn Bidi 0 [] CtxLive
              [SetH [(0, 1)]; C2S 7; S2C 8; SetH [(1, 2)]; CHeader; SetT [(2, 3)]; CloseSend; RecvEOF; S2C 9;
               Ret (RetStatus 5 4)] in
  wf sc = true /\ no_known sc = true /\
  wrap_run fx_now sc =
  ([CSent true; CGot 8; CHdr [(0, 1)]; CClosed; CGot 9; CEnd (OErr 5 4); CHdr [(0, 1)]; CTrl [(2, 3)]],
   [SEntered (-1); SIncoming []; SSetH true; SGot 7; SSent true; SSetH false; SEof; SSent true]).
Proof. repeat split; reflexivity. Qed.

Example C13_nonvacuous_cancel :
  let sc := mkScn ClientStream 0 [] CtxLive [C2S 1; SendH [(0, 1)]; CHeader; C2S 2; Cancel false] in
  wf sc = true /\ no_known sc = true /\
  wrap_run fx_now sc =
  ([CSent true; CHdr [(0, 1)]; CSent true; CEnd OCancelled; CHdr [(0, 1)]; CTrl []],
   [SEntered (-1); SIncoming []; SGot 1; SSendH true; SGot 2; SDone true; SRecvErr]).
Proof. repeat split; reflexivity. Qed.

Example C13_nonvacuous_unary_header_on_error :
  let sc := mkScn Unary 5 [] CtxLive [SetH [(0, 1)]; SetT [(1, 2)]; Ret (RetPlain 3)] in
  wf sc = true /\ no_known sc = true /\
  fst (wrap_run fx_now sc) = [CEnd (OErr 2 3); CHdr [(0, 1)]; CTrl [(1, 2)]].
Proof. repeat split; reflexivity. Qed.

(* Print Assumptions for every theorem above that did not have its own line yet *)
Print Assumptions C13_alias_variant_refuted.
Print Assumptions C13_metadata_alias_variant_refuted.
Print Assumptions C13_send_leaves_sender_object.
Print Assumptions C13_copy_on_receive_v0_refuted.
Print Assumptions C13_model_repairs_match_source.
Print Assumptions C13_method_table_is_service_desc.
Print Assumptions C13_incoming_metadata_cloned.
Print Assumptions C13_unwrap_fully_is_plain.
Print Assumptions C13_unwrap_fully_idempotent.
Print Assumptions C13_grpc_assumptions_general.
Print Assumptions C13_header_on_return_v0_refuted.
Print Assumptions C13_late_set_header_v0_refuted.
Print Assumptions C13_context_error_v0_refuted.
Print Assumptions C13_send_after_cancel_v0_refuted.
Print Assumptions C13_wrapper_equals_grpc_v0_refuted.
Print Assumptions C13_trailer_after_cancel_refuted.
Print Assumptions C13_response_then_error_refuted.
Print Assumptions C13_header_after_context_end_v0_refuted.
Print Assumptions C13_header_after_context_end_equal.
Print Assumptions C13_client_misuse_equal.
Print Assumptions C13_client_misuse_v0_refuted.
