(* C04 — With backpressure the stream is an exact, ordered edit script.
   Theorems only; stated for an arbitrary message algebra, callbacks, read mask and history. *)
From SC Require Import Base.Prelude Resource.Impl Resource.Spec Resource.Pull Resource.ImplProofs
  Resource.SpecProofs Resource.PullProofs Resource.Pull04Proofs Resource.HeldProofs Resource.Held04Proofs
  Resource.Flat Resource.Judge.

Section C04.
  Variable M : Type.
  Variable m_eqb : M -> M -> bool.
  Variable m_empty : M.
  Variable writer : Type.
  Variable w_validate : writer -> option Z.
  Variable w_merge : writer -> M -> M -> M.
  Variable rmask : Type.
  Variable r_filter : rmask -> M -> M.
  Variable clock_at : Z -> Z.
  Variable str_ltb : string -> string -> bool.
  Variable idfun : option (string -> string).
  Hypothesis ltb_irrefl : forall a, str_ltb a a = false.
  Hypothesis ltb_trans : forall a b c, str_ltb a b = true -> str_ltb b c = true -> str_ltb a c = true.
  Hypothesis ltb_total : forall a b, str_ltb a b = false -> str_ltb b a = false -> a = b.

  Notation spec_step := (spec_step m_eqb m_empty w_validate w_merge r_filter clock_at str_ltb idfun).

  (* every call publishes nothing (and leaves the contents alone) or exactly one event; the event
     carries the id, the old value (the body stored before, absent for an ADD), the new value (the
     body stored after, absent for a REMOVE), a REMOVE kind exactly when the item is gone, and the
     change time that was stored with the item *)
  Theorem C04_one_event_per_effective_write : forall s op s' out ev,
    spec_step s op = (s', out, ev) -> sorted str_ltb (c_items s) ->
    (ev = [] /\ c_items s' = c_items s) \/
    (exists e, ev = [e] /\ describes e (c_items s) (c_items s') /\ failed out = false).
  Proof. intros. eapply step_events; eauto. Qed.

  Theorem C04_no_event_for_failed_write : forall s op s' out ev,
    spec_step s op = (s', out, ev) -> failed out = true -> ev = [].
  Proof. intros. eapply failed_step_no_event; eauto. Qed.

  (* the kind of the event of a successful Update/Add: ADD iff the id was absent before *)
  Theorem C04_kind_and_old_new : forall s id0 msg (o : wopts M writer) cands s' nv ev cb,
    spec_c_update m_eqb m_empty w_validate w_merge clock_at str_ltb idfun s id0 msg o cands = (s', inl nv, ev, cb) ->
    exists id t, ev = [mkCE id t (match lookup id (c_items s) with Some _ => KUpdate | None => KAdd end)
                            (option_map (@it_body M) (lookup id (c_items s))) (Some nv)] /\
                 lookup id (c_items s') = Some (mkItem nv t) /\
                 t = match wo_time o with Some t0 => t0 | None => clock_at (c_reads s) end.
  Proof.
    intros s id0 msg o cands s' nv ev cb H. apply update_outcomes in H.
    destruct H as [(code & Hr & _)|(id & gen & nv' & t & Hr & _ & Hl & _ & Ht & Hev & _)]; [discriminate|].
    inversion Hr. subst nv'. exists id, t. auto.
  Qed.

  (* without an include predicate and without an equivalence the subscriber receives the seed
     followed by exactly the published events (read-mask filtered), in order *)
  Theorem C04_stream_is_seed_then_script : forall (ro : ropts M rmask) (s : cstate M) evs,
    ro_include ro = None ->
    pull_collection r_filter None s ro evs =
    (if ro_updates_only ro then [] else seeds r_filter ro (c_items s)) ++
    map (fun e => cc_filter r_filter ro (of_event e)) evs.
  Proof. intros. apply stream_is_seed_then_script. assumption. Qed.

  (* seeds: one ADD per item in id order, flagged seed, carrying the stored change time *)
  Theorem C04_seeds_shape : forall (ro : ropts M rmask) (l : list (string * item M)),
    map (@cc_id M) (seeds r_filter ro l) = map fst l /\
    Forall (fun c => cc_seed c = true /\ cc_kind c = KAdd /\ cc_old c = None) (seeds r_filter ro l) /\
    map (@cc_time M) (seeds r_filter ro l) = map (fun p => it_time (snd p)) l /\
    map (@cc_new M) (seeds r_filter ro l) = map (fun p => Some (filt r_filter ro (it_body (snd p)))) l.
  Proof. intros. apply seeds_shape. Qed.

  (* exactly the final seed is flagged last-seed *)
  Theorem C04_last_seed_flag : forall (ro : ropts M rmask) (l : list (string * item M)) d,
    l <> [] ->
    cc_last_seed (last (seeds r_filter ro l) d) = true /\
    Forall (fun c => cc_last_seed c = false) (removelast (seeds r_filter ro l)).
  Proof. intros. apply seeds_last_flag. assumption. Qed.

  Theorem C04_updates_only_no_seed : forall (ro : ropts M rmask) (s : cstate M) evs c,
    ro_updates_only ro = true -> In c (pull_collection r_filter None s ro evs) -> cc_seed c = false.
  Proof. intros. eapply updates_only_no_seed; eauto. Qed.

  (* Value: seed (if any) then one change per published event; nothing is suppressed without an
     equivalence *)
  Theorem C04_value_stream_exact : forall (ro : ropts M rmask) (s : vstate M) evs,
    pull_value r_filter None s ro evs =
    (match (if ro_updates_only ro then None else v_val s) with
     | Some v => [mkVC (filt r_filter ro v) (v_time s) true true]
     | None => []
     end) ++ map (fun e => mkVC (filt r_filter ro (ve_value e)) (ve_time e) false false) evs.
  Proof. intros. apply value_stream_exact. Qed.

  (* with an equivalence a change is delivered exactly when it is not equivalent to what the
     subscriber holds (the last delivered value; initially the seed as it was sent) *)
  Theorem C04_equivalence_suppresses_exactly_equivalent : forall cmp (ro : ropts M rmask) evs last e,
    let v := filt r_filter ro (ve_value e) in
    v_forward r_filter (Some cmp) ro last (evs ++ [e]) =
    v_forward r_filter (Some cmp) ro last evs ++
    (if cmp (holds r_filter cmp ro last evs) (Some v) then [] else [mkVC v (ve_time e) false false]).
  Proof. intros. apply equivalence_delivery. Qed.

  (* PullID: a single-item subscription sees only that item's changes, and ends exactly when a
     change removes the item *)
  Theorem C04_pull_id_ignores_other_ids : forall id (cs : list (cchange M)),
    pull_id_from id cs = pull_id_from id (filter (for_id id) cs).
  Proof. intros. apply pull_id_ignores_other_ids. Qed.
  Theorem C04_pull_id_closed_iff_removed : forall id (cs : list (cchange M)),
    snd (pull_id_from id cs) = existsb (fun c => for_id id c && ends c) cs.
  Proof. intros. apply pull_id_closed_iff. Qed.

  (* ---- whole histories: every call sequence from every sorted contents ---- *)
  (* every call of a history publishes nothing or exactly one event; a failed call publishes nothing *)
  Theorem C04_history_one_event_per_effective_write : forall ops s s' outs,
    run spec_step s ops = (s', outs) -> sorted str_ltb (c_items s) ->
    Forall (fun p => (snd p = [] \/ exists e, snd p = [e] /\ failed (fst p) = false) /\
                     (failed (fst p) = true -> snd p = [])) outs.
  Proof. intros. eapply history_one_event_per_effective_write; eauto. Qed.

  (* a subscriber opened at any point of a history receives the seed of the contents at that point,
     then exactly the events of the calls made afterwards, in call order, projected by its read mask *)
  Theorem C04_history_stream : forall (ro : ropts M rmask) ops s s' outs,
    ro_include ro = None -> run spec_step s ops = (s', outs) ->
    pull_collection r_filter None s ro (flat_map snd outs) =
    (if ro_updates_only ro then [] else seeds r_filter ro (c_items s)) ++
    flat_map (fun p => map (sent r_filter ro) (snd p)) outs.
  Proof. intros. eapply history_stream; eauto. Qed.

  (* ... and what it has folded from that stream is the final contents as List reports them *)
  Theorem C04_history_fold_is_final_list : forall (ro : ropts M rmask) ops s s' outs,
    ro_include ro = None -> ro_updates_only ro = false -> sorted str_ltb (c_items s) ->
    run spec_step s ops = (s', outs) ->
    forall id,
      vlookup id (fold_view (pull_collection r_filter None s ro (flat_map snd outs))) =
      vlookup id (c_list r_filter s' (ro_mask ro) None).
  Proof.
    intros ro ops s s' outs RI RU Hs Hr id. rewrite <- RI.
    eapply filtered_fold_is_filtered_list; eauto.
  Qed.

  (* ---- a collection with an equivalence: applied to what the subscriber is SENT ---- *)
  (* the stream is the seed followed by exactly those projected events whose projected old and new
     values are not equivalent, in order *)
  Theorem C04_collection_equivalence_exact : forall cmp (ro : ropts M rmask) (s : cstate M) evs,
    ro_include ro = None ->
    pull_collection r_filter (Some cmp) s ro evs =
    (if ro_updates_only ro then [] else seeds r_filter ro (c_items s)) ++
    filter (fun c => negb (cmp (cc_old c) (cc_new c))) (map (sent r_filter ro) evs).
  Proof. intros. apply collection_stream_with_equivalence. assumption. Qed.

  (* a write that changes only what the read mask hides is not delivered when the equivalence is
     reflexive (WithNoDuplicates and every cmp.Message are) *)
  Theorem C04_masked_out_write_suppressed : forall cmp (ro : ropts M rmask) (e : cevent M),
    ro_include ro = None -> (forall x, cmp x x = true) ->
    option_map (filt r_filter ro) (ce_old e) = option_map (filt r_filter ro) (ce_new e) ->
    c_forward_gen r_filter (Some cmp) false false ro [e] = [].
  Proof. intros. apply masked_out_write_suppressed; assumption. Qed.

  Theorem C04_visible_write_delivered : forall cmp (ro : ropts M rmask) (e : cevent M),
    ro_include ro = None ->
    cmp (option_map (filt r_filter ro) (ce_old e)) (option_map (filt r_filter ro) (ce_new e)) = false ->
    c_forward_gen r_filter (Some cmp) false false ro [e] =
    [mkCC (ce_id e) (ce_time e) (ce_kind e) (option_map (filt r_filter ro) (ce_old e))
          (option_map (filt r_filter ro) (ce_new e)) false false].
  Proof. intros. apply visible_write_delivered; assumption. Qed.

  (* ---- change times: the explicit write time WHATEVER it is (zero time, epoch, past, future), else the clock ---- *)
  Theorem C04_value_event_time : forall (s : vstate M) msg (o : wopts M writer) s' nv ev,
    spec_v_set m_eqb m_empty w_validate w_merge clock_at s msg o = (s', inl nv, ev) ->
    let t := match wo_time o with Some t0 => t0 | None => clock_at (v_reads s) end in
    ev = [mkVE nv t] /\ v_val s' = Some nv /\ v_time s' = t.
  Proof. intros. eapply value_set_event; eauto. Qed.

  Theorem C04_delete_event : forall s id0 (o : wopts M writer) s' body ev,
    spec_c_delete m_eqb clock_at idfun s id0 o = (s', Some body, None, ev) ->
    ev = [mkCE (apply_id idfun id0) (match wo_time o with Some t0 => t0 | None => clock_at (c_reads s) end)
               KRemove (Some body) None].
  Proof.
    intros s id0 o s' body ev H. apply delete_outcomes in H. simpl in H.
    destruct H as [(_ & _ & Hr & _)|[(it & code & _ & He & _)|(it & t & _ & _ & Hr & _ & Ht & Hev & _)]];
      try discriminate.
    inversion Hr. subst. reflexivity.
  Qed.
  (* ---- a collection with an equivalence, the code since /repo 3a50d70: the held map ----
     ([pull_collection_held]; the theorems C04_collection_equivalence_exact / _masked_out_ / _visible_
     above are about the old-against-new comparison it replaced, which is the same stream for
     equivalence RELATIONS on real histories: C04_oldnew_v0_is_held_for_equivalence_relations) *)
  (* EVERY comparer, read mask, include predicate and history (deletes, re-adds, items leaving and
     re-entering the include filter): the subscriber starts out holding what List with its options
     shows; the stream is the seed, then exactly those changes of the equivalence-free stream
     ([offered]: include, then read mask) whose new value is NOT equivalent to what the subscriber holds
     for that id at that moment ([ideal_filter]: the new value of the last change delivered for the id) *)
  Theorem C04_held_stream_exact : forall cmp (ro : ropts M rmask) ops s s' outs,
    sorted str_ltb (c_items s) -> run spec_step s ops = (s', outs) ->
    pull_collection_held r_filter (Some cmp) s ro (flat_map snd outs) =
    (if ro_updates_only ro then [] else seeds r_filter ro (included ro (c_items s))) ++
    ideal_filter cmp (fun id => shown r_filter ro id (c_items s)) (offered r_filter ro (flat_map snd outs)).
  Proof. intros. eapply held_stream_exact; eauto. Qed.

  (* without an equivalence nothing is taken out: seed ++ offered, the stream of C04_history_stream *)
  Theorem C04_held_without_equivalence : forall (ro : ropts M rmask) (s : cstate M) evs,
    pull_collection_held r_filter None s ro evs = pull_collection r_filter None s ro evs /\
    pull_collection_held r_filter None s ro evs =
    (if ro_updates_only ro then [] else seeds r_filter ro (included ro (c_items s))) ++ offered r_filter ro evs.
  Proof. intros. split; [apply held_none_is_pull_collection|apply no_equivalence_stream]. Qed.

  (* one change at a time: delivered iff its new value is not equivalent to what the subscriber holds *)
  Theorem C04_held_delivered_iff_not_equivalent_to_held : forall cmp cs (w : view M) (c : cchange M),
    ideal_filter cmp w (cs ++ [c]) =
    ideal_filter cmp w cs ++
    (if cmp (holds_after w (ideal_filter cmp w cs) (cc_id c)) (cc_new c) then [] else [c]).
  Proof. intros. apply ideal_last_delivered. Qed.

  (* a REMOVE (the item was deleted, or left the include filter) is delivered to a subscriber that
     holds a value and leaves it holding nothing; the next change bringing a value for the id -- a
     re-add, a return into the filter -- is then delivered WHATEVER the value, also one equivalent to
     what was held before the REMOVE (comparers that tell a value from nothing) *)
  Theorem C04_remove_delivered_holds_nothing : forall cmp (w : view M) cs (c : cchange M) x,
    holds_after w (ideal_filter cmp w cs) (cc_id c) = Some x -> cc_new c = None ->
    cmp (Some x) None = false ->
    ideal_filter cmp w (cs ++ [c]) = ideal_filter cmp w cs ++ [c] /\
    holds_after w (ideal_filter cmp w (cs ++ [c])) (cc_id c) = None.
  Proof. intros. eapply remove_delivered_holds_nothing; eauto. Qed.

  Theorem C04_readd_after_remove_delivered : forall cmp (w : view M) cs (c : cchange M) v,
    holds_after w (ideal_filter cmp w cs) (cc_id c) = None -> cc_new c = Some v ->
    cmp None (Some v) = false ->
    ideal_filter cmp w (cs ++ [c]) = ideal_filter cmp w cs ++ [c].
  Proof. intros. eapply readd_after_remove_delivered; eauto. Qed.

  (* what the subscriber has folded is, id by id, EQUIVALENT to the final List with its options
     (reflexive comparer; any mask, any include, every history) *)
  Theorem C04_held_fold_equivalent_to_final_list : forall cmp (ro : ropts M rmask) ops s s' outs,
    (forall a, cmp a a = true) ->
    ro_updates_only ro = false -> sorted str_ltb (c_items s) ->
    run spec_step s ops = (s', outs) ->
    forall id,
      cmp (vlookup id (fold_view (pull_collection_held r_filter (Some cmp) s ro (flat_map snd outs))))
          (vlookup id (c_list r_filter s' (ro_mask ro) (ro_include ro))) = true.
  Proof. intros. eapply held_fold_equiv_list; eauto. Qed.

  (* the old-against-new model is the held model for equivalence relations, on every history *)
  Theorem C04_oldnew_v0_is_held_for_equivalence_relations : forall cmp (ro : ropts M rmask) ops s s' outs,
    (forall a, cmp a a = true) -> (forall a b, cmp a b = cmp b a) ->
    (forall a b c, cmp a b = true -> cmp b c = true -> cmp a c = true) ->
    sorted str_ltb (c_items s) -> run spec_step s ops = (s', outs) ->
    pull_collection r_filter (Some cmp) s ro (flat_map snd outs) =
    pull_collection_held r_filter (Some cmp) s ro (flat_map snd outs).
  Proof. intros. eapply oldnew_is_held_for_equivalence_relations; eauto. Qed.
End C04.

Print Assumptions C04_held_stream_exact.
Print Assumptions C04_held_without_equivalence.
Print Assumptions C04_held_delivered_iff_not_equivalent_to_held.
Print Assumptions C04_remove_delivered_holds_nothing.
Print Assumptions C04_readd_after_remove_delivered.
Print Assumptions C04_held_fold_equivalent_to_final_list.
Print Assumptions C04_oldnew_v0_is_held_for_equivalence_relations.

Print Assumptions C04_history_one_event_per_effective_write.
Print Assumptions C04_history_stream.
Print Assumptions C04_history_fold_is_final_list.
Print Assumptions C04_collection_equivalence_exact.
Print Assumptions C04_masked_out_write_suppressed.
Print Assumptions C04_visible_write_delivered.
Print Assumptions C04_value_event_time.
Print Assumptions C04_delete_event.
Print Assumptions C04_one_event_per_effective_write.
Print Assumptions C04_no_event_for_failed_write.
Print Assumptions C04_kind_and_old_new.
Print Assumptions C04_stream_is_seed_then_script.
Print Assumptions C04_seeds_shape.
Print Assumptions C04_last_seed_flag.
Print Assumptions C04_updates_only_no_seed.
Print Assumptions C04_value_stream_exact.
Print Assumptions C04_equivalence_suppresses_exactly_equivalent.
Print Assumptions C04_pull_id_ignores_other_ids.
Print Assumptions C04_pull_id_closed_iff_removed.

(* the pinned commit read the clock a second time for the event: event time <> stored time *)
Theorem C04_event_time_v0_refuted :
  let '(s', _, ev) := v_set_v0 fmsg_eqb fzero fw_validate fw_merge fclock (v_init fclock None) (mkF 1 0 0)
                        (to_wopts None (mkFWO None None None None false None false None false None None false false false false)) in
  exists e, ev = [e] /\ ve_time e <> v_time s'.
Proof. vm_compute. eexists. split; [reflexivity|]. simpl. discriminate. Qed.

(* the pinned commit compared the first update with the unfiltered seed (read mask + equivalence):
   a write that does not touch the requested field was delivered as a duplicate of the seed *)
Theorem C04_value_pull_raw_last_v0_refuted :
  exists (s : vstate fmsg) ev,
    pull_value_v0 fr_filter (Some (interp_eqv EqAll)) s (to_ropts (mkFRO (Some [Fa]) false None)) ev =
      [mkVC (mkF 1 0 0) 1000 true true; mkVC (mkF 1 0 0) 5 false false] /\
    pull_value fr_filter (Some (interp_eqv EqAll)) s (to_ropts (mkFRO (Some [Fa]) false None)) ev =
      [mkVC (mkF 1 0 0) 1000 true true].
Proof. exists (mkV (Some (mkF 1 2 0)) 1000 1), [mkVE (mkF 1 3 0) 5]. vm_compute. auto. Qed.

Example C04_nonvacuous :
  let o := mkFWO None None None None false None false None false None None true false false false in
  let '(cs, _) := model_cstream None None None [FUpdate "b" (mkF 1 0 0) o []] (mkFRO None false None)
                    [FUpdate "a" (mkF 2 0 0) o []; FUpdate "b" (mkF 3 0 0) o []; FDelete "a" o] in
  map (fun c => (cc_id c, cc_kind c, cc_seed c, cc_last_seed c)) cs =
  [("b"%string, KAdd, true, true); ("a"%string, KAdd, false, false);
   ("b"%string, KUpdate, false, false); ("a"%string, KRemove, false, false)].
Proof. vm_compute. reflexivity. Qed.

(* non-vacuity of the equivalence theorems: the equivalences of the executed family are reflexive,
   and a no-duplicates collection pulled with read mask [a] does not deliver the write that changes
   only b, but delivers the next one that changes a *)
Example C04_nonvacuous_equivalence_reflexive : forall e x, interp_eqv e x x = true.
Proof.
  intros [|f] [m|]; simpl; try reflexivity.
  - unfold fmsg_eqb. rewrite !Z.eqb_refl. reflexivity.
  - apply Z.eqb_refl.
Qed.

Example C04_nonvacuous_masked_out :
  let o := mkFWO None None None None false None false None false None None true false false false in
  let ub := mkFWO None (Some [Fb]) None None false None false None false None None false false false false in
  let '(cs, _) := model_cstream None None (Some EqAll) [FUpdate "a" (mkF 1 1 0) o []] (mkFRO (Some [Fa]) false None)
                    [FUpdate "a" (mkF 0 7 0) ub []; FUpdate "a" (mkF 2 0 0) o []] in
  map (fun c => (cc_kind c, cc_old c, cc_new c, cc_seed c)) cs =
  [(KAdd, None, Some (mkF 1 0 0), true); (KUpdate, Some (mkF 1 0 0), Some (mkF 2 0 0), false)].
Proof. vm_compute. reflexivity. Qed.

(* an explicit ZERO write time (time.Time{} = -62135596800 s) is carried by the event and by the seed
   of a later subscription, not replaced by the clock *)
Example C04_nonvacuous_zero_write_time :
  let z := (-62135596800000000000) in
  let o := mkFWO (Some z) None None None false None false None false None None true false false false in
  let '(cs, _) := model_cstream None None None [] (mkFRO None false None) [FUpdate "a" (mkF 1 0 0) o []; FDelete "a" o] in
  let '(cs2, _) := model_cstream None None None [FUpdate "a" (mkF 1 0 0) o []] (mkFRO None false None) [] in
  map (fun c => (cc_kind c, cc_time c)) cs = [(KAdd, z); (KRemove, z)] /\
  map (fun c => (cc_seed c, cc_time c)) cs2 = [(true, z)].
Proof. vm_compute. split; reflexivity. Qed.

(* the old-against-new comparison (the code before /repo 3a50d70) is NOT the held map for a comparer
   that is not transitive: two steps of 1 under "within 1" are each suppressed and the subscriber
   never hears of a value 2 away from the one it holds; the held map delivers the second *)
Definition C04_within1 (x y : option Z) : bool :=
  match x, y with Some a, Some b => Z.abs (a - b) <=? 1 | None, None => true | _, _ => false end.
Theorem C04_oldnew_v0_refuted :
  let ro := mkR (None : option unit) true None in
  let evs := [mkCE "a" 1 KUpdate (Some 0) (Some 1); mkCE "a" 2 KUpdate (Some 1) (Some 2)] in
  c_forward_gen (fun (_ : unit) (m : Z) => m) (Some C04_within1) false false ro evs = [] /\
  map (@cc_new Z) (c_forward_held (fun (_ : unit) (m : Z) => m) (Some C04_within1) ro [("a"%string, Some 0)] evs) = [Some 2].
Proof. vm_compute. split; reflexivity. Qed.

(* non-vacuity of the held-map theorems: delete then re-add of an EQUAL value under no-duplicates is
   REMOVE then ADD (the subscriber is told the item exists again) ... *)
Example C04_nonvacuous_readd_equivalent :
  let o := mkFWO None None None None false None false None false None None true false false false in
  let '(cs, _) := model_cstream None None (Some EqAll) [FUpdate "a" (mkF 1 1 0) o []] (mkFRO None false None)
                    [FDelete "a" o; FAdd "a" (mkF 1 1 0) o []; FUpdate "a" (mkF 1 1 0) o []] in
  map (fun c => (cc_kind c, cc_old c, cc_new c, cc_seed c)) cs =
  [(KAdd, None, Some (mkF 1 1 0), true); (KRemove, Some (mkF 1 1 0), None, false); (KAdd, None, Some (mkF 1 1 0), false)].
Proof. vm_compute. reflexivity. Qed.

(* ... and so is leaving the include filter and coming back with the value last sent *)
Example C04_nonvacuous_reenter_equivalent :
  let o := mkFWO None None None None false None false None false None None true false false false in
  let '(cs, s2) := model_cstream None None (Some (EqField Fb)) [FUpdate "a" (mkF 2 5 0) o []]
                    (mkFRO None false (Some (PFieldGe Fa 2)))
                    [FUpdate "a" (mkF 1 5 0) o []; FUpdate "a" (mkF 3 5 0) o []; FUpdate "a" (mkF 4 5 0) o []] in
  map (fun c => (cc_kind c, cc_new c)) cs =
  [(KAdd, Some (mkF 2 5 0)); (KRemove, None); (KAdd, Some (mkF 3 5 0))] /\
  c_list fr_filter s2 None (Some (interp_pred (PFieldGe Fa 2))) = [("a"%string, mkF 4 5 0)].
Proof. vm_compute. split; reflexivity. Qed.

(* the executed equivalences tell a value from nothing (hypothesis of the two REMOVE / re-ADD theorems) *)
Example C04_nonvacuous_equivalence_presence : forall e v,
  interp_eqv e None (Some v) = false /\ interp_eqv e (Some v) None = false.
Proof. intros [|f] v; split; reflexivity. Qed.

(* Print Assumptions for every theorem above that did not have its own line yet *)
Print Assumptions C04_event_time_v0_refuted.
Print Assumptions C04_value_pull_raw_last_v0_refuted.
Print Assumptions C04_oldnew_v0_refuted.
